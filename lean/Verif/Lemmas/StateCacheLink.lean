import Verif.Lemmas.StateCacheSys
import Verif.Lemmas.StateCacheBound
/-! Evictions from the link cache (`hashCache`, capacity maxHisDepth) are safe: they only turn hits into misses. The
invariant without its "every committed block is linked" part (`Inv0`: every entry is the chain answer; every LINKED block
has all its writes present) is preserved by every step of `Get` and `commit` when only per-key version maps are required
not to evict, and it is all a lookup needs. The proof of the commit steps follows `Committer.step_inv`. -/
set_option linter.unusedSectionVars false
namespace Verif.SC

variable {H K B V : Type} [DecidableEq H] [DecidableEq K] [DecidableEq B]

structure Inv0 (sc : SC K B V) (T : Tree K B V) : Prop where
  sound : ∀ k b e, entryAt sc k b = some e → Chain T k b e
  linked : ∀ b p, linkAt sc b = some p →
    ∃ x, T.find b = some x ∧ x.prev = p ∧ ∀ k e, alookup x.writes k = some e → entryAt sc k b = some e

theorem Inv.toInv0 {sc : SC K B V} {T : Tree K B V} {hole : Option B} (h : Inv sc T hole) : Inv0 sc T :=
  ⟨h.sound, h.linked⟩

theorem Inv0.congr {sc sc' : SC K B V} {T : Tree K B V} (hI : Inv0 sc T)
    (hl : ∀ b, linkAt sc' b = linkAt sc b) (he : ∀ k b, entryAt sc' k b = entryAt sc k b) : Inv0 sc' T := by
  refine ⟨fun k b e h => hI.sound k b e (by rw [← he]; exact h), fun b p h => ?_⟩
  rw [hl] at h
  obtain ⟨x, hx, hp, hw⟩ := hI.linked b p h
  exact ⟨x, hx, hp, fun k e hk => by rw [he]; exact hw k e hk⟩

theorem Inv0.add_own {sc sc' : SC K B V} {T : Tree K B V} {m : Committer K B V} {k : K} {e : Entry V}
    {done t : List (K × Entry V)}
    (hI : Inv0 sc T) (hin : T.find m.hash = some m.blk) (hun : linkAt sc m.hash = none)
    (hnd : (m.writes.map Prod.fst).Nodup) (hsp : m.writes = done ++ (k, e) :: t)
    (hl : ∀ b, linkAt sc' b = linkAt sc b)
    (he : ∀ k' b, entryAt sc' k' b = if k = k' ∧ m.hash = b then some e else entryAt sc k' b) :
    Inv0 sc' T := by
  have hwk : alookup m.writes k = some e := by rw [hsp]; rw [hsp] at hnd; exact alookup_of_split hnd
  refine ⟨fun k' b e' h => ?_, fun b p h => ?_⟩
  · rw [he] at h
    by_cases hc : k = k' ∧ m.hash = b
    · simp [hc] at h; subst h
      obtain ⟨hk, hb⟩ := hc; subst hk; subst hb
      exact Chain.here hin hwk
    · simp [hc] at h; exact hI.sound _ _ _ h
  · rw [hl] at h
    obtain ⟨x, hx, hp, hw⟩ := hI.linked b p h
    refine ⟨x, hx, hp, fun k' e' hk' => ?_⟩
    rw [he]
    have hb : m.hash ≠ b := by intro hb; rw [hb] at hun; rw [hun] at h; cases h
    simp [hb]; exact hw k' e' hk'

/-- an `Add` never invents an entry: whatever is in the LRU afterwards was there before or is the added pair -/
theorem LRU.add_peek_sub {κ ν : Type} [DecidableEq κ] (l : LRU κ ν) (k k' : κ) (v x : ν)
    (h : (l.add k v).1.peek k' = some x) : (k = k' ∧ x = v) ∨ l.peek k' = some x := by
  unfold LRU.add LRU.peek at *
  cases hl : alookup l.items k with
  | some w =>
    simp only [hl, alookup_cons, alookup_aerase] at h
    by_cases hk : k = k'
    · simp [hk] at h; exact .inl ⟨hk, h.symm⟩
    · simp [hk] at h; exact .inr h
  | none =>
    simp only [hl] at h
    by_cases hc : l.items.length + 1 > l.cap
    · simp only [hc, if_true] at h
      -- dropLast of (k,v) :: items
      have hsub : ∀ (items : List (κ × ν)), alookup ((k, v) :: items).dropLast k' = some x →
          (k = k' ∧ x = v) ∨ alookup items k' = some x := by
        intro items
        have key : ∀ (l2 : List (κ × ν)) (y : ν), alookup l2.dropLast k' = some y → alookup l2 k' = some y := by
          intro l2
          induction l2 with
          | nil => intro y hy; simp at hy
          | cons p r ih =>
            intro y hy
            cases r with
            | nil => simp at hy
            | cons q r' =>
              obtain ⟨a, b⟩ := p
              simp only [List.dropLast_cons₂, alookup_cons] at hy ⊢
              by_cases ha : a = k'
              · simp [ha] at hy ⊢; exact hy
              · simp only [ha, if_false] at hy ⊢; exact ih y hy
        intro hh
        have := key _ _ hh
        simp only [alookup_cons] at this
        by_cases hk : k = k'
        · simp [hk] at this; exact .inl ⟨hk, this.symm⟩
        · simp [hk] at this; exact .inr this
      exact hsub l.items h
    · simp only [hc, if_false, alookup_cons] at h
      by_cases hk : k = k'
      · simp [hk] at h; exact .inl ⟨hk, h.symm⟩
      · simp [hk] at h; exact .inr h

/-- the specification tree after a committer step when recommits are excluded -/
def Committer.treeAfter0 (T : Tree K B V) (sc : SC K B V) (m : Committer K B V) : Tree K B V :=
  match m.pc with
  | .linkcheck => match linkAt sc m.hash with
    | none => T ++ [m.blk]
    | some _ => T
  | _ => T

/-- every step of `commit` preserves `Inv0` when no per-key version map evicts; the link cache may evict. `hfresh`: a
    block whose link check passes has not been committed before (no second commit of a block whose link was evicted) -/
theorem Committer.step_inv0 {sc : SC K B V} {T : Tree K B V} {m : Committer K B V}
    (hI : Inv0 sc T) (hM : MInv sc T m)
    (hev : (m.stepSC sc).entryEv = sc.entryEv)
    (hfresh : m.pc = .linkcheck → linkAt sc m.hash = none → T.find m.hash = none) :
    Inv0 (m.stepSC sc) (m.treeAfter0 T sc) ∧
    MInv (m.stepSC sc) (m.treeAfter0 T sc) { m with pc := m.stepPc sc } ∧
    T.le (m.treeAfter0 T sc) := by
  cases hpc : m.pc with
  | start =>
    have hs : m.stepSC sc = sc := by unfold Committer.stepSC; rw [hpc]
    have hp : m.stepPc sc = .linkcheck := by unfold Committer.stepPc; rw [hpc]
    have ht : m.treeAfter0 T sc = T := by unfold Committer.treeAfter0; rw [hpc]
    rw [hs, hp, ht]
    unfold MInv at hM ⊢; rw [hpc] at hM
    exact ⟨hI, hM, Tree.le_refl T⟩
  | done eff =>
    have hs : m.stepSC sc = sc := by unfold Committer.stepSC; rw [hpc]
    have hp : m.stepPc sc = .done eff := by unfold Committer.stepPc; rw [hpc]
    have ht : m.treeAfter0 T sc = T := by unfold Committer.treeAfter0; rw [hpc]
    rw [hs, hp, ht]
    exact ⟨hI, by unfold MInv; trivial, Tree.le_refl T⟩
  | linkcheck =>
    have hs : m.stepSC sc = { sc with links := (sc.links.get m.hash).1 } := by unfold Committer.stepSC; rw [hpc]
    have hl : ∀ b, linkAt (m.stepSC sc) b = linkAt sc b := by
      intro b; rw [hs]; simp [linkAt, LRU.get_peek]
    have he : ∀ k b, entryAt (m.stepSC sc) k b = entryAt sc k b := fun k b => entryAt_congr (by rw [hs]) k b
    unfold MInv at hM; rw [hpc] at hM
    have hI0 : Inv0 (m.stepSC sc) T := Inv0.congr hI hl he
    cases hlk : linkAt sc m.hash with
    | some p =>
      have hp : m.stepPc sc = .done false := by
        unfold Committer.stepPc; rw [hpc]; simp only [LRU.get_snd]
        unfold linkAt at hlk; rw [hlk]
      have ht : m.treeAfter0 T sc = T := by unfold Committer.treeAfter0; rw [hpc]; simp only [hlk]
      rw [hp, ht]
      exact ⟨hI0, by unfold MInv; trivial, Tree.le_refl T⟩
    | none =>
      have hp : m.stepPc sc = CPc.next m.writes := by
        unfold Committer.stepPc; rw [hpc]; simp only [LRU.get_snd]
        unfold linkAt at hlk; rw [hlk]
      have ht : m.treeAfter0 T sc = T ++ [m.blk] := by unfold Committer.treeAfter0; rw [hpc]; simp only [hlk]
      have hfn : T.find m.hash = none := hfresh hpc hlk
      have hle : T.le (T ++ [m.blk]) := Tree.le_append T m.blk hfn
      have hI1 : Inv0 (m.stepSC sc) (T ++ [m.blk]) := by
        refine ⟨fun k b e h => Chain.mono hle (hI0.sound k b e h), fun b p h => ?_⟩
        obtain ⟨x, hx, hp, hw⟩ := hI0.linked b p h
        exact ⟨x, hle _ _ hx, hp, hw⟩
      have hact : MAct (m.stepSC sc) (T ++ [m.blk]) { m with pc := CPc.next m.writes } m.writes := by
        refine ⟨?_, ?_, hM, ⟨[], rfl, fun k e h => by cases h⟩⟩
        · rw [Tree.find_append_of_none T m.blk _ hfn]; simp [Committer.blk]
        · rw [hl]; exact hlk
      rw [hp, ht]
      refine ⟨hI1, ?_, hle⟩
      unfold MInv CPc.next
      cases hw : m.writes with
      | nil => simp only; rw [hw] at hact; exact hact
      | cons a r => simp only; rw [hw] at hact; exact hact
  | keyGet todo =>
    have hs : m.stepSC sc = sc := by unfold Committer.stepSC; rw [hpc]
    have ht : m.treeAfter0 T sc = T := by unfold Committer.treeAfter0; rw [hpc]
    unfold MInv at hM; rw [hpc] at hM
    rw [hs, ht]
    cases todo with
    | nil =>
      have hp : m.stepPc sc = .publish := by unfold Committer.stepPc; rw [hpc]
      rw [hp]
      exact ⟨hI, by unfold MInv; exact hM.congr rfl rfl rfl (fun _ => rfl) (fun _ _ => rfl), Tree.le_refl T⟩
    | cons a t =>
      obtain ⟨k, e⟩ := a
      have hp : m.stepPc sc = .keyAdd (alookup sc.cache k).isNone ((k, e) :: t) := by
        unfold Committer.stepPc; rw [hpc]
      rw [hp]
      refine ⟨hI, ?_, Tree.le_refl T⟩
      unfold MInv
      refine ⟨hM.congr rfl rfl rfl (fun _ => rfl) (fun _ _ => rfl), fun k' e' t' h => ?_⟩
      cases h
      cases alookup sc.cache k <;> simp
  | keyAdd fresh todo =>
    have ht : m.treeAfter0 T sc = T := by unfold Committer.treeAfter0; rw [hpc]
    unfold MInv at hM; rw [hpc] at hM
    obtain ⟨hA, hF⟩ := hM
    rw [ht]
    cases todo with
    | nil =>
      have hs : m.stepSC sc = sc := by unfold Committer.stepSC; rw [hpc]; cases fresh <;> rfl
      have hp : m.stepPc sc = .publish := by unfold Committer.stepPc; rw [hpc]
      rw [hs, hp]
      exact ⟨hI, by unfold MInv; exact hA.congr rfl rfl rfl (fun _ => rfl) (fun _ _ => rfl), Tree.le_refl T⟩
    | cons a t =>
      obtain ⟨k, e⟩ := a
      have hFk := hF k e t rfl
      cases fresh with
      | true =>
        have hkn : alookup sc.cache k = none := hFk.mp rfl
        have hs : m.stepSC sc = { sc with evictions := sc.evictions + ((LRU.empty sc.capK : LRU B (Entry V)).add m.hash e).2.toNat, entryEv := sc.entryEv + ((LRU.empty sc.capK : LRU B (Entry V)).add m.hash e).2.toNat } := by
          unfold Committer.stepSC; rw [hpc]
        have hp : m.stepPc sc = .keyPut (some ((LRU.empty sc.capK : LRU B (Entry V)).add m.hash e).1) ((k, e) :: t) := by
          unfold Committer.stepPc; rw [hpc]
        have hne : ((LRU.empty sc.capK : LRU B (Entry V)).add m.hash e).2 = false := by
          rw [hs] at hev
          cases hb : ((LRU.empty sc.capK : LRU B (Entry V)).add m.hash e).2 with
          | false => rfl
          | true => simp [hb] at hev
        have hl : ∀ b, linkAt (m.stepSC sc) b = linkAt sc b := fun b => by rw [hs]; rfl
        have he : ∀ k b, entryAt (m.stepSC sc) k b = entryAt sc k b := fun k b => entryAt_congr (by rw [hs]) k b
        rw [hp]
        refine ⟨Inv0.congr hI hl he, ?_, Tree.le_refl T⟩
        unfold MInv
        refine ⟨hA.congr rfl rfl rfl hl he, fun k' e' t' h => ?_⟩
        cases h
        simp only
        refine ⟨by rw [hs]; exact hkn, fun b => ?_⟩
        rw [LRU.add_peek _ _ _ _ hne, LRU.empty_peek]
      | false =>
        have hkn : alookup sc.cache k ≠ none := fun h => by have := hFk.mpr h; cases this
        cases hm0 : alookup sc.cache k with
        | none => exact absurd hm0 hkn
        | some m0 =>
          have hs : m.stepSC sc = { sc with cache := aset sc.cache k (m0.add m.hash e).1,
                                            evictions := sc.evictions + (m0.add m.hash e).2.toNat, entryEv := sc.entryEv + (m0.add m.hash e).2.toNat } := by
            unfold Committer.stepSC; rw [hpc]; simp only [hm0]
          have hp : m.stepPc sc = .keyPut none ((k, e) :: t) := by unfold Committer.stepPc; rw [hpc]
          have hne : (m0.add m.hash e).2 = false := by
            rw [hs] at hev
            cases hb : (m0.add m.hash e).2 with
            | false => rfl
            | true => simp [hb] at hev
          have hc : (m.stepSC sc).cache = aset sc.cache k (m0.add m.hash e).1 := by rw [hs]
          have hl : ∀ b, linkAt (m.stepSC sc) b = linkAt sc b := fun b => by rw [hs]; rfl
          have he : ∀ k' b, entryAt (m.stepSC sc) k' b = if k = k' ∧ m.hash = b then some e else entryAt sc k' b := by
            intro k' b
            rw [entryAt_of_cache hc]
            by_cases hk : k = k'
            · subst hk
              simp only [true_and, if_true]
              rw [LRU.add_peek _ _ _ _ hne, entryAt_eq_peek hm0]
            · simp [hk]
          obtain ⟨d, hd, hde⟩ := hA.split
          rw [hp]
          refine ⟨Inv0.add_own hI hA.inTree hA.unlinked hA.nodup hd hl he, ?_, Tree.le_refl T⟩
          unfold MInv
          refine ⟨⟨hA.inTree, by rw [hl]; exact hA.unlinked, hA.nodup, ⟨d, hd, fun k' e' hk' => ?_⟩⟩, fun k' e' t' h => ?_⟩
          · rw [he]
            have hnd := hA.nodup; rw [hd] at hnd
            have : k ≠ k' := fun hkk => by subst hkk; exact key_not_in_done hnd e' hk'
            simp [this]; exact hde k' e' hk'
          · cases h
            simp only
            rw [he]; simp
  | keyPut fr todo =>
    have ht : m.treeAfter0 T sc = T := by unfold Committer.treeAfter0; rw [hpc]
    unfold MInv at hM; rw [hpc] at hM
    obtain ⟨hA, hF⟩ := hM
    rw [ht]
    cases todo with
    | nil =>
      have hs : m.stepSC sc = sc := by unfold Committer.stepSC; rw [hpc]; cases fr <;> rfl
      have hp : m.stepPc sc = .publish := by unfold Committer.stepPc; rw [hpc]
      rw [hs, hp]
      exact ⟨hI, by unfold MInv; exact hA.congr rfl rfl rfl (fun _ => rfl) (fun _ _ => rfl), Tree.le_refl T⟩
    | cons a t =>
      obtain ⟨k, e⟩ := a
      have hFk := hF k e t rfl
      have hp : m.stepPc sc = CPc.next t := by unfold Committer.stepPc; rw [hpc]
      obtain ⟨d, hd, hde⟩ := hA.split
      -- in both cases the entry (k, m.hash) ↦ e is in the shared maps after the step and nothing else changed
      have key : ∃ (hl : ∀ b, linkAt (m.stepSC sc) b = linkAt sc b),
          (∀ k' b, entryAt (m.stepSC sc) k' b = if k = k' ∧ m.hash = b then some e else entryAt sc k' b) := by
        cases fr with
        | none =>
          have hs : m.stepSC sc = sc := by unfold Committer.stepSC; rw [hpc]
          simp only at hFk
          refine ⟨fun b => by rw [hs], fun k' b => ?_⟩
          rw [hs]
          by_cases hc : k = k' ∧ m.hash = b
          · obtain ⟨h1, h2⟩ := hc; subst h1; subst h2; simp [hFk]
          · simp [hc]
        | some l =>
          have hs : m.stepSC sc = { sc with cache := aset sc.cache k l } := by unfold Committer.stepSC; rw [hpc]
          simp only at hFk
          have hc : (m.stepSC sc).cache = aset sc.cache k l := by rw [hs]
          refine ⟨fun b => by rw [hs]; rfl, fun k' b => ?_⟩
          rw [entryAt_of_cache hc]
          by_cases hk : k = k'
          · subst hk
            simp only [true_and, if_true]
            rw [hFk.2 b]
            have : entryAt sc k b = none := by unfold entryAt; rw [hFk.1]
            rw [this]
          · simp [hk]
      obtain ⟨hl, he⟩ := key
      have hI' := Inv0.add_own hI hA.inTree hA.unlinked hA.nodup hd hl he
      have hact : MAct (m.stepSC sc) T { m with pc := CPc.next t } t := by
        refine ⟨hA.inTree, by rw [hl]; exact hA.unlinked, hA.nodup, ⟨d ++ [(k, e)], by rw [hd]; simp, fun k' e' hk' => ?_⟩⟩
        rw [he]
        rw [List.mem_append] at hk'
        rcases hk' with hk' | hk'
        · have hnd := hA.nodup; rw [hd] at hnd
          have : k ≠ k' := fun hkk => by subst hkk; exact key_not_in_done hnd e' hk'
          simp [this]; exact hde k' e' hk'
        · simp at hk'; obtain ⟨h1, h2⟩ := hk'; subst h1; subst h2; simp
      rw [hp]
      refine ⟨?_, ?_, Tree.le_refl T⟩
      · cases t <;> exact hI'
      · unfold MInv CPc.next
        cases t with
        | nil => exact hact
        | cons a r => exact hact
  | publish =>
    have hs : m.stepSC sc = { sc with links := (sc.links.add m.hash m.prev).1,
                                      evictions := sc.evictions + (sc.links.add m.hash m.prev).2.toNat } := by
      unfold Committer.stepSC; rw [hpc]
    have hp : m.stepPc sc = .done true := by unfold Committer.stepPc; rw [hpc]
    have ht : m.treeAfter0 T sc = T := by unfold Committer.treeAfter0; rw [hpc]
    unfold MInv at hM; rw [hpc] at hM
    have he : ∀ k b, entryAt (m.stepSC sc) k b = entryAt sc k b := fun k b => entryAt_congr (by rw [hs]) k b
    obtain ⟨d, hd, hde⟩ := hM.split
    rw [hp, ht]
    refine ⟨⟨fun k b e h => hI.sound k b e (by rw [← he]; exact h), fun b p h => ?_⟩,
      by unfold MInv; trivial, Tree.le_refl T⟩
    have h' : (sc.links.add m.hash m.prev).1.peek b = some p := by rw [hs] at h; exact h
    rcases LRU.add_peek_sub _ _ _ _ _ h' with ⟨hb, hpp⟩ | hold
    · refine ⟨m.blk, by rw [← hb]; exact hM.inTree, hpp.symm ▸ rfl, fun k e hk => ?_⟩
      rw [he, ← hb]
      have hk' : (k, e) ∈ m.writes := alookup_mem hk
      rw [hd] at hk'; simp at hk'
      exact hde k e hk'
    · obtain ⟨x, hx, hp', hw⟩ := hI.linked b p hold
      exact ⟨x, hx, hp', fun k e hk => by rw [he]; exact hw k e hk⟩

theorem Reader.stepSC_ev_of_entryEv (sc : SC K B V) (r : Reader K B V)
    (h : (r.stepSC sc).entryEv = sc.entryEv) : (r.stepSC sc).evictions = sc.evictions := by
  unfold Reader.stepSC at *
  cases hpc : r.pc with
  | cache => rfl
  | link c n => rfl
  | entry c n l => simp only [hpc] at h ⊢; cases alookup sc.cache r.key <;> rfl
  | done v => rfl
  | memo e =>
    simp only [hpc] at h ⊢
    cases hm : alookup sc.cache r.key with
    | none => rfl
    | some m =>
      simp only [hm] at h ⊢
      cases hb : (m.containsOrAdd r.blk e).2 with
      | false => simp
      | true => simp [hb] at h

theorem Inv0.of_rframe {sc sc' : SC K B V} {T : Tree K B V} {r : Reader K B V}
    (hI : Inv0 sc T) (hR : RInv sc T r) (F : RFrame sc sc' r) : Inv0 sc' T := by
  refine ⟨fun k b e h => ?_, fun b p h => ?_⟩
  · rcases F.new k b e h with h | ⟨hk, hb, e', hpc, he⟩
    · exact hI.sound k b e h
    · unfold RInv at hR; rw [hpc] at hR; subst hk; subst hb; subst he; exact hR
  · rw [F.links] at h
    obtain ⟨x, hx, hp, hw⟩ := hI.linked b p h
    exact ⟨x, hx, hp, fun k e hk => F.keep _ _ _ (hw k e hk)⟩

theorem Reader.step_inv0 {sc : SC K B V} {T : Tree K B V} {r : Reader K B V}
    (hI : Inv0 sc T) (hR : RInv sc T r) (hev : (r.stepSC sc).entryEv = sc.entryEv) :
    Inv0 (r.stepSC sc) T ∧ RInv (r.stepSC sc) T { r with pc := r.stepPc sc } := by
  have F := Reader.stepSC_frame sc r (Reader.stepSC_ev_of_entryEv sc r hev)
  refine ⟨Inv0.of_rframe hI hR F, ?_⟩
  cases hpc : r.pc with
  | cache =>
    unfold RInv Reader.stepPc; simp only [hpc]
    cases alookup sc.cache r.key with
    | none => simp
    | some m => exact Walk.refl _
  | link cur n =>
    unfold RInv at hR ⊢; unfold Reader.stepPc; rw [hpc] at hR; simp only [hpc]
    refine ⟨hR, fun p hp => ?_⟩
    rw [F.links]; rw [LRU.get_snd] at hp; exact hp
  | entry cur n linked =>
    unfold RInv at hR; rw [hpc] at hR
    obtain ⟨hW, hL⟩ := hR
    unfold RInv Reader.stepPc; simp only [hpc]
    cases hm : alookup sc.cache r.key with
    | none => simp
    | some m =>
      simp only
      rw [LRU.get_snd]
      cases he : m.peek cur with
      | some e =>
        have hch : Chain T r.key r.blk e :=
          Walk.chain hW (hI.sound _ _ _ (by rw [entryAt_eq_peek hm]; exact he))
        simp only
        by_cases hcb : cur = r.blk
        · simp only [hcb, if_true]
          intro v hv
          rw [Entry.result_val hv] at hch; exact hch
        · simp only [hcb, if_false]; exact hch
      | none =>
        simp only
        cases linked with
        | none => simp
        | some p =>
          simp only
          by_cases hd : n + 1 > sc.maxDepth
          · simp [hd]
          · simp only [hd, if_false]
            obtain ⟨x, hx, hp, hw⟩ := hI.linked cur p (hL p rfl)
            have hnone : alookup x.writes r.key = none := by
              cases hxw : alookup x.writes r.key with
              | none => rfl
              | some e' =>
                have := hw _ _ hxw
                rw [entryAt_eq_peek hm, he] at this; cases this
            have := Walk.snoc hW hx hnone
            rw [hp] at this; exact this
  | memo e =>
    unfold RInv at hR ⊢; unfold Reader.stepPc; rw [hpc] at hR; simp only [hpc]
    intro v hv
    rw [Entry.result_val hv] at hR; exact hR
  | done res =>
    unfold RInv at hR ⊢; unfold Reader.stepPc; rw [hpc] at hR; simp only [hpc]
    exact hR


theorem Reader.stepSC_entryEv_le (sc : SC K B V) (r : Reader K B V) : sc.entryEv ≤ (r.stepSC sc).entryEv := by
  unfold Reader.stepSC
  split
  · exact Nat.le_refl _
  · exact Nat.le_refl _
  · split <;> exact Nat.le_refl _
  · split
    · exact Nat.le_refl _
    · exact Nat.le_add_right _ _
  · exact Nat.le_refl _

theorem Reader.run_entryEv_le (n : Nat) (sc : SC K B V) (r : Reader K B V) : sc.entryEv ≤ (Reader.run n sc r).1.entryEv := by
  induction n generalizing sc r with
  | zero => exact Nat.le_refl _
  | succ n ih =>
    unfold Reader.run
    split
    · exact Nat.le_refl _
    · exact Nat.le_trans (Reader.stepSC_entryEv_le sc r) (ih _ _)

theorem Committer.stepSC_entryEv_le (sc : SC K B V) (c : Committer K B V) : sc.entryEv ≤ (c.stepSC sc).entryEv := by
  unfold Committer.stepSC
  split
  · exact Nat.le_refl _
  · exact Nat.le_add_right _ _
  · split
    · exact Nat.le_add_right _ _
    · exact Nat.le_refl _
  · exact Nat.le_refl _
  · exact Nat.le_refl _
  · exact Nat.le_refl _

theorem Committer.run_entryEv_le (n : Nat) (sc : SC K B V) (c : Committer K B V) :
    sc.entryEv ≤ (Committer.run n sc c).1.entryEv := by
  induction n generalizing sc c with
  | zero => exact Nat.le_refl _
  | succ n ih =>
    unfold Committer.run
    split
    · exact Nat.le_refl _
    · exact Nat.le_trans (Committer.stepSC_entryEv_le sc c) (ih _ _)

theorem Reader.run_inv0 {T : Tree K B V} (n : Nat) (sc : SC K B V) (r : Reader K B V)
    (hI : Inv0 sc T) (hR : RInv sc T r) (hev : (Reader.run n sc r).1.entryEv = sc.entryEv) :
    Inv0 (Reader.run n sc r).1 T ∧ RInv (Reader.run n sc r).1 T (Reader.run n sc r).2 ∧
      (Reader.run n sc r).2.key = r.key ∧ (Reader.run n sc r).2.blk = r.blk := by
  induction n generalizing sc r with
  | zero => exact ⟨hI, hR, rfl, rfl⟩
  | succ n ih =>
    by_cases hd : ∃ v, r.pc = .done v
    · obtain ⟨v, hv⟩ := hd
      rw [Reader.run_of_done _ _ _ hv]; exact ⟨hI, hR, rfl, rfl⟩
    · have hnd : ∀ v, r.pc ≠ .done v := fun v hv => hd ⟨v, hv⟩
      rw [Reader.run_succ _ _ _ hnd] at hev ⊢
      have h1 : (r.stepSC sc).entryEv = sc.entryEv :=
        Nat.le_antisymm (by rw [← hev]; exact Reader.run_entryEv_le _ _ _) (Reader.stepSC_entryEv_le sc r)
      obtain ⟨hI', hR'⟩ := Reader.step_inv0 hI hR h1
      exact ih (r.stepSC sc) { r with pc := r.stepPc sc } hI' hR' (by rw [hev, h1])

theorem SC.get_correct0 {T : Tree K B V} (sc : SC K B V) (k : K) (b : B)
    (hI : Inv0 sc T) (hev : (sc.get k b).1.entryEv = sc.entryEv) :
    Inv0 (sc.get k b).1 T ∧ ∀ v, (sc.get k b).2 = some v → Chain T k b (.val v) := by
  unfold SC.get at hev ⊢
  simp only at hev ⊢
  obtain ⟨hI', hR', hk, hb⟩ := Reader.run_inv0 (2 * sc.maxDepth + 4) sc (Reader.init k b) hI
    (by unfold RInv Reader.init; trivial) hev
  refine ⟨hI', fun v hv => ?_⟩
  unfold Reader.result at hv
  unfold RInv at hR'
  cases hpc : (Reader.run (2 * sc.maxDepth + 4) sc (Reader.init k b)).2.pc with
  | done res =>
    rw [hpc] at hv hR'
    simp only at hv hR'
    have := hR' v hv
    rw [hk, hb] at this
    exact this
  | cache => rw [hpc] at hv; cases hv
  | link _ _ => rw [hpc] at hv; cases hv
  | entry _ _ _ => rw [hpc] at hv; cases hv
  | memo _ => rw [hpc] at hv; cases hv

theorem Committer.treeAfter0_past (T : Tree K B V) (sc : SC K B V) (c : Committer K B V) (h : c.pc.past = true) :
    c.treeAfter0 T sc = T := by
  unfold Committer.treeAfter0
  cases hpc : c.pc <;> simp only
  rw [hpc] at h; cases h

theorem Committer.run_inv0_past {T : Tree K B V} (n : Nat) (sc : SC K B V) (c : Committer K B V)
    (hp : c.pc.past = true) (hI : Inv0 sc T) (hM : MInv sc T c)
    (hev : (Committer.run n sc c).1.entryEv = sc.entryEv) : Inv0 (Committer.run n sc c).1 T := by
  induction n generalizing sc c with
  | zero => exact hI
  | succ n ih =>
    by_cases hd : ∃ b, c.pc = .done b
    · obtain ⟨b, hb⟩ := hd
      rw [Committer.run_of_done _ _ _ hb]; exact hI
    · have hnd : ∀ b, c.pc ≠ .done b := fun b hb => hd ⟨b, hb⟩
      rw [Committer.run_succ _ _ _ hnd] at hev ⊢
      have h1 : (c.stepSC sc).entryEv = sc.entryEv :=
        Nat.le_antisymm (by rw [← hev]; exact Committer.run_entryEv_le _ _ _) (Committer.stepSC_entryEv_le sc c)
      obtain ⟨hI', hM', _⟩ := Committer.step_inv0 hI hM h1 (fun hpc => by rw [hpc] at hp; cases hp)
      rw [Committer.treeAfter0_past T sc c hp] at hI' hM'
      exact ih (c.stepSC sc) { c with pc := c.stepPc sc } (Committer.stepPc_past sc c hp) hI' hM' (by rw [hev, h1])

theorem SC.commit_correct0 {T : Tree K B V} (sc : SC K B V) (hash prev : B) (writes : List (K × Entry V))
    (hI : Inv0 sc T) (hnd : (writes.map Prod.fst).Nodup)
    (hev : (sc.commit hash prev writes).1.entryEv = sc.entryEv)
    (hfresh : linkAt sc hash = none → T.find hash = none) :
    Inv0 (sc.commit hash prev writes).1 (T.commit ⟨hash, prev, writes⟩) := by
  unfold SC.commit at hev ⊢
  simp only at hev ⊢
  let c0 : Committer K B V := ⟨hash, prev, writes, .linkcheck⟩
  have hnd0 : ∀ b, c0.pc ≠ .done b := by intro b h; cases h
  have hfuel : 3 * writes.length + 5 = (3 * writes.length + 4) + 1 := by omega
  rw [hfuel, Committer.run_succ _ _ _ hnd0] at hev ⊢
  have h1 : (c0.stepSC sc).entryEv = sc.entryEv :=
    Nat.le_antisymm (by rw [← hev]; exact Committer.run_entryEv_le _ _ _) (Committer.stepSC_entryEv_le sc c0)
  obtain ⟨hI', hM', _⟩ := Committer.step_inv0 (m := c0) hI (by unfold MInv; exact hnd) h1 (fun _ hl => hfresh hl)
  have htree : c0.treeAfter0 T sc = T.commit ⟨hash, prev, writes⟩ := by
    unfold Committer.treeAfter0 Tree.commit
    simp only [c0]
    cases hl : linkAt sc hash with
    | none => rw [hfresh hl]; rfl
    | some p =>
      obtain ⟨x, hx, _⟩ := hI.linked hash p hl
      simp only; rw [hx]
  rw [htree] at hI' hM'
  have hpast : (c0.stepPc sc).past = true := by
    simp only [c0]
    unfold Committer.stepPc; simp only
    cases (sc.links.get hash).2 with
    | some _ => rfl
    | none => unfold CPc.next; cases writes <;> rfl
  exact Committer.run_inv0_past _ _ _ hpast hI' hM' (by rw [hev, h1])

structure SysInv0 (s : Sys H K B V) (T : Tree K B V) : Prop where
  inv : Inv0 s.sc T
  nodup : ∀ h bc, alookup s.bcs h = some bc → (bc.cache.map Prod.fst).Nodup

theorem BC.get_correct0 {T : Tree K B V} (sc : SC K B V) (bc : BC K B V) (k : K)
    (hI : Inv0 sc T) (hev : (bc.get sc k).1.entryEv = sc.entryEv) :
    Inv0 (bc.get sc k).1 T ∧ ∀ v, (bc.get sc k).2 = some v → Answer T [bc.cache] bc.base k (.val v) := by
  unfold BC.get at hev ⊢
  unfold Answer pendLookup pendLookup
  cases he : alookup bc.cache k with
  | some e =>
    simp only
    exact ⟨hI, fun v hv => (Entry.result_val hv).symm⟩
  | none =>
    simp only [he] at hev ⊢
    exact SC.get_correct0 sc k bc.base hI hev


theorem SysInv0.set_bc {s : Sys H K B V} {T : Tree K B V} (hS : SysInv0 s T) (h : H) (bc : BC K B V)
    (hn : (bc.cache.map Prod.fst).Nodup) (tcs : List (H × TC H K B V)) :
    SysInv0 { s with bcs := aset s.bcs h bc, tcs := tcs } T := by
  refine ⟨hS.inv, fun h' bc' hb => ?_⟩
  rcases alookup_aset' _ _ _ _ _ hb with ⟨_, rfl⟩ | ⟨_, hb⟩
  · exact hn
  · exact hS.nodup h' bc' hb

theorem SysInv0.set_sc {s : Sys H K B V} {T T' : Tree K B V} (hS : SysInv0 s T) (sc : SC K B V)
    (hI : Inv0 sc T') : SysInv0 { s with sc := sc } T' := ⟨hI, hS.nodup⟩

theorem Sys.step_inv0 {T : Tree K B V} (s : Sys H K B V) (op : Op H K B V) (hS : SysInv0 s T)
    (hev : (s.step op).1.sc.entryEv = s.sc.entryEv) (hnr : op.isRemove = false)
    (hfresh : ∀ h bc, op = .bcommit h → alookup s.bcs h = some bc → linkAt s.sc bc.hash = none → T.find bc.hash = none) :
    SysInv0 (s.step op).1 (s.treeStep T op) := by
  cases op with
  | blk h hash prev => exact hS.set_bc h ⟨hash, prev, [], false⟩ (by simp) s.tcs
  | bhash h hash =>
    simp only [Sys.step, Sys.treeStep]
    cases hb : alookup s.bcs h with
    | none => exact hS
    | some bc => exact hS.set_bc h ⟨hash, bc.prev, bc.cache, bc.committed⟩ (hS.nodup h bc hb) s.tcs
  | txn t h =>
    simp only [Sys.step, Sys.treeStep]
    cases hb : alookup s.bcs h with
    | none => exact hS
    | some bc => exact ⟨hS.inv, hS.nodup⟩
  | qtxn t b => exact ⟨hS.inv, hS.nodup⟩
  | tset t k v =>
    simp only [Sys.step, Sys.treeStep]
    cases alookup s.tcs t with
    | none => exact hS
    | some tc => exact ⟨hS.inv, hS.nodup⟩
  | trem t k =>
    simp only [Sys.step, Sys.treeStep]
    cases alookup s.tcs t with
    | none => exact hS
    | some tc => exact ⟨hS.inv, hS.nodup⟩
  | tget t k =>
    simp only [Sys.step, Sys.treeStep] at hev ⊢
    cases h1 : alookup s.tcs t with
    | none => exact hS
    | some tc =>
      simp only [h1] at hev ⊢
      cases h2 : alookup tc.cache k with
      | some e => exact hS
      | none =>
        simp only [h2] at hev ⊢
        cases h3 : tc.main with
        | block h =>
          simp only [h3] at hev ⊢
          cases h4 : alookup s.bcs h with
          | none => exact hS
          | some bc =>
            simp only [h4] at hev ⊢
            exact hS.set_sc _ (BC.get_correct0 s.sc bc k hS.inv hev).1
        | query b =>
          simp only [h3] at hev ⊢
          exact hS.set_sc _ (SC.get_correct0 s.sc k b hS.inv hev).1
  | tcommit t =>
    simp only [Sys.step, Sys.treeStep]
    cases alookup s.tcs t with
    | none => exact hS
    | some tc =>
      simp only
      cases tc.main with
      | block h =>
        simp only
        cases hb : alookup s.bcs h with
        | none => exact hS
        | some bc => exact hS.set_bc h _ (nodup_foldl_setValue _ _ (hS.nodup h bc hb)) _
      | query b => simp only; cases tc.cache <;> exact hS
  | bset h k v =>
    simp only [Sys.step, Sys.treeStep]
    cases hb : alookup s.bcs h with
    | none => exact hS
    | some bc => exact hS.set_bc h _ (nodup_keys_aset _ _ _ (hS.nodup h bc hb)) s.tcs
  | bget h k =>
    simp only [Sys.step, Sys.treeStep] at hev ⊢
    cases h1 : alookup s.bcs h with
    | none => exact hS
    | some bc =>
      simp only [h1] at hev ⊢
      exact hS.set_sc _ (BC.get_correct0 s.sc bc k hS.inv hev).1
  | bcommit h =>
    simp only [Sys.step, Sys.treeStep] at hev ⊢
    cases hb : alookup s.bcs h with
    | none => exact hS
    | some bc =>
      simp only [hb] at hev ⊢
      have hn := hS.nodup h bc hb
      have hI' : Inv0 (bc.commit s.sc).1 (T.commit ⟨bc.hash, bc.prev, bc.cache⟩) := by
        unfold BC.commit at hev ⊢
        exact SC.commit_correct0 s.sc bc.hash bc.prev bc.cache hS.inv hn hev (hfresh h bc rfl hb)
      refine ⟨hI', fun h' bc' hb' => ?_⟩
      rcases alookup_aset' _ _ _ _ _ hb' with ⟨_, rfl⟩ | ⟨_, hb'⟩
      · unfold BC.commit; simp only
        split
        · simp
        · exact hn
      · exact hS.nodup h' bc' hb'
  | qget b k => exact hS.set_sc _ (SC.get_correct0 s.sc k b hS.inv hev).1
  | sget k b => exact hS.set_sc _ (SC.get_correct0 s.sc k b hS.inv hev).1
  | srem k => simp [Op.isRemove] at hnr


theorem Sys.step_ok0 {T : Tree K B V} (s : Sys H K B V) (op : Op H K B V) (hS : SysInv0 s T)
    (hev : (s.step op).1.sc.entryEv = s.sc.entryEv) : OpOK s T op := by
  intro pend b k hctx
  cases op with
  | tget t k' =>
    simp only [Sys.ctx] at hctx
    simp only [Sys.step] at hev ⊢
    cases h1 : alookup s.tcs t with
    | none => simp [h1] at hctx
    | some tc =>
      simp only [h1] at hctx hev ⊢
      cases h3 : tc.main with
      | block h =>
        simp only [h3] at hctx hev ⊢
        cases h4 : alookup s.bcs h with
        | none => simp [h4] at hctx
        | some bc =>
          simp only [h4, Option.some.injEq, Prod.mk.injEq] at hctx hev ⊢
          obtain ⟨rfl, rfl, rfl⟩ := hctx
          cases h2 : alookup tc.cache k' with
          | some e => simp only; exact okOfHits (fun v hv => answer_pending h2 v hv)
          | none =>
            simp only [h2] at hev ⊢
            apply okOfHits
            intro v hv
            rw [answer_skip h2]
            exact (BC.get_correct0 s.sc bc k' hS.inv hev).2 v hv
      | query qb =>
        simp only [h3, Option.some.injEq, Prod.mk.injEq] at hctx hev ⊢
        obtain ⟨rfl, rfl, rfl⟩ := hctx
        cases h2 : alookup tc.cache k' with
        | some e => simp only; exact okOfHits (fun v hv => answer_pending h2 v hv)
        | none =>
          simp only [h2] at hev ⊢
          apply okOfHits
          intro v hv
          rw [answer_skip h2]
          unfold Answer pendLookup; simp only
          exact (SC.get_correct0 s.sc k' qb hS.inv hev).2 v hv
  | bget h k' =>
    simp only [Sys.ctx] at hctx
    simp only [Sys.step] at hev ⊢
    cases h4 : alookup s.bcs h with
    | none => simp [h4] at hctx
    | some bc =>
      simp only [h4, Option.some.injEq, Prod.mk.injEq] at hctx hev ⊢
      obtain ⟨rfl, rfl, rfl⟩ := hctx
      exact okOfHits (fun v hv => (BC.get_correct0 s.sc bc k' hS.inv hev).2 v hv)
  | qget qb k' =>
    simp only [Sys.ctx, Option.some.injEq, Prod.mk.injEq] at hctx
    obtain ⟨rfl, rfl, rfl⟩ := hctx
    simp only [Sys.step] at hev ⊢
    apply okOfHits
    intro v hv
    unfold Answer pendLookup; simp only
    exact (SC.get_correct0 s.sc k' qb hS.inv hev).2 v hv
  | sget k' qb =>
    simp only [Sys.ctx, Option.some.injEq, Prod.mk.injEq] at hctx
    obtain ⟨rfl, rfl, rfl⟩ := hctx
    simp only [Sys.step] at hev ⊢
    apply okOfHits
    intro v hv
    unfold Answer pendLookup; simp only
    exact (SC.get_correct0 s.sc k' qb hS.inv hev).2 v hv
  | blk _ _ _ => simp [Sys.ctx] at hctx
  | bhash _ _ => simp [Sys.ctx] at hctx
  | txn _ _ => simp [Sys.ctx] at hctx
  | qtxn _ _ => simp [Sys.ctx] at hctx
  | tset _ _ _ => simp [Sys.ctx] at hctx
  | trem _ _ => simp [Sys.ctx] at hctx
  | tcommit _ => simp [Sys.ctx] at hctx
  | bset _ _ _ => simp [Sys.ctx] at hctx
  | bcommit _ => simp [Sys.ctx] at hctx
  | srem _ => simp [Sys.ctx] at hctx


theorem Sys.step_entryEv_le (s : Sys H K B V) (op : Op H K B V) : s.sc.entryEv ≤ (s.step op).1.sc.entryEv := by
  have hget : ∀ k b, s.sc.entryEv ≤ (s.sc.get k b).1.entryEv := fun k b => by
    unfold SC.get; exact Reader.run_entryEv_le _ _ _
  have hbget : ∀ (bc : BC K B V) k, s.sc.entryEv ≤ (bc.get s.sc k).1.entryEv := fun bc k => by
    unfold BC.get; cases alookup bc.cache k with
    | some e => exact Nat.le_refl _
    | none => exact hget _ _
  cases op with
  | blk h hash prev => exact Nat.le_refl _
  | bhash h hash => simp only [Sys.step]; cases alookup s.bcs h <;> exact Nat.le_refl _
  | txn t h => simp only [Sys.step]; cases alookup s.bcs h <;> exact Nat.le_refl _
  | qtxn t b => exact Nat.le_refl _
  | tset t k v => simp only [Sys.step]; cases alookup s.tcs t <;> exact Nat.le_refl _
  | trem t k => simp only [Sys.step]; cases alookup s.tcs t <;> exact Nat.le_refl _
  | tget t k =>
    simp only [Sys.step]
    cases alookup s.tcs t with
    | none => exact Nat.le_refl _
    | some tc =>
      simp only
      cases alookup tc.cache k with
      | some e => exact Nat.le_refl _
      | none =>
        simp only
        cases tc.main with
        | block h =>
          simp only
          cases alookup s.bcs h with
          | none => exact Nat.le_refl _
          | some bc => exact hbget _ _
        | query b => exact hget _ _
  | tcommit t =>
    simp only [Sys.step]
    cases alookup s.tcs t with
    | none => exact Nat.le_refl _
    | some tc =>
      simp only
      cases tc.main with
      | block h => simp only; cases alookup s.bcs h <;> exact Nat.le_refl _
      | query b => simp only; cases tc.cache <;> exact Nat.le_refl _
  | bset h k v => simp only [Sys.step]; cases alookup s.bcs h <;> exact Nat.le_refl _
  | bget h k =>
    simp only [Sys.step]
    cases alookup s.bcs h with
    | none => exact Nat.le_refl _
    | some bc => exact hbget _ _
  | bcommit h =>
    simp only [Sys.step]
    cases alookup s.bcs h with
    | none => exact Nat.le_refl _
    | some bc => unfold BC.commit SC.commit; exact Committer.run_entryEv_le _ _ _
  | qget b k => exact hget _ _
  | sget k b => exact hget _ _
  | srem k => simp only [Sys.step]; unfold SC.remove; cases alookup s.sc.cache k <;> exact Nat.le_refl _

theorem Sys.run_entryEv_le (s : Sys H K B V) (ops : List (Op H K B V)) : s.sc.entryEv ≤ (s.run ops).1.sc.entryEv := by
  induction ops generalizing s with
  | nil => exact Nat.le_refl _
  | cons op ops ih =>
    simp only [Sys.run]
    exact Nat.le_trans (Sys.step_entryEv_le s op) (ih _)

/-- the operation is not a second commit of an already committed block whose link is gone (e.g. evicted) -/
def recommitOK (s : Sys H K B V) (T : Tree K B V) : Op H K B V → Bool
  | .bcommit h =>
    match alookup s.bcs h with
    | some bc => (linkAt s.sc bc.hash).isSome || (T.find bc.hash).isNone
    | none => true
  | _ => true

def NoRecommit : Sys H K B V → Tree K B V → List (Op H K B V) → Prop
  | _, _, [] => True
  | s, T, op :: ops => recommitOK s T op = true ∧ NoRecommit (s.step op).1 (s.treeStep T op) ops

def NoRecommit.dec : (s : Sys H K B V) → (T : Tree K B V) → (ops : List (Op H K B V)) → Decidable (NoRecommit s T ops)
  | _, _, [] => isTrue trivial
  | s, T, op :: ops =>
    match (inferInstance : Decidable (recommitOK s T op = true)), NoRecommit.dec (s.step op).1 (s.treeStep T op) ops with
    | isTrue h1, isTrue h2 => isTrue ⟨h1, h2⟩
    | isFalse h1, _ => isFalse (fun h => h1 h.1)
    | _, isFalse h2 => isFalse (fun h => h2 h.2)

instance (s : Sys H K B V) (T : Tree K B V) (ops : List (Op H K B V)) : Decidable (NoRecommit s T ops) :=
  NoRecommit.dec s T ops

theorem recommitOK_spec {s : Sys H K B V} {T : Tree K B V} {op : Op H K B V} (h : recommitOK s T op = true) :
    ∀ hh bc, op = .bcommit hh → alookup s.bcs hh = some bc → linkAt s.sc bc.hash = none → T.find bc.hash = none := by
  intro hh bc ho hb hl
  subst ho
  simp only [recommitOK, hb, hl, Option.isSome_none, Bool.false_or] at h
  cases hf : T.find bc.hash with
  | none => rfl
  | some x => rw [hf] at h; simp at h

/-- histories in which the LINK cache may evict freely: if no per-key version map evicts, no `Remove` occurs and no
    block is committed a second time after its link was lost, every lookup is correct -/
theorem Sys.run_ok_links {T : Tree K B V} (s : Sys H K B V) (ops : List (Op H K B V)) (hS : SysInv0 s T)
    (hne : (s.run ops).1.sc.entryEv = s.sc.entryEv) (hR : ∀ op ∈ ops, op.isRemove = false)
    (hrc : NoRecommit s T ops) : AllOK s T ops := by
  induction ops generalizing s T with
  | nil => trivial
  | cons op ops ih =>
    simp only [Sys.run] at hne
    have h1 : (s.step op).1.sc.entryEv = s.sc.entryEv :=
      Nat.le_antisymm (by rw [← hne]; exact Sys.run_entryEv_le _ _) (Sys.step_entryEv_le s op)
    exact ⟨Sys.step_ok0 s op hS h1,
      ih _ (Sys.step_inv0 s op hS h1 (hR op (by simp)) (recommitOK_spec hrc.1)) (by rw [hne, h1]) (fun o ho => hR o (by simp [ho])) hrc.2⟩

theorem SysInv0.init (capK maxDepth : Nat) : SysInv0 (Sys.new capK maxDepth : Sys H K B V) [] :=
  ⟨(SysInv.init capK maxDepth).inv.toInv0, (SysInv.init capK maxDepth).nodup⟩

end Verif.SC
