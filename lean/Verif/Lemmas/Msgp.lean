import Verif.Model.Msgp
/-! Lemmas about the msgp codec model (`Verif/Model/Msgp.lean`) for Props/C18. -/
namespace Verif.Lemmas.Msgp
open Verif.Msgp

theorem byteAt_ne_panic (b : Bytes) (i : Nat) (h : i < b.length) : ∃ x, byteAt b i = .ok x := by
  unfold byteAt
  rw [List.getElem?_eq_getElem h]
  exact ⟨_, rfl⟩

/-- reading `k` bytes that are there never panics -/
theorem readBE_ok (b : Bytes) (k off : Nat) (h : off + k ≤ b.length) : ∃ v, readBE b off k = .ok v := by
  induction k generalizing off with
  | zero => exact ⟨0, rfl⟩
  | succ k ih =>
    obtain ⟨x, hx⟩ := byteAt_ne_panic b off (by omega)
    obtain ⟨v, hv⟩ := ih (off + 1) (by omega)
    exact ⟨x.toNat * 256 ^ k + v, by simp [readBE, hx, hv]⟩

theorem readFixed_ne_panic (b : Bytes) (k : Nat) (s : Bool) : readFixed b k s ≠ .panic := by
  unfold readFixed
  split
  · simp
  · obtain ⟨v, hv⟩ := readBE_ok b k 1 (by omega)
    rw [hv]
    simp only []
    split <;> simp

/-- `msgp.ReadUint64Bytes` never indexes out of range -/
theorem readUint64_ne_panic (b : Bytes) : readUint64 b ≠ .panic := by
  unfold readUint64
  split
  · simp
  · obtain ⟨x, hx⟩ := byteAt_ne_panic b 0 (by omega)
    rw [hx]
    simp only []
    repeat' split
    all_goals first | exact readFixed_ne_panic _ _ _ | simp

/-- reading back the big-endian bytes of `u` -/
theorem readBE_be (pre : Bytes) (u k : Nat) (rest : Bytes) :
    readBE (pre ++ be u k ++ rest) pre.length k = .ok (u % 256 ^ k) := by
  induction k generalizing pre with
  | zero => simp [readBE, Nat.mod_one]
  | succ k ih =>
    have hx : byteAt (pre ++ be u (k + 1) ++ rest) pre.length = .ok (UInt8.ofNat (u / 256 ^ k)) := by
      simp [byteAt, be]
    have ih' := ih (pre ++ [UInt8.ofNat (u / 256 ^ k)])
    simp only [List.length_append, List.length_cons, List.length_nil, Nat.zero_add] at ih'
    have hl : pre ++ be u (k + 1) ++ rest = pre ++ [UInt8.ofNat (u / 256 ^ k)] ++ be u k ++ rest := by
      simp [be]
    rw [readBE, hx]
    simp only []
    rw [hl, ih']
    simp only []
    congr 1
    have hm : u % 256 ^ (k + 1) = u % 256 ^ k + 256 ^ k * (u / 256 ^ k % 256) := by
      rw [Nat.pow_succ, Nat.mod_mul]
    rw [UInt8.toNat_ofNat', hm, show (2 : Nat) ^ 8 = 256 from rfl, Nat.mul_comm, Nat.add_comm]

theorem be_length (u k : Nat) : (be u k).length = k := by
  induction k with
  | zero => rfl
  | succ k ih => simp [be, ih]

theorem readFixed_be (b0 : UInt8) (u k : Nat) (rest : Bytes) (hu : u < 256 ^ k) :
    readFixed (b0 :: (be u k ++ rest)) k false = .ok (u, rest) := by
  unfold readFixed
  have hlen : ¬ ((b0 :: (be u k ++ rest)).length < 1 + k) := by
    simp [be_length]; omega
  rw [if_neg hlen]
  have h := readBE_be [b0] u k rest
  simp only [List.length_cons, List.length_nil, Nat.zero_add, List.nil_append, List.cons_append] at h
  rw [h]
  simp only [Bool.false_and, Bool.false_eq_true, if_false, Nat.mod_eq_of_lt hu]
  congr 2
  rw [Nat.add_comm 1 k, List.drop_succ_cons, List.drop_left' (be_length u k)]

/-- decoding what was encoded returns the value and exactly the bytes that followed -/
theorem readUint64_appendUint64 (u : Nat) (hu : u < 2 ^ 64) (rest : Bytes) :
    readUint64 (appendUint64 u ++ rest) = .ok (u, rest) := by
  unfold appendUint64
  by_cases h1 : u ≤ 127
  · rw [if_pos h1]
    unfold readUint64
    have hb : byteAt ([UInt8.ofNat u] ++ rest) 0 = .ok (UInt8.ofNat u) := by simp [byteAt]
    rw [if_neg (by simp), hb]
    simp only []
    have ht : (UInt8.ofNat u).toNat = u := by rw [UInt8.toNat_ofNat']; omega
    rw [if_pos (by rw [ht]; omega), ht]
    simp
  · rw [if_neg h1]
    by_cases h2 : u ≤ 255
    · rw [if_pos h2]
      have := readFixed_be 0xcc u 1 rest (by omega)
      simp only [List.cons_append]
      unfold readUint64
      simp [byteAt, this]
    · rw [if_neg h2]
      by_cases h3 : u ≤ 65535
      · rw [if_pos h3]
        have := readFixed_be 0xcd u 2 rest (by omega)
        simp only [List.cons_append]
        unfold readUint64
        simp [byteAt, this]
      · rw [if_neg h3]
        by_cases h4 : u ≤ 4294967295
        · rw [if_pos h4]
          have := readFixed_be 0xce u 4 rest (by omega)
          simp only [List.cons_append]
          unfold readUint64
          simp [byteAt, this]
        · rw [if_neg h4]
          have := readFixed_be 0xcf u 8 rest (by omega)
          simp only [List.cons_append]
          unfold readUint64
          simp [byteAt, this]

/-- `Msgsize` bounds the encoding -/
theorem appendUint64_length (u : Nat) : (appendUint64 u).length ≤ uint64Size := by
  unfold appendUint64 uint64Size
  repeat' split
  all_goals simp [be_length]

end Verif.Lemmas.Msgp
