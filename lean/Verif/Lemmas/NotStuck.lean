/-
The ordering of `mergeChanges` never gets stuck on the collector of a trie that ran a `TrieRun`:
a pending change that records a predecessor is never blocked, because
  * every replacement happens in place (`SamePosEv`), so a change's predecessor and its new node share a position,
  * recorded predecessors are nodes of the start tree, whose nodes have pairwise different positions,
  * a recorded predecessor never has the key of its own entry.
-/
import Verif.Lemmas.SamePos
import Verif.Lemmas.TrieRun
namespace Verif.MptStore
open Verif.Mpt Collector

/-! ### the nodes of a canonical tree have pairwise different positions -/

theorem refs_pos_inj (t : Node) : WF t → ∀ (pre : List Nib) (a b : Ref), a ∈ refs t pre → b ∈ refs t pre →
    a.pos = b.pos → a = b := by
  induction t with
  | empty => intro _ pre a b ha; simp [refs] at ha
  | leaf o lp lv =>
    intro _ pre a b ha hb _
    rw [mem_refs_leaf] at ha hb
    rw [ha, hb]
  | full o ch val ih =>
    intro hw pre a b ha hb hp
    rw [mem_refs_full] at ha hb
    rcases ha with ha | ⟨i, ha⟩ <;> rcases hb with hb | ⟨j, hb⟩
    · rw [ha, hb]
    · exfalso
      subst ha
      exact pos_ne_of_prefix (q := [j]) (by simp) (refs_pos _ _ b hb) hp.symm
    · exfalso
      subst hb
      exact pos_ne_of_prefix (q := [i]) (by simp) (refs_pos _ _ a ha) hp
    · have hij : i = j := snoc_prefix_eq (refs_pos _ _ a ha) (hp ▸ refs_pos _ _ b hb)
      subst hij
      exact ih i (WF_child hw i) _ a b ha hb hp
  | ext o ep c ih =>
    intro hw pre a b ha hb hp
    have hwn := WFn_of_WF_ext hw
    rw [mem_refs_ext] at ha hb
    rcases ha with ha | ha <;> rcases hb with hb | hb
    · rw [ha, hb]
    · exfalso
      subst ha
      exact pos_ne_of_prefix hwn.1 (refs_pos _ _ b hb) hp.symm
    · exfalso
      subst hb
      exact pos_ne_of_prefix hwn.1 (refs_pos _ _ a ha) hp
    · exact ih (Or.inr hwn.2.2) _ a b ha hb hp

/-! ### a relation between the recorded predecessor and the new node of every pending change -/

namespace Collector
variable {κ N : Type} [DecidableEq κ]

def SameR (R : N → N → Prop) (cc : Collector κ N) : Prop := ∀ e ∈ cc.changes, ∀ o, e.2.old = some o → R o e.2.new

def CallR (R : N → N → Prop) : Call N → Prop
  | .add (some o) n => R o n
  | _ => True

theorem sameR_step (k : N → κ) (P : N → Prop) (R : N → N → Prop)
    (hR : ∀ a b c d, P b → P c → R a b → k b = k c → R c d → R a d)
    {cc : Collector κ N} (prov : Prov k P cc) (h : SameR R cc) (c : Call N) (hcn : CallNodes P c) (hc : CallR R c) :
    SameR R (step k cc c) := by
  cases c with
  | del o =>
    simp only [step, deleteChange]
    cases hg : Map.get cc.changes (k o) with
    | some c0 => exact fun e he => h e (Map.mem_del he)
    | none => exact h
  | add o n =>
    cases o with
    | none =>
      simp only [step, addChange]
      intro e he o' ho'
      rcases Map.mem_put he with rfl | he
      · cases ho'
      · exact h e he o' ho'
    | some o =>
      simp only [step, addChange]
      cases hg : Map.get cc.changes (k o) with
      | none =>
        simp only
        intro e he o' ho'
        rcases Map.mem_put he with rfl | he
        · simp only [Option.some.injEq] at ho'; subst ho'; exact hc
        · exact h e he o' ho'
      | some prev =>
        simp only
        have hmem := Map.mem_of_get hg
        have hpk := (prov.changes _ hmem).1
        have hpP := (prov.changes _ hmem).2.1
        have herased : ∀ e ∈ Map.del cc.changes (k o), ∀ o', e.2.old = some o' → R o' e.2.new :=
          fun e he => h e (Map.mem_del he)
        cases hpo : prev.old with
        | none =>
          simp only
          intro e he o' ho'
          rcases Map.mem_put he with rfl | he
          · cases ho'
          · exact herased e he o' ho'
        | some po =>
          simp only
          by_cases hback : k n = k po
          · simp only [hback, if_true]; exact herased
          · simp only [hback, if_false]
            intro e he o' ho'
            rcases Map.mem_put he with rfl | he
            · simp only [Option.some.injEq] at ho'; subst ho'
              exact hR po prev.new o n hpP (hcn.2 o rfl) (h _ hmem po hpo) hpk hc
            · exact herased e he o' ho'

theorem sameR_run (k : N → κ) (P : N → Prop) (R : N → N → Prop)
    (hR : ∀ a b c d, P b → P c → R a b → k b = k c → R c d → R a d) (cs : List (Call N)) :
    ∀ {cc : Collector κ N}, Prov k P cc → SameR R cc → (∀ c ∈ cs, CallNodes P c) → (∀ c ∈ cs, CallR R c) →
      SameR R (run k cc cs) := by
  induction cs with
  | nil => intro cc _ h _ _; exact h
  | cons c cs ih =>
    intro cc prov h hn hr
    exact ih (prov_step prov c (hn c (List.mem_cons_self ..)))
      (sameR_step k P R hR prov h c (hn c (List.mem_cons_self ..)) (hr c (List.mem_cons_self ..)))
      (fun c' hc' => hn c' (List.mem_cons_of_mem _ hc')) (fun c' hc' => hr c' (List.mem_cons_of_mem _ hc'))

end Collector

/-! ### the Kahn passes make progress when no change with a predecessor is blocked -/

/-- no pending change that records a predecessor is blocked by a pending change -/
def NoBlockedOld (H : Bytes → Bytes) (l : List (Change Ref)) : Prop :=
  ∀ a ∈ l, (∃ o, a.old = some o) → ∀ a' ∈ l, oldIs H (a.new.key H) a' = false

theorem noBlockedOld_sub {H : Bytes → Bytes} {l l' : List (Change Ref)} (h : NoBlockedOld H l) (hs : ∀ c ∈ l', c ∈ l) :
    NoBlockedOld H l' := fun a ha ho a' ha' => h a (hs a ha) ho a' (hs a' ha')

theorem orderPass_len (H : Bytes → Bytes) (cs : List (Change Ref)) (m : Map Bytes Nat) :
    (orderPass H cs m).1.length + (orderPass H cs m).2.1.length = cs.length := by
  have := (orderPass_perm H cs m).length_eq
  simpa [List.length_append] using this

/-- if a pass applies nothing, every change was blocked under the counters the pass started with -/
theorem orderPass_all_blocked (H : Bytes → Bytes) : ∀ (cs : List (Change Ref)) (m : Map Bytes Nat),
    (orderPass H cs m).2.1.length = cs.length → ∀ c ∈ cs, replCount m (c.new.key H) > 0 := by
  intro cs
  induction cs with
  | nil => intro m _ c hc; cases hc
  | cons c0 cs ih =>
    intro m hl c hc
    by_cases hb : replCount m (c0.new.key H) > 0
    · have hl' : (orderPass H cs m).2.1.length = cs.length := by
        simp only [orderPass, hb, if_true, List.length_cons] at hl
        omega
      rcases List.mem_cons.mp hc with rfl | hc
      · exact hb
      · exact ih m hl' c hc
    · exfalso
      rcases c0 with ⟨_ | o, n⟩
      · simp only [orderPass, hb, if_false, List.length_cons] at hl
        have := orderPass_len H cs m
        omega
      · simp only [orderPass, hb, if_false, List.length_cons] at hl
        have := orderPass_len H cs (Map.put m (o.key H) (replCount m (o.key H) - 1))
        omega

theorem orderLoop_not_stuck (H : Bytes → Bytes) : ∀ (fuel : Nat) (pending : List (Change Ref)) (m : Map Bytes Nat),
    pending.length < fuel → (∀ key, replCount m key = cnt H key pending) → NoBlockedOld H pending →
    orderStuckLoop H fuel pending m = false := by
  intro fuel
  induction fuel with
  | zero => intro pending m h; omega
  | succ fuel ih =>
    intro pending m hf hm hnb
    simp only [orderStuckLoop]
    split
    · rfl
    · rename_i hne
      have hm0 : ∀ key, replCount m key = cnt H key (pending ++ []) := by simpa using hm
      obtain ⟨h1, _, _⟩ := orderPass_spec H pending m [] hm0
      have hlen := orderPass_len H pending m
      split
      · -- a pass that applied nothing: impossible
        rename_i hall
        exfalso
        have hblk := orderPass_all_blocked H pending m hall
        have hex : ∀ c ∈ pending, ∃ a ∈ pending, oldIs H (c.new.key H) a = true := by
          intro c hc
          have := hblk c hc
          rw [hm] at this
          simp only [cnt] at this
          obtain ⟨a, ha, hoa⟩ := List.countP_pos_iff.mp this
          exact ⟨a, ha, hoa⟩
        cases hp : pending with
        | nil => simp [hp] at hne
        | cons b rest =>
          have hbmem : b ∈ pending := by rw [hp]; exact List.mem_cons_self ..
          obtain ⟨a, ha, hoa⟩ := hex b hbmem
          have haold : ∃ o, a.old = some o := by
            simp only [oldIs] at hoa
            cases hao : a.old with
            | none => rw [hao] at hoa; simp at hoa
            | some o => exact ⟨o, rfl⟩
          obtain ⟨a', ha', hoa'⟩ := hex a ha
          have := hnb a ha haold a' ha'
          rw [this] at hoa'
          cases hoa'
      · rename_i hnall
        have hsub : ∀ c ∈ (orderPass H pending m).2.1, c ∈ pending :=
          fun c hc => (orderPass_perm H pending m).subset (List.mem_append_right _ hc)
        apply ih
        · omega
        · simpa using h1
        · exact noBlockedOld_sub hnb hsub

/-- `orderChanges` is not stuck on a list in which no change with a predecessor is blocked -/
theorem not_stuck_of_noBlockedOld (H : Bytes → Bytes) (cs : List (Change Ref)) (h : NoBlockedOld H cs) :
    orderStuck H cs = false := by
  have hm : ∀ key, replCount (initCounts H cs) key = cnt H key cs := by
    intro key
    have := initCounts_spec H cs [] key
    simpa [initCounts, replCount] using this
  exact orderLoop_not_stuck H (cs.length + 1) cs (initCounts H cs) (by omega) hm h

/-! ### the events of a run replace in place; its collector is never stuck -/

theorem samePos_hR (H : Bytes → Bytes) (U : Ref → Prop) (hU : KeyInjOn H U) :
    ∀ a b c d : Ref, U b → U c → a.pos = b.pos → b.key H = c.key H → c.pos = d.pos → a.pos = d.pos := by
  intro a b c d hb hc h1 hk h2
  have := hU b c hb hc hk
  rw [h1, this, h2]

theorem callR_callsOf (H : Bytes → Bytes) (es : List Event) (hs : ∀ e ∈ es, SamePosEv e) :
    ∀ c ∈ callsOf H es, CallR (fun o n : Ref => o.pos = n.pos) c := by
  intro c hc
  simp only [callsOf, List.mem_filterMap] at hc
  obtain ⟨e, he, hce⟩ := hc
  have hse := hs e he
  cases e with
  | del o => simp [callOf] at hce; subst hce; trivial
  | put o n =>
    cases o with
    | none => simp [callOf] at hce; subst hce; trivial
    | some o =>
      simp only [callOf] at hce
      by_cases hk : o.key H = n.key H
      · simp [hk] at hce
      · simp [hk] at hce; subst hce; exact hse

/-- the facts about the collector of a freshly opened trie after a run -/
theorem run_collector_facts (H : Bytes → Bytes) (U : Ref → Prop) (hU : KeyInjOn H U) {Vok : Nat → Prop} {t t' : Node}
    {es : List Event} (hrun : TrieRun H U Vok t es t') (hw : WF t) (hUt : ∀ r ∈ refs t [], U r)
    (hs : ∀ e ∈ es, SamePosEv e) (c0 : Trie) (hfresh : c0.cc.changes = [] ∧ c0.cc.deletes = []) :
    NoBlockedOld H (c0.applyEvents H es).cc.getChanges ∧
    SameR (fun o n : Ref => o.pos = n.pos) (c0.applyEvents H es).cc := by
  obtain ⟨hd, _, _, hE, _⟩ := trieRun_discipline H U hU hrun hw hUt (fun x => x ∈ (refs t []).map (Ref.key H))
    (fun r hr => List.mem_map.mpr ⟨r, hr, rfl⟩)
    (by intro x hx; obtain ⟨r, hr, hk⟩ := List.mem_map.mp hx; exact ⟨r, hUt r hr, hk⟩)
  obtain ⟨inv, inv2, prov⟩ := collector_invs H _ c0 es hfresh hd
  have provU : Prov (Ref.key H) U (c0.applyEvents H es).cc :=
    ⟨fun e he => ⟨(prov.changes e he).1, hE _ (prov.changes e he).2.1, fun o ho => hE _ ((prov.changes e he).2.2 o ho)⟩,
     fun e he => ⟨(prov.deletes e he).1, hE _ (prov.deletes e he).2⟩⟩
  have hsame : SameR (fun o n : Ref => o.pos = n.pos) (c0.applyEvents H es).cc := by
    have hcc0 : c0.cc = { startRoot := c0.cc.startRoot } := by
      cases hb : c0.cc with
      | mk s c d => rw [hb] at hfresh; simp at hfresh; simp [hfresh.1, hfresh.2]
    rw [applyEvents_cc, hcc0]
    apply sameR_run (Ref.key H) U _ (samePos_hR H U hU) (callsOf H es) (prov_init _ _ _)
      (by intro e he; cases he)
    · intro c hc
      exact callNodes_mono (fun n hn => hE n hn) c (callNodes_callsOf H es c hc)
    · exact callR_callsOf H es hs
  refine ⟨?_, hsame⟩
  -- no change with a predecessor is blocked
  intro a ha ⟨o, hao⟩ a' ha'
  simp only [getChanges] at ha ha'
  obtain ⟨e, he, rfl⟩ := List.mem_map.mp ha
  obtain ⟨e', he', rfl⟩ := List.mem_map.mp ha'
  cases ho' : e'.2.old with
  | none => simp [oldIs, ho']
  | some o' =>
    by_cases hk : o'.key H = e.2.new.key H
    · exfalso
      have hg := Map.get_of_mem_nodup inv2.nodup he
      have hg' := Map.get_of_mem_nodup inv2.nodup he'
      have hoU : U o := (provU.changes e he).2.2 o hao
      have ho'U : U o' := (provU.changes e' he').2.2 o' ho'
      have hnU : U e.2.new := (provU.changes e he).2.1
      -- recorded predecessors are nodes of the start tree
      have horig : ∀ (x : Ref), U x → (x.key H ∈ (refs t []).map (Ref.key H)) → x ∈ refs t [] := by
        intro x hx hmem
        obtain ⟨r0, hr0, hk0⟩ := List.mem_map.mp hmem
        have := hU r0 x (hUt r0 hr0) hx hk0
        rw [← this]; exact hr0
      have hot : o ∈ refs t [] := horig o hoU (inv.old_original _ _ o hg hao)
      have ho't : o' ∈ refs t [] := horig o' ho'U (inv.old_original _ _ o' hg' ho')
      -- o' is the new node of e, which sits where e's predecessor o sat
      have ho'new : o' = e.2.new := hU o' e.2.new ho'U hnU hk
      have hpos : o'.pos = o.pos := by rw [ho'new]; exact (hsame e he o hao).symm
      have hoo : o' = o := refs_pos_inj t hw [] o' o ho't hot hpos
      have hkn : (Ref.key H) e.2.new = e.1 := (provU.changes e he).1
      exact inv2.old_ne e.1 e.2 o hg hao (by rw [← hoo, hk, hkn])
    · simp [oldIs, ho', hk]

/-- every event of a run replaces in place -/
theorem trieRun_samePos (H : Bytes → Bytes) (U : Ref → Prop) (hU : KeyInjOn H U) {Vok : Nat → Prop} {t t' : Node}
    {es : List Event} (h : TrieRun H U Vok t es t') : WF t → (∀ r ∈ refs t [], U r) → ∀ e ∈ es, SamePosEv e := by
  induction h with
  | nil t => intro _ _ e he; cases he
  | own v t t1 t' es1 es _ hr hE hrest ih =>
    intro hw hUt e he
    rcases List.mem_append.mp he with he | he
    · -- an own round: inserts and deletes
      have : ∀ {ta tb : Node} {el : List Event}, RoundEvents v ta el tb → ∀ e ∈ el, SamePosEv e := by
        intro ta tb el hre
        induction hre with
        | nil _ => intro e he; cases he
        | ins t p b es t' _ _ ih2 =>
          intro e he
          rcases List.mem_append.mp he with he | he
          · exact insertE_samePos v b t [] p e he
          · exact ih2 e he
        | del t n p ev es t' hEq _ ih2 =>
          intro e he
          rcases List.mem_append.mp he with he | he
          · have := deleteE_samePos v t [] p; rw [hEq] at this; exact this e he
          · exact ih2 e he
        | delLast t p ev es t' hEq _ ih2 =>
          intro e he
          rcases List.mem_append.mp he with he | he
          · have := deleteE_samePos v t [] p; rw [hEq] at this; exact this e he
          · exact ih2 e he
      exact this hr e he
    · obtain ⟨_, hc, hw1⟩ := round_ok hr hw (fun r => r ∈ refs t []) (fun _ h => h)
      have hUt1 : ∀ r ∈ refs t1 [], U r := by
        intro r hr'
        rcases liveRunR_sub es1 _ r (hc r hr') with h1 | h1
        · exact hUt r h1
        · exact hE r h1
      exact ih hw1 hUt1 e he
  | merge t t2 t' c0 esC es cs hfreshC hchild hpermcs hstuck hrest ihC ih =>
    intro hw hUt e he
    obtain ⟨_, _, hw2, _, hUt2⟩ := trieRun_discipline H U hU hchild hw hUt (fun x => x ∈ (refs t []).map (Ref.key H))
      (fun r hr => List.mem_map.mpr ⟨r, hr, rfl⟩)
      (by intro x hx; obtain ⟨r, hr, hk⟩ := List.mem_map.mp hx; exact ⟨r, hUt r hr, hk⟩)
    rcases List.mem_append.mp he with he | he
    · -- the replayed changes are entries of the child's collector
      obtain ⟨_, hsame⟩ := run_collector_facts H U hU hchild hw hUt (ihC hw hUt) c0 hfreshC
      simp only [mergeEvents, List.mem_append, List.mem_map] at he
      rcases he with ⟨c, hc, rfl⟩ | ⟨d, _, rfl⟩
      · have hc' : c ∈ (c0.applyEvents H esC).cc.getChanges := ((orderChanges_perm H cs).trans hpermcs).mem_iff.mp hc
        simp only [getChanges] at hc'
        obtain ⟨en, hen, rfl⟩ := List.mem_map.mp hc'
        cases ho : en.2.old with
        | none => simp [SamePosEv]
        | some o => simp only [SamePosEv]; exact hsame en hen o ho
      · trivial
    · exact ih hw2 hUt2 e he

/-- **The ordering of `mergeChanges` is never stuck** on (any permutation of) the pending changes of a trie that ran a
    `TrieRun` from a canonical tree with a fresh collector. -/
theorem trieRun_not_stuck (H : Bytes → Bytes) (U : Ref → Prop) (hU : KeyInjOn H U) {Vok : Nat → Prop} {t t' : Node}
    {es : List Event} (hrun : TrieRun H U Vok t es t') (hw : WF t) (hUt : ∀ r ∈ refs t [], U r)
    (c0 : Trie) (hfresh : c0.cc.changes = [] ∧ c0.cc.deletes = []) (cs : List (Change Ref))
    (hperm : cs.Perm (c0.applyEvents H es).cc.getChanges) : orderStuck H cs = false := by
  obtain ⟨hnb, _⟩ := run_collector_facts H U hU hrun hw hUt (trieRun_samePos H U hU hrun hw hUt) c0 hfresh
  exact not_stuck_of_noBlockedOld H cs (noBlockedOld_sub hnb (fun c hc => hperm.mem_iff.mp hc))

end Verif.MptStore
