/-
`iterate` on the state-trie model: it lists exactly the live (path, value) pairs, in strictly increasing
lexicographic path order (a proper prefix is smaller; this is core's `<` on `List (Fin 16)`).
-/
import Verif.Lemmas.MptBasic
namespace Verif.Mpt
set_option linter.unusedSimpArgs false

theorem append_lt_append_left_iff (c a b : List Nib) : c ++ a < c ++ b ↔ a < b := by
  induction c with
  | nil => simp
  | cons x c ih => simp [ih]

theorem lt_append_cons (pre : List Nib) (i : Nib) (r : List Nib) : pre < pre ++ i :: r := by
  have := (append_lt_append_left_iff pre [] (i :: r)).mpr (List.nil_lt_cons i r)
  simpa using this

theorem append_cons_lt_append_cons (pre : List Nib) {i j : Nib} (h : i < j) (r r' : List Nib) :
    pre ++ i :: r < pre ++ j :: r' := by
  rw [append_lt_append_left_iff, List.cons_lt_cons_iff]
  exact Or.inl h

/-- the entry a branch's own value contributes to the iteration -/
def valItems (pre : List Nib) : Option Bytes → List (List Nib × Bytes)
  | some b => if b = [] then [] else [(pre, b)]
  | none => []

theorem iterate_full (o : Nat) (ch : Nib → Node) (val : Option Bytes) (pre : List Nib) :
    iterate (.full o ch val) pre =
      valItems pre val ++ (List.finRange 16).flatMap (fun i => iterate (ch i) (pre ++ [i])) := by
  cases val <;> simp only [iterate, valItems]

theorem mem_valItems (pre : List Nib) (val : Option Bytes) (q : List Nib) (b : Bytes) :
    (q, b) ∈ valItems pre val ↔ q = pre ∧ live val = some b := by
  cases val with
  | none => simp [valItems]
  | some bv =>
    by_cases hbv : bv = []
    · simp [hbv, live, valItems]
    · simp [hbv, live, valItems, eq_comm]

theorem valItems_eq (pre : List Nib) (val : Option Bytes) : valItems pre val = [] ∨ ∃ b, valItems pre val = [(pre, b)] := by
  cases val with
  | none => left; rfl
  | some bv =>
    by_cases hbv : bv = []
    · left; simp [valItems, hbv]
    · right; exact ⟨bv, by simp [valItems, hbv]⟩

/-- membership in `iterate t pre`, for an arbitrary accumulated prefix -/
theorem iterate_mem_pre (t : Node) :
    ∀ (pre q : List Nib) (b : Bytes), WF t →
      ((q, b) ∈ iterate t pre ↔ ∃ r, q = pre ++ r ∧ lookup t r = some b) := by
  induction t with
  | empty => intro pre q b _; simp [iterate]
  | leaf o lp lv =>
    intro pre q b hwf
    have hlv : lv ≠ [] := WFn_of_WF_leaf hwf
    simp only [iterate, hlv, if_false, List.mem_singleton, Prod.mk.injEq, lookup_leaf_ne hlv]
    constructor
    · rintro ⟨rfl, rfl⟩
      exact ⟨lp, rfl, by simp⟩
    · rintro ⟨r, rfl, h⟩
      by_cases hr : r = lp
      · subst hr; simpa using h.symm
      · simp [hr] at h
  | full o ch val ih =>
    intro pre q b hwf
    have hch := fun i => WF_child hwf i
    rw [iterate_full, List.mem_append, List.mem_flatMap, mem_valItems]
    constructor
    · rintro (⟨rfl, h⟩ | ⟨i, _, h⟩)
      · exact ⟨[], by simp, by rwa [lookup_full_nil]⟩
      · obtain ⟨r, rfl, hr⟩ := (ih i _ _ _ (hch i)).mp h
        exact ⟨i :: r, by simp, by simpa using hr⟩
    · rintro ⟨r, rfl, h⟩
      rcases r with _ | ⟨i, r⟩
      · left; exact ⟨by simp, by rwa [lookup_full_nil] at h⟩
      · right
        refine ⟨i, List.mem_finRange i, (ih i _ _ _ (hch i)).mpr ⟨r, by simp, by simpa using h⟩⟩
  | ext o ep c ih =>
    intro pre q b hwf
    obtain ⟨hep, hfull, hc⟩ := WFn_of_WF_ext hwf
    rw [iterate, ih _ _ _ (Or.inr hc)]
    constructor
    · rintro ⟨r, rfl, h⟩
      exact ⟨ep ++ r, by simp, by rwa [lookup_ext_append _ hep]⟩
    · rintro ⟨r, rfl, h⟩
      by_cases hp : ep <+: r
      · obtain ⟨r', rfl⟩ := hp
        exact ⟨r', by simp, by rwa [lookup_ext_append _ hep] at h⟩
      · rw [lookup_ext_of_not_prefix _ hp] at h
        cases h

theorem iterate_sorted_pre (t : Node) :
    ∀ (pre : List Nib), WF t → (iterate t pre).Pairwise (fun a c => a.1 < c.1) := by
  induction t with
  | empty => intro pre _; simp [iterate]
  | leaf o lp lv => intro pre _; rw [iterate]; split <;> simp
  | full o ch val ih =>
    intro pre hwf
    have hch := fun i => WF_child hwf i
    rw [iterate_full, List.pairwise_append]
    refine ⟨?_, ?_, ?_⟩
    · rcases valItems_eq pre val with h | ⟨b, h⟩ <;> simp [h]
    · rw [List.pairwise_flatMap]
      refine ⟨fun i _ => ih i _ (hch i), ?_⟩
      refine List.Pairwise.imp ?_ (List.pairwise_lt_finRange 16)
      intro i j hij x hx y hy
      obtain ⟨r, hr, _⟩ := (iterate_mem_pre (ch i) _ x.1 x.2 (hch i)).mp hx
      obtain ⟨r', hr', _⟩ := (iterate_mem_pre (ch j) _ y.1 y.2 (hch j)).mp hy
      rw [hr, hr']
      simpa using append_cons_lt_append_cons pre hij r r'
    · intro a ha c hc
      have ha' : a.1 = pre := ((mem_valItems pre val a.1 a.2).mp ha).1
      rw [List.mem_flatMap] at hc
      obtain ⟨i, _, hc⟩ := hc
      obtain ⟨r, hr, _⟩ := (iterate_mem_pre (ch i) _ c.1 c.2 (hch i)).mp hc
      rw [ha', hr]
      simpa using lt_append_cons pre i r
  | ext o ep c ih =>
    intro pre hwf
    obtain ⟨hep, hfull, hc⟩ := WFn_of_WF_ext hwf
    rw [iterate]
    exact ih _ (Or.inr hc)

end Verif.Mpt
