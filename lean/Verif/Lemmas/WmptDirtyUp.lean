/-
`DirtyUp` ("a branch that is not dirty has no dirty child", Verif.Lemmas.WmptImport) is an invariant of the trie: it holds
for the empty trie and for every loaded node, and the operations maintain it:
  1. `deserializeNode_allClean`, `resolveHash_dirtyUp`, `dirtyUp_loaded`   : loaded nodes are clean all the way down;
  2. `dirtyUp_calcHash`                                                   : `CalcHash` leaves the flags alone;
  3. `insert_dirtyUp` (unconditional), `insert_dirty_or_same` / `insert_dirty_or_old` (what the parent sees);
  4. `delete_dirtyUp` (success), `delete_notFound` / `delete_err` (failure): a failed `delete` leaves the node as it was,
     EXCEPT when the load of the last remaining child of a branch fails (`kvNotFound`, decoding error, slice panic): Go
     has flagged that branch already, its ancestors not yet, so `DirtyUp` is lost along that one path (`DirtyUp1`);
  5. `commitNode_allClean`, `commit_allClean`                              : with `Proper`, `Commit` saves every dirty node;
  6. `markToCollect_dirtyUp`, `markAll_dirtyUp`, `markKids_dirtyUp`, `markParallel_dirtyUp`, `markRoot_dirtyUp` (both
     collection strategies of `GetPath`), `loadRoot_dirtyUp`, `markedRoot_dirtyUp`;
  7. `update_dirtyUp`, `deleteKey_dirtyUp`, `rootHash_dirtyUp`, `dirtyUp_normRoot`, `commit_root_dirtyUp`;
  8.-10. `getPath_dirtyUp`, `blockProof_dirtyUp`, `importTrie_dirtyUp`, `rollback_dirtyUp`, `rollbackTrie_dirtyUp`,
     `copyRoot_allClean`.
Core Lean only.
-/
import Verif.Lemmas.WmptImport
import Verif.Lemmas.WmptMark
namespace Verif.Wmpt

/-- every value / short / branch node of the tree is saved (`dirty = false`) -/
def AllClean : WN → Prop
  | .value _ _ _ d => d = false
  | .short _ _ c d _ => d = false ∧ AllClean c
  | .routing _ ch _ d _ => d = false ∧ ∀ i, AllClean (ch i)
  | _ => True

theorem AllClean.dirty {n : WN} (h : AllClean n) : n.dirty = false := by
  cases n <;> simp_all [AllClean, WN.dirty]

theorem AllClean.dirtyUp {n : WN} (h : AllClean n) : DirtyUp n := by
  induction n with
  | short k hh c d tc ih => exact ih h.2
  | routing hh ch w d tc ih => exact ⟨fun _ i => (h.2 i).dirty, fun i => ih i (h.2 i)⟩
  | _ => trivial

theorem AllClean.kidsClean {n : WN} (h : AllClean n) : KidsClean n := by
  cases n with
  | short k hh c d tc => exact h.2.dirty
  | routing hh ch w d tc => exact fun i => (h.2 i).dirty
  | _ => trivial

/-- with the short-node clause of `Proper`, a node that is not dirty has no dirty node below it -/
theorem allClean_of_clean {n : WN} : DirtyUp n → Proper n → n.dirty = false → AllClean n := by
  induction n with
  | nil => intros; trivial
  | empty => intros; trivial
  | hashRef h w => intros; trivial
  | value h v w d => intro _ _ hd; exact hd
  | short k hh c d tc ih =>
    intro hu hp hd
    exact ⟨hd, ih hu hp.2.2.2 (hp.2.2.1 hd)⟩
  | routing hh ch w d tc ih =>
    intro hu hp hd
    exact ⟨hd, fun i => ih i (hu.2 i) (hp i).2 (hu.1 hd i)⟩

/-! ### 1. loaded nodes -/

theorem deserializeChild_allClean {c : Bytes} {n : WN} (h : deserializeChild c = .ok (some n)) : AllClean n := by
  unfold deserializeChild at h
  repeat' split at h
  all_goals first
    | (injection h with h; injection h with h; subst h; simp [AllClean])
    | cases h

theorem deserializeChildren_allClean : ∀ (l : List Bytes) (ns : List WN) (w : Nat),
    deserializeChildren l = .ok (ns, w) → ∀ n ∈ ns, AllClean n := by
  intro l
  induction l with
  | nil =>
    intro ns w h n hn
    simp only [deserializeChildren, Res.ok.injEq, Prod.mk.injEq] at h
    rw [← h.1] at hn; cases hn
  | cons c rest ih =>
    intro ns w h n hn
    simp only [deserializeChildren] at h
    split at h
    · cases h
    · rename_i o ho
      split at h
      · cases h
      · rename_i ns' w' hr
        split at h
        · rename_i node
          simp only [Res.ok.injEq, Prod.mk.injEq] at h
          rw [← h.1] at hn
          rcases List.mem_cons.mp hn with rfl | hn
          · exact deserializeChild_allClean ho
          · exact ih ns' w' hr n hn
        · simp only [Res.ok.injEq, Prod.mk.injEq] at h
          rw [← h.1] at hn
          rcases List.mem_cons.mp hn with rfl | hn
          · trivial
          · exact ih ns' w' hr n hn

theorem ofList_allClean {ns : List WN} (h : ∀ n ∈ ns, AllClean n) (i : Nib) : AllClean (ofList ns i) := by
  simp only [ofList, List.getD_eq_getElem?_getD]
  cases hg : ns[i.val]? with
  | none => trivial
  | some x => exact h x (List.mem_of_getElem? hg)

/-- 1. what `DeserializeNode` returns is clean all the way down -/
theorem deserializeNode_allClean {p : PBase} {n : WN} (h : deserializeNode p = .ok n) : AllClean n := by
  unfold deserializeNode at h
  split at h
  · split at h
    · cases h
    · split at h
      · cases h
      · rename_i ns w hr
        injection h with h; subst h
        exact ⟨rfl, ofList_allClean (deserializeChildren_allClean _ ns w hr)⟩
  · repeat' split at h
    all_goals first
      | (injection h with h; subst h; simp [AllClean])
      | cases h

theorem deserializeNode_dirtyUp {p : PBase} {n : WN} (h : deserializeNode p = .ok n) :
    n.dirty = false ∧ DirtyUp n ∧ KidsClean n :=
  have hc := deserializeNode_allClean h
  ⟨hc.dirty, hc.dirtyUp, hc.kidsClean⟩

theorem resolveHash_allClean {hasDb : Bool} {s : Store} {h : Bytes} {n : WN} (hr : resolveHash hasDb s h = .ok n) :
    AllClean n := by
  unfold resolveHash at hr
  repeat' split at hr
  all_goals first
    | exact deserializeNode_allClean hr
    | cases hr

theorem resolveHash_dirtyUp {hasDb : Bool} {s : Store} {h : Bytes} {n : WN} (hr : resolveHash hasDb s h = .ok n) :
    DirtyUp n ∧ n.dirty = false :=
  ⟨(resolveHash_allClean hr).dirtyUp, (resolveHash_allClean hr).dirty⟩

theorem resolveNode_dirtyUp {hasDb : Bool} {s : Store} {n m : WN} (hr : resolveNode hasDb s n = .ok m)
    (hu : DirtyUp n) : DirtyUp m := by
  unfold resolveNode at hr
  split at hr
  · injection hr with hr; subst hr; exact hu
  · split at hr
    · exact (resolveHash_dirtyUp hr).1
    · injection hr with hr; subst hr; exact hu

theorem allClean_refOf (H : Bytes → Bytes) (t : PT) : AllClean (PT.refOf H t) := by
  cases t <;> simp [PT.refOf, AllClean]

theorem allClean_loaded (H : Bytes → Bytes) (t : PT) : AllClean (PT.loaded H t) := by
  cases t with
  | branch ch => exact ⟨rfl, fun i => allClean_refOf H (ch i)⟩
  | _ => simp [PT.loaded, AllClean]

theorem dirtyUp_loaded (H : Bytes → Bytes) (t : PT) : DirtyUp (PT.loaded H t) := (allClean_loaded H t).dirtyUp

/-! ### 2. `CalcHash` leaves the flags alone -/

theorem dirtyUp_calcHash (H : Bytes → Bytes) (n : WN) : DirtyUp (calcHash H n).1 ↔ DirtyUp n := by
  induction n with
  | nil => exact Iff.rfl
  | empty => exact Iff.rfl
  | hashRef h w => exact Iff.rfl
  | value h v w d => cases d <;> exact Iff.rfl
  | short k h c d tc ih =>
    cases d with
    | false => exact Iff.rfl
    | true =>
      by_cases hn : c.isNil = true
      · cases c <;> simp_all [calcHash, DirtyUp, WN.isNil]
      · simp only [calcHash, hn, if_true, Bool.false_eq_true, if_false, DirtyUp, ih]
  | routing h ch w d tc ih =>
    cases d with
    | false => exact Iff.rfl
    | true =>
      simp only [calcHash, if_true, DirtyUp, List.map_map, Function.comp_def, ofList_map_allNib, ih, calcHash_fst_dirty]

theorem allClean_calcHash (H : Bytes → Bytes) {n : WN} (h : AllClean n) : (calcHash H n).1 = n :=
  calcHash_of_clean H n h.dirty

/-! ### 3. `insert` -/

theorem dirtyUp_upd {ch : Nib → WN} {x : WN} (k : Nib) (hc : ∀ i, DirtyUp (ch i)) (hx : DirtyUp x) :
    ∀ i, DirtyUp (upd ch k x i) := by
  intro i; unfold upd; split
  · exact hx
  · exact hc i

theorem dirtyUp_mkShort (key : Bytes) (v : WN) : DirtyUp (mkShort key v) ↔ DirtyUp v := by
  unfold mkShort; split <;> simp [DirtyUp]

theorem dirtyUp_noCh (i : Nib) : DirtyUp (noCh i) := trivial

/-- 3. `insert` keeps `DirtyUp`, also when it fails (the failed result carries the flags set on the way down) -/
theorem insert_dirtyUp (hasDb : Bool) (s : Store) : ∀ (fuel : Nat) (n : WN) (key : List Nib) (value : WN),
    DirtyUp n → DirtyUp value → DirtyUp (insert hasDb s fuel n key value).node := by
  intro fuel
  induction fuel with
  | zero => intro n key value hn _; exact hn
  | succ fuel ih =>
    intro n key value hn hv
    cases key with
    | nil =>
      cases n with
      | hashRef h w =>
        simp only [insert]
        cases hr : resolveHash hasDb s h with
        | err e => exact hn
        | ok rn =>
          simp only
          split
          · split
            · split <;> trivial
            · exact hn
          · exact hv
      | value vh vv vw vd =>
        simp only [insert]
        split
        · split <;> trivial
        · trivial
      | nil => exact hv
      | empty => exact hv
      | short k h c d tc => exact hv
      | routing h ch w d tc => exact hv
    | cons k ks =>
      cases n with
      | nil => exact hv
      | empty => exact hv
      | value vh vv vw vd => trivial
      | hashRef h w =>
        simp only [insert]
        cases hr : resolveHash hasDb s h with
        | err e => trivial
        | ok rn =>
          simp only
          split
          · trivial
          · exact ih rn (k :: ks) value (resolveHash_dirtyUp hr).1 hv
      | routing h ch w d tc =>
        have hc := dirtyUp_upd k hn.2 (ih (ch k) ks value (hn.2 k) hv)
        simp only [insert]
        split
        · exact ⟨by simp, hc⟩
        · exact ⟨by simp, hc⟩
      | short key h c d tc =>
        have hcu : DirtyUp c := hn
        simp only [insert]
        split
        · exact ih c _ value hcu hv
        · split
          · split
            · refine ⟨by simp, ?_⟩
              exact dirtyUp_upd _ (dirtyUp_upd _ dirtyUp_noCh ((dirtyUp_mkShort _ _).mpr hcu)) ((dirtyUp_mkShort _ _).mpr hv)
            · refine ⟨by simp, ?_⟩
              exact dirtyUp_upd _ (dirtyUp_upd _ dirtyUp_noCh ((dirtyUp_mkShort _ _).mpr hcu)) ((dirtyUp_mkShort _ _).mpr hv)
          · exact hcu

/-- 3'. what the parent of a successful `insert` sees: the new child is dirty, except for the same-value rewrite at the
    end of the key, which hands back the old value node (loaded first when the child was a reference) -/
theorem insert_dirty_or_same (hasDb : Bool) (s : Store) : ∀ (fuel : Nat) (n : WN) (key : List Nib) (value : WN),
    value.dirty = true → (insert hasDb s fuel n key value).err = none →
    (insert hasDb s fuel n key value).node.dirty = true ∨
    (key = [] ∧ (insert hasDb s fuel n key value).change = 0 ∧ (insert hasDb s fuel n key value).td = [] ∧
      ∃ vh vv vw vd, (insert hasDb s fuel n key value).node = .value vh vv vw vd ∧
        (n = .value vh vv vw vd ∨ ∃ h w, n = .hashRef h w ∧ resolveHash hasDb s h = .ok (.value vh vv vw vd))) := by
  intro fuel
  induction fuel with
  | zero => intro n key value _ he; simp [insert] at he
  | succ fuel ih =>
    intro n key value hv he
    cases key with
    | nil =>
      cases n with
      | hashRef h w =>
        simp only [insert] at he ⊢
        cases hr : resolveHash hasDb s h with
        | err e => rw [hr] at he; simp at he
        | ok rn =>
          rw [hr] at he
          cases rn with
          | value vh vv vw vd =>
            cases value with
            | value nh nv nw nd =>
              simp only at he ⊢
              by_cases hvv : vv = nv
              · right
                rw [if_pos hvv]
                exact ⟨trivial, rfl, rfl, vh, vv, vw, vd, rfl, Or.inr ⟨h, w, rfl, hr⟩⟩
              · left; rw [if_neg hvv]; rfl
            | _ => simp at he
          | _ => left; exact hv
      | value vh vv vw vd =>
        simp only [insert] at he ⊢
        cases value with
        | value nh nv nw nd =>
          simp only at he ⊢
          by_cases hvv : vv = nv
          · right
            rw [if_pos hvv]
            exact ⟨trivial, rfl, rfl, vh, vv, vw, vd, rfl, Or.inl rfl⟩
          · left; rw [if_neg hvv]; rfl
        | _ => simp at he
      | nil => left; exact hv
      | empty => left; exact hv
      | short k h c d tc => left; exact hv
      | routing h ch w d tc => left; exact hv
    | cons k ks =>
      left
      cases n with
      | nil => rfl
      | empty => rfl
      | value vh vv vw vd => simp [insert] at he
      | hashRef h w =>
        simp only [insert] at he ⊢
        cases hr : resolveHash hasDb s h with
        | err e => rw [hr] at he; simp at he
        | ok rn =>
          rw [hr] at he
          simp only at he ⊢
          split
          · rename_i e he'
            rw [he'] at he; simp at he
          · rename_i he'
            rw [he'] at he
            rcases ih rn (k :: ks) value hv he with hd | ⟨hk, _⟩
            · exact hd
            · cases hk
      | routing h ch w d tc =>
        simp only [insert]
        split <;> rfl
      | short key h c d tc =>
        simp only [insert]
        split
        · rfl
        · split
          · split <;> rfl
          · rfl

/-- below a non-empty key a successful `insert` always hands back a dirty node -/
theorem insert_dirty_of_key (hasDb : Bool) (s : Store) (fuel : Nat) (n : WN) (k : Nib) (ks : List Nib) (value : WN)
    (hv : value.dirty = true) (he : (insert hasDb s fuel n (k :: ks) value).err = none) :
    (insert hasDb s fuel n (k :: ks) value).node.dirty = true := by
  rcases insert_dirty_or_same hasDb s fuel n (k :: ks) value hv he with h | ⟨h, _⟩
  · exact h
  · cases h

/-- the form the parent needs: the new child is dirty, or it is the old child, or the old child was a reference and the
    new child is the (clean) node it was loaded to -/
theorem insert_dirty_or_old (hasDb : Bool) (s : Store) (fuel : Nat) (n : WN) (key : List Nib) (value : WN)
    (hv : value.dirty = true) (he : (insert hasDb s fuel n key value).err = none) :
    (insert hasDb s fuel n key value).node.dirty = true ∨ (insert hasDb s fuel n key value).node = n ∨
    (∃ h w, n = .hashRef h w ∧ resolveHash hasDb s h = .ok (insert hasDb s fuel n key value).node ∧
      AllClean (insert hasDb s fuel n key value).node) := by
  rcases insert_dirty_or_same hasDb s fuel n key value hv he with h | ⟨_, _, _, vh, vv, vw, vd, e, h | ⟨h, w, h1, h2⟩⟩
  · exact Or.inl h
  · exact Or.inr (Or.inl (by rw [e, h]))
  · right; right
    rw [e]
    exact ⟨h, w, h1, h2, resolveHash_allClean h2⟩

/-! ### 4. `delete` -/

theorem slice_err {b : Bytes} {lo hi : Nat} {e : Err} (h : slice b lo hi = .err e) : e = .panic := by
  unfold slice at h; split at h
  · cases h
  · injection h with h; exact h.symm

theorem sliceFrom_err {b : Bytes} {lo : Nat} {e : Err} (h : sliceFrom b lo = .err e) : e = .panic := by
  unfold sliceFrom at h; split at h
  · cases h
  · injection h with h; exact h.symm

theorem uint64At_err {b : Bytes} {e : Err} (h : uint64At b = .err e) : e = .panic := by
  unfold uint64At at h; split at h
  · cases h
  · injection h with h; exact h.symm

theorem deserializeChild_err {c : Bytes} {e : Err} (h : deserializeChild c = .err e) : e = .other ∨ e = .panic := by
  unfold deserializeChild at h
  repeat' split at h
  all_goals first
    | (injection h with h; subst h
       first
         | (left; rfl)
         | (right; apply slice_err; assumption)
         | (right; apply sliceFrom_err; assumption)
         | (right; apply uint64At_err; assumption))
    | cases h

theorem deserializeChildren_err : ∀ (l : List Bytes) (e : Err), deserializeChildren l = .err e → e = .other ∨ e = .panic := by
  intro l
  induction l with
  | nil => intro e h; cases h
  | cons c rest ih =>
    intro e h
    simp only [deserializeChildren] at h
    split at h
    · rename_i e' hc
      injection h with h; subst h
      exact deserializeChild_err hc
    · split at h
      · rename_i e' hc
        injection h with h; subst h
        exact ih _ hc
      · split at h <;> cases h

/-- `DeserializeNode` fails with a generic error or with a slice panic only -/
theorem deserializeNode_err {p : PBase} {e : Err} (h : deserializeNode p = .err e) : e = .other ∨ e = .panic := by
  unfold deserializeNode at h
  repeat' split at h
  all_goals first
    | (injection h with h; subst h
       first
         | (left; rfl)
         | (apply deserializeChildren_err; assumption)
         | (right; apply slice_err; assumption)
         | (right; apply sliceFrom_err; assumption)
         | (right; apply uint64At_err; assumption))
    | cases h

/-- the errors of `resolveHashNode` -/
theorem resolveHash_err {hasDb : Bool} {s : Store} {h : Bytes} {e : Err} (hr : resolveHash hasDb s h = .err e) :
    (hasDb = false ∧ e = .noDb) ∨ (hasDb = true ∧ (e = .kvNotFound ∨ e = .other ∨ e = .panic)) := by
  unfold resolveHash at hr
  cases hasDb with
  | false => left; simp at hr; exact ⟨rfl, hr.symm⟩
  | true =>
    right
    refine ⟨rfl, ?_⟩
    simp only [Bool.not_true, Bool.false_eq_true, if_false] at hr
    repeat' split at hr
    all_goals first
      | (injection hr with hr; subst hr; simp)
      | (right; exact deserializeNode_err hr)

theorem resolveNode_err {hasDb : Bool} {s : Store} {n : WN} {e : Err} (hr : resolveNode hasDb s n = .err e) :
    hasDb = true ∧ (e = .kvNotFound ∨ e = .other ∨ e = .panic) := by
  unfold resolveNode at hr
  split at hr
  · cases hr
  · split at hr
    · rcases resolveHash_err hr with ⟨h1, _⟩ | h2
      · simp_all
      · exact h2
    · cases hr

/-- `DirtyUp` up to the flags along one path from the root: what a `delete` that failed on the storage leaves behind.
    (Go flags a branch before it loads the last remaining child for the merge; when that load fails the branch is
    flagged and has lost the deleted child, while its ancestors have not been flagged yet.) -/
inductive DirtyUp1 : WN → Prop
  | here {n : WN} : DirtyUp n → DirtyUp1 n
  | short (k h : Bytes) (c : WN) (d tc : Bool) : DirtyUp1 c → DirtyUp1 (.short k h c d tc)
  | routing (h : Bytes) (ch : Nib → WN) (w : Nat) (d tc : Bool) (k : Nib) :
      (∀ i, i ≠ k → DirtyUp (ch i) ∧ (d = false → (ch i).dirty = false)) → DirtyUp1 (ch k) →
      DirtyUp1 (.routing h ch w d tc)

/-- what `delete` guarantees about its result `r` on a node `n` -/
def DelDirtyInv (hasDb : Bool) (n : WN) (r : DRes) : Prop :=
  (r.err = none → DirtyUp r.node) ∧
  ∀ e, r.err = some e →
    r.node = n ∨ (hasDb = true ∧ (e = .kvNotFound ∨ e = .other ∨ e = .panic) ∧ DirtyUp1 r.node)

theorem delete_inv (H : Bytes → Bytes) (hasDb : Bool) (s : Store) : ∀ (fuel : Nat) (n : WN) (key : List Nib),
    DirtyUp n → DelDirtyInv hasDb n (delete H hasDb s fuel n key) := by
  intro fuel
  induction fuel with
  | zero => intro n key hn; exact ⟨fun he => by simp [delete] at he, fun e _ => Or.inl rfl⟩
  | succ fuel ih =>
    intro n key hn
    cases n with
    | nil => exact ⟨fun he => by simp [delete] at he, fun e _ => Or.inl rfl⟩
    | empty => exact ⟨fun he => by simp [delete] at he, fun e _ => Or.inl rfl⟩
    | value h v w d =>
      simp only [delete]
      split
      · exact ⟨fun he => by simp at he, fun e _ => Or.inl rfl⟩
      · exact ⟨fun _ => trivial, fun e he => by simp at he⟩
    | hashRef h w =>
      simp only [delete]
      cases hr : resolveHash hasDb s h with
      | err e => exact ⟨fun he => by simp at he, fun e _ => Or.inl rfl⟩
      | ok rn =>
        simp only
        obtain ⟨i1, i2⟩ := ih rn key (resolveHash_dirtyUp hr).1
        generalize delete H hasDb s fuel rn key = r at i1 i2 ⊢
        obtain ⟨rn', rc, re, rt⟩ := r
        cases re with
        | some e => exact ⟨fun he => by simp at he, fun e _ => Or.inl rfl⟩
        | none => exact ⟨fun _ => i1 rfl, fun e he => by simp at he⟩
    | short sk h c d tc =>
      have hcu : DirtyUp c := hn
      simp only [delete]
      split
      · exact ⟨fun he => by simp at he, fun e _ => Or.inl rfl⟩
      · split
        · exact ⟨fun _ => trivial, fun e he => by simp at he⟩
        · obtain ⟨i1, i2⟩ := ih c (key.drop sk.length) hcu
          generalize delete H hasDb s fuel c (key.drop sk.length) = r at i1 i2 ⊢
          obtain ⟨rn, rc, re, rt⟩ := r
          cases re with
          | some e =>
            simp only at i2 ⊢
            refine ⟨fun he => by simp at he, fun e' he => ?_⟩
            simp only [Option.some.injEq] at he; subst he
            rcases i2 e rfl with h1 | ⟨h1, h2, h3⟩
            · left; rw [h1]
            · right; exact ⟨h1, h2, DirtyUp1.short sk h rn d tc h3⟩
          | none =>
            simp only at i1 ⊢
            have hr : DirtyUp rn := i1 trivial
            split
            · exact ⟨fun _ => trivial, fun e he => by simp at he⟩
            · exact ⟨fun _ => hr, fun e he => by simp at he⟩
            · exact ⟨fun _ => hr, fun e he => by simp at he⟩
    | routing h ch w d tc =>
      cases key with
      | nil => exact ⟨fun he => by simp [delete] at he, fun e _ => Or.inl rfl⟩
      | cons k ks =>
        simp only [delete]
        obtain ⟨i1, i2⟩ := ih (ch k) ks (hn.2 k)
        generalize delete H hasDb s fuel (ch k) ks = r at i1 i2 ⊢
        obtain ⟨rn, rc, re, rt⟩ := r
        cases re with
        | some e =>
          simp only at i2 ⊢
          refine ⟨fun he => by simp at he, fun e' he => ?_⟩
          simp only [Option.some.injEq] at he; subst he
          rcases i2 e rfl with h1 | ⟨h1, h2, h3⟩
          · left; rw [h1, RepOps.upd_self]
          · right
            refine ⟨h1, h2, DirtyUp1.routing h _ w d tc k ?_ ?_⟩
            · intro i hi
              rw [Mark.upd_other _ _ hi]
              exact ⟨hn.2 i, fun hd => hn.1 hd i⟩
            · rw [Mark.upd_same]; exact h3
        | none =>
          simp only at i1 ⊢
          have hr : DirtyUp rn := i1 trivial
          have hc := dirtyUp_upd k hn.2 hr
          split
          · exact ⟨fun _ => ⟨by simp, hc⟩, fun e he => by simp at he⟩
          · split
            · exact ⟨fun _ => ⟨by simp, hc⟩, fun e he => by simp at he⟩
            · rename_i pos hpos
              split
              · rename_i e hre
                refine ⟨fun he => by simp at he, fun e' he => ?_⟩
                simp only [Option.some.injEq] at he; subst he
                right
                exact ⟨(resolveNode_err hre).1, (resolveNode_err hre).2, DirtyUp1.here ⟨by simp, hc⟩⟩
              · rename_i cn hre
                have hcn := resolveNode_dirtyUp hre (hc pos)
                split
                · exact ⟨fun _ => hcn, fun e he => by simp at he⟩
                · exact ⟨fun _ => hc pos, fun e he => by simp at he⟩

/-- 4. a successful `delete` keeps `DirtyUp` -/
theorem delete_dirtyUp (H : Bytes → Bytes) (hasDb : Bool) (s : Store) (fuel : Nat) (n : WN) (key : List Nib)
    (hn : DirtyUp n) (he : (delete H hasDb s fuel n key).err = none) : DirtyUp (delete H hasDb s fuel n key).node :=
  (delete_inv H hasDb s fuel n key hn).1 he

/-- 4. a failed `delete` either leaves the node as it was, or it failed on the storage (`kvNotFound`, a decoding error or
    a slice panic, with a database attached) and `DirtyUp` holds up to the flags of the ancestors of the failure -/
theorem delete_err (H : Bytes → Bytes) (hasDb : Bool) (s : Store) (fuel : Nat) (n : WN) (key : List Nib) (e : Err)
    (hn : DirtyUp n) (he : (delete H hasDb s fuel n key).err = some e) :
    (delete H hasDb s fuel n key).node = n ∨
    (hasDb = true ∧ (e = .kvNotFound ∨ e = .other ∨ e = .panic) ∧ DirtyUp1 (delete H hasDb s fuel n key).node) :=
  (delete_inv H hasDb s fuel n key hn).2 e he

/-- 4. key not found: the node is unchanged -/
theorem delete_notFound (H : Bytes → Bytes) (hasDb : Bool) (s : Store) (fuel : Nat) (n : WN) (key : List Nib)
    (hn : DirtyUp n) (he : (delete H hasDb s fuel n key).err = some .notFound) :
    (delete H hasDb s fuel n key).node = n := by
  rcases delete_err H hasDb s fuel n key _ hn he with h | ⟨_, h | h | h, _⟩
  · exact h
  all_goals cases h

/-- 4. without a database every failure leaves the node unchanged -/
theorem delete_err_noDb (H : Bytes → Bytes) (s : Store) (fuel : Nat) (n : WN) (key : List Nib) (e : Err)
    (hn : DirtyUp n) (he : (delete H false s fuel n key).err = some e) : (delete H false s fuel n key).node = n := by
  rcases delete_err H false s fuel n key e hn he with h | ⟨h, _⟩
  · exact h
  · cases h

/-- 4. the cases in which `DirtyUp` survives `delete`: success, and every failure that is not a storage failure -/
theorem delete_dirtyUp_of (H : Bytes → Bytes) (hasDb : Bool) (s : Store) (fuel : Nat) (n : WN) (key : List Nib)
    (hn : DirtyUp n)
    (he : ∀ e, (delete H hasDb s fuel n key).err = some e → e ≠ .kvNotFound ∧ e ≠ .other ∧ e ≠ .panic) :
    DirtyUp (delete H hasDb s fuel n key).node := by
  cases hr : (delete H hasDb s fuel n key).err with
  | none => exact delete_dirtyUp H hasDb s fuel n key hn hr
  | some e =>
    obtain ⟨h1, h2, h3⟩ := he e hr
    rcases delete_err H hasDb s fuel n key e hn hr with h | ⟨_, h | h | h, _⟩
    · rw [h]; exact hn
    · exact absurd h h1
    · exact absurd h h2
    · exact absurd h h3

/-- 4. in every case the weak form holds -/
theorem delete_dirtyUp1 (H : Bytes → Bytes) (hasDb : Bool) (s : Store) (fuel : Nat) (n : WN) (key : List Nib)
    (hn : DirtyUp n) : DirtyUp1 (delete H hasDb s fuel n key).node := by
  cases hr : (delete H hasDb s fuel n key).err with
  | none => exact DirtyUp1.here (delete_dirtyUp H hasDb s fuel n key hn hr)
  | some e =>
    rcases delete_err H hasDb s fuel n key e hn hr with h | ⟨_, _, h⟩
    · rw [h]; exact DirtyUp1.here hn
    · exact h

/-! ### 5. `commit` -/

theorem saveNode_value_node (H : Bytes → Bytes) (h v : Bytes) (w : Nat) :
    (saveNode H (.value h v w true)).1 = .value (H (be64 w ++ v)) v w false := by
  simp [saveNode, serializeP, calcHash]

theorem saveNode_short_node (H : Bytes → Bytes) (k h : Bytes) (c : WN) (tc : Bool) :
    ∃ h', (saveNode H (.short k h c true tc)).1 = .short k h' (calcHash H c).1 false false := by
  by_cases hn : c.isNil = true
  · cases c <;> simp_all [saveNode, serializeP, calcHash, WN.isNil]
  · simp [saveNode, serializeP, calcHash, hn]

theorem saveNode_routing_node (H : Bytes → Bytes) (h : Bytes) (ch : Nib → WN) (w : Nat) (tc : Bool) :
    ∃ h', (saveNode H (.routing h ch w true tc)).1 = .routing h' (fun i => (calcHash H (ch i)).1) w false false := by
  simp [saveNode, serializeP, calcHash, List.map_map, Function.comp_def, ofList_map_allNib']

theorem saveNode_routing_allClean (H : Bytes → Bytes) (h : Bytes) {ch : Nib → WN} (w : Nat) (tc : Bool)
    (hk : ∀ i, AllClean (ch i)) : AllClean (saveNode H (.routing h ch w true tc)).1 := by
  obtain ⟨h', e⟩ := saveNode_routing_node H h ch w tc
  rw [e]
  exact ⟨rfl, fun i => by show AllClean (calcHash H (ch i)).1; rw [allClean_calcHash H (hk i)]; exact hk i⟩

theorem commitKid_allClean (H : Bytes → Bytes) (collapse : Int) (lvl : Nat) {c : WN} (hu : DirtyUp c) (hp : Proper c)
    (ih : AllClean (commitNode H collapse lvl c).node) : AllClean (commitKid H collapse lvl c).node := by
  unfold commitKid
  split
  · rename_i hc
    by_cases hnil : c.isNil = true
    · cases c <;> simp_all [WN.isNil, AllClean]
    · exact allClean_of_clean hu hp (by simpa [hnil] using hc)
  · exact ih

/-- 5. every dirty node is reachable from the root through dirty nodes, so `commit` saves all of them -/
theorem commitNode_allClean (H : Bytes → Bytes) (collapse : Int) (n : WN) : ∀ (lvl : Nat), DirtyUp n → Proper n →
    AllClean (commitNode H collapse lvl n).node := by
  induction n with
  | nil => intro _ _ _; trivial
  | empty => intro _ _ _; trivial
  | hashRef h w => intro _ _ _; trivial
  | value h v w d =>
    intro lvl _ _
    cases d with
    | false => simp [commitNode, AllClean]
    | true =>
      simp only [commitNode, Bool.not_true, Bool.false_eq_true, if_false]
      rw [saveNode_value_node]; rfl
  | short k h c d tc ih =>
    intro lvl hu hp
    cases d with
    | false =>
      rw [commitNode_clean collapse lvl _ rfl]
      exact allClean_of_clean hu hp rfl
    | true =>
      have hrc : AllClean (if c.isNil then ({ node := c } : CRes) else commitNode H collapse (lvl + 1) c).node := by
        split
        · rename_i hc; cases c <;> simp_all [WN.isNil, AllClean]
        · exact ih (lvl + 1) hu hp.2.2.2
      simp only [commitNode, Bool.not_true, Bool.false_eq_true, if_false]
      generalize (if c.isNil then ({ node := c } : CRes) else commitNode H collapse (lvl + 1) c) = rc at hrc ⊢
      obtain ⟨h', e⟩ := saveNode_short_node H k h rc.node tc
      rw [e, allClean_calcHash H hrc]
      simp only
      split
      · exact ⟨rfl, trivial⟩
      · exact ⟨rfl, hrc⟩
  | routing h ch w d tc ih =>
    intro lvl hu hp
    cases d with
    | false =>
      rw [commitNode_clean collapse lvl _ rfl]
      exact allClean_of_clean hu hp rfl
    | true =>
      rw [commitNode_routing_node]
      split
      · trivial
      · exact saveNode_routing_allClean H h w tc
          (fun i => commitKid_allClean H collapse (lvl + 1) (hu.2 i) (hp i).2 (ih i (lvl + 1) (hu.2 i) (hp i).2))

/-- 5. `Commit(collapseLevel)` leaves no dirty node in memory -/
theorem commit_allClean (H : Bytes → Bytes) (t : WT) (collapse : Int) (hu : DirtyUp t.root) (hp : Proper t.root) :
    AllClean (commit H t collapse).1.root := by
  obtain ⟨root, hasDb, store, oldRoot, deleted, tempDeleted, pending, created⟩ := t
  simp only at hu hp
  by_cases hd : root.dirty = false
  · simp only [commit, hd, Bool.not_false, if_true]
    exact allClean_of_clean hu hp hd
  · have hd' : root.dirty = true := by simpa using hd
    cases root with
    | nil => simp [WN.dirty] at hd'
    | empty => simp [WN.dirty] at hd'
    | hashRef _ _ => simp [WN.dirty] at hd'
    | value hh v w d =>
      simp only [commit, hd', Bool.not_true, Bool.false_eq_true, if_false]
      exact commitNode_allClean H collapse _ 0 hu hp
    | short k hh c d tc =>
      simp only [commit, hd', Bool.not_true, Bool.false_eq_true, if_false]
      exact commitNode_allClean H collapse _ 0 hu hp
    | routing hh ch w d tc =>
      simp only [WN.dirty] at hd'; subst hd'
      have hdd : (WN.routing hh ch w true tc).dirty = true := rfl
      simp only [commit, hdd, Bool.not_true, Bool.false_eq_true, if_false, List.map_map, Function.comp_def,
        ofList_map_allNib']
      exact saveNode_routing_allClean H hh w tc
        (fun i => commitKid_allClean H collapse 1 (hu.2 i) (hp i).2 (commitNode_allClean H collapse _ 1 (hu.2 i) (hp i).2))

theorem commit_dirtyUp (H : Bytes → Bytes) (t : WT) (collapse : Int) (hu : DirtyUp t.root) (hp : Proper t.root) :
    DirtyUp (commit H t collapse).1.root ∧ (commit H t collapse).1.root.dirty = false :=
  ⟨(commit_allClean H t collapse hu hp).dirtyUp, (commit_allClean H t collapse hu hp).dirty⟩

/-! ### 6. the marking walk of `GetPath` -/

/-- marks do not touch the dirty flag; a reference that is replaced by the loaded node was clean and stays clean -/
theorem markToCollect_dirty (hasDb : Bool) (s : Store) : ∀ (fuel : Nat) (n : WN) (key : List Nib),
    (markToCollect hasDb s fuel n key).node.dirty = n.dirty := by
  intro fuel
  induction fuel with
  | zero => intro n key; rfl
  | succ fuel ih =>
    intro n key
    cases n with
    | nil => rfl
    | empty => rfl
    | value h v w d => rfl
    | hashRef h w =>
      simp only [markToCollect]
      cases hr : resolveHash hasDb s h with
      | err e => rfl
      | ok rn =>
        simp only
        split
        · rfl
        · rw [ih rn key, (resolveHash_dirtyUp hr).2]; rfl
    | short sk h c d tc =>
      simp only [markToCollect]
      split <;> rfl
    | routing h ch w d tc =>
      cases key with
      | nil => rfl
      | cons k ks =>
        simp only [markToCollect]
        split <;> rfl

/-- 6. `markToCollect` keeps `DirtyUp`, whether it succeeds or not -/
theorem markToCollect_dirtyUp (hasDb : Bool) (s : Store) : ∀ (fuel : Nat) (n : WN) (key : List Nib),
    DirtyUp n → DirtyUp (markToCollect hasDb s fuel n key).node := by
  intro fuel
  induction fuel with
  | zero => intro n key hn; exact hn
  | succ fuel ih =>
    intro n key hn
    cases n with
    | nil => trivial
    | empty => trivial
    | value h v w d => trivial
    | hashRef h w =>
      simp only [markToCollect]
      cases hr : resolveHash hasDb s h with
      | err e => trivial
      | ok rn =>
        simp only
        split
        · trivial
        · exact ih rn key (resolveHash_dirtyUp hr).1
    | short sk h c d tc =>
      have hcu : DirtyUp c := hn
      simp only [markToCollect]
      split
      · exact hcu
      · exact ih c _ hcu
    | routing h ch w d tc =>
      cases key with
      | nil => exact hn
      | cons k ks =>
        have hc := dirtyUp_upd k hn.2 (ih (ch k) ks (hn.2 k))
        have hd : d = false → ∀ i, (upd ch k (markToCollect hasDb s fuel (ch k) ks).node i).dirty = false := by
          intro hd i
          unfold upd; split
          · rename_i e; rw [markToCollect_dirty, ← e]; exact hn.1 hd i
          · exact hn.1 hd i
        simp only [markToCollect]
        split
        · exact ⟨hd, hc⟩
        · exact ⟨hd, hc⟩

theorem markAll_dirty (hasDb : Bool) (s : Store) : ∀ (keys : List (List Nib)) (n : WN),
    (markAll hasDb s n keys).node.dirty = n.dirty := by
  intro keys
  induction keys with
  | nil => intro n; rfl
  | cons k ks ih =>
    intro n
    simp only [markAll]
    split
    · exact markToCollect_dirty hasDb s _ n k
    · rw [ih, markToCollect_dirty]

/-- 6. the marking loop keeps `DirtyUp`, whether it succeeds or not -/
theorem markAll_dirtyUp (hasDb : Bool) (s : Store) : ∀ (keys : List (List Nib)) (n : WN),
    DirtyUp n → DirtyUp (markAll hasDb s n keys).node := by
  intro keys
  induction keys with
  | nil => intro n hn; exact hn
  | cons k ks ih =>
    intro n hn
    simp only [markAll]
    split
    · exact markToCollect_dirtyUp hasDb s _ n k hn
    · exact ih _ (markToCollect_dirtyUp hasDb s _ n k hn)

/-- the per-branch loop of the parallel strategy: marks do not touch the dirty flags of the children -/
theorem markKids_dirty (hasDb : Bool) (s : Store) : ∀ (keys : List (List Nib)) (ch : Nib → WN) (i : Nib),
    ((markKids hasDb s ch keys).1 i).dirty = (ch i).dirty := by
  intro keys
  induction keys with
  | nil => intro ch i; rfl
  | cons key rest ih =>
    intro ch i
    cases key with
    | nil => rfl
    | cons k ks =>
      have hu : (upd ch k (markToCollect hasDb s (fuelFor (k :: ks) - 1) (ch k) ks).node i).dirty = (ch i).dirty := by
        unfold upd; split
        · rename_i e; rw [markToCollect_dirty, e]
        · rfl
      simp only [markKids]
      split
      · exact hu
      · rw [ih, hu]

/-- 6. the per-branch loop keeps `DirtyUp` of every child, whether it succeeds or not -/
theorem markKids_dirtyUp (hasDb : Bool) (s : Store) : ∀ (keys : List (List Nib)) (ch : Nib → WN),
    (∀ i, DirtyUp (ch i)) → ∀ i, DirtyUp ((markKids hasDb s ch keys).1 i) := by
  intro keys
  induction keys with
  | nil => intro ch hc; exact hc
  | cons key rest ih =>
    intro ch hc
    cases key with
    | nil => exact hc
    | cons k ks =>
      have hu := dirtyUp_upd k hc (markToCollect_dirtyUp hasDb s (fuelFor (k :: ks) - 1) (ch k) ks (hc k))
      simp only [markKids]
      split
      · exact hu
      · exact ih _ hu

theorem markParallel_dirty (hasDb : Bool) (s : Store) (keys : List (List Nib)) (n : WN) :
    (markParallel hasDb s n keys).node.dirty = n.dirty := by
  cases n with
  | routing h ch w d tc => rfl
  | nil => exact markAll_dirty hasDb s keys _
  | empty => exact markAll_dirty hasDb s keys _
  | hashRef _ _ => exact markAll_dirty hasDb s keys _
  | value _ _ _ _ => exact markAll_dirty hasDb s keys _
  | short _ _ _ _ _ => exact markAll_dirty hasDb s keys _

/-- 6. the parallel strategy keeps `DirtyUp`, whether it succeeds or not -/
theorem markParallel_dirtyUp (hasDb : Bool) (s : Store) (keys : List (List Nib)) (n : WN) (hn : DirtyUp n) :
    DirtyUp (markParallel hasDb s n keys).node := by
  cases n with
  | routing h ch w d tc =>
    exact ⟨fun hd i => by rw [markKids_dirty]; exact hn.1 hd i, markKids_dirtyUp hasDb s keys ch hn.2⟩
  | nil => exact markAll_dirtyUp hasDb s keys _ hn
  | empty => exact markAll_dirtyUp hasDb s keys _ hn
  | hashRef _ _ => exact markAll_dirtyUp hasDb s keys _ hn
  | value _ _ _ _ => exact markAll_dirtyUp hasDb s keys _ hn
  | short _ _ _ _ _ => exact markAll_dirtyUp hasDb s keys _ hn

theorem markRoot_dirty (hasDb : Bool) (s : Store) (keys : List (List Nib)) (n : WN) :
    (markRoot hasDb s n keys).node.dirty = n.dirty := by
  unfold markRoot
  split
  · exact markParallel_dirty hasDb s keys n
  · exact markAll_dirty hasDb s keys n

/-- 6. the marking of `GetPath` (either strategy) keeps `DirtyUp`, whether it succeeds or not -/
theorem markRoot_dirtyUp (hasDb : Bool) (s : Store) (keys : List (List Nib)) (n : WN) (hn : DirtyUp n) :
    DirtyUp (markRoot hasDb s n keys).node := by
  unfold markRoot
  split
  · exact markParallel_dirtyUp hasDb s keys n hn
  · exact markAll_dirtyUp hasDb s keys n hn

/-- 6. loading the root reference -/
theorem loadRoot_dirtyUp (t : WT) {root : WN} (hl : Mark.loadRoot t = .ok root) (hu : DirtyUp t.root) :
    DirtyUp root ∧ root.dirty = t.root.dirty := by
  rw [Mark.loadRoot_eq] at hl
  generalize t.root = n at hl hu
  cases n with
  | hashRef h w => exact ⟨(resolveHash_dirtyUp hl).1, (resolveHash_dirtyUp hl).2⟩
  | nil => simp only [Res.ok.injEq] at hl; subst hl; exact ⟨hu, rfl⟩
  | empty => simp only [Res.ok.injEq] at hl; subst hl; exact ⟨hu, rfl⟩
  | value _ _ _ _ => simp only [Res.ok.injEq] at hl; subst hl; exact ⟨hu, rfl⟩
  | short _ _ _ _ _ => simp only [Res.ok.injEq] at hl; subst hl; exact ⟨hu, rfl⟩
  | routing _ _ _ _ _ => simp only [Res.ok.injEq] at hl; subst hl; exact ⟨hu, rfl⟩

/-- 6. the node `GetPath` hands to `collectNodes` -/
theorem markedRoot_dirtyUp (t : WT) (keys : List (List Nib)) {n' : WN} (hm : Mark.markedRoot t keys = some n')
    (hu : DirtyUp t.root) : DirtyUp n' ∧ n'.dirty = t.root.dirty := by
  unfold Mark.markedRoot at hm
  cases hl : Mark.loadRoot t with
  | err e => rw [hl] at hm; cases hm
  | ok root =>
    rw [hl] at hm
    simp only at hm
    obtain ⟨h1, h2⟩ := loadRoot_dirtyUp t hl hu
    split at hm
    · cases hm
    · simp only [Option.some.injEq] at hm
      subst hm
      exact ⟨markAll_dirtyUp _ _ keys root h1, by rw [markAll_dirty, h2]⟩

/-! ### 7. the operations on a trie -/

theorem dirtyUp_normRoot (n : WN) : DirtyUp (normRoot n) ↔ DirtyUp n := by
  cases n <;> simp [normRoot, WN.isNil, DirtyUp]

theorem dirtyUp1_normRoot {n : WN} (h : DirtyUp1 n) : DirtyUp1 (normRoot n) := by
  cases n <;> first | exact h | exact DirtyUp1.here trivial

/-- the empty trie -/
theorem dirtyUp_empty : DirtyUp ({} : WT).root := trivial

/-- 7. `Root()` -/
theorem rootHash_dirtyUp (H : Bytes → Bytes) (t : WT) : DirtyUp (rootHash H t).1.root ↔ DirtyUp t.root := by
  unfold rootHash
  split
  · exact dirtyUp_calcHash H t.root
  · exact Iff.rfl

/-- 7. `Update` with a value (an insert) keeps `DirtyUp`, also when it fails -/
theorem update_insert_dirtyUp (H : Bytes → Bytes) (t : WT) (key : List Nib) (value : Bytes) (weight : Nat)
    (hv : value ≠ []) (hu : DirtyUp t.root) : DirtyUp (update H t key value weight).1.root := by
  unfold update
  split
  · exact hu
  · have := insert_dirtyUp t.hasDb t.store (fuelFor key) (normRoot t.root) key (.value [] value weight true)
      ((dirtyUp_normRoot _).mpr hu) trivial
    simp only
    split
    · exact (dirtyUp_normRoot _).mpr this
    · exact this

/-- 7. `Update` keeps `DirtyUp` whenever it does not fail on the storage in its delete branch -/
theorem update_dirtyUp (H : Bytes → Bytes) (t : WT) (key : List Nib) (value : Bytes) (weight : Nat)
    (hu : DirtyUp t.root)
    (he : value ≠ [] ∨ ∀ e, (update H t key value weight).2 = .err e → e ≠ .kvNotFound ∧ e ≠ .other ∧ e ≠ .panic) :
    DirtyUp (update H t key value weight).1.root := by
  by_cases hv : value ≠ []
  · exact update_insert_dirtyUp H t key value weight hv hu
  · have he' := he.resolve_left hv
    unfold update at he' ⊢
    split
    · exact hu
    · rename_i hk
      rw [if_neg hk, if_neg hv] at he'
      simp only at he' ⊢
      have hn := (dirtyUp_normRoot t.root).mpr hu
      cases hr : (delete H t.hasDb t.store (fuelFor key) (normRoot t.root) key).err with
      | none =>
        simp only
        exact (dirtyUp_normRoot _).mpr (delete_dirtyUp H _ _ _ _ _ hn hr)
      | some e =>
        rw [hr] at he'
        simp only at he' ⊢
        refine (dirtyUp_normRoot _).mpr (delete_dirtyUp_of H _ _ _ _ _ hn (fun e' he2 => ?_))
        rw [hr] at he2
        simp only [Option.some.injEq] at he2
        subst he2
        exact he' e rfl

/-- 7. `Update` in every case: the weak form -/
theorem update_dirtyUp1 (H : Bytes → Bytes) (t : WT) (key : List Nib) (value : Bytes) (weight : Nat)
    (hu : DirtyUp t.root) : DirtyUp1 (update H t key value weight).1.root := by
  by_cases hv : value ≠ []
  · exact DirtyUp1.here (update_insert_dirtyUp H t key value weight hv hu)
  · unfold update
    split
    · exact DirtyUp1.here hu
    · simp only
      have := dirtyUp1_normRoot (delete_dirtyUp1 H t.hasDb t.store (fuelFor key) (normRoot t.root) key
        ((dirtyUp_normRoot t.root).mpr hu))
      split <;> exact this

/-- 7. `Delete(key)` keeps `DirtyUp` whenever it does not fail on the storage -/
theorem deleteKey_dirtyUp (H : Bytes → Bytes) (t : WT) (key : List Nib) (hu : DirtyUp t.root)
    (he : ∀ e, (deleteKey H t key).2 = .err e → e ≠ .kvNotFound ∧ e ≠ .other ∧ e ≠ .panic) :
    DirtyUp (deleteKey H t key).1.root := by
  unfold deleteKey at he ⊢
  simp only at he ⊢
  cases hr : (delete H t.hasDb t.store (fuelFor key) t.root key).err with
  | none =>
    simp only
    exact (dirtyUp_normRoot _).mpr (delete_dirtyUp H _ _ _ _ _ hu hr)
  | some e =>
    simp only [hr] at he ⊢
    refine delete_dirtyUp_of H _ _ _ _ _ hu (fun e' he2 => ?_)
    rw [hr] at he2
    simp only [Option.some.injEq] at he2
    subst he2
    exact he e rfl

theorem deleteKey_dirtyUp1 (H : Bytes → Bytes) (t : WT) (key : List Nib) (hu : DirtyUp t.root) :
    DirtyUp1 (deleteKey H t key).1.root := by
  unfold deleteKey
  simp only
  have := delete_dirtyUp1 H t.hasDb t.store (fuelFor key) t.root key hu
  split
  · exact this
  · exact dirtyUp1_normRoot this

/-- 7. a successful `Update` -/
theorem update_ok_dirtyUp (H : Bytes → Bytes) (t : WT) (key : List Nib) (value : Bytes) (weight : Nat)
    (hu : DirtyUp t.root) (hok : (update H t key value weight).2 = .ok ()) :
    DirtyUp (update H t key value weight).1.root :=
  update_dirtyUp H t key value weight hu (Or.inr (fun e he => by rw [hok] at he; cases he))

/-- 7. `Update` that reports "not found" (or any error other than the three storage errors) -/
theorem update_err_dirtyUp (H : Bytes → Bytes) (t : WT) (key : List Nib) (value : Bytes) (weight : Nat) (e : Err)
    (hu : DirtyUp t.root) (herr : (update H t key value weight).2 = .err e)
    (he : e ≠ .kvNotFound ∧ e ≠ .other ∧ e ≠ .panic) : DirtyUp (update H t key value weight).1.root :=
  update_dirtyUp H t key value weight hu (Or.inr (fun e' he' => by
    rw [herr] at he'; injection he' with he'; subst he'; exact he))

/-- 7. a successful `Delete(key)` -/
theorem deleteKey_ok_dirtyUp (H : Bytes → Bytes) (t : WT) (key : List Nib) (c : Nat)
    (hu : DirtyUp t.root) (hok : (deleteKey H t key).2 = .ok c) : DirtyUp (deleteKey H t key).1.root :=
  deleteKey_dirtyUp H t key hu (fun e he => by rw [hok] at he; cases he)

theorem deleteKey_err_dirtyUp (H : Bytes → Bytes) (t : WT) (key : List Nib) (e : Err)
    (hu : DirtyUp t.root) (herr : (deleteKey H t key).2 = .err e)
    (he : e ≠ .kvNotFound ∧ e ≠ .other ∧ e ≠ .panic) : DirtyUp (deleteKey H t key).1.root :=
  deleteKey_dirtyUp H t key hu (fun e' he' => by
    rw [herr] at he'; injection he' with he'; subst he'; exact he)

/-- 4. / 7. a trie without a database: `delete` keeps `DirtyUp` in every case -/
theorem delete_dirtyUp_noDb (H : Bytes → Bytes) (s : Store) (fuel : Nat) (n : WN) (key : List Nib) (hn : DirtyUp n) :
    DirtyUp (delete H false s fuel n key).node := by
  cases hr : (delete H false s fuel n key).err with
  | none => exact delete_dirtyUp H false s fuel n key hn hr
  | some e => rw [delete_err_noDb H s fuel n key e hn hr]; exact hn

theorem update_dirtyUp_noDb (H : Bytes → Bytes) (t : WT) (key : List Nib) (value : Bytes) (weight : Nat)
    (hu : DirtyUp t.root) (hdb : t.hasDb = false) : DirtyUp (update H t key value weight).1.root := by
  by_cases hv : value ≠ []
  · exact update_insert_dirtyUp H t key value weight hv hu
  · unfold update
    split
    · exact hu
    · simp only
      have := (dirtyUp_normRoot _).mpr (delete_dirtyUp_noDb H t.store (fuelFor key) (normRoot t.root) key
        ((dirtyUp_normRoot t.root).mpr hu))
      rw [hdb]
      split <;> exact this

theorem deleteKey_dirtyUp_noDb (H : Bytes → Bytes) (t : WT) (key : List Nib) (hu : DirtyUp t.root)
    (hdb : t.hasDb = false) : DirtyUp (deleteKey H t key).1.root := by
  unfold deleteKey
  simp only
  have := delete_dirtyUp_noDb H t.store (fuelFor key) t.root key hu
  rw [hdb]
  split
  · exact this
  · exact (dirtyUp_normRoot _).mpr this

/-- 7. `Commit` -/
theorem commit_root_dirtyUp (H : Bytes → Bytes) (t : WT) (collapse : Int) (hu : DirtyUp t.root) (hp : Proper t.root) :
    DirtyUp (commit H t collapse).1.root := (commit_dirtyUp H t collapse hu hp).1

/-! ### 8. the other operations -/

theorem collectNodes_dirty (H : Bytes → Bytes) (n : WN) : (collectNodes H n).1.dirty = n.dirty := by
  cases n with
  | nil => rfl
  | empty => rfl
  | hashRef h w => rfl
  | value h v w d => exact calcHash_fst_dirty H _
  | short k h c d tc => rfl
  | routing h ch w d tc =>
    cases tc with
    | false => exact calcHash_fst_dirty H _
    | true => rfl

/-- `collectNodes` (the export itself) leaves the flags alone -/
theorem collectNodes_dirtyUp (H : Bytes → Bytes) (n : WN) : DirtyUp n → DirtyUp (collectNodes H n).1 := by
  induction n with
  | nil => intro _; trivial
  | empty => intro _; trivial
  | hashRef h w => intro _; trivial
  | value h v w d => intro _; cases d <;> trivial
  | short k h c d tc ih => intro hu; exact ih hu
  | routing h ch w d tc ih =>
    intro hu
    cases tc with
    | false => exact (dirtyUp_calcHash H _).mpr hu
    | true =>
      simp only [collectNodes, Bool.not_true, Bool.false_eq_true, if_false, List.map_map, Function.comp_def,
        ofList_map_allNib']
      exact ⟨fun hd i => by rw [collectNodes_dirty]; exact hu.1 hd i, fun i => ih i (hu.2 i)⟩

/-- `GetPath(keys)` keeps `DirtyUp`, whether it succeeds or not -/
theorem getPath_dirtyUp (H : Bytes → Bytes) (t : WT) (keys : List (List Nib)) (hu : DirtyUp t.root) :
    DirtyUp (getPath H t keys).1.root := by
  have e : getPath H t keys = (match Mark.loadRoot t with
    | .err e => (t, .err e)
    | .ok root =>
      let m := markRoot t.hasDb t.store root keys
      match m.err with
      | some .kvNotFound => ({ t with root := m.node }, .err .notFound)
      | some e => ({ t with root := m.node }, .err e)
      | none =>
        let c := collectNodes H m.node
        ({ t with root := c.1 }, .ok (Cbor.encTrie c.2))) := rfl
  rw [e]
  cases hl : Mark.loadRoot t with
  | err e => exact hu
  | ok root =>
    have hm := markRoot_dirtyUp t.hasDb t.store keys root (loadRoot_dirtyUp t hl hu).1
    simp only
    split
    · exact hm
    · exact hm
    · exact collectNodes_dirtyUp H _ hm

theorem saveRoot_root (H : Bytes → Bytes) (t : WT) : (saveRoot H t).root = t.root := rfl

theorem deleteNodes_root (t : WT) : (deleteNodes t).1.root = t.root := rfl

theorem rollback_allClean (t : WT) : AllClean (rollback t).1.root := by
  unfold rollback; simp only; split <;> trivial

theorem rollback_dirtyUp (t : WT) : DirtyUp (rollback t).1.root := (rollback_allClean t).dirtyUp

/-- `RollbackTrie(node)` installs the node it is given -/
theorem rollbackTrie_dirtyUp (H : Bytes → Bytes) (t : WT) (node : WN) (hu : DirtyUp t.root) (hn : DirtyUp node) :
    DirtyUp (rollbackTrie H t node).1.root := by
  unfold rollbackTrie
  simp only
  split
  · exact hu
  · simp only; split
    · trivial
    · exact hn

/-- `CopyRoot` yields a clean copy -/
theorem copyRoot_allClean (H : Bytes → Bytes) (collapse : Int) (n : WN) : ∀ lvl, AllClean (copyRoot H collapse lvl n) := by
  induction n with
  | nil => intro _; trivial
  | empty => intro _; trivial
  | hashRef h w => intro _; trivial
  | value h v w d => intro _; rfl
  | short k h c d tc ih =>
    intro lvl
    simp only [copyRoot]
    split
    · exact ⟨rfl, trivial⟩
    · exact ⟨rfl, ih (lvl + 1)⟩
  | routing h ch w d tc ih =>
    intro lvl
    simp only [copyRoot]
    split
    · trivial
    · refine ⟨rfl, fun i => ?_⟩
      rw [ofList_map_allNib]
      exact ih i (lvl + 1)

/-! ### 9. `GetBlockProof` -/

theorem calcHash_short_shape (H : Bytes → Bytes) (k h : Bytes) (c : WN) (d tc : Bool) :
    ∃ h' c', (calcHash H (.short k h c d tc)).1 = .short k h' c' d tc ∧ c'.dirty = c.dirty ∧
      (DirtyUp c' ↔ DirtyUp c) := by
  cases d with
  | false => exact ⟨h, c, rfl, rfl, Iff.rfl⟩
  | true =>
    by_cases hn : c.isNil = true
    · refine ⟨H k, c, ?_, rfl, Iff.rfl⟩
      cases c <;> simp_all [calcHash, WN.isNil]
    · exact ⟨(calcHash H (.short k h c true tc)).2, (calcHash H c).1, by simp [calcHash, hn], calcHash_fst_dirty H c,
        dirtyUp_calcHash H c⟩

theorem calcHash_routing_shape (H : Bytes → Bytes) (h : Bytes) (ch : Nib → WN) (w : Nat) (d tc : Bool) :
    ∃ h' ch', (calcHash H (.routing h ch w d tc)).1 = .routing h' ch' w d tc ∧
      ∀ i, (ch' i).dirty = (ch i).dirty ∧ (DirtyUp (ch' i) ↔ DirtyUp (ch i)) := by
  cases d with
  | false => exact ⟨h, ch, rfl, fun i => ⟨rfl, Iff.rfl⟩⟩
  | true =>
    refine ⟨(calcHash H (.routing h ch w true tc)).2, fun i => (calcHash H (ch i)).1, ?_,
      fun i => ⟨calcHash_fst_dirty H _, dirtyUp_calcHash H _⟩⟩
    simp [calcHash, List.map_map, Function.comp_def, ofList_map_allNib']

/-- `getBlockProof` (which serializes the nodes on its way) leaves the flags alone -/
theorem getBlockProof_inv (H : Bytes → Bytes) (hasDb : Bool) (s : Store) :
    ∀ (fuel : Nat) (n : WN) (block : Nat) (pre : Bytes),
    (getBlockProof H hasDb s fuel n block pre).node.dirty = n.dirty ∧
    (DirtyUp n → DirtyUp (getBlockProof H hasDb s fuel n block pre).node) := by
  intro fuel
  induction fuel with
  | zero => intro n block pre; exact ⟨rfl, fun h => h⟩
  | succ fuel ih =>
    intro n block pre
    cases n with
    | nil => exact ⟨rfl, fun h => h⟩
    | empty => exact ⟨rfl, fun h => h⟩
    | hashRef h w =>
      simp only [getBlockProof]
      split <;> exact ⟨rfl, fun h => h⟩
    | value h v w d => exact ⟨calcHash_fst_dirty H _, fun _ => by cases d <;> trivial⟩
    | short k h c d tc =>
      obtain ⟨h', c', e, e1, e2⟩ := calcHash_short_shape H k h c d false
      simp only [getBlockProof, serializeP, e]
      split
      · exact ⟨rfl, fun hu => e2.mpr hu⟩
      · exact ⟨rfl, fun hu => (ih c' _ _).2 (e2.mpr hu)⟩
    | routing h ch w d tc =>
      obtain ⟨h', ch', e, e1⟩ := calcHash_routing_shape H h ch w d false
      simp only [getBlockProof, serializeP, e]
      split
      · exact ⟨rfl, fun hu => ⟨fun hd i => by rw [(e1 i).1]; exact hu.1 hd i, fun i => (e1 i).2.mpr (hu.2 i)⟩⟩
      · rename_i i b' _
        refine ⟨rfl, fun hu => ⟨fun hd j => ?_, ?_⟩⟩
        · unfold upd; split
          · rename_i ej; rw [(ih (ch' i) _ _).1, (e1 i).1]; exact hu.1 hd i
          · rw [(e1 j).1]; exact hu.1 hd j
        · exact dirtyUp_upd i (fun j => (e1 j).2.mpr (hu.2 j)) ((ih (ch' i) _ _).2 ((e1 i).2.mpr (hu.2 i)))

/-- `GetBlockProof(block)` keeps `DirtyUp`, whether it succeeds or not -/
theorem blockProof_dirtyUp (H : Bytes → Bytes) (t : WT) (block : Nat) (hu : DirtyUp t.root) :
    DirtyUp (blockProof H t block).1.root := by
  have hr := (getBlockProof_inv H t.hasDb t.store 200 t.root block []).2 hu
  unfold blockProof
  split
  · exact hu
  · simp only
    split
    · exact hr
    · exact hr
    · split <;> exact hr

/-! ### 10. `Deserialize` (import) -/

theorem deserKids_allClean (H : Bytes → Bytes) (rec : List PairD → Res (WN × List PairD))
    (hrec : ∀ ps c ps', rec ps = .ok (c, ps') → AllClean c) :
    ∀ (is : List Nib) (ch : Nib → WN) (ps : List PairD) (ch' : Nib → WN) (ps' : List PairD),
    (∀ i, AllClean (ch i)) → deserKids H rec is ch ps = .ok (ch', ps') → ∀ i, AllClean (ch' i) := by
  intro is
  induction is with
  | nil =>
    intro ch ps ch' ps' hc h
    simp only [deserKids, Res.ok.injEq, Prod.mk.injEq] at h
    rw [← h.1]; exact hc
  | cons i is ih =>
    intro ch ps ch' ps' hc h
    simp only [deserKids] at h
    split at h
    · exact ih ch ps ch' ps' hc h
    · split at h
      · cases h
      · rename_i c ps1 hr
        split at h
        · cases h
        · refine ih (upd ch i c) ps1 ch' ps' (fun j => ?_) h
          unfold upd; split
          · exact hrec _ _ _ hr
          · exact hc j

/-- what `deserializeTrie` rebuilds is clean all the way down (the importer flags the root afterwards) -/
theorem deserializeTrie_allClean (H : Bytes → Bytes) : ∀ (fuel : Nat) (ps : List PairD) (n : WN) (ps' : List PairD),
    deserializeTrie H fuel ps = .ok (n, ps') → AllClean n := by
  intro fuel
  induction fuel with
  | zero => intro ps n ps' h; simp [deserializeTrie] at h
  | succ fuel ih =>
    intro ps n ps' h
    cases ps with
    | nil => simp [deserializeTrie] at h
    | cons p rest =>
      cases p with
      | nilPair => simp [deserializeTrie] at h
      | bad => simp [deserializeTrie] at h
      | ok p =>
        simp only [deserializeTrie] at h
        split at h
        · cases h
        · rename_i m hm
          have hmc := deserializeNode_allClean hm
          split at h
          · rename_i hh ch w d tc
            split at h
            · cases h
            · rename_i ch' rest' hk
              simp only [Res.ok.injEq, Prod.mk.injEq] at h
              rw [← h.1]
              exact ⟨hmc.1, deserKids_allClean H _ (fun ps c ps' hr => ih ps c ps' hr) allNib ch rest ch' rest' hmc.2 hk⟩
          · rename_i k hh c d tc
            split at h
            · cases h
            · rename_i c' rest' hc'
              split at h
              · cases h
              · simp only [Res.ok.injEq, Prod.mk.injEq] at h
                rw [← h.1]
                exact ⟨hmc.1, ih _ _ _ hc'⟩
          · simp only [Res.ok.injEq, Prod.mk.injEq] at h
            rw [← h.1]; exact hmc

/-- the imported root: flagged dirty (when it is a branch or a short node) over a clean tree -/
theorem importPairs_dirtyUp (H : Bytes → Bytes) (pairs : List PairD) (r : WN)
    (h : importPairs H pairs = .ok (some r)) : DirtyUp r := by
  unfold importPairs at h
  split at h
  · cases h
  · split at h
    · cases h
    · rename_i root rest hd
      have hc := deserializeTrie_allClean H _ _ _ _ hd
      cases root with
      | routing hh ch w d tc =>
        simp only at h
        split at h
        · cases h
        · simp only [Res.ok.injEq, Option.some.injEq] at h
          rw [← h]
          exact (dirtyUp_calcHash H _).mpr ⟨by simp, fun i => (hc.2 i).dirtyUp⟩
      | short k hh c d tc =>
        simp only at h
        split at h
        · cases h
        · simp only [Res.ok.injEq, Option.some.injEq] at h
          rw [← h]
          exact (dirtyUp_calcHash H _).mpr hc.2.dirtyUp
      | nil => simp at h; rw [← h]; trivial
      | empty => simp at h; rw [← h]; trivial
      | hashRef _ _ => simp at h; rw [← h]; trivial
      | value _ _ _ _ => simp at h; rw [← h]; trivial

/-- `Deserialize(data)` keeps `DirtyUp` (on failure Go leaves `root = nil` behind) -/
theorem importTrie_dirtyUp (H : Bytes → Bytes) (t : WT) (data : Bytes) (hu : DirtyUp t.root) :
    DirtyUp (importTrie H t data).1.root := by
  unfold importTrie
  split
  · exact hu
  · split
    · trivial
    · exact hu
    · rename_i r hr
      exact importPairs_dirtyUp H _ r hr

end Verif.Wmpt
