import Verif.Lemmas.StateCachePrivacy
import Verif.Lemmas.StateCacheSys
/-! A second `Commit()` of an already committed block (through the same block cache after further writes, or through a
second block cache with the same hash) is rejected by the link check and changes nothing but the recency of that link;
writes made to the handle after its commit therefore stay private to the handle for ever. Also: entries of the state cache
never change or disappear without an eviction (`memo_stable`). -/
set_option linter.unusedSectionVars false
namespace Verif.SC

variable {H K B V : Type} [DecidableEq H] [DecidableEq K] [DecidableEq B]

/-- the state cache after a rejected commit: only the recency of the block's link has changed -/
def SC.touchLink (sc : SC K B V) (hash : B) : SC K B V := { sc with links := (sc.links.get hash).1 }

theorem SC.commit_linked (sc : SC K B V) (hash prev : B) (writes : List (K × Entry V)) {p : B}
    (h : linkAt sc hash = some p) : sc.commit hash prev writes = (sc.touchLink hash, false) := by
  unfold SC.commit
  simp only
  have hfuel : 3 * writes.length + 5 = (3 * writes.length + 4) + 1 := by omega
  rw [hfuel, Committer.run_succ _ _ _ (by intro b hb; cases hb)]
  have hp : Committer.stepPc sc ⟨hash, prev, writes, .linkcheck⟩ = .done false := by
    unfold Committer.stepPc; simp only [LRU.get_snd]
    unfold linkAt at h; rw [h]
  have hs : Committer.stepSC sc ⟨hash, prev, writes, .linkcheck⟩ = sc.touchLink hash := by
    unfold Committer.stepSC SC.touchLink; rfl
  rw [hp, hs, Committer.run_of_done _ _ _ rfl]

theorem SC.touchLink_entryAt (sc : SC K B V) (hash : B) (k : K) (b : B) : entryAt (sc.touchLink hash) k b = entryAt sc k b := rfl

theorem SC.touchLink_linkAt (sc : SC K B V) (hash b : B) : linkAt (sc.touchLink hash) b = linkAt sc b := by
  unfold SC.touchLink linkAt; simp [LRU.get_peek]

/-- `BlockCache.Commit` of a block whose link is present: the handle keeps its pending map and its `committed` flag -/
theorem BC.commit_linked (sc : SC K B V) (bc : BC K B V) {p : B} (h : linkAt sc bc.hash = some p) :
    bc.commit sc = (sc.touchLink bc.hash, bc) := by
  unfold BC.commit; rw [SC.commit_linked sc bc.hash bc.prev bc.cache h]; simp

/-! ### entries never disappear or change without an eviction -/

theorem Committer.step_keep {sc : SC K B V} {T : Tree K B V} {m : Committer K B V} (hM : MInv sc T m)
    (hev : (m.stepSC sc).evictions = sc.evictions) (k : K) (b : B) (h : entryAt sc k b ≠ none) :
    entryAt (m.stepSC sc) k b ≠ none := by
  cases hpc : m.pc with
  | start => have : m.stepSC sc = sc := by unfold Committer.stepSC; rw [hpc]
             rw [this]; exact h
  | done e => have : m.stepSC sc = sc := by unfold Committer.stepSC; rw [hpc]
              rw [this]; exact h
  | keyGet t => have : m.stepSC sc = sc := by unfold Committer.stepSC; rw [hpc]
                rw [this]; exact h
  | linkcheck =>
    have hs : m.stepSC sc = { sc with links := (sc.links.get m.hash).1 } := by unfold Committer.stepSC; rw [hpc]
    rw [entryAt_congr (by rw [hs])]; exact h
  | publish =>
    have hs : m.stepSC sc = { sc with links := (sc.links.add m.hash m.prev).1,
                                      evictions := sc.evictions + (sc.links.add m.hash m.prev).2.toNat } := by
      unfold Committer.stepSC; rw [hpc]
    rw [entryAt_congr (by rw [hs])]; exact h
  | keyAdd fr t =>
    cases t with
    | nil => have : m.stepSC sc = sc := by unfold Committer.stepSC; rw [hpc]; cases fr <;> rfl
             rw [this]; exact h
    | cons a t =>
      obtain ⟨k0, e⟩ := a
      cases fr with
      | true =>
        have hs : m.stepSC sc = { sc with evictions := sc.evictions + ((LRU.empty sc.capK : LRU B (Entry V)).add m.hash e).2.toNat, entryEv := sc.entryEv + ((LRU.empty sc.capK : LRU B (Entry V)).add m.hash e).2.toNat } := by
          unfold Committer.stepSC; rw [hpc]
        rw [entryAt_congr (by rw [hs])]; exact h
      | false =>
        cases hm0 : alookup sc.cache k0 with
        | none => have : m.stepSC sc = sc := by unfold Committer.stepSC; rw [hpc]; simp only [hm0]
                  rw [this]; exact h
        | some m0 =>
          have hs : m.stepSC sc = { sc with cache := aset sc.cache k0 (m0.add m.hash e).1,
                                            evictions := sc.evictions + (m0.add m.hash e).2.toNat, entryEv := sc.entryEv + (m0.add m.hash e).2.toNat } := by
            unfold Committer.stepSC; rw [hpc]; simp only [hm0]
          have hne : (m0.add m.hash e).2 = false := by
            rw [hs] at hev
            cases hb : (m0.add m.hash e).2 with
            | false => rfl
            | true => simp [hb] at hev
          have hc : (m.stepSC sc).cache = aset sc.cache k0 (m0.add m.hash e).1 := by rw [hs]
          rw [entryAt_of_cache hc]
          by_cases hk : k0 = k
          · subst hk
            simp only [if_true]
            rw [LRU.add_peek _ _ _ _ hne]
            by_cases hb : m.hash = b
            · simp [hb]
            · simp only [hb, if_false]; rw [← entryAt_eq_peek hm0]; exact h
          · simp only [hk, if_false]; exact h
  | keyPut fr t =>
    cases t with
    | nil => have : m.stepSC sc = sc := by unfold Committer.stepSC; rw [hpc]; cases fr <;> rfl
             rw [this]; exact h
    | cons a t =>
      obtain ⟨k0, e⟩ := a
      cases fr with
      | none => have : m.stepSC sc = sc := by unfold Committer.stepSC; rw [hpc]
                rw [this]; exact h
      | some l =>
        have hs : m.stepSC sc = { sc with cache := aset sc.cache k0 l } := by unfold Committer.stepSC; rw [hpc]
        have hc : (m.stepSC sc).cache = aset sc.cache k0 l := by rw [hs]
        unfold MInv at hM; rw [hpc] at hM
        have hnone := (hM.2 k0 e t rfl)
        simp only at hnone
        rw [entryAt_of_cache hc]
        by_cases hk : k0 = k
        · subst hk
          -- the key had no version map: there was no entry to keep
          exfalso; apply h; unfold entryAt; rw [hnone.1]
        · simp only [hk, if_false]; exact h

theorem Committer.run_keep {T : Tree K B V} (n : Nat) (sc : SC K B V) (c : Committer K B V)
    (hI : Inv sc T (CPc.hole c.hash c.pc)) (hM : MInv sc T c)
    (hev : (Committer.run n sc c).1.evictions = sc.evictions) (k : K) (b : B) (h : entryAt sc k b ≠ none) :
    entryAt (Committer.run n sc c).1 k b ≠ none := by
  induction n generalizing T sc c with
  | zero => exact h
  | succ n ih =>
    by_cases hd : ∃ b', c.pc = .done b'
    · obtain ⟨b', hb'⟩ := hd
      rw [Committer.run_of_done _ _ _ hb']; exact h
    · have hnd : ∀ b', c.pc ≠ .done b' := fun b' hb' => hd ⟨b', hb'⟩
      rw [Committer.run_succ _ _ _ hnd] at hev ⊢
      have h1 : (c.stepSC sc).evictions = sc.evictions :=
        Nat.le_antisymm (by rw [← hev]; exact Committer.run_ev_le _ _ _) (Committer.stepSC_ev_le sc c)
      obtain ⟨hI', hM', _, _⟩ := Committer.step_inv hI hM h1
      exact ih (c.stepSC sc) { c with pc := c.stepPc sc } hI' hM' (by rw [hev, h1]) (Committer.step_keep hM h1 k b h)

theorem Reader.run_keep (n : Nat) (sc : SC K B V) (r : Reader K B V)
    (hev : (Reader.run n sc r).1.evictions = sc.evictions) (k : K) (b : B) (h : entryAt sc k b ≠ none) :
    entryAt (Reader.run n sc r).1 k b ≠ none := by
  induction n generalizing sc r with
  | zero => exact h
  | succ n ih =>
    by_cases hd : ∃ v, r.pc = .done v
    · obtain ⟨v, hv⟩ := hd
      rw [Reader.run_of_done _ _ _ hv]; exact h
    · have hnd : ∀ v, r.pc ≠ .done v := fun v hv => hd ⟨v, hv⟩
      rw [Reader.run_succ _ _ _ hnd] at hev ⊢
      have h1 : (r.stepSC sc).evictions = sc.evictions :=
        Nat.le_antisymm (by rw [← hev]; exact Reader.run_ev_le _ _ _) (Reader.stepSC_ev_le sc r)
      have F := Reader.stepSC_frame sc r h1
      refine ih (r.stepSC sc) { r with pc := r.stepPc sc } (by rw [hev, h1]) ?_
      cases he : entryAt sc k b with
      | none => exact absurd he h
      | some e => rw [F.keep k b e he]; simp

/-- no operation of a history without eviction removes an entry -/
theorem Sys.step_keep {T : Tree K B V} (s : Sys H K B V) (op : Op H K B V) (hS : SysInv s T)
    (hev : (s.step op).1.sc.evictions = s.sc.evictions) (k : K) (b : B) (h : entryAt s.sc k b ≠ none) :
    entryAt (s.step op).1.sc k b ≠ none := by
  have hget : ∀ k0 b0, (s.sc.get k0 b0).1.evictions = s.sc.evictions → entryAt (s.sc.get k0 b0).1 k b ≠ none := by
    intro k0 b0 he; unfold SC.get at he ⊢; exact Reader.run_keep _ _ _ he k b h
  have hbget : ∀ (bc : BC K B V) k0, (bc.get s.sc k0).1.evictions = s.sc.evictions → entryAt (bc.get s.sc k0).1 k b ≠ none := by
    intro bc k0 he
    unfold BC.get at he ⊢
    cases ha : alookup bc.cache k0 with
    | some e => exact h
    | none => simp only [ha] at he ⊢; exact hget _ _ he
  cases op with
  | blk hh hash prev => exact h
  | bhash hh hash => simp only [Sys.step]; cases alookup s.bcs hh <;> exact h
  | txn t hh => simp only [Sys.step]; cases alookup s.bcs hh <;> exact h
  | qtxn t b' => exact h
  | tset t k' v => simp only [Sys.step]; cases alookup s.tcs t <;> exact h
  | trem t k' => simp only [Sys.step]; cases alookup s.tcs t <;> exact h
  | tcommit t =>
    simp only [Sys.step]
    cases alookup s.tcs t with
    | none => exact h
    | some tc =>
      simp only
      cases tc.main with
      | block hh => simp only; cases alookup s.bcs hh <;> exact h
      | query b' => simp only; cases tc.cache <;> exact h
  | bset hh k' v => simp only [Sys.step]; cases alookup s.bcs hh <;> exact h
  | srem k' =>
    simp only [Sys.step] at hev ⊢
    rw [SC.remove_noev s.sc k' hev]; exact h
  | sget k0 b0 => exact hget k0 b0 hev
  | qget b0 k0 => exact hget k0 b0 hev
  | bget hh k0 =>
    simp only [Sys.step] at hev ⊢
    cases hb : alookup s.bcs hh with
    | none => exact h
    | some bc => simp only [hb] at hev ⊢; exact hbget bc k0 hev
  | tget t k0 =>
    simp only [Sys.step] at hev ⊢
    cases ht : alookup s.tcs t with
    | none => exact h
    | some tc =>
      simp only [ht] at hev ⊢
      cases hte : alookup tc.cache k0 with
      | some e => exact h
      | none =>
        simp only [hte] at hev ⊢
        cases hm : tc.main with
        | block hh =>
          simp only [hm] at hev ⊢
          cases hb : alookup s.bcs hh with
          | none => exact h
          | some bc => simp only [hb] at hev ⊢; exact hbget bc k0 hev
        | query b0 => simp only [hm] at hev ⊢; exact hget k0 b0 hev
  | bcommit hh =>
    simp only [Sys.step] at hev ⊢
    cases hb : alookup s.bcs hh with
    | none => exact h
    | some bc =>
      simp only [hb, BC.commit, SC.commit] at hev ⊢
      exact Committer.run_keep _ s.sc ⟨bc.hash, bc.prev, bc.cache, .linkcheck⟩ hS.inv
        (by unfold MInv; exact hS.nodup hh bc hb) hev k b h

theorem Sys.run_keep {T : Tree K B V} (s : Sys H K B V) (ops : List (Op H K B V)) (hS : SysInv s T)
    (hne : NoEviction s ops) (k : K) (b : B) (h : entryAt s.sc k b ≠ none) :
    entryAt (s.run ops).1.sc k b ≠ none := by
  induction ops generalizing s T with
  | nil => exact h
  | cons op ops ih =>
    unfold NoEviction at hne
    simp only [Sys.run] at hne ⊢
    have h1 : (s.step op).1.sc.evictions = s.sc.evictions :=
      Nat.le_antisymm (by rw [← hne]; exact Sys.run_ev_le _ _) (Sys.step_ev_le s op)
    exact ih (s.step op).1 (Sys.step_inv s op hS h1) (by unfold NoEviction; rw [hne, h1]) (Sys.step_keep s op hS h1 k b h)

theorem Sys.treeRun_le (s : Sys H K B V) (T : Tree K B V) (ops : List (Op H K B V)) : T.le (s.treeRun T ops) := by
  induction ops generalizing s T with
  | nil => exact Tree.le_refl T
  | cons op ops ih =>
    simp only [Sys.treeRun]
    refine Tree.le_trans ?_ (ih _ _)
    cases op <;> simp only [Sys.treeStep] <;> try exact Tree.le_refl T
    rename_i h
    cases alookup s.bcs h with
    | none => exact Tree.le_refl T
    | some bc => exact Tree.le_commit T _

theorem Sys.treeRun_append (s : Sys H K B V) (T : Tree K B V) (pre post : List (Op H K B V)) :
    s.treeRun T (pre ++ post) = (s.run pre).1.treeRun (s.treeRun T pre) post := by
  induction pre generalizing s T with
  | nil => rfl
  | cons op pre ih => simp only [List.cons_append, Sys.treeRun, Sys.run]; exact ih _ _

/-! ### writes to a handle whose block is already committed stay private, even across further `Commit()` calls -/

theorem foldl_setValue_meta (l : List (K × Entry V)) (bc : BC K B V) :
    (l.foldl (fun b p => b.setValue p.1 p.2) bc).hash = bc.hash ∧
    (l.foldl (fun b p => b.setValue p.1 p.2) bc).prev = bc.prev ∧
    (l.foldl (fun b p => b.setValue p.1 p.2) bc).committed = bc.committed := by
  induction l generalizing bc with
  | nil => exact ⟨rfl, rfl, rfl⟩
  | cons p r ih => simp only [List.foldl_cons]; exact ih (bc.setValue p.1 p.2)

/-- an operation that does not go through handle `h` leaves the handle's block cache alone -/
theorem Sys.step_bcs_other (s : Sys H K B V) (h : H) (op : Op H K B V) (hu : s.usesBlk h op = false) :
    alookup (s.step op).1.bcs h = alookup s.bcs h := by
  have other : ∀ (h1 : H) (x : BC K B V), h1 ≠ h → alookup (aset s.bcs h1 x) h = alookup s.bcs h := by
    intro h1 x hne; rw [alookup_aset]; simp [hne]
  cases op with
  | blk h1 hash prev => exact other h1 _ (by simpa [Sys.usesBlk] using hu)
  | bhash h1 hash =>
    simp only [Sys.step]
    cases alookup s.bcs h1 with
    | none => rfl
    | some bc => exact other h1 _ (by simpa [Sys.usesBlk] using hu)
  | txn t h1 => simp only [Sys.step]; cases alookup s.bcs h1 <;> rfl
  | qtxn t b => rfl
  | tset t k v => simp only [Sys.step]; cases alookup s.tcs t <;> rfl
  | trem t k => simp only [Sys.step]; cases alookup s.tcs t <;> rfl
  | tget t k =>
    simp only [Sys.step]
    cases alookup s.tcs t with
    | none => rfl
    | some tc =>
      simp only
      cases alookup tc.cache k with
      | some e => rfl
      | none =>
        simp only
        cases tc.main with
        | block h1 => simp only; cases alookup s.bcs h1 <;> rfl
        | query b => rfl
  | tcommit t =>
    simp only [Sys.step, Sys.usesBlk] at hu ⊢
    cases htc : alookup s.tcs t with
    | none => rfl
    | some tc =>
      simp only [htc] at hu ⊢
      cases hm : tc.main with
      | block h1 =>
        simp only
        have hne : h1 ≠ h := by unfold TC.onBlk at hu; rw [hm] at hu; simpa using hu
        cases alookup s.bcs h1 with
        | none => rfl
        | some bc => exact other h1 _ hne
      | query b => simp only; cases tc.cache <;> rfl
  | bset h1 k v =>
    simp only [Sys.step]
    cases alookup s.bcs h1 with
    | none => rfl
    | some bc => exact other h1 _ (by simpa [Sys.usesBlk] using hu)
  | bget h1 k => simp only [Sys.step]; cases alookup s.bcs h1 <;> rfl
  | bcommit h1 =>
    simp only [Sys.step]
    cases alookup s.bcs h1 with
    | none => rfl
    | some bc => exact other h1 _ (by simpa [Sys.usesBlk] using hu)
  | qget b k => rfl
  | sget k b => rfl
  | srem k => rfl

/-- the operation is a `Commit()` of handle `h` that the link check rejects (the block's link is present) -/
def Sys.rejectedCommit (s : Sys H K B V) (h : H) : Op H K B V → Bool
  | .bcommit h' =>
    decide (h' = h) && (match alookup s.bcs h with
      | some bc => (linkAt s.sc bc.hash).isSome
      | none => false)
  | _ => false

/-- `BlkEq` plus: both sides agree on the handle's hash (so a commit is rejected on one side iff on the other) -/
structure BlkEq2 (h : H) (s s' : Sys H K B V) : Prop where
  eq : BlkEq h s s'
  hash : ∀ bc bc', alookup s.bcs h = some bc → alookup s'.bcs h = some bc' → bc'.hash = bc.hash

theorem Sys.step_blkEq2 {h : H} {s s' : Sys H K B V} (e : BlkEq2 h s s') (op : Op H K B V)
    (hu : s.usesBlk h op = false ∨ s.rejectedCommit h op = true) :
    (s'.step op).2 = (s.step op).2 ∧ BlkEq2 h (s.step op).1 (s'.step op).1 := by
  rcases hu with hu | hu
  · obtain ⟨h1, h2⟩ := Sys.step_blkEq e.eq op hu
    refine ⟨h1, h2, fun bc bc' hb hb' => ?_⟩
    rw [Sys.step_bcs_other s h op hu] at hb
    rw [Sys.step_bcs_other s' h op (by rw [Sys.usesBlk_eq e.eq]; exact hu)] at hb'
    exact e.hash bc bc' hb hb'
  · cases op with
    | bcommit h' =>
      simp only [Sys.rejectedCommit, Bool.and_eq_true, decide_eq_true_eq] at hu
      obtain ⟨rfl, hlink⟩ := hu
      cases hb : alookup s.bcs h' with
      | none => rw [hb] at hlink; cases hlink
      | some bc =>
        rw [hb] at hlink
        simp only at hlink
        have hsome' : (alookup s'.bcs h').isSome = true := by rw [e.eq.here, hb]; rfl
        cases hb' : alookup s'.bcs h' with
        | none => rw [hb'] at hsome'; cases hsome'
        | some bc' =>
          have hh := e.hash bc bc' hb hb'
          obtain ⟨p, hp⟩ : ∃ p, linkAt s.sc bc.hash = some p := by
            cases hl : linkAt s.sc bc.hash with
            | none => rw [hl] at hlink; cases hlink
            | some p => exact ⟨p, rfl⟩
          have hp' : linkAt s'.sc bc'.hash = some p := by rw [hh, e.eq.sc]; exact hp
          have hs : s.step (.bcommit h') = ({ s with sc := s.sc.touchLink bc.hash, bcs := aset s.bcs h' bc }, .ok) := by
            simp only [Sys.step, hb, BC.commit_linked s.sc bc hp]
          have hs' : s'.step (.bcommit h') = ({ s' with sc := s'.sc.touchLink bc'.hash, bcs := aset s'.bcs h' bc' }, .ok) := by
            simp only [Sys.step, hb', BC.commit_linked s'.sc bc' hp']
          rw [hs, hs']
          refine ⟨rfl, ⟨⟨by show s'.sc.touchLink bc'.hash = s.sc.touchLink bc.hash; rw [hh, e.eq.sc], fun h1 hne => ?_, ?_, e.eq.tcs⟩, fun x x' hx hx' => ?_⟩⟩
          · simp only; rw [alookup_aset, alookup_aset, e.eq.bcs h1 hne]
            have : ¬ h' = h1 := fun e' => hne e'.symm
            simp [this]
          · simp only; rw [alookup_aset, alookup_aset]; simp
          · simp only [alookup_aset, if_true, Option.some.injEq] at hx hx'
            subst hx; subst hx'; exact hh
    | _ => simp [Sys.rejectedCommit] at hu

/-- the history never goes through handle `h` except for `Commit()` calls on it that the link check rejects -/
def AvoidsBlkButRecommit (h : H) : Sys H K B V → List (Op H K B V) → Prop
  | _, [] => True
  | s, op :: ops => (s.usesBlk h op = false ∨ s.rejectedCommit h op = true) ∧ AvoidsBlkButRecommit h (s.step op).1 ops

theorem Sys.run_blkEq2 {h : H} {s s' : Sys H K B V} (e : BlkEq2 h s s') (ops : List (Op H K B V))
    (hu : AvoidsBlkButRecommit h s ops) : (s'.run ops).2 = (s.run ops).2 := by
  induction ops generalizing s s' with
  | nil => rfl
  | cons op ops ih =>
    simp only [Sys.run]
    obtain ⟨h1, h2⟩ := Sys.step_blkEq2 e op hu.1
    rw [h1, ih h2 hu.2]

/-- a write into handle `h` keeps the handle's hash -/
theorem BlkEq2.of_write (h : H) (s : Sys H K B V) (op : Op H K B V)
    (hw : (∃ k v, op = .bset h k v) ∨ (∃ t, op = .tcommit t ∧ ∃ tc, alookup s.tcs t = some tc ∧ tc.main = .block h)
        ∨ (∃ t k v, op = .tset t k v ∧ ∃ tc, alookup s.tcs t = some tc ∧ tc.main = .block h)
        ∨ (∃ t k, op = .trem t k ∧ ∃ tc, alookup s.tcs t = some tc ∧ tc.main = .block h)) :
    BlkEq2 h s (s.step op).1 := by
  refine ⟨BlkEq.of_write h s op hw, fun bc bc' hb hb' => ?_⟩
  rcases hw with ⟨k, v, rfl⟩ | ⟨t, rfl, tc, htc, hm⟩ | ⟨t, k, v, rfl, tc, htc, hm⟩ | ⟨t, k, rfl, tc, htc, hm⟩
  · simp only [Sys.step, hb, alookup_aset, if_true, Option.some.injEq] at hb'
    subst hb'; rfl
  · simp only [Sys.step, htc, hm, hb, alookup_aset, if_true, Option.some.injEq] at hb'
    subst hb'; exact (foldl_setValue_meta tc.cache bc).1
  · simp only [Sys.step, htc] at hb'
    rw [hb] at hb'; cases hb'; rfl
  · simp only [Sys.step, htc] at hb'
    rw [hb] at hb'; cases hb'; rfl

end Verif.SC
