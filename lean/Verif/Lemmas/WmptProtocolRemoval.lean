/-
The REMOVAL clause of `Rollback`, in history form (on top of Verif.Lemmas.WmptProtocol):

  1. `protocol_rollback_removes`  : after a `Rollback`, no hash listed in `created` is a storage key any more, and the
     list is empty (from the definition of `rollback`; no protocol hypothesis);
  2. `protocol_created_is_fresh`  : what a `Commit` of a dirty root lists in `created` was NOT a storage key before that
     commit ("created = nodes that only this commit put into storage");
     `protocol_created_after_clean_commit` : a `Commit` of a clean root lists nothing (pending changes: the emptying
     commit) or keeps the list (no pending changes);
  3. `protocol_rollback_removal`  : 1 + the restoring conclusion + the checkpoint is completely stored, for an accepted
     history `p ++ [.rollback]`.
Core Lean only.
-/
import Verif.Lemmas.WmptProtocol
namespace Verif.Wmpt
open RepOps RepMore

section
variable {H : Bytes → Bytes}

/-! ### 0. `hasDb` never changes -/

theorem removal_update_hasDb (t : WT) (key : List Nib) (v : Bytes) (w : Nat) :
    (update H t key v w).1.hasDb = t.hasDb := by
  unfold update
  split
  · rfl
  · split
    · simp only
      split <;> rfl
    · simp only
      split <;> rfl

theorem removal_deleteKey_hasDb (t : WT) (key : List Nib) : (deleteKey H t key).1.hasDb = t.hasDb := by
  unfold deleteKey
  simp only
  split <;> rfl

theorem removal_hstep_hasDb (s : HState) (op : HOp) : (hstep H s op).t.hasDb = s.t.hasDb := by
  cases op with
  | upd key v w => exact removal_update_hasDb s.t key v w
  | del key => exact removal_deleteKey_hasDb s.t key
  | root => exact rootHash_hasDb s.t
  | commit lvl => exact commit_hasDb s.t lvl
  | gc => rfl
  | saveRoot => rfl
  | rollback => rfl

/-- every history runs with a database -/
theorem hrun_hasDb (p : List HOp) : (hrun H p).t.hasDb = true := by
  have h : ∀ (q : List HOp) (s : HState), s.t.hasDb = true → (q.foldl (hstep H) s).t.hasDb = true := by
    intro q
    induction q with
    | nil => intro s hs; exact hs
    | cons op q ih =>
      intro s hs
      simp only [List.foldl_cons]
      exact ih _ (by rw [removal_hstep_hasDb]; exact hs)
  exact h p {} rfl

/-! ### 1. `Rollback` removes what `created` lists -/

/-- REMOVAL: after `Rollback`, every hash that `created` listed is no storage key any more, and `created` is empty.
    Any history `p`; no protocol hypothesis. -/
theorem protocol_rollback_removes (p : List HOp) :
    (∀ k ∈ (hrun H p).t.created, (hrun H (p ++ [.rollback])).t.store.get k = none) ∧
    (hrun H (p ++ [.rollback])).t.created = [] := by
  rw [hrun_snoc]
  exact ⟨fun k hk => get_apply_dels_mem (hrun H p).t.store (hrun H p).t.created k hk, rfl⟩

/-- ... and `Rollback` deletes nothing else: a key that `created` does not list keeps its storage entry -/
theorem protocol_rollback_keeps (p : List HOp) (k : Bytes) (hk : k ∉ (hrun H p).t.created) :
    (hrun H (p ++ [.rollback])).t.store.get k = (hrun H p).t.store.get k := by
  rw [hrun_snoc]
  exact get_apply_dels (hrun H p).t.store (hrun H p).t.created k hk

/-! ### 2. what `created` lists -/

theorem hrun_commit_created (p : List HOp) (lvl : Int) :
    (hrun H (p ++ [.commit lvl])).t.created = (commit H (hrun H p).t lvl).1.created := by
  rw [hrun_snoc]; rfl

/-- FRESHNESS: a `Commit` of a dirty root lists in `created` only hashes that were no storage keys before it: nodes
    that ONLY this commit put into storage.  Any history `p` (every history runs with a database: `hrun_hasDb`). -/
theorem protocol_created_is_fresh (p : List HOp) (lvl : Int) (hd : (hrun H p).t.root.dirty = true) :
    ∀ k ∈ (hrun H (p ++ [.commit lvl])).t.created, (hrun H p).t.store.get k = none := by
  intro k hk
  rw [hrun_commit_created] at hk
  exact commit_created_fresh H (hrun H p).t lvl k (hrun_hasDb p) hk hd

/-- a `Commit` of a clean root: with pending changes (the emptying commit, after the deletion of every key) it lists
    nothing; without pending changes it keeps the list of the previous commit -/
theorem protocol_created_after_clean_commit (p : List HOp) (lvl : Int) (hd : (hrun H p).t.root.dirty = false) :
    ((hrun H p).t.pending ≠ [] → (hrun H (p ++ [.commit lvl])).t.created = []) ∧
    ((hrun H p).t.pending = [] → (hrun H (p ++ [.commit lvl])).t.created = (hrun H p).t.created) := by
  rw [hrun_commit_created, (commit_clean_eq (H := H) lvl (hrun H p).t hd).1]
  simp only
  constructor
  · intro h
    cases hp : (hrun H p).t.pending with
    | nil => exact absurd hp h
    | cons a l => rfl
  · intro h
    rw [h]; rfl

/-- in every case: what is listed after a `Commit` was no storage key before it, or was listed already -/
theorem protocol_created_fresh_or_old (p : List HOp) (lvl : Int) :
    ∀ k ∈ (hrun H (p ++ [.commit lvl])).t.created,
      (hrun H p).t.store.get k = none ∨ k ∈ (hrun H p).t.created := by
  intro k hk
  rw [hrun_commit_created] at hk
  exact proto_commit_created (hrun H p).t lvl k (hrun_hasDb p) hk

/-! ### 3. the removal clause for an accepted history -/

/-- `Rollback` after an accepted history: every hash the last commit listed as created is gone from storage, the list
    is empty, the live content is the content at the last `SaveRoot`, and every node of that content is in storage. -/
theorem protocol_rollback_removal (hlen : ∀ x, (H x).length = 32) (p : List HOp)
    (hacc : pctlRun (p ++ [.rollback]) ≠ none)
    (hwf : ∀ op ∈ p ++ [.rollback], op.wf)
    (hok : ∀ p1 q, p ++ [.rollback] = p1 ++ q → PTOK (pspecRun p1).1 ∧ Distinct H (pspecRun p1).1)
    (hcol : ∀ p1 lvl q, p ++ [.rollback] = p1 ++ .commit lvl :: q → ∀ c, pctlRun p1 = some c → c.mode = .armed →
      ∀ x y, PT.Sub x (pspecRun p1).1 → PT.Sub y (pspecRun p1).2.2 →
        PT.hash H x = PT.hash H y → PT.persist H x = PT.persist H y)
    (hrb : ∀ p1 q, p ++ [.rollback] = p1 ++ .rollback :: q →
      (pspecRun p1).2.2.weight = 0 → (pspecRun p1).2.2 = .none) :
    (∀ k ∈ (hrun H p).t.created, (hrun H (p ++ [.rollback])).t.store.get k = none) ∧
    (hrun H (p ++ [.rollback])).t.created = [] ∧
    (pspecRun (p ++ [.rollback])).1 = (pspecRun p).2.2 ∧
    StoredAll H (hrun H (p ++ [.rollback])).t.store (pspecRun p).2.2 := by
  obtain ⟨h1, h2⟩ := protocol_rollback_removes (H := H) p
  refine ⟨h1, h2, by rw [pspecRun_rollback], ?_⟩
  have h := protocol_stored hlen (p ++ [.rollback]) hacc hwf hok hcol hrb
  rw [pspecRun_rollback] at h
  exact h

/-- ... and no node of the checkpoint was among the removed keys: before the `Rollback`, `created` lists no node of
    the checkpoint content -/
theorem protocol_rollback_created_disjoint (hlen : ∀ x, (H x).length = 32) (p : List HOp)
    (hacc : pctlRun (p ++ [.rollback]) ≠ none)
    (hwf : ∀ op ∈ p ++ [.rollback], op.wf)
    (hok : ∀ p1 q, p ++ [.rollback] = p1 ++ q → PTOK (pspecRun p1).1 ∧ Distinct H (pspecRun p1).1)
    (hcol : ∀ p1 lvl q, p ++ [.rollback] = p1 ++ .commit lvl :: q → ∀ c, pctlRun p1 = some c → c.mode = .armed →
      ∀ x y, PT.Sub x (pspecRun p1).1 → PT.Sub y (pspecRun p1).2.2 →
        PT.hash H x = PT.hash H y → PT.persist H x = PT.persist H y)
    (hrb : ∀ p1 q, p ++ [.rollback] = p1 ++ .rollback :: q →
      (pspecRun p1).2.2.weight = 0 → (pspecRun p1).2.2 = .none) :
    ∀ k ∈ (hrun H p).t.created, k ∉ NL H (pspecRun p).2.2 := by
  obtain ⟨c, hc, hi⟩ := pinv_prefix hlen (p ++ [.rollback]) hacc hwf hok hcol hrb p [.rollback] rfl
  have hm : c.mode ≠ .idle := by
    intro e
    apply hacc
    rw [pctlRun_snoc, hc]
    simp [pctl, e]
  exact (hi.ckpt hm).2.1

end
end Verif.Wmpt
