import Verif.Lemmas.Ring
import Verif.Lemmas.RingMutex
/-!
# The log ring used from several goroutines

Operations a goroutine can issue, their sequential meaning on (ring state, results returned by `GetLogs` so far),
the specification's meaning on (one log, results), and their micro-step semantics for `Verif.RingMutex`: which
micro-steps a call consists of and — from the lock facts extracted from the Go source — whether they run under the
one shared mutex.
-/
namespace Verif.Ring
open Verif.RingMutex

variable {ε : Type}

inductive COp (ε : Type) where
  | write (core : Nat) (e : ε)
  | derive (core : Nat)
  | getLogs
deriving Repr

/-- ring state and the results of the `GetLogs` calls that have returned, in order -/
abbrev Shared (ε : Type) := State ε × List (List ε)

def cstep (x : Shared ε) : COp ε → Shared ε
  | .write c e => (write x.1 c e, x.2)
  | .derive c => (derive x.1 c, x.2)
  | .getLogs => (x.1, x.2 ++ [getLogs x.1])

def crun (x : Shared ε) (h : List (COp ε)) : Shared ε := h.foldl cstep x

/-- specification: one append-only log; `GetLogs` returns its `cap` newest entries, newest first -/
def specStep (cap : Nat) (x : Spec ε × List (List ε)) : COp ε → Spec ε × List (List ε)
  | .write c e => (x.1.step (.write c e), x.2)
  | .derive c => (x.1.step (.derive c), x.2)
  | .getLogs => (x.1, x.2 ++ [x.1.log.take cap])

def specRun (cap : Nat) (x : Spec ε × List (List ε)) (h : List (COp ε)) : Spec ε × List (List ε) :=
  h.foldl (specStep cap) x

theorem crun_spec (cap : Nat) (hc : 0 < cap) (h : List (COp ε)) :
    ∀ (s : State ε) (sp : Spec ε) (obs : List (List ε)), Inv cap s sp →
      Inv cap (crun (s, obs) h).1 (specRun cap (sp, obs) h).1 ∧ (crun (s, obs) h).2 = (specRun cap (sp, obs) h).2 := by
  induction h with
  | nil => intro s sp obs hi; exact ⟨hi, rfl⟩
  | cons op h ih =>
    intro s sp obs hi
    cases op with
    | write c e => exact ih _ _ obs (inv_step cap hc s sp (.write c e) hi)
    | derive c => exact ih _ _ obs (inv_step cap hc s sp (.derive c) hi)
    | getLogs =>
      have := ih s sp (obs ++ [getLogs s]) hi
      simp only [crun, specRun, List.foldl_cons, cstep, specStep] at this ⊢
      rw [← getLogs_of_inv cap s sp hi]
      exact this

/-- The lock discipline of `core/logging/inmemory_logger.go` that the concurrent theorem needs, as four Booleans.
They are computed (`Props/C20Code.lean`) from the per-access table `Verif/Gen/RingFacts.lean`, which `go/ringfacts`
regenerates from the Go source on every run by a flow analysis of the held lock — independent of how the code is
shaped (helper names, `defer` or explicit unlock, field names). -/
structure LockFacts where
  /-- every *write* of shared ring state (the cursor, the pointer to the shared cursor cell, a slot) — in whichever
  function of the package, reached from whichever entry point — happens with the shared mutex held in write mode;
  every value stored into a slot is an object allocated by that very call; no object read out of a slot is modified -/
  write_holds_mu : Bool
  /-- every *read* of shared ring state (including the walk over all slots) happens with the shared mutex held, in
  read or write mode (readers only read, so two of them commute; the model treats the read as one atomic step) -/
  getLogs_holds_mu : Bool
  /-- the analysis followed every construct it met (`unknowns = []`), looked at something (a slot write and a walk were
  found), and every entry point leaves the mutex as it found it -/
  clone_holds_mu : Bool
  /-- all cores of a logger lock one mutex: every core built from an existing one takes that one's mutex, a fresh
  mutex is allocated only where no core exists yet (the constructor), and the core type has exactly one mutex field -/
  derived_shares_mu : Bool

def LockFacts.ok (F : LockFacts) : Bool :=
  F.write_holds_mu && F.getLogs_holds_mu && F.clone_holds_mu && F.derived_shares_mu

/-- micro-step semantics of the calls: `Write` is store-then-advance; an operation excludes the others only if it
holds the mutex *and* that mutex is the one everybody else locks -/
def sem (F : LockFacts) : Sem (Shared ε) (COp ε) where
  body
    | .write c e => [fun x => (writeStore x.1 c e, x.2), fun x => (writeAdvance x.1 c, x.2)]
    | .derive c => [fun x => (derive x.1 c, x.2)]
    | .getLogs => [fun x => (x.1, x.2 ++ [getLogs x.1])]
  locked
    | .write _ _ => F.write_holds_mu && F.derived_shares_mu
    | .derive _ => F.clone_holds_mu && F.derived_shares_mu
    | .getLogs => F.getLogs_holds_mu && F.derived_shares_mu

theorem sem_run (F : LockFacts) (op : COp ε) (x : Shared ε) : (sem F).run op x = cstep x op := by
  cases op with
  | write c e => simp [Sem.run, sem, applyAll, cstep, write_eq_steps]
  | derive c => simp [Sem.run, sem, applyAll, cstep]
  | getLogs => simp [Sem.run, sem, applyAll, cstep]

theorem seqRun_eq_crun (F : LockFacts) (lin : List (Nat × COp ε)) :
    ∀ x : Shared ε, seqRun (sem F) x lin = crun x (lin.map (·.2)) := by
  induction lin with
  | nil => intro x; rfl
  | cons p lin ih =>
    intro x
    simp only [seqRun, List.foldl_cons, List.map_cons, crun] at ih ⊢
    rw [sem_run]
    exact ih _

theorem sem_locked (F : LockFacts) (hF : F.ok = true) (op : COp ε) : (sem F).locked op = true := by
  simp only [LockFacts.ok, Bool.and_eq_true] at hF
  cases op <;> simp [sem, hF]

end Verif.Ring
