/-
The layered store of a trie along its events: every pending new node is stored in the trie's own level under its key
with its encoding, and everything in that level is the encoding of a node some event created.  Consequence: under the
event discipline the tree of the current root resolves in (own level, then the stores below).
-/
import Verif.Lemmas.MptStoreTrie
namespace Verif.MptStore
open Verif.Mpt Collector

theorem level_put_get (l : Level) (k v x : Bytes) :
    Map.get (l.put k v).current x = if k = x then some v else Map.get l.current x := by
  simp [Level.put, Map.get_put]

theorem level_delete_get (l : Level) (k x : Bytes) :
    Map.get (l.delete k).current x = if k = x then none else Map.get l.current x := by
  unfold Level.delete
  by_cases h : Map.has l.current k = true
  · simp [h, Map.get_del]
  · simp only [h]
    have hn : Map.get l.current k = none := by
      simp only [Map.has] at h
      cases hg : Map.get l.current k with
      | none => rfl
      | some v => simp [hg] at h
    have hcur : (if l.deleted.contains k = true then l else { l with deleted := k :: l.deleted }).current = l.current := by
      split <;> rfl
    simp only [Bool.false_eq_true, if_false]
    rw [hcur]
    by_cases e : k = x
    · subst e; simp [hn]
    · simp [e]

/-- the store invariant of a trie (relative to a set `P` of references, the nodes its events created) -/
structure Stored (H : Bytes → Bytes) (P : Ref → Prop) (b : Trie) : Prop where
  pending : ∀ x c, Map.get b.cc.changes x = some c → Map.get b.db.current x = some (c.new.encode H)
  cur : ∀ x v, Map.get b.db.current x = some v → ∃ n, P n ∧ n.key H = x ∧ v = n.encode H
  prov : Prov (Ref.key H) P b.cc

/-- a key determines the stored encoding on `P` -/
def Faithful (H : Bytes → Bytes) (P : Ref → Prop) : Prop := ∀ a b, P a → P b → a.key H = b.key H → a.encode H = b.encode H

theorem stored_insertNode (H : Bytes → Bytes) (P : Ref → Prop) (hf : Faithful H P) (b : Trie) (old : Option Ref) (new : Ref)
    (h : Stored H P b) (hnew : P new) (hold : ∀ o, old = some o → P o) : Stored H P (b.insertNode H old new) := by
  have hprovNew : ∀ x c, Map.get b.cc.changes x = some c → P c.new ∧ c.new.key H = x := by
    intro x c hg
    have := h.prov.changes (x, c) (Map.mem_of_get hg)
    exact ⟨this.2.1, this.1⟩
  cases old with
  | none =>
    simp only [Trie.insertNode]
    refine ⟨?_, ?_, ?_⟩
    · intro x c hg
      simp only [addChange, Map.get_put] at hg
      simp only [level_put_get]
      by_cases e : new.key H = x
      · simp [e] at hg; subst hg; simp [e]
      · simp [e] at hg; simp [e, h.pending x c hg]
    · intro x v hg
      simp only [level_put_get] at hg
      by_cases e : new.key H = x
      · simp [e] at hg; exact ⟨new, hnew, e, hg.symm⟩
      · simp [e] at hg; exact h.cur x v hg
    · exact prov_step h.prov (.add none new) ⟨hnew, by intro o ho; cases ho⟩
  | some o =>
    have hoP : P o := hold o rfl
    simp only [Trie.insertNode]
    by_cases hk : o.key H = new.key H
    · simp only [hk, if_true]
      refine ⟨?_, ?_, h.prov⟩
      · intro x c hg
        simp only [level_put_get]
        by_cases e : new.key H = x
        · obtain ⟨hp, hkc⟩ := hprovNew x c hg
          simp only [e, if_true]
          rw [hf new c.new hnew hp (e.trans hkc.symm)]
        · simp [e, h.pending x c hg]
      · intro x v hg
        simp only [level_put_get] at hg
        by_cases e : new.key H = x
        · simp [e] at hg; exact ⟨new, hnew, e, hg.symm⟩
        · simp [e] at hg; exact h.cur x v hg
    · simp only [hk, if_false]
      have hcur : ∀ x, Map.get (((b.db.put (new.key H) (new.encode H)).delete (o.key H)).current) x =
          if o.key H = x then none else if new.key H = x then some (new.encode H) else Map.get b.db.current x := by
        intro x; rw [level_delete_get, level_put_get]
      refine ⟨?_, ?_, prov_step h.prov (.add (some o) new) ⟨hnew, by intro o' ho'; cases ho'; exact hoP⟩⟩
      · intro x c hg
        rw [hcur]
        simp only [addChange] at hg
        cases hgo : Map.get b.cc.changes (o.key H) with
        | none =>
          simp only [hgo, Map.get_put] at hg
          by_cases e : new.key H = x
          · simp [e] at hg; subst hg
            have : o.key H ≠ x := fun e2 => hk (e2.trans e.symm)
            simp [this, e]
          · simp [e] at hg
            have : o.key H ≠ x := by intro e2; subst e2; rw [hgo] at hg; cases hg
            simp [this, e, h.pending x c hg]
        | some prev =>
          simp only [hgo] at hg
          have hx_ne_o : ∀ c', Map.get (Map.del b.cc.changes (o.key H)) x = some c' → o.key H ≠ x ∧ Map.get b.cc.changes x = some c' := by
            intro c' hg'
            simp only [Map.get_del] at hg'
            by_cases e2 : o.key H = x
            · simp [e2] at hg'
            · simp [e2] at hg'; exact ⟨e2, hg'⟩
          have hput : ∀ po, Map.get (Map.put (Map.del b.cc.changes (o.key H)) (new.key H) ⟨po, new⟩) x = some c →
              (if o.key H = x then none else if new.key H = x then some (new.encode H) else Map.get b.db.current x)
                = some (c.new.encode H) := by
            intro po hg'
            simp only [Map.get_put] at hg'
            by_cases e : new.key H = x
            · simp [e] at hg'; subst hg'
              have : o.key H ≠ x := fun e2 => hk (e2.trans e.symm)
              simp [this, e]
            · simp [e] at hg'
              obtain ⟨hne, hgc⟩ := hx_ne_o c hg'
              simp [hne, e, h.pending x c hgc]
          cases hpo : prev.old with
          | none => simp only [hpo] at hg; exact hput none hg
          | some po =>
            simp only [hpo] at hg
            by_cases hback : new.key H = po.key H
            · simp only [hback, if_true] at hg
              obtain ⟨hne, hgc⟩ := hx_ne_o c hg
              by_cases e : new.key H = x
              · obtain ⟨hp, hkc⟩ := hprovNew x c hgc
                simp only [hne, e, if_false, if_true]
                rw [hf new c.new hnew hp (e.trans hkc.symm)]
              · simp [hne, e, h.pending x c hgc]
            · simp only [hback, if_false] at hg
              exact hput (some po) hg
      · intro x v hg
        rw [hcur] at hg
        by_cases e1 : o.key H = x
        · simp [e1] at hg
        · by_cases e : new.key H = x
          · simp [e1, e] at hg; exact ⟨new, hnew, e, hg.symm⟩
          · simp [e1, e] at hg; exact h.cur x v hg

theorem stored_deleteNode (H : Bytes → Bytes) (P : Ref → Prop) (b : Trie) (o : Ref)
    (h : Stored H P b) (hoP : P o) : Stored H P (b.deleteNode H o) := by
  simp only [Trie.deleteNode]
  refine ⟨?_, ?_, prov_step h.prov (.del o) hoP⟩
  · intro x c hg
    rw [level_delete_get]
    simp only [deleteChange] at hg
    cases hgo : Map.get b.cc.changes (o.key H) with
    | none =>
      simp only [hgo] at hg
      have : o.key H ≠ x := by intro e2; subst e2; rw [hgo] at hg; cases hg
      simp [this, h.pending x c hg]
    | some c0 =>
      simp only [hgo, Map.get_del] at hg
      by_cases e2 : o.key H = x
      · simp [e2] at hg
      · simp [e2] at hg; simp [e2, h.pending x c hg]
  · intro x v hg
    rw [level_delete_get] at hg
    by_cases e1 : o.key H = x
    · simp [e1] at hg
    · simp [e1] at hg; exact h.cur x v hg

theorem stored_applyEvents (H : Bytes → Bytes) (P : Ref → Prop) (hf : Faithful H P) :
    ∀ (es : List Event) (b : Trie), Stored H P b → (∀ r ∈ eventRefs es, P r) → Stored H P (b.applyEvents H es) := by
  intro es
  induction es with
  | nil => intro b h _; exact h
  | cons e es ih =>
    intro b h hP
    have hP' : ∀ r ∈ eventRefs es, P r := by
      intro r hr
      cases e with
      | del o => exact hP r (by simp [eventRefs, hr])
      | put o n => cases o <;> exact hP r (by simp [eventRefs, hr])
    have : b.applyEvents H (e :: es) = (b.applyEvent H e).applyEvents H es := rfl
    rw [this]
    apply ih _ _ hP'
    cases e with
    | del o => exact stored_deleteNode H P b o h (hP o (by simp [eventRefs]))
    | put o n =>
      cases o with
      | none => exact stored_insertNode H P hf b none n h (hP n (by simp [eventRefs])) (by intro o ho; cases ho)
      | some o =>
        exact stored_insertNode H P hf b (some o) n h (hP n (by simp [eventRefs]))
          (by intro o' ho'; cases ho'; exact hP o (by simp [eventRefs]))

theorem stored_init (H : Bytes → Bytes) (P : Ref → Prop) (b0 : Trie)
    (hfresh : b0.cc.changes = [] ∧ b0.cc.deletes = []) (hcur : b0.db.current = []) : Stored H P b0 := by
  refine ⟨?_, ?_, ⟨?_, ?_⟩⟩
  · intro x c hg; rw [hfresh.1] at hg; simp at hg
  · intro x v hg; rw [hcur] at hg; simp at hg
  · intro e he; rw [hfresh.1] at he; cases he
  · intro e he; rw [hfresh.2] at he; cases he

/-- read-through of a trie's layered store: its own level first, then whatever lies below -/
def levelGet (b : Trie) (below : Bytes → Option Bytes) : Bytes → Option Bytes :=
  fun k => match Map.get b.db.current k with
    | some v => some v
    | none => below k

/-- **Under the event discipline the current tree resolves in the layered store.**  `b0` is a freshly opened trie
    (empty level, empty collector) over stores `below` in which the start tree `t0` resolves; `es` are all events
    applied since; `t` is a tree whose nodes are in the live key set computed from the events. -/
theorem level_resolves_partial (H : Bytes → Bytes) (below : Bytes → Option Bytes) (t0 t : Node) (b0 : Trie) (es : List Event)
    (hfresh : b0.cc.changes = [] ∧ b0.cc.deletes = []) (hcur : b0.db.current = [])
    (h0 : Resolves H below t0 [])
    (hdisc : Disc (Ref.key H) (fun x => x ∈ (refs t0 []).map (Ref.key H)) (callsOf H es))
    (hcov : ∀ r ∈ refs t [], liveRun (Ref.key H) (fun x => x ∈ (refs t0 []).map (Ref.key H)) (callsOf H es) (r.key H))
    (hf : Faithful H (fun r => r ∈ refs t0 [] ∨ r ∈ refs t [] ∨ r ∈ eventRefs es)) :
    Resolves H (levelGet (b0.applyEvents H es) below) t [] := by
  intro r hr
  have hst := stored_applyEvents H (fun r => r ∈ refs t0 [] ∨ r ∈ refs t [] ∨ r ∈ eventRefs es) hf es b0
    (stored_init H _ b0 hfresh hcur) (fun r hr => Or.inr (Or.inr hr))
  have hcc0 : b0.cc = { startRoot := b0.cc.startRoot } := by
    cases hb : b0.cc with
    | mk s c d => rw [hb] at hfresh; simp at hfresh; simp [hfresh.1, hfresh.2]
  have inv := inv_run (callsOf H es) (inv_init (Ref.key H) (fun x => x ∈ (refs t0 []).map (Ref.key H)) b0.cc.startRoot) hdisc
  rw [← hcc0, ← applyEvents_cc] at inv
  simp only [levelGet]
  cases hg : Map.get (b0.applyEvents H es).db.current (r.key H) with
  | some v =>
    obtain ⟨n, hn, hnk, hv⟩ := hst.cur _ _ hg
    simp only
    rw [hv, hf n r hn (Or.inr (Or.inl hr)) hnk]
  | none =>
    simp only
    rcases inv.live_cover (r.key H) (hcov r hr) with hl | hl
    · obtain ⟨r0, hr0, hk0⟩ := List.mem_map.mp hl
      rw [← hk0, h0 r0 hr0, hf r0 r (Or.inl hr0) (Or.inr (Or.inl hr)) hk0]
    · exfalso
      cases hgc : Map.get (b0.applyEvents H es).cc.changes (r.key H) with
      | none => rw [hgc] at hl; simp at hl
      | some c => have := hst.pending _ c hgc; rw [hg] at this; cases this

end Verif.MptStore
