import Verif.Model.Ring
/-! Lemmas for C20: the ring seen from the cursor is a sliding window over the append-only log. -/
namespace Verif.Ring

variable {ε : Type}

/-- the slots in visiting order from position `i` -/
def view (slots : List (Option ε)) (i : Nat) : List (Option ε) := slots.drop i ++ slots.take i

/-- what the ring must look like from the cursor when `log` (newest first) has been written: the unused slots,
then the retained entries oldest first -/
def window (cap : Nat) (log : List ε) : List (Option ε) :=
  List.replicate (cap - log.length) none ++ ((log.take cap).reverse.map some)

theorem view_set_next (A B : List (Option ε)) (y x : Option ε) :
    view ((A ++ y :: B).set A.length x) ((A.length + 1) % (A ++ y :: B).length) = (view (A ++ y :: B) A.length).tail ++ [x] := by
  cases B with
  | nil => simp [view]
  | cons b B =>
    have h : (A.length + 1) % (A ++ y :: b :: B).length = A.length + 1 := by
      apply Nat.mod_eq_of_lt; simp
    rw [h]
    have h1 : List.drop (A.length + 1) A = [] := List.drop_of_length_le (by omega)
    have h2 : List.take (A.length + 1) A = A := List.take_of_length_le (by omega)
    simp [view, List.take_append, List.drop_append, h1, h2]

theorem view_write (slots : List (Option ε)) (i : Nat) (hi : i < slots.length) (x : Option ε) :
    view (slots.set i x) ((i + 1) % slots.length) = (view slots i).tail ++ [x] := by
  have hd : slots = slots.take i ++ slots[i] :: slots.drop (i + 1) := by
    simp
  have hl : (slots.take i).length = i := by simp; omega
  have := view_set_next (slots.take i) (slots.drop (i + 1)) slots[i] x
  rw [← hd, hl] at this
  exact this

theorem window_push (cap : Nat) (hc : 0 < cap) (log : List ε) (e : ε) :
    (window cap log).tail ++ [some e] = window cap (e :: log) := by
  unfold window
  by_cases h : log.length < cap
  · have h1 : cap - log.length = (cap - (log.length + 1)) + 1 := by omega
    rw [h1, List.replicate_succ]
    have h2 : List.take cap log = log := List.take_of_length_le (by omega)
    have h3 : List.take cap (e :: log) = e :: log := List.take_of_length_le (by simp; omega)
    simp [h2, h3]
  · have h1 : cap - log.length = 0 := by omega
    have h2 : cap - (e :: log).length = 0 := by simp; omega
    obtain ⟨c, rfl⟩ : ∃ c, cap = c + 1 := ⟨cap - 1, by omega⟩
    rw [h1, h2]
    simp only [List.replicate_zero, List.nil_append, List.take_succ_cons, List.reverse_cons, List.map_append,
      List.map_cons, List.map_nil]
    congr 1
    rw [← List.map_tail]
    congr 1
    have : (List.take (c + 1) log).reverse.tail = (List.take (c + 1) log).dropLast.reverse := by
      simp
    rw [this, List.dropLast_eq_take, List.take_take]
    congr 2
    simp; omega

theorem filterMap_window (cap : Nat) (log : List ε) :
    ((window cap log).filterMap id).reverse = log.take cap := by
  have h : ∀ l : List ε, List.filterMap id (l.map some) = l := by
    intro l; induction l with
    | nil => rfl
    | cons a l ih => simp [ih]
  simp only [window, List.filterMap_append, List.filterMap_replicate_of_none, id, List.nil_append,
    List.map_reverse, List.filterMap_reverse, List.reverse_reverse, h]

end Verif.Ring

namespace Verif.Ring
variable {ε : Type}

/-- the invariant tying the ring of the fixed code to the specification's log -/
structure Inv (cap : Nat) (s : State ε) (sp : Spec ε) : Prop where
  len : s.slots.length = cap
  ncores : s.cores.length = sp.ncores
  pos : 0 < sp.ncores
  cell : ∀ k ∈ s.cores, k.cell = 0
  mu : ∀ k ∈ s.cores, k.mu = 0
  cur : ∃ i, s.cells = [i] ∧ i < cap ∧ view s.slots i = window cap sp.log

theorem inv_init (cap : Nat) (hc : 0 < cap) : Inv cap (init cap : State ε) Spec.init := by
  refine ⟨by simp [init], by simp [init, Spec.init], by simp [Spec.init], by simp [init], by simp [init], 0, rfl, hc, ?_⟩
  simp [view, window, init, Spec.init]

theorem inv_step (cap : Nat) (hc : 0 < cap) (s : State ε) (sp : Spec ε) (op : Op ε) (h : Inv cap s sp) :
    Inv cap (step s op) (sp.step op) := by
  obtain ⟨hlen, hn, hpos, hcell, hmu, i, hi, hic, hv⟩ := h
  cases op with
  | write c e =>
    simp only [step, write, Spec.step]
    by_cases hcn : c < s.cores.length
    · have hk : s.cores[c]? = some s.cores[c] := List.getElem?_eq_getElem hcn
      have hk0 : s.cores[c].cell = 0 := hcell _ (List.getElem_mem hcn)
      rw [hk]
      simp only [if_pos (hn ▸ hcn), hk0, hi, List.getD_cons_zero, List.set_cons_zero]
      refine ⟨by simp [hlen], hn, hpos, hcell, hmu, (i + 1) % s.slots.length, rfl, ?_, ?_⟩
      · rw [hlen]; exact Nat.mod_lt _ hc
      · simp only
        rw [view_write _ _ (hlen ▸ hic), hv, window_push cap hc]
    · have hk : s.cores[c]? = none := List.getElem?_eq_none (by omega)
      rw [hk]
      simp only [if_neg (hn ▸ hcn)]
      exact ⟨hlen, hn, hpos, hcell, hmu, i, hi, hic, hv⟩
  | derive c =>
    simp only [step, derive, Spec.step]
    by_cases hcn : c < s.cores.length
    · have hk : s.cores[c]? = some s.cores[c] := List.getElem?_eq_getElem hcn
      have hk0 : s.cores[c].cell = 0 := hcell _ (List.getElem_mem hcn)
      rw [hk]
      simp only [if_pos (hn ▸ hcn)]
      have hm0 : s.cores[c].mu = 0 := hmu _ (List.getElem_mem hcn)
      refine ⟨hlen, by simp [hn], Nat.succ_pos _, ?_, ?_, i, hi, hic, hv⟩
      · intro k hkm
        simp only [List.mem_append, List.mem_singleton] at hkm
        rcases hkm with hkm | rfl
        · exact hcell k hkm
        · exact hk0
      · intro k hkm
        simp only [List.mem_append, List.mem_singleton] at hkm
        rcases hkm with hkm | rfl
        · exact hmu k hkm
        · exact hm0
    · have hk : s.cores[c]? = none := List.getElem?_eq_none (by omega)
      rw [hk]
      simp only [if_neg (hn ▸ hcn)]
      exact ⟨hlen, hn, hpos, hcell, hmu, i, hi, hic, hv⟩

theorem inv_run (cap : Nat) (hc : 0 < cap) (h : List (Op ε)) :
    ∀ (s : State ε) (sp : Spec ε), Inv cap s sp → Inv cap (run s h) (sp.run h) := by
  induction h with
  | nil => intro s sp hi; exact hi
  | cons op h ih =>
    intro s sp hi
    exact ih _ _ (inv_step cap hc s sp op hi)

theorem getLogs_of_inv (cap : Nat) (s : State ε) (sp : Spec ε) (h : Inv cap s sp) :
    getLogs s = sp.log.take cap := by
  obtain ⟨_, hn, hpos, hcell, _, i, hi, _, hv⟩ := h
  have hne : 0 < s.cores.length := by omega
  have h0 : (s.cores.getD 0 ⟨0, 0⟩).cell = 0 := by
    cases hcs : s.cores with
    | nil => simp [hcs] at hne
    | cons k ks => exact hcell k (by simp [hcs])
  unfold getLogs visit
  simp only [h0, hi, List.getD_cons_zero]
  have := filterMap_window cap sp.log
  rw [← hv] at this
  exact this

end Verif.Ring
