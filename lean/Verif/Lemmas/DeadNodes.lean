/-
Lemmas about the dead-node record codec model (Verif.Model.DeadNodes): no reader panics, every reader returns a suffix,
allocation hints are bounded by the input, encode/decode round trip.
-/
import Verif.Model.DeadNodes
import Verif.Lemmas.MptCodec
namespace Verif.DeadNodes
open Verif.Codec (DRes)

/-- "error, or a value satisfying Q" — in particular not a panic -/
def Good {α : Type} (x : DRes α) (Q : α → Prop) : Prop := x = .err ∨ ∃ a, x = .ok a ∧ Q a

theorem Good.ne_panic {α : Type} {x : DRes α} {Q : α → Prop} (h : Good x Q) : x ≠ .panic := by
  rcases h with h | ⟨a, h, _⟩ <;> simp [h]

theorem Good.of_ok {α : Type} {x : DRes α} {Q : α → Prop} (h : Good x Q) {a : α} (hx : x = .ok a) : Q a := by
  rcases h with h | ⟨a', h, hq⟩
  · rw [h] at hx; cases hx
  · rw [h] at hx; cases hx; exact hq

theorem Good.bind {α β : Type} {x : DRes α} {Q : α → Prop} {f : α → DRes β} {R : β → Prop}
    (hx : Good x Q) (hf : ∀ a, Q a → Good (f a) R) : Good (DRes.bind x f) R := by
  rcases hx with h | ⟨a, h, hq⟩
  · left; simp [h, DRes.bind]
  · simp only [h, DRes.bind]; exact hf a hq

theorem Good.mono {α : Type} {x : DRes α} {Q R : α → Prop} (h : Good x Q) (hqr : ∀ a, Q a → R a) : Good x R := by
  rcases h with h | ⟨a, h, hq⟩
  · exact Or.inl h
  · exact Or.inr ⟨a, h, hqr a hq⟩

theorem good_err {α : Type} (Q : α → Prop) : Good (DRes.err : DRes α) Q := Or.inl rfl
theorem good_ok {α : Type} {Q : α → Prop} (a : α) (h : Q a) : Good (DRes.ok a) Q := Or.inr ⟨a, rfl, h⟩

theorem good_slFrom (b : Bytes) (n : Nat) (h : n ≤ b.length) : Good (slFrom b n) (fun o => o = b.drop n) := by
  simp [slFrom, lenLt, Nat.not_lt.mpr h, Good]

theorem good_slTo (b : Bytes) (n : Nat) (h : n ≤ b.length) : Good (slTo b n) (fun o => o = b.take n) := by
  simp [slTo, lenLt, Nat.not_lt.mpr h, Good]

theorem good_be16 (b : Bytes) (h : 2 ≤ b.length) : Good (be16 b) (fun n => n < 65536) := by
  match b, h with
  | x :: y :: _, _ =>
    have := x.toNat_lt; have := y.toNat_lt
    exact good_ok _ (by omega)

theorem good_be32 (b : Bytes) (h : 4 ≤ b.length) : Good (be32 b) (fun n => n < 4294967296) := by
  match b, h with
  | x :: y :: z :: w :: _, _ =>
    have := x.toNat_lt; have := y.toNat_lt; have := z.toNat_lt; have := w.toNat_lt
    exact good_ok _ (by omega)

/-- the rest returned by a reader is a strictly shorter suffix -/
theorem good_readMapHeader (b : Bytes) : Good (readMapHeader b) (fun r => r.2.length + 1 ≤ b.length) := by
  cases b with
  | nil => exact good_err _
  | cons lead t =>
    simp only [readMapHeader, lenLt, decide_eq_true_eq]
    split
    · exact (good_slFrom _ 1 (by simp)).bind fun o ho => good_ok _ (by simp [ho])
    · split
      · split
        · exact good_err _
        · rename_i hl
          refine (good_slFrom _ 1 (by simp)).bind fun t' ht => ?_
          refine (good_be16 t' (by simp [ht] at *; omega)).bind fun n _ => ?_
          exact (good_slFrom _ 3 (by omega)).bind fun o ho => good_ok _ (by simp [ho] at *)
      · split
        · split
          · exact good_err _
          · rename_i hl
            refine (good_slFrom _ 1 (by simp)).bind fun t' ht => ?_
            refine (good_be32 t' (by simp [ht] at *; omega)).bind fun n _ => ?_
            exact (good_slFrom _ 5 (by omega)).bind fun o ho => good_ok _ (by simp [ho] at *)
        · exact good_err _


theorem good_takeExact (b : Bytes) (n : Nat) :
    Good (takeExact b n) (fun r => r.2.length ≤ b.length ∧ r.1.length = n ∧ b = r.1 ++ r.2) := by
  unfold takeExact
  simp only [lenLt, decide_eq_true_eq]
  split
  · exact good_err _
  · rename_i h
    refine (good_slTo b n (by omega)).bind fun v hv => (good_slFrom b n (by omega)).bind fun o ho => good_ok _ ?_
    subst hv ho
    simp
    omega

/-- a string / bin read returns a strictly shorter suffix -/
theorem good_readString (b : Bytes) : Good (readString b) (fun r => r.2.length + 1 ≤ b.length) := by
  cases b with
  | nil => exact good_err _
  | cons lead t =>
    simp only [readString, lenLt, decide_eq_true_eq]
    split
    · refine (good_slFrom _ 1 (by simp)).bind fun t' ht => (good_takeExact t' _).mono fun r hr => ?_
      simp [ht] at hr; simp; omega
    · split
      · split
        · exact good_err _
        · rename_i hl
          refine (good_slFrom _ 1 (by simp)).bind fun t' ht => ?_
          simp at ht; subst ht
          cases t' with
          | nil => simp at hl
          | cons n t2 =>
            simp only
            refine (good_slFrom _ 2 (by simp)).bind fun t3 ht3 => (good_takeExact t3 _).mono fun r hr => ?_
            simp [ht3] at hr; simp; omega
      · split
        · split
          · exact good_err _
          · rename_i hl
            refine (good_slFrom _ 1 (by simp)).bind fun t' ht => ?_
            refine (good_be16 t' (by simp [ht] at *; omega)).bind fun n _ => ?_
            refine (good_slFrom _ 3 (by omega)).bind fun t3 ht3 => (good_takeExact t3 _).mono fun r hr => ?_
            simp [ht3] at hr; simp at hl ⊢; omega
        · split
          · split
            · exact good_err _
            · rename_i hl
              refine (good_slFrom _ 1 (by simp)).bind fun t' ht => ?_
              refine (good_be32 t' (by simp [ht] at *; omega)).bind fun n _ => ?_
              refine (good_slFrom _ 5 (by omega)).bind fun t3 ht3 => (good_takeExact t3 _).mono fun r hr => ?_
              simp [ht3] at hr; simp at hl ⊢; omega
          · exact good_err _

theorem good_readBin (b : Bytes) : Good (readBin b) (fun r => r.2.length + 1 ≤ b.length) := by
  cases b with
  | nil => exact good_err _
  | cons lead t =>
    simp only [readBin, lenLt, decide_eq_true_eq]
    split
    · split
      · exact good_err _
      · rename_i hl
        refine (good_slFrom _ 1 (by simp)).bind fun t' ht => ?_
        simp at ht; subst ht
        cases t' with
        | nil => simp at hl
        | cons n t2 =>
          simp only
          refine (good_slFrom _ 2 (by simp)).bind fun t3 ht3 => (good_takeExact t3 _).mono fun r hr => ?_
          simp [ht3] at hr; simp; omega
    · split
      · split
        · exact good_err _
        · rename_i hl
          refine (good_slFrom _ 1 (by simp)).bind fun t' ht => ?_
          refine (good_be16 t' (by simp [ht] at *; omega)).bind fun n _ => ?_
          refine (good_slFrom _ 3 (by omega)).bind fun t3 ht3 => (good_takeExact t3 _).mono fun r hr => ?_
          simp [ht3] at hr; simp at hl ⊢; omega
      · split
        · split
          · exact good_err _
          · rename_i hl
            refine (good_slFrom _ 1 (by simp)).bind fun t' ht => ?_
            refine (good_be32 t' (by simp [ht] at *; omega)).bind fun n _ => ?_
            refine (good_slFrom _ 5 (by omega)).bind fun t3 ht3 => (good_takeExact t3 _).mono fun r hr => ?_
            simp [ht3] at hr; simp at hl ⊢; omega
        · exact good_err _

theorem good_readMapKey (b : Bytes) : Good (readMapKey b) (fun r => r.2.length + 1 ≤ b.length) := by
  cases b with
  | nil => exact good_err _
  | cons lead t =>
    simp only [readMapKey]
    split
    · exact good_readBin _
    · exact good_readString _

theorem good_readBool (b : Bytes) : Good (readBool b) (fun r => r.2.length + 1 ≤ b.length) := by
  cases b with
  | nil => exact good_err _
  | cons lead t =>
    simp only [readBool]
    split
    · exact (good_slFrom _ 1 (by simp)).bind fun o ho => good_ok _ (by simp [ho])
    · split
      · exact (good_slFrom _ 1 (by simp)).bind fun o ho => good_ok _ (by simp [ho])
      · exact good_err _


theorem good_len8 (lead : UInt8) (t : Bytes) (h : 2 ≤ (lead :: t).length) :
    Good (DRes.bind (slFrom (lead :: t) 1) fun t => match t with | n :: _ => DRes.ok n.toNat | [] => DRes.panic)
      (fun _ => True) := by
  refine (good_slFrom _ 1 (by simp)).bind fun t' ht => ?_
  simp at ht; subst ht
  cases t' with
  | nil => simp at h
  | cons n t2 => exact good_ok _ trivial

theorem good_len16 (lead : UInt8) (t : Bytes) (h : 3 ≤ (lead :: t).length) :
    Good (DRes.bind (slFrom (lead :: t) 1) be16) (fun _ => True) := by
  refine (good_slFrom _ 1 (by simp)).bind fun t' ht => ?_
  simp at ht; subst ht
  exact (good_be16 t' (by simp at h; omega)).mono fun _ _ => trivial

theorem good_len32 (lead : UInt8) (t : Bytes) (h : 5 ≤ (lead :: t).length) :
    Good (DRes.bind (slFrom (lead :: t) 1) be32) (fun _ => True) := by
  refine (good_slFrom _ 1 (by simp)).bind fun t' ht => ?_
  simp at ht; subst ht
  exact (good_be32 t' (by simp at h; omega)).mono fun _ _ => trivial

theorem good_ite {α : Type} {c : Prop} [Decidable c] {x y : DRes α} {Q : α → Prop}
    (hx : c → Good x Q) (hy : ¬ c → Good y Q) : Good (if c then x else y) Q := by
  by_cases h : c
  · simp only [h, if_true]; exact hx h
  · simp only [h, if_false]; exact hy h

/-- `getSize` never panics and every object takes at least one byte -/
theorem good_getSize (b : Bytes) : Good (getSize b) (fun r => 1 ≤ r.1) := by
  cases b with
  | nil => exact good_err _
  | cons lead t =>
    simp only [getSize, lenLt, decide_eq_true_eq]
    repeat' (refine good_ite (fun _ => ?_) (fun _ => ?_))
    all_goals first
      | exact good_err _
      | exact good_ok _ (by simp only []; omega)
      | exact (good_len8 _ _ (by simp at *; omega)).bind fun k _ => good_ok _ (by simp only []; omega)
      | exact (good_len16 _ _ (by simp at *; omega)).bind fun k _ => good_ok _ (by simp only []; omega)
      | exact (good_len32 _ _ (by simp at *; omega)).bind fun k _ => good_ok _ (by simp only []; omega)


theorem good_skipObjs (fuel n : Nat) (b : Bytes) : Good (skipObjs fuel n b) (fun o => o.length ≤ b.length) := by
  induction fuel generalizing n b with
  | zero => cases n <;> simp [skipObjs, Good]
  | succ fuel ih =>
    cases n with
    | zero => simp [skipObjs, Good]
    | succ n =>
      simp only [skipObjs, lenLt, decide_eq_true_eq]
      rcases good_getSize b with h | ⟨⟨sz, asz⟩, h, hq⟩
      · simp [h, Good]
      · simp only [h]
        refine good_ite (fun _ => good_err _) (fun hl => ?_)
        refine (good_slFrom b sz (by omega)).bind fun b' hb' => (ih _ b').mono fun o ho => ?_
        subst hb'; simp at ho; omega

theorem good_skip (b : Bytes) : Good (skip b) (fun o => o.length ≤ b.length) := good_skipObjs _ _ b

theorem good_readEntries (m : Nat) (b : Bytes) (acc : List (Bytes × Bool)) :
    Good (readEntries m b acc) (fun r => r.2.length ≤ b.length) := by
  induction m generalizing b acc with
  | zero => simp [readEntries, Good]
  | succ m ih =>
    simp only [readEntries]
    refine (good_readString b).bind fun r1 h1 => (good_readBool r1.2).bind fun r2 h2 => (ih r2.2 _).mono fun r hr => ?_
    omega

/-- allocation hints satisfy `P`, the outcome is an error or a value satisfying `Q` -/
def GoodA {α : Type} (o : Out α) (P : Nat → Prop) (Q : α → Prop) : Prop := (∀ h ∈ o.1, P h) ∧ Good o.2 Q

theorem goodA_orFail {α β : Type} {allocs : List Nat} {x : DRes α} {k : α → Out β} {P : Nat → Prop} {Q : α → Prop}
    {R : β → Prop} (ha : ∀ h ∈ allocs, P h) (hx : Good x Q) (hk : ∀ a, Q a → GoodA (k a) P R) :
    GoodA (orFail allocs x k) P R := by
  rcases hx with h | ⟨a, h, hq⟩
  · simp only [h, orFail]; exact ⟨ha, good_err _⟩
  · simp only [h, orFail]; exact hk a hq

theorem goodA_ite {α : Type} {c : Prop} [Decidable c] {x y : Out α} {P : Nat → Prop} {Q : α → Prop}
    (hx : c → GoodA x P Q) (hy : ¬ c → GoodA y P Q) : GoodA (if c then x else y) P Q := by
  by_cases h : c
  · simp only [h, if_true]; exact hx h
  · simp only [h, if_false]; exact hy h

theorem good_readFields (guard : Bool) (n : Nat) (b : Bytes) (d : Dec) :
    GoodA (readFields guard n b d) (fun h => h ∈ d.allocs ∨ (guard = true → h ≤ b.length))
      (fun r => r.2.length ≤ b.length) := by
  induction n generalizing b d with
  | zero => exact ⟨fun h hh => Or.inl hh, good_ok _ (Nat.le_refl _)⟩
  | succ n ih =>
    simp only [readFields]
    have hd : ∀ h ∈ d.allocs, h ∈ d.allocs ∨ (guard = true → h ≤ b.length) := fun h hh => Or.inl hh
    refine goodA_orFail hd (good_readMapKey b) fun r1 h1 => ?_
    refine goodA_ite (fun _ => ?_) (fun _ => ?_)
    · refine goodA_orFail hd (good_readMapHeader r1.2) fun r2 h2 => ?_
      refine goodA_ite (fun _ => ⟨hd, good_err _⟩) (fun hg => ?_)
      have hal : ∀ h ∈ (if d.nodes.isNone = true then d.allocs ++ [r2.1] else d.allocs),
          h ∈ d.allocs ∨ (guard = true → h ≤ b.length) := by
        intro h hm
        split at hm
        · rcases List.mem_append.mp hm with hm | hm
          · exact Or.inl hm
          · right; intro hgt
            simp only [List.mem_singleton] at hm
            subst hm
            simp [hgt] at hg
            omega
        · exact Or.inl hm
      refine goodA_orFail hal (good_readEntries r2.1 r2.2 []) fun r3 h3 => ?_
      obtain ⟨i1, i2⟩ := ih r3.2 { nodes := some r3.1, allocs := if d.nodes.isNone = true then d.allocs ++ [r2.1] else d.allocs }
      refine ⟨fun h hh => ?_, i2.mono fun r hr => by omega⟩
      rcases i1 h hh with hm | hm
      · exact hal h hm
      · right; intro hgt; have := hm hgt; omega
    · refine goodA_orFail hd (good_skip r1.2) fun b2 hb2 => ?_
      obtain ⟨i1, i2⟩ := ih b2 d
      refine ⟨fun h hh => ?_, i2.mono fun r hr => by omega⟩
      rcases i1 h hh with hm | hm
      · exact Or.inl hm
      · right; intro hgt; have := hm hgt; omega

theorem good_decodeWith (guard : Bool) (bs : Bytes) :
    GoodA (decodeWith guard bs) (fun h => guard = true → h ≤ bs.length) (fun _ => True) := by
  unfold decodeWith
  refine goodA_orFail (by simp) (good_readMapHeader bs) fun r1 h1 => ?_
  obtain ⟨i1, i2⟩ := good_readFields guard r1.1 r1.2 {}
  refine ⟨fun h hh => ?_, ?_⟩
  · rcases i1 h hh with hm | hm
    · simp at hm
    · intro hg; have := hm hg; omega
  · rcases i2 with h | ⟨a, h, _⟩
    · simp only [h]; exact good_err _
    · simp only [h]; exact good_ok _ trivial


theorem ite_lenLt {α : Type} (b : Bytes) (n : Nat) (x y : α) :
    (if lenLt b n = true then x else y) = if n ≤ b.length then y else x := by
  by_cases h : n ≤ b.length
  · simp [lenLt, h, Nat.not_lt.mpr h]
  · simp [lenLt, h, Nat.lt_of_not_le h]

theorem slFrom_le (b : Bytes) (n : Nat) : slFrom b n = if n ≤ b.length then .ok (b.drop n) else .panic := by
  simp [slFrom, ite_lenLt]

theorem slTo_le (b : Bytes) (n : Nat) : slTo b n = if n ≤ b.length then .ok (b.take n) else .panic := by
  simp [slTo, ite_lenLt]

theorem takeExact_append (k rest : Bytes) : takeExact (k ++ rest) k.length = .ok (k, rest) := by
  simp [takeExact, ite_lenLt, slTo_le, slFrom_le, ite_lenLt, DRes.bind]

theorem fixstr_lead : ∀ n : Fin 32, ((0xa0 : UInt8) ||| UInt8.ofNat n.val) &&& 0xe0 = 0xa0 ∧
    (((0xa0 : UInt8) ||| UInt8.ofNat n.val) &&& 0x1f).toNat = n.val := by decide

theorem fixmap_lead : ∀ n : Fin 16, ((0x80 : UInt8) ||| UInt8.ofNat n.val) &&& 0xf0 = 0x80 ∧
    (((0x80 : UInt8) ||| UInt8.ofNat n.val) &&& 0x0f).toNat = n.val := by decide

theorem be16_u16 (n : Nat) (h : n < 65536) (rest : Bytes) : be16 (u16 n ++ rest) = .ok n := by
  simp only [u16, be16, List.cons_append, List.nil_append, UInt8.toNat_ofNat']
  congr 1; omega

theorem be32_u32 (n : Nat) (h : n < 4294967296) (rest : Bytes) : be32 (u32 n ++ rest) = .ok n := by
  simp only [u32, be32, List.cons_append, List.nil_append, UInt8.toNat_ofNat']
  congr 1; omega

theorem readString_appendString (k rest : Bytes) (h : k.length < 4294967296) :
    readString (appendString k ++ rest) = .ok (k, rest) := by
  unfold appendString
  simp only
  by_cases h1 : k.length ≤ 31
  · obtain ⟨e1, e2⟩ := fixstr_lead ⟨k.length, by omega⟩
    simp only at e1 e2
    simp only [h1, if_true, List.cons_append, readString, e1, slFrom_le, ite_lenLt, DRes.bind, e2]
    simp [takeExact_append]
  · by_cases h2 : k.length ≤ 255
    · simp only [h1, h2, if_true, if_false, List.cons_append, readString]
      have e : ¬ ((0xd9 : UInt8) &&& 0xe0 = 0xa0) := by decide
      simp only [e, if_false, if_true, slFrom_le, ite_lenLt, DRes.bind]
      have hk : (UInt8.ofNat k.length).toNat = k.length := by simp [UInt8.toNat_ofNat']; omega
      simp [hk, takeExact_append]
    · by_cases h3 : k.length ≤ 65535
      · simp only [h1, h2, h3, if_true, if_false, List.cons_append, readString]
        have e : ¬ ((0xda : UInt8) &&& 0xe0 = 0xa0) := by decide
        have e2 : ¬ ((0xda : UInt8) = 0xd9) := by decide
        simp only [e, e2, if_false, if_true, slFrom_le, ite_lenLt, DRes.bind]
        have hlen : ¬ ((u16 k.length ++ (k ++ rest)).length + 1 < 3) := by simp [u16]
        simp [u16] at hlen ⊢
        have := be16_u16 k.length (by omega) (k ++ rest)
        simp only [u16, List.cons_append, List.nil_append] at this
        simp [this, DRes.bind, takeExact_append]
      · simp only [h1, h2, h3, if_false, List.cons_append, readString]
        have e : ¬ ((0xdb : UInt8) &&& 0xe0 = 0xa0) := by decide
        have e2 : ¬ ((0xdb : UInt8) = 0xd9) := by decide
        have e3 : ¬ ((0xdb : UInt8) = 0xda) := by decide
        simp only [e, e2, e3, if_false, if_true, slFrom_le, ite_lenLt, DRes.bind]
        simp [u32]
        have := be32_u32 k.length h (k ++ rest)
        simp only [u32, List.cons_append, List.nil_append] at this
        simp [this, DRes.bind, takeExact_append]


theorem readMapHeader_mapHeader (n : Nat) (rest : Bytes) (h : n < 4294967296) :
    readMapHeader (mapHeader n ++ rest) = .ok (n, rest) := by
  unfold mapHeader
  by_cases h1 : n ≤ 15
  · obtain ⟨e1, e2⟩ := fixmap_lead ⟨n, by omega⟩
    simp only at e1 e2
    simp [h1, readMapHeader, e1, e2, slFrom_le, ite_lenLt, DRes.bind]
  · by_cases h2 : n ≤ 65535
    · have e : ¬ ((0xde : UInt8) &&& 0xf0 = 0x80) := by decide
      simp only [h1, h2, if_true, if_false, List.cons_append, readMapHeader, e, slFrom_le, ite_lenLt, DRes.bind]
      have := be16_u16 n (by omega) rest
      simp only [u16, List.cons_append, List.nil_append] at this
      simp [u16, this, DRes.bind]
    · have e : ¬ ((0xdf : UInt8) &&& 0xf0 = 0x80) := by decide
      have e2 : ¬ ((0xdf : UInt8) = 0xde) := by decide
      simp only [h1, h2, if_false, List.cons_append, readMapHeader, e, e2, slFrom_le, ite_lenLt, DRes.bind]
      have := be32_u32 n h rest
      simp only [u32, List.cons_append, List.nil_append] at this
      simp [u32, this, DRes.bind]

theorem readBool_appendBool (v : Bool) (rest : Bytes) : readBool (appendBool v ++ rest) = .ok (v, rest) := by
  cases v <;> simp [appendBool, readBool, slFrom_le, ite_lenLt, DRes.bind]

def entryBytes (e : Bytes × Bool) : Bytes := appendString e.1 ++ appendBool e.2

theorem readEntries_encode (m : List (Bytes × Bool)) (hk : ∀ e ∈ m, e.1.length < 4294967296) (rest : Bytes)
    (acc : List (Bytes × Bool)) :
    readEntries m.length (m.flatMap entryBytes ++ rest) acc = .ok (acc.reverse ++ m, rest) := by
  induction m generalizing acc with
  | nil => simp [readEntries]
  | cons e m ih =>
    have hk' : ∀ e' ∈ m, e'.1.length < 4294967296 := fun e' h => hk e' (List.mem_cons_of_mem _ h)
    simp only [List.length_cons, readEntries, List.flatMap_cons, entryBytes, List.append_assoc]
    rw [readString_appendString _ _ (hk e (by simp))]
    simp only [DRes.bind]
    rw [readBool_appendBool]
    simp only [DRes.bind]
    have := ih hk' ((e.1, e.2) :: acc)
    rw [this]
    simp

theorem entryBytes_length (e : Bytes × Bool) : 1 ≤ (entryBytes e).length := by
  simp [entryBytes, appendBool]

theorem flatMap_entry_length (m : List (Bytes × Bool)) : m.length ≤ (m.flatMap entryBytes).length := by
  induction m with
  | nil => simp
  | cons e m ih =>
    have := entryBytes_length e
    simp only [List.flatMap_cons, List.length_append, List.length_cons]
    omega

theorem readMapKey_nodes (rest : Bytes) : readMapKey (0xa5 :: (nodesName ++ rest)) = .ok (nodesName, rest) := by
  have e1 : ¬ ((0xa5 : UInt8) = 0xc4 ∨ (0xa5 : UInt8) = 0xc5 ∨ (0xa5 : UInt8) = 0xc6) := by decide
  have e2 : (0xa5 : UInt8) &&& 0xe0 = 0xa0 := by decide
  have e3 : ((0xa5 : UInt8) &&& 0x1f).toNat = nodesName.length := by decide
  simp only [readMapKey, e1, if_false, readString, e2, if_true, slFrom_le, ite_lenLt, DRes.bind, e3]
  simp [takeExact_append]

/-- MarshalMsg then UnmarshalMsg gives the entries back, with a single allocation sized by the entry count -/
theorem decode_encode (m : List (Bytes × Bool)) (hn : m.length < 4294967296)
    (hk : ∀ e ∈ m, e.1.length < 4294967296) :
    decode (encode m) = ([m.length], .ok { nodes := some m, allocs := [m.length] }) := by
  unfold decode decodeWith encode
  have h1 : readMapHeader (0x81 :: 0xa5 :: (nodesName ++ mapHeader m.length ++ m.flatMap (fun e => appendString e.1 ++ appendBool e.2)))
      = .ok (1, 0xa5 :: (nodesName ++ mapHeader m.length ++ m.flatMap (fun e => appendString e.1 ++ appendBool e.2))) := by
    have e : (0x81 : UInt8) &&& 0xf0 = 0x80 := by decide
    have e2 : ((0x81 : UInt8) &&& 0x0f).toNat = 1 := by decide
    simp [readMapHeader, slFrom_le, ite_lenLt, DRes.bind, e, e2]
  rw [h1]
  simp only [orFail, readFields, List.append_assoc]
  rw [readMapKey_nodes]
  simp only [if_true]
  rw [readMapHeader_mapHeader _ _ hn]
  simp only []
  have hlen := flatMap_entry_length m
  have hg : ¬ (m.length > (m.flatMap entryBytes).length) := by omega
  have e0 : (m.flatMap fun e => appendString e.1 ++ appendBool e.2) = m.flatMap entryBytes := rfl
  rw [e0]
  simp only [hg, decide_false, Bool.and_false, Bool.false_eq_true, if_false]
  have := readEntries_encode m hk [] []
  simp only [List.append_nil, List.reverse_nil, List.nil_append] at this
  rw [this]
  simp

end Verif.DeadNodes

namespace Verif.DeadNodes
open Verif.Codec (DRes)

theorem unhex_hexBytes (k : Bytes) : unhex (Verif.Mpt.hexBytes k) = some k := by
  induction k with
  | nil => simp [Verif.Mpt.hexBytes, unhex]
  | cons x k ih =>
    have hx := x.toNat_lt
    have e : Verif.Mpt.hexBytes (x :: k) =
        Verif.Mpt.hexDigit (x.toNat / 16) :: Verif.Mpt.hexDigit (x.toNat % 16) :: Verif.Mpt.hexBytes k := by
      simp [Verif.Mpt.hexBytes]
    rw [e, unhex, Verif.Codec.fromHexChar_hexDigit _ (by omega), Verif.Codec.fromHexChar_hexDigit _ (by omega), ih]
    simp [Verif.Codec.nibble_join]

theorem mapM_unhex_hex (ks : List Bytes) :
    (ks.map fun k => (Verif.Mpt.hexBytes k, true)).mapM (fun e => unhex e.1) = some ks := by
  induction ks with
  | nil => rfl
  | cons k ks ih => simp [List.mapM_cons, unhex_hexBytes, ih]

end Verif.DeadNodes
