import Verif.Lemmas.StateCacheBound
/-! The tight static condition for `NoEviction`: if, for every key, the DISTINCT blocks that can ever receive an entry in
the key's version map (blocks that commit a write of the key + blocks a state-level lookup of the key is issued at) fit
into the per-key capacity, and the distinct committed hashes fit into the link cache, no LRU ever evicts. This is the
negation of the harness's matcher for the open finding C06-capacity-eviction. -/
set_option linter.unusedSectionVars false
namespace Verif.SC

section Lists
variable {α : Type} [DecidableEq α]

theorem nodup_subset_length {l L : List α} (hl : l.Nodup) (hs : ∀ a ∈ l, a ∈ L) : l.length ≤ L.length := by
  induction l generalizing L with
  | nil => exact Nat.zero_le _
  | cons a t ih =>
    have ha : a ∈ L := hs a (by simp)
    have hnd := List.nodup_cons.mp hl
    have : t.length ≤ (L.erase a).length := by
      apply ih hnd.2
      intro b hb
      have hbL := hs b (List.mem_cons_of_mem _ hb)
      have hne : b ≠ a := fun e => hnd.1 (e ▸ hb)
      exact (List.mem_erase_of_ne hne).mpr hbL
    rw [List.length_erase_of_mem ha] at this
    have hpos : 0 < L.length := List.length_pos_of_mem ha
    simp only [List.length_cons]; omega

/-- room for one more: a duplicate-free list inside `L` that misses an element of `L` is strictly shorter than `L` -/
theorem nodup_subset_lt {l L : List α} {b : α} (hl : l.Nodup) (hs : ∀ a ∈ l, a ∈ L) (hb : b ∈ L) (hnb : b ∉ l) :
    l.length < L.length := by
  have : (b :: l).length ≤ L.length :=
    nodup_subset_length (List.nodup_cons.mpr ⟨hnb, hl⟩) (by intro a ha; simp at ha; rcases ha with rfl | ha; exact hb; exact hs a ha)
  simp only [List.length_cons] at this; omega

end Lists

section Assoc
variable {α β : Type} [DecidableEq α]

theorem not_mem_keys_of_alookup_none {l : List (α × β)} {k : α} (h : alookup l k = none) : k ∉ l.map Prod.fst := by
  induction l with
  | nil => simp
  | cons p r ih =>
    obtain ⟨a, b⟩ := p
    by_cases hak : a = k
    · simp [hak] at h
    · simp only [alookup_cons, hak, if_false] at h
      simp only [List.map_cons, List.mem_cons, not_or]
      exact ⟨fun e => hak e.symm, ih h⟩

theorem mem_keys_of_alookup_some {l : List (α × β)} {k : α} {v : β} (h : alookup l k = some v) : k ∈ l.map Prod.fst :=
  List.mem_map.mpr ⟨(k, v), alookup_mem h, rfl⟩

theorem mem_keys_aerase {l : List (α × β)} {k b : α} (h : b ∈ (aerase l k).map Prod.fst) : b ∈ l.map Prod.fst := by
  unfold aerase at h
  obtain ⟨p, hp, rfl⟩ := List.mem_map.mp h
  exact List.mem_map.mpr ⟨p, (List.mem_filter.mp hp).1, rfl⟩

end Assoc

namespace LRU
variable {κ ν : Type} [DecidableEq κ]

def keys (l : LRU κ ν) : List κ := l.items.map Prod.fst

/-- duplicate-free, inside the allowed list `L`, with capacity `c` -/
structure OK (l : LRU κ ν) (L : List κ) (c : Nat) : Prop where
  nodup : l.keys.Nodup
  sub : ∀ b ∈ l.keys, b ∈ L
  cap : l.cap = c

theorem OK.touch {l : LRU κ ν} {L : List κ} {c : Nat} (h : OK l L c) (k : κ) (v : ν) (hk : k ∈ l.keys) :
    OK ({ l with items := (k, v) :: aerase l.items k } : LRU κ ν) L c := by
  refine ⟨?_, ?_, h.cap⟩
  · unfold keys; simp only [List.map_cons, List.nodup_cons]
    exact ⟨not_mem_keys_aerase l.items k, nodup_keys_aerase l.items k h.nodup⟩
  · intro b hb
    unfold keys at hb; simp only [List.map_cons, List.mem_cons] at hb
    rcases hb with rfl | hb
    · exact h.sub _ hk
    · exact h.sub _ (mem_keys_aerase hb)

theorem OK.get {l : LRU κ ν} {L : List κ} {c : Nat} (h : OK l L c) (k : κ) : OK (l.get k).1 L c := by
  unfold LRU.get
  cases hk : alookup l.items k with
  | none => exact h
  | some v => exact h.touch k v (mem_keys_of_alookup_some hk)

theorem OK.add {l : LRU κ ν} {L : List κ} {c : Nat} (h : OK l L c) (k : κ) (v : ν) (hkL : k ∈ L)
    (hL : L.length ≤ c) : (l.add k v).2 = false ∧ OK (l.add k v).1 L c := by
  unfold LRU.add
  cases hk : alookup l.items k with
  | some w => exact ⟨rfl, h.touch k v (mem_keys_of_alookup_some hk)⟩
  | none =>
    have hnk : k ∉ l.keys := not_mem_keys_of_alookup_none hk
    have hlt : l.items.length < L.length := by
      have := nodup_subset_lt h.nodup h.sub hkL hnk
      unfold keys at this; simpa using this
    have hroom : ¬ (l.items.length + 1 > l.cap) := by rw [h.cap]; omega
    simp only [hroom, if_false]
    refine ⟨trivial, ?_, ?_, h.cap⟩
    · unfold keys; simp only [List.map_cons, List.nodup_cons]; exact ⟨hnk, h.nodup⟩
    · intro b hb
      unfold keys at hb; simp only [List.map_cons, List.mem_cons] at hb
      rcases hb with rfl | hb
      · exact hkL
      · exact h.sub _ hb

theorem OK.containsOrAdd {l : LRU κ ν} {L : List κ} {c : Nat} (h : OK l L c) (k : κ) (v : ν) (hkL : k ∈ L)
    (hL : L.length ≤ c) : (l.containsOrAdd k v).2 = false ∧ OK (l.containsOrAdd k v).1 L c := by
  unfold LRU.containsOrAdd
  cases hk : alookup l.items k with
  | some w => exact ⟨rfl, h⟩
  | none => exact h.add k v hkL hL

theorem OK.empty (L : List κ) (c : Nat) : OK (LRU.empty c : LRU κ ν) L c :=
  ⟨by simp [keys, LRU.empty], by intro b hb; simp [keys, LRU.empty] at hb, rfl⟩

end LRU

variable {H K B V : Type} [DecidableEq H] [DecidableEq K] [DecidableEq B]

/-- allowed blocks per key (`LK k`) and allowed committed hashes (`LC`), each without duplicates and within capacity -/
structure Allowed (capK maxDepth : Nat) (LK : K → List B) (LC : List B) : Prop where
  kLen : ∀ k, (LK k).length ≤ capK
  cLen : LC.length ≤ maxDepth

structure Dist (sc : SC K B V) (capK maxDepth : Nat) (LK : K → List B) (LC : List B) : Prop where
  hcap : sc.capK = capK
  hdep : sc.maxDepth = maxDepth
  maps : ∀ k m, alookup sc.cache k = some m → LRU.OK m (LK k) capK
  links : LRU.OK sc.links LC maxDepth

theorem Dist.set_map {sc sc' : SC K B V} {capK maxDepth : Nat} {LK : K → List B} {LC : List B}
    (h : Dist sc capK maxDepth LK LC) {k : K} {m' : LRU B (Entry V)}
    (hc : sc'.cache = aset sc.cache k m') (hk : sc'.capK = sc.capK) (hd : sc'.maxDepth = sc.maxDepth)
    (hli : sc'.links = sc.links) (hm' : LRU.OK m' (LK k) capK) : Dist sc' capK maxDepth LK LC := by
  refine ⟨by rw [hk]; exact h.hcap, by rw [hd]; exact h.hdep, fun k' m hm => ?_, by rw [hli]; exact h.links⟩
  rw [hc, alookup_aset] at hm
  by_cases hkk : k = k'
  · simp only [hkk, if_true, Option.some.injEq] at hm; subst hm; rw [← hkk]; exact hm'
  · simp only [hkk, if_false] at hm; exact h.maps k' m hm

theorem Reader.step_dist {capK maxDepth : Nat} {LK : K → List B} {LC : List B} (hA : Allowed capK maxDepth LK LC)
    (sc : SC K B V) (r : Reader K B V) (hb : r.blk ∈ LK r.key) (h : Dist sc capK maxDepth LK LC) :
    (r.stepSC sc).evictions = sc.evictions ∧ Dist (r.stepSC sc) capK maxDepth LK LC := by
  cases hpc : r.pc with
  | cache => have hs : r.stepSC sc = sc := by unfold Reader.stepSC; rw [hpc]
             rw [hs]; exact ⟨rfl, h⟩
  | done v => have hs : r.stepSC sc = sc := by unfold Reader.stepSC; rw [hpc]
              rw [hs]; exact ⟨rfl, h⟩
  | link cur cnt =>
    have hs : r.stepSC sc = { sc with links := (sc.links.get cur).1 } := by unfold Reader.stepSC; rw [hpc]
    rw [hs]; exact ⟨rfl, ⟨h.hcap, h.hdep, h.maps, h.links.get cur⟩⟩
  | entry cur cnt linked =>
    cases hm : alookup sc.cache r.key with
    | none => have hs : r.stepSC sc = sc := by unfold Reader.stepSC; rw [hpc]; simp only [hm]
              rw [hs]; exact ⟨rfl, h⟩
    | some m =>
      have hs : r.stepSC sc = { sc with cache := aset sc.cache r.key (m.get cur).1 } := by
        unfold Reader.stepSC; rw [hpc]; simp only [hm]
      rw [hs]
      exact ⟨rfl, h.set_map (k := r.key) rfl rfl rfl rfl ((h.maps _ _ hm).get cur)⟩
  | memo e =>
    cases hm : alookup sc.cache r.key with
    | none => have hs : r.stepSC sc = sc := by unfold Reader.stepSC; rw [hpc]; simp only [hm]
              rw [hs]; exact ⟨rfl, h⟩
    | some m =>
      have hs : r.stepSC sc = { sc with cache := aset sc.cache r.key (m.containsOrAdd r.blk e).1,
                                        evictions := sc.evictions + (m.containsOrAdd r.blk e).2.toNat, entryEv := sc.entryEv + (m.containsOrAdd r.blk e).2.toNat } := by
        unfold Reader.stepSC; rw [hpc]; simp only [hm]
      obtain ⟨hne, hok⟩ := (h.maps _ _ hm).containsOrAdd r.blk e hb (hA.kLen r.key)
      rw [hs]
      exact ⟨by simp [hne], h.set_map (k := r.key) rfl rfl rfl rfl hok⟩

theorem Reader.run_dist {capK maxDepth : Nat} {LK : K → List B} {LC : List B} (hA : Allowed capK maxDepth LK LC)
    (n : Nat) (sc : SC K B V) (r : Reader K B V) (hb : r.blk ∈ LK r.key) (h : Dist sc capK maxDepth LK LC) :
    (Reader.run n sc r).1.evictions = sc.evictions ∧ Dist (Reader.run n sc r).1 capK maxDepth LK LC := by
  induction n generalizing sc r with
  | zero => exact ⟨rfl, h⟩
  | succ n ih =>
    by_cases hd : ∃ v, r.pc = .done v
    · obtain ⟨v, hv⟩ := hd
      rw [Reader.run_of_done _ _ _ hv]; exact ⟨rfl, h⟩
    · have hnd : ∀ v, r.pc ≠ .done v := fun v hv => hd ⟨v, hv⟩
      rw [Reader.run_succ _ _ _ hnd]
      obtain ⟨he, hd'⟩ := Reader.step_dist hA sc r hb h
      have := ih (r.stepSC sc) { r with pc := r.stepPc sc } hb hd'
      exact ⟨by rw [this.1, he], this.2⟩

theorem SC.get_dist {capK maxDepth : Nat} {LK : K → List B} {LC : List B} (hA : Allowed capK maxDepth LK LC)
    (sc : SC K B V) (k : K) (b : B) (hb : b ∈ LK k) (h : Dist sc capK maxDepth LK LC) :
    (sc.get k b).1.evictions = sc.evictions ∧ Dist (sc.get k b).1 capK maxDepth LK LC := by
  unfold SC.get; simp only
  exact Reader.run_dist hA _ sc (Reader.init k b) hb h

/-- the private version map of a commit step is within bounds -/
def CPc.freshDist (capK : Nat) (LK : K → List B) : CPc K B V → Prop
  | .keyPut (some l) ((k, _) :: _) => LRU.OK l (LK k) capK
  | _ => True

theorem Committer.step_dist {capK maxDepth : Nat} {LK : K → List B} {LC : List B} (hA : Allowed capK maxDepth LK LC)
    (sc : SC K B V) (c : Committer K B V)
    (hk : ∀ k e, (k, e) ∈ c.writes → c.hash ∈ LK k) (hc : c.hash ∈ LC)
    (htodo : ∀ t, (c.pc = .keyGet t ∨ (∃ f, c.pc = .keyAdd f t) ∨ (∃ f, c.pc = .keyPut f t)) → ∀ p ∈ t, p ∈ c.writes)
    (h : Dist sc capK maxDepth LK LC) (hf : c.pc.freshDist capK LK) :
    (c.stepSC sc).evictions = sc.evictions ∧ Dist (c.stepSC sc) capK maxDepth LK LC ∧
      (c.stepPc sc).freshDist capK LK ∧
      (∀ t, (c.stepPc sc = .keyGet t ∨ (∃ f, c.stepPc sc = .keyAdd f t) ∨ (∃ f, c.stepPc sc = .keyPut f t)) →
        ∀ p ∈ t, p ∈ c.writes) := by
  have nextOK : ∀ t : List (K × Entry V), (∀ p ∈ t, p ∈ c.writes) →
      (CPc.next t : CPc K B V).freshDist capK LK ∧
      (∀ t', ((CPc.next t : CPc K B V) = .keyGet t' ∨ (∃ f, (CPc.next t : CPc K B V) = .keyAdd f t') ∨
        (∃ f, (CPc.next t : CPc K B V) = .keyPut f t')) → ∀ p ∈ t', p ∈ c.writes) := by
    intro t ht
    cases t with
    | nil => exact ⟨trivial, fun t' h => by rcases h with h | ⟨f, h⟩ | ⟨f, h⟩ <;> cases h⟩
    | cons a t =>
      refine ⟨trivial, fun t' h => ?_⟩
      rcases h with h | ⟨f, h⟩ | ⟨f, h⟩
      · cases h; exact ht
      · cases h
      · cases h
  have noTodo : ∀ {p : CPc K B V}, (∀ t, p ≠ .keyGet t) → (∀ f t, p ≠ .keyAdd f t) → (∀ f t, p ≠ .keyPut f t) →
      (∀ t, (p = .keyGet t ∨ (∃ f, p = .keyAdd f t) ∨ (∃ f, p = .keyPut f t)) → ∀ q ∈ t, q ∈ c.writes) := by
    intro p h1 h2 h3 t h
    rcases h with h | ⟨f, h⟩ | ⟨f, h⟩
    · exact absurd h (h1 t)
    · exact absurd h (h2 f t)
    · exact absurd h (h3 f t)
  cases hpc : c.pc with
  | start =>
    have hs : c.stepSC sc = sc := by unfold Committer.stepSC; rw [hpc]
    have hp : c.stepPc sc = .linkcheck := by unfold Committer.stepPc; rw [hpc]
    rw [hs, hp]
    exact ⟨rfl, h, trivial, noTodo (by intro t h; cases h) (by intro f t h; cases h) (by intro f t h; cases h)⟩
  | done b =>
    have hs : c.stepSC sc = sc := by unfold Committer.stepSC; rw [hpc]
    have hp : c.stepPc sc = .done b := by unfold Committer.stepPc; rw [hpc]
    rw [hs, hp]
    exact ⟨rfl, h, trivial, noTodo (by intro t h; cases h) (by intro f t h; cases h) (by intro f t h; cases h)⟩
  | linkcheck =>
    have hs : c.stepSC sc = { sc with links := (sc.links.get c.hash).1 } := by unfold Committer.stepSC; rw [hpc]
    rw [hs]
    refine ⟨rfl, ⟨h.hcap, h.hdep, h.maps, h.links.get c.hash⟩, ?_⟩
    unfold Committer.stepPc; rw [hpc]; simp only
    cases (sc.links.get c.hash).2 with
    | some _ => exact ⟨trivial, noTodo (by intro t h; cases h) (by intro f t h; cases h) (by intro f t h; cases h)⟩
    | none => exact nextOK c.writes (fun p hp => hp)
  | keyGet t =>
    have hs : c.stepSC sc = sc := by unfold Committer.stepSC; rw [hpc]
    have ht := htodo t (.inl hpc)
    rw [hs]
    refine ⟨rfl, h, ?_⟩
    unfold Committer.stepPc; rw [hpc]
    cases t with
    | nil => exact ⟨trivial, noTodo (by intro t h; cases h) (by intro f t h; cases h) (by intro f t h; cases h)⟩
    | cons a t =>
      obtain ⟨k, e⟩ := a
      refine ⟨trivial, fun t' h' => ?_⟩
      rcases h' with h' | ⟨f, h'⟩ | ⟨f, h'⟩
      · cases h'
      · cases h'; exact ht
      · cases h'
  | keyAdd fr t =>
    have ht := htodo t (.inr (.inl ⟨fr, hpc⟩))
    cases t with
    | nil =>
      have hs : c.stepSC sc = sc := by unfold Committer.stepSC; rw [hpc]; cases fr <;> rfl
      have hp : c.stepPc sc = .publish := by unfold Committer.stepPc; rw [hpc]
      rw [hs, hp]
      exact ⟨rfl, h, trivial, noTodo (by intro t h; cases h) (by intro f t h; cases h) (by intro f t h; cases h)⟩
    | cons a t =>
      obtain ⟨k, e⟩ := a
      have hkL : c.hash ∈ LK k := hk k e (ht _ (by simp))
      have todo' : ∀ t', (CPc.keyPut (none : Option (LRU B (Entry V))) ((k, e) :: t) = .keyGet t' ∨
          (∃ f, CPc.keyPut (none : Option (LRU B (Entry V))) ((k, e) :: t) = .keyAdd f t') ∨
          (∃ f, CPc.keyPut (none : Option (LRU B (Entry V))) ((k, e) :: t) = .keyPut f t')) → ∀ p ∈ t', p ∈ c.writes := by
        intro t' h'
        rcases h' with h' | ⟨f, h'⟩ | ⟨f, h'⟩
        · cases h'
        · cases h'
        · cases h'; exact ht
      cases fr with
      | true =>
        have hs : c.stepSC sc = { sc with evictions := sc.evictions + ((LRU.empty sc.capK : LRU B (Entry V)).add c.hash e).2.toNat, entryEv := sc.entryEv + ((LRU.empty sc.capK : LRU B (Entry V)).add c.hash e).2.toNat } := by
          unfold Committer.stepSC; rw [hpc]
        have hp : c.stepPc sc = .keyPut (some ((LRU.empty sc.capK : LRU B (Entry V)).add c.hash e).1) ((k, e) :: t) := by
          unfold Committer.stepPc; rw [hpc]
        obtain ⟨hne, hok⟩ := (LRU.OK.empty (ν := Entry V) (LK k) sc.capK).add c.hash e hkL (by rw [h.hcap]; exact hA.kLen k)
        rw [hs, hp]
        refine ⟨by simp [hne], ⟨h.hcap, h.hdep, h.maps, h.links⟩, ?_, ?_⟩
        · simp only [CPc.freshDist]; rw [← h.hcap]; exact hok
        · intro t' h'
          rcases h' with h' | ⟨f, h'⟩ | ⟨f, h'⟩
          · cases h'
          · cases h'
          · cases h'; exact ht
      | false =>
        cases hm0 : alookup sc.cache k with
        | none =>
          have hs : c.stepSC sc = sc := by unfold Committer.stepSC; rw [hpc]; simp only [hm0]
          have hp : c.stepPc sc = .keyPut none ((k, e) :: t) := by unfold Committer.stepPc; rw [hpc]
          rw [hs, hp]; exact ⟨rfl, h, trivial, todo'⟩
        | some m0 =>
          have hs : c.stepSC sc = { sc with cache := aset sc.cache k (m0.add c.hash e).1,
                                            evictions := sc.evictions + (m0.add c.hash e).2.toNat, entryEv := sc.entryEv + (m0.add c.hash e).2.toNat } := by
            unfold Committer.stepSC; rw [hpc]; simp only [hm0]
          have hp : c.stepPc sc = .keyPut none ((k, e) :: t) := by unfold Committer.stepPc; rw [hpc]
          obtain ⟨hne, hok⟩ := (h.maps _ _ hm0).add c.hash e hkL (hA.kLen k)
          rw [hs, hp]
          exact ⟨by simp [hne], h.set_map (k := k) rfl rfl rfl rfl hok, trivial, todo'⟩
  | keyPut fr t =>
    have ht := htodo t (.inr (.inr ⟨fr, hpc⟩))
    rw [hpc] at hf
    cases t with
    | nil =>
      have hs : c.stepSC sc = sc := by unfold Committer.stepSC; rw [hpc]; cases fr <;> rfl
      have hp : c.stepPc sc = .publish := by unfold Committer.stepPc; rw [hpc]
      rw [hs, hp]
      exact ⟨rfl, h, trivial, noTodo (by intro t h; cases h) (by intro f t h; cases h) (by intro f t h; cases h)⟩
    | cons a t =>
      obtain ⟨k, e⟩ := a
      have hp : c.stepPc sc = CPc.next t := by unfold Committer.stepPc; rw [hpc]
      have hn := nextOK t (fun p hp => ht p (List.mem_cons_of_mem _ hp))
      rw [hp]
      cases fr with
      | none =>
        have hs : c.stepSC sc = sc := by unfold Committer.stepSC; rw [hpc]
        rw [hs]; exact ⟨rfl, h, hn.1, hn.2⟩
      | some l =>
        have hs : c.stepSC sc = { sc with cache := aset sc.cache k l } := by unfold Committer.stepSC; rw [hpc]
        simp only [CPc.freshDist] at hf
        rw [hs]
        exact ⟨rfl, h.set_map (k := k) rfl rfl rfl rfl hf, hn.1, hn.2⟩
  | publish =>
    have hs : c.stepSC sc = { sc with links := (sc.links.add c.hash c.prev).1,
                                      evictions := sc.evictions + (sc.links.add c.hash c.prev).2.toNat } := by
      unfold Committer.stepSC; rw [hpc]
    have hp : c.stepPc sc = .done true := by unfold Committer.stepPc; rw [hpc]
    obtain ⟨hne, hok⟩ := h.links.add c.hash c.prev hc hA.cLen
    rw [hs, hp]
    exact ⟨by simp [hne], ⟨h.hcap, h.hdep, h.maps, hok⟩, trivial,
      noTodo (by intro t h; cases h) (by intro f t h; cases h) (by intro f t h; cases h)⟩

def todoOK (c : Committer K B V) (pc : CPc K B V) : Prop :=
  ∀ t, (pc = .keyGet t ∨ (∃ f, pc = .keyAdd f t) ∨ (∃ f, pc = .keyPut f t)) → ∀ p ∈ t, p ∈ c.writes

theorem Committer.run_dist {capK maxDepth : Nat} {LK : K → List B} {LC : List B} (hA : Allowed capK maxDepth LK LC)
    (n : Nat) (sc : SC K B V) (c : Committer K B V)
    (hk : ∀ k e, (k, e) ∈ c.writes → c.hash ∈ LK k) (hc : c.hash ∈ LC)
    (htodo : todoOK c c.pc) (h : Dist sc capK maxDepth LK LC) (hf : c.pc.freshDist capK LK) :
    (Committer.run n sc c).1.evictions = sc.evictions ∧ Dist (Committer.run n sc c).1 capK maxDepth LK LC := by
  induction n generalizing sc c with
  | zero => exact ⟨rfl, h⟩
  | succ n ih =>
    by_cases hd : ∃ b, c.pc = .done b
    · obtain ⟨b, hb⟩ := hd
      rw [Committer.run_of_done _ _ _ hb]; exact ⟨rfl, h⟩
    · have hnd : ∀ b, c.pc ≠ .done b := fun b hb => hd ⟨b, hb⟩
      rw [Committer.run_succ _ _ _ hnd]
      obtain ⟨he, hd', hf', ht'⟩ := Committer.step_dist hA sc c hk hc htodo h hf
      have := ih (c.stepSC sc) { c with pc := c.stepPc sc } hk hc ht' hd' hf'
      exact ⟨by rw [this.1, he], this.2⟩

theorem SC.commit_dist {capK maxDepth : Nat} {LK : K → List B} {LC : List B} (hA : Allowed capK maxDepth LK LC)
    (sc : SC K B V) (hash prev : B) (writes : List (K × Entry V))
    (hk : ∀ k e, (k, e) ∈ writes → hash ∈ LK k) (hc : hash ∈ LC) (h : Dist sc capK maxDepth LK LC) :
    (sc.commit hash prev writes).1.evictions = sc.evictions ∧
    Dist (sc.commit hash prev writes).1 capK maxDepth LK LC := by
  unfold SC.commit; simp only
  apply Committer.run_dist hA _ sc ⟨hash, prev, writes, .linkcheck⟩ hk hc _ h trivial
  intro t ht
  rcases ht with ht | ⟨f, ht⟩ | ⟨f, ht⟩ <;> cases ht

theorem BC.get_dist {capK maxDepth : Nat} {LK : K → List B} {LC : List B} (hA : Allowed capK maxDepth LK LC)
    (sc : SC K B V) (bc : BC K B V) (k : K) (hb : alookup bc.cache k = none → bc.base ∈ LK k)
    (h : Dist sc capK maxDepth LK LC) :
    (bc.get sc k).1.evictions = sc.evictions ∧ Dist (bc.get sc k).1 capK maxDepth LK LC := by
  unfold BC.get
  cases he : alookup bc.cache k with
  | some e => exact ⟨rfl, h⟩
  | none => exact SC.get_dist hA sc k bc.base (hb he) h

theorem Sys.step_dist {capK maxDepth : Nat} {LK : K → List B} {LC : List B} (hA : Allowed capK maxDepth LK LC)
    (s : Sys H K B V) (op : Op H K B V)
    (hk : ∀ k b, b ∈ s.cand k op → b ∈ LK k) (hc : ∀ b ∈ s.commitCand op, b ∈ LC) (hnr : op.isRemove = false)
    (h : Dist s.sc capK maxDepth LK LC) :
    (s.step op).1.sc.evictions = s.sc.evictions ∧ Dist (s.step op).1.sc capK maxDepth LK LC := by
  cases op with
  | blk hh hash prev => exact ⟨rfl, h⟩
  | bhash hh hash => simp only [Sys.step]; cases alookup s.bcs hh <;> exact ⟨rfl, h⟩
  | txn t hh => simp only [Sys.step]; cases alookup s.bcs hh <;> exact ⟨rfl, h⟩
  | qtxn t b => exact ⟨rfl, h⟩
  | tset t k v => simp only [Sys.step]; cases alookup s.tcs t <;> exact ⟨rfl, h⟩
  | trem t k => simp only [Sys.step]; cases alookup s.tcs t <;> exact ⟨rfl, h⟩
  | tcommit t =>
    simp only [Sys.step]
    cases alookup s.tcs t with
    | none => exact ⟨rfl, h⟩
    | some tc =>
      simp only
      cases tc.main with
      | block hh => simp only; cases alookup s.bcs hh <;> exact ⟨rfl, h⟩
      | query b => simp only; cases tc.cache <;> exact ⟨rfl, h⟩
  | bset hh k v => simp only [Sys.step]; cases alookup s.bcs hh <;> exact ⟨rfl, h⟩
  | srem k => simp [Op.isRemove] at hnr
  | sget k0 b => exact SC.get_dist hA s.sc k0 b (hk k0 b (by simp [Sys.cand])) h
  | qget b k0 => exact SC.get_dist hA s.sc k0 b (hk k0 b (by simp [Sys.cand])) h
  | bget hh k0 =>
    simp only [Sys.step]
    cases hb : alookup s.bcs hh with
    | none => exact ⟨rfl, h⟩
    | some bc =>
      refine BC.get_dist hA s.sc bc k0 (fun hn => hk k0 bc.base ?_) h
      simp [Sys.cand, hb, hn]
  | tget t k0 =>
    simp only [Sys.step]
    cases ht : alookup s.tcs t with
    | none => exact ⟨rfl, h⟩
    | some tc =>
      simp only
      cases hte : alookup tc.cache k0 with
      | some e => exact ⟨rfl, h⟩
      | none =>
        simp only
        cases hm : tc.main with
        | block hh =>
          simp only
          cases hb : alookup s.bcs hh with
          | none => exact ⟨rfl, h⟩
          | some bc =>
            refine BC.get_dist hA s.sc bc k0 (fun hn => hk k0 bc.base ?_) h
            simp [Sys.cand, ht, hte, hm, hb, hn]
        | query b =>
          refine SC.get_dist hA s.sc k0 b (hk k0 b ?_) h
          simp [Sys.cand, ht, hte, hm]
  | bcommit hh =>
    simp only [Sys.step]
    cases hb : alookup s.bcs hh with
    | none => exact ⟨rfl, h⟩
    | some bc =>
      simp only [BC.commit]
      refine SC.commit_dist hA s.sc bc.hash bc.prev bc.cache (fun k e hke => hk k bc.hash ?_) (hc bc.hash ?_) h
      · have : (alookup bc.cache k).isSome = true := by
          cases hl : alookup bc.cache k with
          | some _ => rfl
          | none => exact absurd (List.mem_map.mpr ⟨(k, e), hke, rfl⟩) (not_mem_keys_of_alookup_none hl)
        simp [Sys.cand, hb, this]
      · simp [Sys.commitCand, hb]

theorem Sys.run_noEviction_distinct {capK maxDepth : Nat} {LK : K → List B} {LC : List B}
    (hA : Allowed capK maxDepth LK LC) (ops : List (Op H K B V)) (s : Sys H K B V)
    (h : Dist s.sc capK maxDepth LK LC)
    (hk : ∀ k b, b ∈ s.cands k ops → b ∈ LK k) (hc : ∀ b ∈ s.commitCands ops, b ∈ LC)
    (hR : ∀ op ∈ ops, op.isRemove = false) : NoEviction s ops := by
  induction ops generalizing s with
  | nil => rfl
  | cons op rest ih =>
    unfold NoEviction
    simp only [Sys.run]
    obtain ⟨he, hd⟩ := Sys.step_dist hA s op
      (fun k b hb => hk k b (by simp [Sys.cands, hb])) (fun b hb => hc b (by simp [Sys.commitCands, hb]))
      (hR op (by simp)) h
    have := ih (s.step op).1 hd (fun k b hb => hk k b (by simp [Sys.cands, hb]))
      (fun b hb => hc b (by simp [Sys.commitCands, hb])) (fun o ho => hR o (by simp [ho]))
    unfold NoEviction at this
    rw [this, he]

theorem Dist.init (capK maxDepth : Nat) (LK : K → List B) (LC : List B) :
    Dist (Sys.new capK maxDepth : Sys H K B V).sc capK maxDepth LK LC := by
  refine ⟨rfl, rfl, fun k m hm => ?_, LRU.OK.empty LC maxDepth⟩
  simp [Sys.new, SC.new] at hm

end Verif.SC
