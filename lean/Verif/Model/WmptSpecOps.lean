/-
Pure counterparts of `insert` / `delete` (trie.go) on the spec tree `PT`: the same case analysis as the
implementation-shaped functions of Verif.Model.WmptOps, without flags, cached hashes, storage and bookkeeping.
`PT.lookup` is the map a spec tree denotes.  Core Lean only.
-/
import Verif.Model.WmptSpec
namespace Verif.Wmpt
namespace PT

def noChP : Nib → PT := fun _ => .none

def updP (ch : Nib → PT) (i : Nib) (t : PT) : Nib → PT := fun j => if j = i then t else ch j

/-- `insert(nil, _, key, value)` -/
def mkShort (key : Bytes) (v : PT) : PT := if key = [] then v else .short key v

/-- `insert(node, _, key, valueNode{v, w})` -/
def insert : PT → List Nib → Bytes → Nat → PT
  | .value vv vw, [], v, w => if vv = v then .value vv vw else .value v w
  | _, [], v, w => .value v w
  | .none, k :: ks, v, w => .short ((k :: ks).map nb) (.value v w)
  | .value vv vw, _ :: _, _, _ => .value vv vw          -- Go: error "unknown node type", trie unchanged
  | .branch ch, k :: ks, v, w => .branch (updP ch k (insert (ch k) ks v w))
  | .short key c, k :: ks, v, w =>
    let kb := (k :: ks).map nb
    let p := commonPrefix key kb
    if p = key.length then .short key (insert c ((k :: ks).drop p) v w)
    else
      match nibOf (key.getD p 0), (k :: ks)[p]? with
      | some i1, some i2 =>
        let br := PT.branch (updP (updP noChP i1 (mkShort (key.drop (p + 1)) c)) i2 (mkShort (kb.drop (p + 1)) (.value v w)))
        if p = 0 then br else .short (kb.take p) br
      | _, _ => .short key c                              -- Go: index panic

/-- index of the only non-absent child, if there is exactly one -/
def sole (ch : Nib → PT) : Option Nib :=
  match allNib.filter (fun i => !(ch i).isNone) with
  | [i] => some i
  | _ => Option.none

/-- `delete(node, _, key)`: `none` = ErrNotFound (trie unchanged), `some .none` = subtree removed -/
def delete : PT → List Nib → Option PT
  | .none, _ => Option.none
  | .value _ _, _ => some .none
  | .short sk c, key =>
    let kb := key.map nb
    let p := commonPrefix sk kb
    if p < sk.length then Option.none
    else if p = kb.length then some .none
    else
      match delete c (key.drop sk.length) with
      | Option.none => Option.none
      | some (.short ck cc) => some (.short (sk ++ ck) cc)
      | some n' => some (.short sk n')
  | .branch _, [] => Option.none                          -- Go: index panic
  | .branch ch, k :: ks =>
    match delete (ch k) ks with
    | Option.none => Option.none
    | some r =>
      let ch' := updP ch k r
      if !r.isNone then some (.branch ch')
      else
        match sole ch' with
        | Option.none => some (.branch ch')
        | some pos =>
          match ch' pos with
          | .short ck cc => some (.short (nb pos :: ck) cc)
          | c => some (.short [nb pos] c)

/-- the (value, weight) stored under a key -/
def lookup : PT → List Nib → Option (Bytes × Nat)
  | .none, _ => Option.none
  | .value v w, [] => some (v, w)
  | .value _ _, _ :: _ => Option.none
  | .short sk c, key =>
    let kb := key.map nb
    if sk.length ≤ kb.length ∧ kb.take sk.length = sk then lookup c (key.drop sk.length) else Option.none
  | .branch _, [] => Option.none
  | .branch ch, k :: ks => lookup (ch k) ks

end PT
end Verif.Wmpt
