/-!
# Model of `core/statecache` (0chain/common), as the code is at /repo HEAD

Source files modelled, line by line: `statecache.go` (`StateCache.Get`, `commit`, `commitRound`), `blockcache.go`
(`Set`, `setValue`, `Get`, `SetBlockHash`, `Commit`), `transactioncache.go` (`Set`, `Get`, `Remove`, `Commit`),
`queryblockcache.go` (`Get`, `setValue`/`Commit` panics), and golang-lru v0.5.4 `simplelru` (`Add`, `Get`, `Contains`,
`ContainsOrAdd` of `lru.Cache`).

Conventions
* `LRU` is an association list, most recently used first, with a capacity: `get` moves the entry to the front,
  `add` of a new key pushes to the front and drops the last item when the length exceeds the capacity (returning
  `evicted = true`), `add` of an existing key replaces the value and moves it to the front, `containsOrAdd` does not
  touch recency when the key is present.
* `StateCache.Get` and `StateCache.commit` are written as *threads*: a program counter plus locals, one `step` per
  segment of code between two accesses to a shared map (exactly the yield points of the `verif` hook). The sequential
  functions `SC.get` / `SC.commit` run such a thread to completion; `Verif.Model.StateCacheConc` interleaves them.
* `valueNode{data, deleted}` is `Entry.val v | Entry.tomb`: the `data` of a deleted node is never observable
  (every reader tests `deleted` first), so it is not modelled.
* The outer `cache` (an LRU of capacity 102400 keyed by state key) is modelled as an association list without capacity
  (assumption: fewer than 102400 distinct keys are cached; listed in checks/C06.json). `StateCache.Remove`, the hit/miss
  counters, rounds and logging are not modelled. `StateCache.Remove` is `SC.remove`.
* `evictions` counts the `evicted = true` results of all LRU `Add`s (Go ignores them); it is only read by theorems
  (`NoEviction`).
-/
namespace Verif.SC

/-! ## association lists -/
section Assoc
variable {α β : Type} [DecidableEq α]

def alookup : List (α × β) → α → Option β
  | [], _ => none
  | (a, b) :: r, k => if a = k then some b else alookup r k

def aerase (l : List (α × β)) (k : α) : List (α × β) := l.filter (fun p => decide (p.1 ≠ k))

def aset (l : List (α × β)) (k : α) (v : β) : List (α × β) := (k, v) :: aerase l k

end Assoc

/-! ## golang-lru -/
structure LRU (κ ν : Type) where
  cap : Nat
  items : List (κ × ν)

namespace LRU
variable {κ ν : Type} [DecidableEq κ]

def empty (cap : Nat) : LRU κ ν := ⟨cap, []⟩

/-- `Contains` / `Peek`: no recency update -/
def peek (l : LRU κ ν) (k : κ) : Option ν := alookup l.items k

/-- `Get`: moves the entry to the front -/
def get (l : LRU κ ν) (k : κ) : LRU κ ν × Option ν :=
  match alookup l.items k with
  | some v => ({ l with items := (k, v) :: aerase l.items k }, some v)
  | none => (l, none)

/-- `Add`: returns `evicted` -/
def add (l : LRU κ ν) (k : κ) (v : ν) : LRU κ ν × Bool :=
  match alookup l.items k with
  | some _ => ({ l with items := (k, v) :: aerase l.items k }, false)
  | none =>
    if l.items.length + 1 > l.cap then ({ l with items := ((k, v) :: l.items).dropLast }, true)
    else ({ l with items := (k, v) :: l.items }, false)

/-- `ContainsOrAdd`: returns `evicted` -/
def containsOrAdd (l : LRU κ ν) (k : κ) (v : ν) : LRU κ ν × Bool :=
  match alookup l.items k with
  | some _ => (l, false)
  | none => l.add k v

end LRU

/-! ## the state cache -/

inductive Entry (V : Type) where
  | val (v : V)
  | tomb
  deriving DecidableEq, Repr

def Entry.result {V : Type} : Entry V → Option V
  | .val v => some v
  | .tomb => none

structure SC (K B V : Type) where
  capK : Nat                              -- lru.New(200) in commit()
  maxDepth : Nat                          -- maxHisDepth = capacity of hashCache (2000)
  cache : List (K × LRU B (Entry V))      -- key ↦ per-block version map
  links : LRU B B                         -- hashCache: block ↦ previous block
  evictions : Nat                         -- every LRU `Add` that evicted, and every effective `Remove(key)`
  entryEv : Nat                           -- only the evictions inside per-key version maps

/-- `StateCache.Remove(key)`: drops the key's whole version map. Also the effect of an eviction from the outer key LRU
    (capacity 100·1024), which is not modelled with its recency order: a `Remove` at an arbitrary point of a history
    over-approximates every eviction policy of the outer cache. -/
def SC.remove {K B V : Type} [DecidableEq K] (sc : SC K B V) (k : K) : SC K B V :=
  match alookup sc.cache k with
  | some _ => { sc with cache := aerase sc.cache k, evictions := sc.evictions + 1 }
  | none => sc

def SC.new {K B V : Type} (capK maxDepth : Nat) : SC K B V := ⟨capK, maxDepth, [], LRU.empty maxDepth, 0, 0⟩

section Threads
variable {K B V : Type} [DecidableEq K] [DecidableEq B]

/-! ### `StateCache.Get` as a thread -/
inductive RPc (B V : Type) where
  | cache                                             -- before `sc.cache.Get(key)`
  | link (cur : B) (count : Nat)                      -- before `sc.hashCache.Get(curHash)`
  | entry (cur : B) (count : Nat) (linked : Option B) -- before `bvs.Get(curHash)`
  | memo (e : Entry V)                                -- before `bvs.ContainsOrAdd(blockHash, v)`
  | done (r : Option V)

structure Reader (K B V : Type) where
  key : K
  blk : B
  pc : RPc B V

def Reader.init (k : K) (b : B) : Reader K B V := ⟨k, b, .cache⟩

/-- effect of one reader step on the shared state -/
def Reader.stepSC (sc : SC K B V) (r : Reader K B V) : SC K B V :=
  match r.pc with
  | .cache => sc                                                     -- `sc.cache.Get(key)` (outer recency not modelled)
  | .link cur _ => { sc with links := (sc.links.get cur).1 }         -- `sc.hashCache.Get(curHash)` refreshes the link
  | .entry cur _ _ =>
    match alookup sc.cache r.key with
    | none => sc                                                     -- unreachable: version maps are never removed
    | some m => { sc with cache := aset sc.cache r.key (m.get cur).1 }   -- `bvs.Get(curHash)` refreshes the entry
  | .memo e =>
    match alookup sc.cache r.key with
    | none => sc
    | some m =>
      { sc with cache := aset sc.cache r.key (m.containsOrAdd r.blk e).1,
                evictions := sc.evictions + (m.containsOrAdd r.blk e).2.toNat, entryEv := sc.entryEv + (m.containsOrAdd r.blk e).2.toNat }
  | .done _ => sc

/-- program counter and locals after one reader step -/
def Reader.stepPc (sc : SC K B V) (r : Reader K B V) : RPc B V :=
  match r.pc with
  | .cache =>
    match alookup sc.cache r.key with
    | none => .done none                                             -- "key not found"
    | some _ => .link r.blk 0
  | .link cur n => .entry cur n (sc.links.get cur).2
  | .entry cur n linked =>
    match alookup sc.cache r.key with
    | none => .done none
    | some m =>
      match (m.get cur).2 with
      | some e => if cur = r.blk then .done e.result else .memo e
      | none =>
        match linked with
        | none => .done none                                         -- "see gap"
        | some p => if n + 1 > sc.maxDepth then .done none           -- "reach max depth"
                    else .link p (n + 1)
  | .memo e => .done e.result
  | .done v => .done v

def Reader.step (sc : SC K B V) (r : Reader K B V) : SC K B V × Reader K B V :=
  (r.stepSC sc, { r with pc := r.stepPc sc })

def Reader.run : Nat → SC K B V → Reader K B V → SC K B V × Reader K B V
  | 0, sc, r => (sc, r)
  | n + 1, sc, r =>
    match r.pc with
    | .done _ => (sc, r)
    | _ => let (sc', r') := r.step sc; Reader.run n sc' r'

def Reader.result (r : Reader K B V) : Option V :=
  match r.pc with
  | .done v => v
  | _ => none

/-- `StateCache.Get(key, blockHash)`; the fuel covers the longest possible walk (1 + 2·(maxDepth+1) + 1 steps) -/
def SC.get (sc : SC K B V) (k : K) (b : B) : SC K B V × Option V :=
  let (sc', r) := Reader.run (2 * sc.maxDepth + 4) sc (Reader.init k b)
  (sc', r.result)

/-! ### `StateCache.commit` as a thread (the caller holds `sc.lock`) -/
inductive CPc (K B V : Type) where
  | start                                                       -- before `sc.lock.Lock()`
  | linkcheck                                                   -- before `sc.hashCache.Get(bc.blockHash)`
  | keyGet (todo : List (K × Entry V))                          -- before `sc.cache.Get(key)`, key = head of todo
  | keyAdd (fresh : Bool) (todo : List (K × Entry V))           -- before `bvs.Add(bc.blockHash, v)`
  | keyPut (fresh : Option (LRU B (Entry V))) (todo : List (K × Entry V))  -- before `sc.cache.Add(key, bvs)`
  | publish                                                     -- before `sc.commitRound(...)`
  | done (effective : Bool)

structure Committer (K B V : Type) where
  hash : B
  prev : B
  writes : List (K × Entry V)
  pc : CPc K B V

def CPc.next (todo : List (K × Entry V)) : CPc K B V :=
  match todo with
  | [] => .publish
  | _ => .keyGet todo

/-- effect of one committer step on the shared state -/
def Committer.stepSC (sc : SC K B V) (c : Committer K B V) : SC K B V :=
  match c.pc with
  | .linkcheck => { sc with links := (sc.links.get c.hash).1 }
  | .keyAdd true ((_, e) :: _) =>                                    -- `lru.New(200)` then `bvs.Add` on the private map
    { sc with evictions := sc.evictions + ((LRU.empty sc.capK : LRU B (Entry V)).add c.hash e).2.toNat, entryEv := sc.entryEv + ((LRU.empty sc.capK : LRU B (Entry V)).add c.hash e).2.toNat }
  | .keyAdd false ((k, e) :: _) =>
    match alookup sc.cache k with
    | some m => { sc with cache := aset sc.cache k (m.add c.hash e).1,
                          evictions := sc.evictions + (m.add c.hash e).2.toNat, entryEv := sc.entryEv + (m.add c.hash e).2.toNat }
    | none => sc                                                     -- unreachable
  | .keyPut (some m) ((k, _) :: _) => { sc with cache := aset sc.cache k m }
  | .publish => { sc with links := (sc.links.add c.hash c.prev).1,
                          evictions := sc.evictions + (sc.links.add c.hash c.prev).2.toNat }
  | _ => sc

/-- program counter and locals after one committer step; `start` (lock acquisition) is enabled by the scheduler -/
def Committer.stepPc (sc : SC K B V) (c : Committer K B V) : CPc K B V :=
  match c.pc with
  | .start => .linkcheck
  | .linkcheck =>
    match (sc.links.get c.hash).2 with
    | some _ => .done false                                          -- "block already committed"
    | none => CPc.next c.writes
  | .keyGet [] => .publish
  | .keyGet ((k, e) :: todo) => .keyAdd (alookup sc.cache k).isNone ((k, e) :: todo)
  | .keyAdd _ [] => .publish
  | .keyAdd true ((k, e) :: todo) =>
    .keyPut (some ((LRU.empty sc.capK : LRU B (Entry V)).add c.hash e).1) ((k, e) :: todo)
  | .keyAdd false todo => .keyPut none todo
  | .keyPut _ [] => .publish
  | .keyPut _ (_ :: todo) => CPc.next todo
  | .publish => .done true
  | .done b => .done b

def Committer.step (sc : SC K B V) (c : Committer K B V) : SC K B V × Committer K B V :=
  (c.stepSC sc, { c with pc := c.stepPc sc })

def Committer.run : Nat → SC K B V → Committer K B V → SC K B V × Committer K B V
  | 0, sc, c => (sc, c)
  | n + 1, sc, c =>
    match c.pc with
    | .done _ => (sc, c)
    | _ => let (sc', c') := c.step sc; Committer.run n sc' c'

/-- `sc.commit(bc)` run without interruption: returns the new cache and whether the commit took effect -/
def SC.commit (sc : SC K B V) (hash prev : B) (writes : List (K × Entry V)) : SC K B V × Bool :=
  let (sc', c) := Committer.run (3 * writes.length + 5) sc ⟨hash, prev, writes, .linkcheck⟩
  (sc', match c.pc with | .done true => true | _ => false)

end Threads

/-! ## block, transaction and query caches -/
section Layers
variable {H K B V : Type} [DecidableEq H] [DecidableEq K] [DecidableEq B]

structure BC (K B V : Type) where
  hash : B
  prev : B
  cache : List (K × Entry V)
  committed : Bool            -- set by `StateCache.commit` when this block cache's values were merged

/-- the block whose committed view a block cache falls back to: the previous block before its own commit, the block
    itself afterwards (`if pcc.committed { return pcc.main.Get(key, pcc.blockHash) }`) -/
def BC.base (bc : BC K B V) : B := if bc.committed then bc.hash else bc.prev

def BC.set (bc : BC K B V) (k : K) (v : V) : BC K B V := { bc with cache := aset bc.cache k (.val v) }

def BC.setValue (bc : BC K B V) (k : K) (e : Entry V) : BC K B V := { bc with cache := aset bc.cache k e }

/-- `BlockCache.Get`: own pending entry (a removal misses), else the committed state at `base` -/
def BC.get (sc : SC K B V) (bc : BC K B V) (k : K) : SC K B V × Option V :=
  match alookup bc.cache k with
  | some e => (sc, e.result)
  | none => sc.get k bc.base

/-- `BlockCache.Commit`: the pending map is cleared and `committed` set only when the commit took effect -/
def BC.commit (sc : SC K B V) (bc : BC K B V) : SC K B V × BC K B V :=
  let (sc', eff) := sc.commit bc.hash bc.prev bc.cache
  (sc', if eff then { bc with cache := [], committed := true } else bc)

/-- what a transaction cache sits on: a block cache (by handle) or a `QueryBlockCache` at a block hash -/
inductive Main (H B : Type) where
  | block (h : H)
  | query (b : B)

structure TC (H K B V : Type) where
  main : Main H B
  cache : List (K × Entry V)

structure Sys (H K B V : Type) where
  sc : SC K B V
  bcs : List (H × BC K B V)
  tcs : List (H × TC H K B V)

inductive Op (H K B V : Type) where
  | blk (h : H) (hash prev : B)
  | bhash (h : H) (hash : B)
  | txn (t h : H)
  | qtxn (t : H) (b : B)
  | tset (t : H) (k : K) (v : V)
  | trem (t : H) (k : K)
  | tget (t : H) (k : K)
  | tcommit (t : H)
  | bset (h : H) (k : K) (v : V)
  | bget (h : H) (k : K)
  | bcommit (h : H)
  | qget (b : B) (k : K)
  | sget (k : K) (b : B)
  | srem (k : K)

inductive Out (V : Type) where
  | ok
  | hit (v : V)
  | miss
  | panic
  | bad
  deriving DecidableEq, Repr

def Out.ofOption {V : Type} : Option V → Out V
  | some v => .hit v
  | none => .miss

def Sys.new (capK maxDepth : Nat) : Sys H K B V := ⟨SC.new capK maxDepth, [], []⟩

def Sys.step (s : Sys H K B V) : Op H K B V → Sys H K B V × Out V
  | .blk h hash prev => ({ s with bcs := aset s.bcs h ⟨hash, prev, [], false⟩ }, .ok)
  | .bhash h hash =>
    match alookup s.bcs h with
    | some bc => ({ s with bcs := aset s.bcs h { bc with hash := hash } }, .ok)
    | none => (s, .bad)
  | .txn t h =>
    match alookup s.bcs h with
    | some _ => ({ s with tcs := aset s.tcs t ⟨.block h, []⟩ }, .ok)
    | none => (s, .bad)
  | .qtxn t b => ({ s with tcs := aset s.tcs t ⟨.query b, []⟩ }, .ok)
  | .tset t k v =>
    match alookup s.tcs t with
    | some tc => ({ s with tcs := aset s.tcs t { tc with cache := aset tc.cache k (.val v) } }, .ok)
    | none => (s, .bad)
  | .trem t k =>
    match alookup s.tcs t with
    | some tc => ({ s with tcs := aset s.tcs t { tc with cache := aset tc.cache k .tomb } }, .ok)
    | none => (s, .bad)
  | .tget t k =>
    match alookup s.tcs t with
    | some tc =>
      match alookup tc.cache k with
      | some e => (s, Out.ofOption e.result)
      | none =>
        match tc.main with
        | .block h =>
          match alookup s.bcs h with
          | some bc => let (sc', r) := bc.get s.sc k; ({ s with sc := sc' }, Out.ofOption r)
          | none => (s, .bad)
        | .query b => let (sc', r) := s.sc.get k b; ({ s with sc := sc' }, Out.ofOption r)
    | none => (s, .bad)
  | .tcommit t =>
    match alookup s.tcs t with
    | some tc =>
      match tc.main with
      | .block h =>
        match alookup s.bcs h with
        | some bc =>
          let bc' := tc.cache.foldl (fun b p => b.setValue p.1 p.2) bc
          ({ s with bcs := aset s.bcs h bc', tcs := aset s.tcs t { tc with cache := [] } }, .ok)
        | none => (s, .bad)
      | .query _ =>
        -- `QueryBlockCache.setValue` panics on the first pending entry; with none the cache is just cleared
        match tc.cache with
        | [] => (s, .ok)
        | _ => (s, .panic)
    | none => (s, .bad)
  | .bset h k v =>
    match alookup s.bcs h with
    | some bc => ({ s with bcs := aset s.bcs h (bc.set k v) }, .ok)
    | none => (s, .bad)
  | .bget h k =>
    match alookup s.bcs h with
    | some bc => let (sc', r) := bc.get s.sc k; ({ s with sc := sc' }, Out.ofOption r)
    | none => (s, .bad)
  | .bcommit h =>
    match alookup s.bcs h with
    | some bc => let (sc', bc') := bc.commit s.sc; ({ s with sc := sc', bcs := aset s.bcs h bc' }, .ok)
    | none => (s, .bad)
  | .qget b k => let (sc', r) := s.sc.get k b; ({ s with sc := sc' }, Out.ofOption r)
  | .sget k b => let (sc', r) := s.sc.get k b; ({ s with sc := sc' }, Out.ofOption r)
  | .srem k => ({ s with sc := s.sc.remove k }, .ok)

def Sys.run (s : Sys H K B V) : List (Op H K B V) → Sys H K B V × List (Out V)
  | [] => (s, [])
  | op :: ops =>
    let (s', o) := s.step op
    let (s'', os) := Sys.run s' ops
    (s'', o :: os)

end Layers

end Verif.SC
