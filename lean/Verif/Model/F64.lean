/-! IEEE-754 binary64 at value level (core Lean only; linked into `modeld`).

A float is its 64-bit pattern (`math.Float64bits`); its meaning is `F64.val : Val`, either NaN, ±∞ or
`(-1)^neg · m · 2^e` with `m < 2^53`. Arithmetic is "exact result, then round to nearest, ties to even"
(`roundNE`), which is what IEEE-754 prescribes for `*` and for integer→float conversion, and what `big.Rat.Float64`
does for a quotient of integers. Comparisons are IEEE (every ordered comparison with a NaN is false; -0 = +0).

`toUInt64` is Go's `uint64(x)` as compiled on amd64 (Go leaves out-of-range conversions implementation-defined):
truncation toward zero for 0 ≤ x < 2^64, the two's complement of the truncated magnitude for -2^63 ≤ x < 0 and
`0x8000000000000000` for NaN, ±∞ and everything else. The model is pinned to the compiled Go by the correspondence
ops `fmul flt fle feq u2f f2u` of suite c18. -/
namespace Verif.F64

structure F64 where
  bits : BitVec 64
  deriving DecidableEq

inductive Val where
  | nan
  | inf (neg : Bool)
  | fin (neg : Bool) (m : Nat) (e : Int)   -- (-1)^neg · m · 2^e
  deriving DecidableEq, Repr

/-- decode: 1 sign bit, 11 exponent bits (bias 1023), 52 fraction bits -/
def F64.val (x : F64) : Val :=
  let b : Nat := x.bits.toNat
  let neg : Bool := decide (2 ^ 63 ≤ b)
  let ex : Nat := (b / 2 ^ 52) % 2048
  let fr : Nat := b % 2 ^ 52
  if ex = 2047 then (if fr = 0 then .inf neg else .nan)
  else if ex = 0 then .fin neg fr (-1074)
  else .fin neg (fr + 2 ^ 52) ((ex : Int) - 1075)

def infMag : Nat := 0x7FF0000000000000

/-- `n / d` (d > 0) scaled by `2^(-e)`, as a fraction -/
def scale (n d : Nat) (e : Int) : Nat × Nat :=
  if 0 ≤ e then (n, d * 2 ^ e.toNat) else (n * 2 ^ (-e).toNat, d)

/-- exponent of the binade of `n/d`, clamped to the subnormal exponent: the `e ≥ -1074` with
    `2^52 ≤ n/d · 2^(-e) < 2^53` when that `e` is `≥ -1074`, else `-1074`. `Nat.log2` gives the binade up to one. -/
def expOf (n d : Nat) : Int :=
  let e1 : Int := (Nat.log2 n : Int) - (Nat.log2 d : Int) - 52
  let s := scale n d e1
  let e2 := if s.1 / s.2 < 2 ^ 52 then e1 - 1 else e1
  max e2 (-1074)

/-- `n2 / d2` rounded to the nearest integer, ties to even -/
def roundQ (n2 d2 : Nat) : Nat :=
  let q := n2 / d2
  let r := n2 % d2
  if d2 < 2 * r ∨ (2 * r = d2 ∧ q % 2 = 1) then q + 1 else q

/-- overflow gives the bits of ∞ -/
def clampInf (bits : Nat) : Nat := if infMag ≤ bits then infMag else bits

/-- magnitude bits (sign bit clear) of the non-negative rational `n / d` (`d > 0`) rounded to nearest, ties to even.
    With `e = expOf n d` and `q = ⌊n/d · 2^(-e)⌉` the pattern is `(e+1074)·2^52 + q` (a subnormal has `e = -1074`,
    `q < 2^52`; a carry to `q = 2^53` lands in the next binade by itself). -/
def magOf (n d : Nat) : Nat :=
  if n = 0 then 0 else
  let e := expOf n d
  let s := scale n d e
  clampInf ((e + 1074).toNat * 2 ^ 52 + roundQ s.1 s.2)

/-- the binary64 nearest (ties to even) to `(-1)^neg · n / d` -/
def roundNE (neg : Bool) (n d : Nat) : F64 :=
  ⟨BitVec.ofNat 64 (magOf n d + if neg then 2 ^ 63 else 0)⟩

def nanBits : F64 := ⟨0x7FF8000000000001#64⟩
def infF (neg : Bool) : F64 := ⟨BitVec.ofNat 64 (infMag + if neg then 2 ^ 63 else 0)⟩

/-- the value `m · 2^e` as a fraction -/
def frac (m : Nat) (e : Int) : Nat × Nat := if 0 ≤ e then (m * 2 ^ e.toNat, 1) else (m, 2 ^ (-e).toNat)

/-- IEEE multiplication: exact product rounded once -/
def F64.mul (x y : F64) : F64 :=
  match x.val, y.val with
  | .nan, _ => nanBits
  | _, .nan => nanBits
  | .inf s, .inf t => infF (s != t)
  | .inf s, .fin t m _ => if m = 0 then nanBits else infF (s != t)
  | .fin s m _, .inf t => if m = 0 then nanBits else infF (s != t)
  | .fin s m e, .fin t m' e' =>
    let (n, d) := frac (m * m') (e + e')
    roundNE (s != t) n d

/-- `uint64 → float64` conversion: nearest, ties to even -/
def F64.ofUInt64 (c : BitVec 64) : F64 := roundNE false c.toNat 1

/-- signed numerators of two finite values over the common denominator `2^(-min e e')` -/
def cmpKey (s : Bool) (m : Nat) (e : Int) (k : Int) : Int :=
  (if s then -1 else 1) * (m : Int) * 2 ^ (e - k).toNat

def F64.lt (x y : F64) : Bool :=
  match x.val, y.val with
  | .nan, _ => false
  | _, .nan => false
  | .inf s, .inf t => s && !t
  | .inf s, .fin _ _ _ => s
  | .fin _ _ _, .inf t => !t
  | .fin s m e, .fin t m' e' => let k := min e e'; decide (cmpKey s m e k < cmpKey t m' e' k)

def F64.eq (x y : F64) : Bool :=
  match x.val, y.val with
  | .nan, _ => false
  | _, .nan => false
  | .inf s, .inf t => s == t
  | .inf _, .fin _ _ _ => false
  | .fin _ _ _, .inf _ => false
  | .fin s m e, .fin t m' e' => let k := min e e'; decide (cmpKey s m e k = cmpKey t m' e' k)

def F64.le (x y : F64) : Bool := x.lt y || x.eq y

def F64.isNaN (x : F64) : Bool := match x.val with | .nan => true | _ => false

/-- Go's `math.IsInf(x, sign)`: sign > 0 → +∞, sign < 0 → -∞, sign = 0 → either -/
def F64.isInf (x : F64) (sign : Int) : Bool :=
  match x.val with
  | .inf neg => (0 ≤ sign && !neg) || (sign ≤ 0 && neg)
  | _ => false

/-- `⌊m · 2^e⌋` -/
def truncNat (m : Nat) (e : Int) : Nat := if 0 ≤ e then m * 2 ^ e.toNat else m / 2 ^ (-e).toNat

/-- Go's `uint64(x)` on amd64 -/
def F64.toUInt64 (x : F64) : BitVec 64 :=
  match x.val with
  | .nan => 0x8000000000000000#64
  | .inf _ => 0x8000000000000000#64
  | .fin neg m e =>
    let t := truncNat m e
    if neg then (if t ≤ 2 ^ 63 then BitVec.ofNat 64 (2 ^ 64 - t) else 0x8000000000000000#64)
    else if t < 2 ^ 64 then BitVec.ofNat 64 t else 0x8000000000000000#64

end Verif.F64
