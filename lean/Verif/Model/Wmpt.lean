/-
Model of the weighted Merkle trie of `core/util/wmpt` (node.go, type.go), core Lean only.

Implementation-shaped node type `WN` (mirrors the five Go node types, the cached — possibly stale — `hash` field, the
`dirty` flag = "not saved yet" since fix 8a63293, the `toCollect` export mark), the hash format (`CalcHash`), the
persisted structures of type.go and `DeserializeNode` over bounds-checked slice primitives.

Conventions
  * Go `nil` node (absent child) = `WN.nil`; `*nilNode` (empty trie) = `WN.empty`.
  * a `[]byte` is a `List UInt8`; a Go nil slice and an empty slice are both `[]` (the code only ever uses `len`,
    `append`, `copy`, `bytes.Equal` on them).
  * keys handed in by callers are nibble lists (`keybytesToHex` yields values < 16 only); the key stored inside a
    short node is raw bytes (it may come from foreign data).
  * every function that mutates through pointers in Go returns the new node here.
-/
namespace Verif.Wmpt

abbrev Nib := Fin 16
abbrev Bytes := List UInt8

/-- nibble as the byte Go stores in a key slice -/
def nb (n : Nib) : UInt8 := UInt8.ofNat n.val

def be64 (n : Nat) : Bytes := (List.range 8).map (fun k => UInt8.ofNat ((n >>> (8 * (7 - k))) % 256))

/-- `binary.BigEndian.Uint64` of (the first 8 bytes of) `b`; callers guarantee 8 bytes -/
def be64Dec (b : Bytes) : Nat := (b.take 8).foldl (fun acc x => acc * 256 + x.toNat) 0

inductive WN where
  | nil : WN
  | empty : WN
  | hashRef (h : Bytes) (w : Nat) : WN
  | value (hash : Bytes) (val : Bytes) (w : Nat) (dirty : Bool) : WN
  | short (key : Bytes) (hash : Bytes) (child : WN) (dirty tc : Bool) : WN
  | routing (hash : Bytes) (ch : Nib → WN) (w : Nat) (dirty tc : Bool) : WN

instance : Inhabited WN := ⟨.nil⟩

namespace WN

def isNil : WN → Bool
  | .nil => true
  | _ => false

/-- `Weight()` (Go would panic on a nil interface; callers test for nil first) -/
def weight : WN → Nat
  | .nil => 0
  | .empty => 0
  | .hashRef _ w => w
  | .value _ _ w _ => w
  | .short _ _ c _ _ => c.weight
  | .routing _ _ w _ _ => w

/-- `Dirty()` -/
def dirty : WN → Bool
  | .value _ _ _ d => d
  | .short _ _ _ d _ => d
  | .routing _ _ _ d _ => d
  | _ => false

/-- `ToCollect()` -/
def toCollect : WN → Bool
  | .short _ _ _ _ tc => tc
  | .routing _ _ _ _ tc => tc
  | _ => true

end WN

/-- children table from a list (absent positions are `nil`) -/
def ofList (l : List WN) : Nib → WN := fun i => l.getD i.val .nil

def noCh : Nib → WN := fun _ => .nil

def upd (ch : Nib → WN) (i : Nib) (t : WN) : Nib → WN := fun j => if j = i then t else ch j

def allNib : List Nib := List.finRange 16

section Hash
variable (H : Bytes → Bytes)

/-- `emptyState` = hash of the empty string -/
def emptyHash : Bytes := H []

/-- `Hash()`: the cached hash field -/
def WN.hashField : WN → Bytes
  | .nil => []
  | .empty => emptyHash H
  | .hashRef h _ => h
  | .value h _ _ _ => h
  | .short _ h _ _ _ => h
  | .routing h _ _ _ _ => h

/-- `CalcHash()`: the node with the cached hashes of all dirty nodes refreshed, and the hash.
    Since fix 8a63293 the dirty flag is left alone. A nil child of a branch counts as the empty node. -/
def calcHash : WN → WN × Bytes
  | .nil => (.nil, emptyHash H)
  | .empty => (.empty, emptyHash H)
  | .hashRef h w => (.hashRef h w, h)
  | .value h v w d =>
    if d then (.value (H (be64 w ++ v)) v w d, H (be64 w ++ v)) else (.value h v w d, h)
  | .short k h c d tc =>
    if d then
      if c.isNil then (.short k (H k) .nil d tc, H k)
      else
        let r := calcHash c
        (.short k (H (k ++ r.2)) r.1 d tc, H (k ++ r.2))
    else (.short k h c d tc, h)
  | .routing h ch w d tc =>
    if d then
      let rs := allNib.map (fun i => calcHash (ch i))
      let h' := H (be64 w ++ rs.flatMap (fun r => r.2))
      (.routing h' (ofList (rs.map (fun r => r.1))) w d tc, h')
    else (.routing h ch w d tc, h)

end Hash

/-! ### Persisted structures (type.go) -/

structure PBranch where
  hash : Bytes
  children : List Bytes        -- `[]` = CBOR null / empty entry
  deriving DecidableEq, Repr

structure PValue where
  value : Bytes
  hash : Bytes
  weight : Nat
  deriving DecidableEq, Repr

structure PShort where
  key : Bytes
  hash : Bytes
  value : Bytes
  deriving DecidableEq, Repr

structure PHash where
  hash : Bytes
  weight : Nat
  deriving DecidableEq, Repr

/-- `PersistNodeBase`: a map with up to five optional entries (keys 10..14) -/
structure PBase where
  branch : Option PBranch := none
  value : Option PValue := none
  short : Option PShort := none
  nilNode : Bool := false
  hashNode : Option PHash := none
  deriving DecidableEq, Repr

/-! ### Results -/

inductive Err where
  | notFound | range | invalidKey | kvNotFound | noDb | other | panic
  deriving DecidableEq, Repr

inductive Res (α : Type) where
  | ok (a : α) : Res α
  | err (e : Err) : Res α
  deriving DecidableEq

instance {α} [Inhabited α] : Inhabited (Res α) := ⟨.err .other⟩

def Res.isPanic {α} : Res α → Bool
  | .err .panic => true
  | _ => false

/-! ### Bounds-checked slice primitives: `panic` exactly where the Go slice expression would panic -/

/-- `b[lo:hi]` -/
def slice (b : Bytes) (lo hi : Nat) : Res Bytes :=
  if lo ≤ hi ∧ hi ≤ b.length then .ok ((b.take hi).drop lo) else .err .panic

/-- `b[lo:]` -/
def sliceFrom (b : Bytes) (lo : Nat) : Res Bytes :=
  if lo ≤ b.length then .ok (b.drop lo) else .err .panic

/-- `binary.BigEndian.Uint64(b)`: panics when `len(b) < 8` -/
def uint64At (b : Bytes) : Res Nat :=
  if 8 ≤ b.length then .ok (be64Dec b) else .err .panic

def hashWithWeightLength : Nat := 40
def branchNodeLength : Nat := 16

def u64 (n : Nat) : Nat := n % 2 ^ 64

/-- `isNibbles`: every element of a decoded short-node key is a nibble (fix f270208: key elements index the sixteen
    children of a branch) -/
def isNibbles (k : Bytes) : Bool := k.all (fun b => decide (b.toNat < 16))

/-- one child entry of a persisted branch (the body of the loop in `DeserializeNode`); `none` = no child -/
def deserializeChild (child : Bytes) : Res (Option WN) :=
  if child.length ≥ hashWithWeightLength then
    match slice child 0 32, sliceFrom child 32 with
    | .ok childHash, .ok rest =>
      match uint64At rest with
      | .ok w =>
        if child.length = hashWithWeightLength then .ok (some (.hashRef childHash w))
        else if child.length < hashWithWeightLength + 32 then .err .other
        else
          match slice child hashWithWeightLength (hashWithWeightLength + 32), sliceFrom child (hashWithWeightLength + 32) with
          | .ok vh, .ok key =>
            if !isNibbles key then .err .other                 -- "invalid short node key"
            else .ok (some (.short key childHash (.hashRef vh w) false false))
          | .err e, _ => .err e
          | _, .err e => .err e
      | .err e => .err e
    | .err e, _ => .err e
    | _, .err e => .err e
  else .ok none

/-- the loop over `pNode.Branch.Children`: children table and (wrapping) weight sum -/
def deserializeChildren : List Bytes → Res (List WN × Nat)
  | [] => .ok ([], 0)
  | c :: rest =>
    match deserializeChild c with
    | .err e => .err e
    | .ok n =>
      match deserializeChildren rest with
      | .err e => .err e
      | .ok (ns, w) =>
        match n with
        | some node => .ok (node :: ns, node.weight + w)
        | none => .ok (.nil :: ns, w)

/-- `DeserializeNode` after the CBOR layer -/
def deserializeNode (p : PBase) : Res WN :=
  match p.branch with
  | some b =>
    if b.children.length > branchNodeLength then .err .other
    else
      match deserializeChildren b.children with
      | .err e => .err e
      | .ok (ns, w) => .ok (.routing b.hash (ofList ns) (u64 w) false false)
  | none =>
    match p.value with
    | some v => .ok (.value v.hash v.value v.weight false)
    | none =>
      if p.nilNode then .ok .empty
      else
        match p.hashNode with
        | some h => .ok (.hashRef h.hash h.weight)
        | none =>
          match p.short with
          | some s =>
            if !isNibbles s.key then .err .other               -- "invalid short node key"
            else if s.value.length ≠ hashWithWeightLength then .err .other
            else
              match slice s.value 0 32, sliceFrom s.value 32 with
              | .ok vh, .ok rest =>
                match uint64At rest with
                | .ok w => .ok (.short s.key s.hash (.hashRef vh w) false false)
                | .err e => .err e
              | .err e, _ => .err e
              | _, .err e => .err e
          | none => .err .other

section Ser
variable (H : Bytes → Bytes)

/-- the entry of child `c` inside a persisted branch (`routingNode.Serialize`) -/
def childEntry (c : WN) : Bytes :=
  match c with
  | .nil => []
  | .short k h v _ _ => h ++ be64 (WN.short k h v false false).weight ++ v.hashField H ++ k
  | c => c.hashField H ++ be64 c.weight

/-- first 32 bytes of `b`, zero padded (`copy` into a fresh 40-byte buffer) -/
def pad32 (b : Bytes) : Bytes := (b ++ List.replicate 32 0).take 32

/-- `Serialize()`: the node afterwards (hashes refreshed when dirty, export mark cleared) and the persisted structure -/
def serializeP : WN → WN × PBase
  | .nil => (.nil, {})                    -- not reachable: callers test for nil
  | .empty => (.empty, { nilNode := true })
  | .hashRef h w => (.hashRef h w, { hashNode := some ⟨h, w⟩ })
  | .value h v w d =>
    let n := (calcHash H (.value h v w d)).1
    (n, { value := some ⟨v, n.hashField H, w⟩ })
  | .short k h c d _ =>
    match (calcHash H (.short k h c d false)).1 with
    | .short k' h' c' d' _ =>
      (.short k' h' c' d' false, { short := some ⟨k', h', pad32 (c'.hashField H) ++ be64 (WN.short k' h' c' d' false).weight⟩ })
    | n => (n, {})
  | .routing h ch w d _ =>
    match (calcHash H (.routing h ch w d false)).1 with
    | .routing h' ch' w' d' _ =>
      (.routing h' ch' w' d' false, { branch := some ⟨h', allNib.map (fun i => childEntry H (ch' i))⟩ })
    | n => (n, {})

end Ser

end Verif.Wmpt
