/-
SHA3-256 (Keccak-f[1600], rate 136, domain 0x06), core Lean only.
Used by the executable driver so that model and implementation print the same hex hashes.
Checked against the standard vectors in `Verif/Model/Sha3Test.lean`.
-/
namespace Verif.Sha3

def rc : Array UInt64 := #[
  0x0000000000000001, 0x0000000000008082, 0x800000000000808A, 0x8000000080008000,
  0x000000000000808B, 0x0000000080000001, 0x8000000080008081, 0x8000000000008009,
  0x000000000000008A, 0x0000000000000088, 0x0000000080008009, 0x000000008000000A,
  0x000000008000808B, 0x800000000000008B, 0x8000000000008089, 0x8000000000008003,
  0x8000000000008002, 0x8000000000000080, 0x000000000000800A, 0x800000008000000A,
  0x8000000080008081, 0x8000000000008080, 0x0000000080000001, 0x8000000080008008]

def rotc : Array UInt64 := #[1, 3, 6, 10, 15, 21, 28, 36, 45, 55, 2, 14, 27, 41, 56, 8, 25, 43, 62, 18, 39, 61, 20, 44]
def piln : Array Nat := #[10, 7, 11, 17, 18, 3, 5, 16, 8, 21, 24, 4, 15, 23, 19, 13, 12, 2, 20, 14, 22, 9, 6, 1]

@[inline] def rotl (x : UInt64) (n : UInt64) : UInt64 := (x <<< n) ||| (x >>> (64 - n))

def round (st : Array UInt64) (r : Nat) : Array UInt64 := Id.run do
  let mut a := st
  -- theta
  let mut bc : Array UInt64 := Array.replicate 5 0
  for i in [0:5] do
    bc := bc.set! i (a[i]! ^^^ a[i+5]! ^^^ a[i+10]! ^^^ a[i+15]! ^^^ a[i+20]!)
  for i in [0:5] do
    let t := bc[(i+4) % 5]! ^^^ rotl bc[(i+1) % 5]! 1
    for j in [0:5] do
      a := a.set! (j*5 + i) (a[j*5 + i]! ^^^ t)
  -- rho pi
  let mut t := a[1]!
  for i in [0:24] do
    let j := piln[i]!
    let b := a[j]!
    a := a.set! j (rotl t rotc[i]!)
    t := b
  -- chi
  for j in [0:5] do
    let b0 := a[j*5]!; let b1 := a[j*5+1]!; let b2 := a[j*5+2]!; let b3 := a[j*5+3]!; let b4 := a[j*5+4]!
    a := a.set! (j*5)   (b0 ^^^ ((~~~ b1) &&& b2))
    a := a.set! (j*5+1) (b1 ^^^ ((~~~ b2) &&& b3))
    a := a.set! (j*5+2) (b2 ^^^ ((~~~ b3) &&& b4))
    a := a.set! (j*5+3) (b3 ^^^ ((~~~ b4) &&& b0))
    a := a.set! (j*5+4) (b4 ^^^ ((~~~ b0) &&& b1))
  -- iota
  a := a.set! 0 (a[0]! ^^^ rc[r]!)
  return a

def keccakF (st : Array UInt64) : Array UInt64 := Id.run do
  let mut a := st
  for r in [0:24] do
    a := round a r
  return a

def rate : Nat := 136

/-- xor a full 136-byte block (given as offset into `data`) into the state -/
def absorbBlock (st : Array UInt64) (data : ByteArray) (off : Nat) : Array UInt64 := Id.run do
  let mut a := st
  for i in [0:17] do
    let mut w : UInt64 := 0
    for k in [0:8] do
      w := w ||| ((data.get! (off + i*8 + k)).toUInt64 <<< (8 * k).toUInt64)
    a := a.set! i (a[i]! ^^^ w)
  return a

def sha3_256 (data : ByteArray) : ByteArray := Id.run do
  let mut st : Array UInt64 := Array.replicate 25 0
  let n := data.size
  let full := n / rate
  for b in [0:full] do
    st := keccakF (absorbBlock st data (b * rate))
  -- final padded block
  let mut last : ByteArray := ByteArray.mk (Array.replicate rate 0)
  let remStart := full * rate
  for i in [0:n - remStart] do
    last := last.set! i (data.get! (remStart + i))
  last := last.set! (n - remStart) ((last.get! (n - remStart)) ^^^ 0x06)
  last := last.set! (rate - 1) ((last.get! (rate - 1)) ^^^ 0x80)
  st := keccakF (absorbBlock st last 0)
  let mut out : ByteArray := ByteArray.empty
  for i in [0:4] do
    let w := st[i]!
    for k in [0:8] do
      out := out.push ((w >>> (8 * k).toUInt64).toUInt8)
  return out

def hexDigit (n : Nat) : Char := if n < 10 then Char.ofNat (48 + n) else Char.ofNat (87 + n)

def toHex (b : ByteArray) : String := Id.run do
  let mut s := ""
  for x in b.data do
    s := s.push (hexDigit (x.toNat / 16))
    s := s.push (hexDigit (x.toNat % 16))
  return s

def sha3Hex (s : String) : String := toHex (sha3_256 s.toUTF8)

end Verif.Sha3
