import Verif.Gen.LockFacts
/-!
# Per-access lock discipline over the regenerated method tables of core/statecache (C08)

`Verif.Gen.LockFacts` (go/extract, flow analysis of the set of held locks) lists, for every method, every access to a
field of its receiver — also the ones made in same-receiver helpers it calls — with the mode in which the type's mutex is
held AT THAT ACCESS. The statements here are about those accesses only: where the `Lock()` stands, whether the unlock is
deferred, how many statements come before it and which helper contains the access do not matter.
-/
namespace Verif.SCLocks
open Verif.Gen.LockFacts

/-- a non-atomic write -/
def plainWrite : AccKind → Bool
  | .assign | .append | .delete | .mapWrite | .innerWrite | .addrOf | .unknown => true
  | _ => false

def isWrite (k : AccKind) : Bool := plainWrite k || k == .atomicStore

/-- guarded state of a type: the fields some method of the type writes non-atomically, plus `extra` (fields written
    from outside through a parameter, which the extractor does not record: `BlockCache.committed` by `StateCache.commit`) -/
def guarded (tbl : List Method) (extra : List String) (f : String) : Bool :=
  extra.contains f || tbl.any (fun m => m.accesses.any (fun a => a.field == f && plainWrite a.kind))

/-- the access happens on the calling goroutine with the type's mutex held: exclusively for a write, at least shared
    for a read or a call through the field -/
def accessOK (a : Access) : Bool :=
  a.goroutine == 0 && a.kind != .unknown && (a.mode == .write || (a.mode == .read && !isWrite a.kind))

/-- the entry points of a type: its exported methods and the unexported ones no method of the same type calls (they are
    called from other types of the package: `setValue`, `commit`). A helper that methods of the type call is not judged
    on its own — its accesses appear, with the caller's lock context, among the accesses of every entry point that
    reaches it (the table is transitively closed over same-receiver calls). -/
def entries (tbl : List Method) : List Method :=
  tbl.filter (fun m => m.exported || !tbl.any (fun m' => m'.calls.any (fun c => c.callee == m.name)))

/-- every access of every entry point (helpers inlined) to guarded state is under the mutex in the right mode -/
def guardedOK (tbl : List Method) (extra : List String) : Bool :=
  (entries tbl).all (fun m => m.accesses.all (fun a => !guarded tbl extra a.field || accessOK a))

def touchesGuarded (tbl : List Method) (extra : List String) (m : Method) : Bool :=
  m.accesses.any (fun a => guarded tbl extra a.field)

/-- a method that touches guarded state of ITS OWN receiver does so in ONE critical section of the receiver's mutex: it is
    atomic with respect to that object only. Calls it makes into another object while holding its mutex
    (`crossUnderLock`) are critical sections of the OTHER object's mutex, one per call: `TransactionCache.Commit` holds
    `tc.mu` throughout but takes the block cache's `mu` once PER KEY (`main.setValue`), so other users of the block
    cache can observe half a transaction; `BlockCache.Get` / `TransactionCache.Get` call the next layer's `Get`. -/
def atomicOK (tbl : List Method) (extra : List String) : Bool :=
  (entries tbl).all (fun m => !touchesGuarded tbl extra m || (m.sections == 1 && !m.reentrant && m.lock != .unknown))

/-- the methods of OTHER objects (reached through a field) that the entry points call while holding their own mutex -/
def crossUnderLock (tbl : List Method) : List String :=
  ((entries tbl).flatMap (fun m => m.accesses.filterMap (fun a =>
    if a.kind == .call && a.mode != .none then some a.callee else none))).eraseDups

/-- non-vacuity: the table has a method of that name and it touches guarded state -/
def present (tbl : List Method) (extra : List String) (name : String) : Bool :=
  (entries tbl).any (fun m => m.name == name && touchesGuarded tbl extra m)

/-- publication into another layer: every call an entry point makes through a field to one of the named methods of the
    object behind it (`tc.main.setValue(…)`: the transaction's writes go into the block cache) happens while the type's
    own mutex is held exclusively — so the read of the write set and its publication are in the same critical section,
    and a lookup through the same object can never see the write set gone and the writes not yet applied -/
def publishOK (tbl : List Method) (callees : List String) : Bool :=
  (entries tbl).all (fun m => m.accesses.all (fun a =>
    !(a.kind == .call && callees.contains a.callee) || (a.goroutine == 0 && a.mode == .write)))

/-- non-vacuity: the named entry point does make such a call -/
def publishes (tbl : List Method) (callees : List String) (name : String) : Bool :=
  (entries tbl).any (fun m => m.name == name && m.accesses.any (fun a => a.kind == .call && callees.contains a.callee))

/-- `StateCache.commit`: every access to the state cache's fields — in its body or in a helper — happens with the state
    cache's mutex held exclusively and inside another object's lock (the committing block's `mu`), in one critical section -/
def commitOK (m : Method) : Bool :=
  !m.accesses.isEmpty && m.accesses.all (fun a => a.goroutine == 0 && a.mode == .write && a.subId != 0) &&
  m.sections == 1 && !m.reentrant

/-- a method that never takes or holds the type's mutex -/
def lockFree (m : Method) : Bool :=
  m.lock == .none && m.sections == 0 && !m.accesses.isEmpty && m.accesses.all (fun a => a.mode == .none)

end Verif.SCLocks
