/-
Model of `core/util/wmpt/trie.go` at /repo HEAD: Update / Delete (insert, delete with resolve-on-demand through the
storage), Commit(collapseLevel) with its batch and created / superseded bookkeeping, DeleteNodes (two-phase GC),
SaveRoot, Rollback, RollbackTrie, CopyRoot, Root, Weight.  Core Lean only.

Go mutates nodes in place; here every function returns the new node. When a Go call fails half-way the nodes it has
already touched stay mutated (dirty flags): the `node` field of a failed result is that in-place state.
Recursion that follows hash references through the storage is bounded by `fuel` (callers pass `fuelFor key`).
Commit runs goroutines and channels in Go; the model produces the same SETS (batch contents, created, superseded).
-/
import Verif.Model.WmptCbor
namespace Verif.Wmpt

/-! ### Storage (`storage.StorageAdapter` with atomic batches) -/

abbrev Store := List (Bytes × Bytes)

def Store.get (s : Store) (k : Bytes) : Option Bytes := s.lookup k
def Store.del (s : Store) (k : Bytes) : Store := s.filter (fun e => e.1 != k)
def Store.put (s : Store) (k v : Bytes) : Store := (k, v) :: s.del k

inductive StoreOp where
  | put (k v : Bytes)
  | del (k : Bytes)
  deriving DecidableEq, Repr

def Store.apply (s : Store) : List StoreOp → Store
  | [] => s
  | .put k v :: r => Store.apply (s.put k v) r
  | .del k :: r => Store.apply (s.del k) r

structure WT where
  root : WN := .empty
  hasDb : Bool := true
  store : Store := []
  oldRoot : Bytes × Nat := ([], 0)
  deleted : List Bytes := []        -- `map[[32]byte]bool`
  tempDeleted : List Bytes := []
  pending : List Bytes := []        -- `pendingDeleted`: superseded by changes that are not committed yet (fix a54b110)
  created : List Bytes := []

instance : Inhabited WT := ⟨{}⟩

section Ops
variable (H : Bytes → Bytes)

/-- `resolveHashNode` -/
def resolveHash (hasDb : Bool) (s : Store) (h : Bytes) : Res WN :=
  if !hasDb then .err .noDb
  else
    match s.get h with
    | none => .err .kvNotFound
    | some data =>
      match Cbor.decBase data with
      | none => .err .other
      | some p => deserializeNode p

/-- `resolve`: hash references are loaded when a database is set -/
def resolveNode (hasDb : Bool) (s : Store) (n : WN) : Res WN :=
  if !hasDb then .ok n
  else
    match n with
    | .hashRef h _ => resolveHash hasDb s h
    | n => .ok n

def commonPrefix : Bytes → Bytes → Nat
  | a :: p, b :: q => if a = b then commonPrefix p q + 1 else 0
  | _, _ => 0

def nibOf (b : UInt8) : Option Nib := if h : b.toNat < 16 then some ⟨b.toNat, h⟩ else none

/-- `insert(nil, _, key, value)`: a fresh short node, or the value itself when no key is left -/
def mkShort (key : Bytes) (v : WN) : WN := if key = [] then v else .short key [] v true false

def fuelFor (key : List Nib) : Nat := 4 * key.length + 8

structure IRes where
  node : WN
  change : Int := 0
  err : Option Err := none
  td : List Bytes := []      -- appended to `tempDeleted`, in order

/-- `insert(node, prefix, key, value)` -/
def insert (hasDb : Bool) (s : Store) : Nat → WN → List Nib → WN → IRes
  | 0, node, _, _ => { node := node, err := some .other }
  | _ + 1, node, [], value =>
    let r : Res WN := match node with
      | .hashRef h _ => resolveHash hasDb s h
      | n => .ok n
    match r with
    | .err e => { node := node, err := some e }
    | .ok n =>
      match n with
      | .value vh vv vw vd =>
        match value with
        | .value _ nv nw _ =>
          if vv = nv then { node := .value vh vv vw vd }
          else { node := .value vh nv nw true, change := (nw : Int) - vw }
        | _ => { node := node, err := some .panic }
      | _ => { node := value, change := value.weight }
  | fuel + 1, node, k :: ks, value =>
    match node with
    | .routing h ch w _ tc =>
      let r := insert hasDb s fuel (ch k) ks value
      match r.err with
      | some e => { node := .routing h (upd ch k r.node) w true tc, err := some e, td := r.td }
      | none => { node := .routing h (upd ch k r.node) ((w : Int) + r.change).toNat true tc, change := r.change, td := r.td }
    | .short key h c d tc =>
      let kb := (k :: ks).map nb
      let p := commonPrefix key kb
      if p = key.length then
        let r := insert hasDb s fuel c ((k :: ks).drop p) value
        { node := .short key h r.node true tc, change := r.change, err := r.err, td := r.td }
      else
        match nibOf (key.getD p 0), (k :: ks)[p]? with
        | some i1, some i2 =>
          let branch := WN.routing [] (upd (upd noCh i1 (mkShort (key.drop (p + 1)) c)) i2 (mkShort (kb.drop (p + 1)) value))
            ((WN.short key h c d tc).weight + value.weight) true false
          if p = 0 then { node := branch, change := value.weight, td := [h] }
          else { node := .short (kb.take p) [] branch true false, change := value.weight, td := [h] }
        | _, _ => { node := .short key h c true tc, err := some .panic, td := [h] }
    | .hashRef h w =>
      match resolveHash hasDb s h with
      | .err e => { node := .hashRef h w, err := some e }
      | .ok rn =>
        let r := insert hasDb s fuel rn (k :: ks) value
        match r.err with
        | some e => { node := .hashRef h w, err := some e, td := r.td }
        | none => r
    | .nil => { node := .short ((k :: ks).map nb) [] value true false, change := value.weight }
    | .empty => { node := .short ((k :: ks).map nb) [] value true false, change := value.weight }
    | .value vh vv vw vd => { node := .value vh vv vw vd, err := some .other }

structure DRes where
  node : WN                 -- ok: the new node (`nil` = removed); error: the in-place state
  change : Nat := 0
  err : Option Err := none
  td : List Bytes := []

/-- index of the only non-nil child, if there is exactly one -/
def soleChild (ch : Nib → WN) : Option Nib :=
  match allNib.filter (fun i => !(ch i).isNil) with
  | [i] => some i
  | _ => none

/-- `delete(node, prefix, key)` -/
def delete (hasDb : Bool) (s : Store) : Nat → WN → List Nib → DRes
  | 0, node, _ => { node := node, err := some .other }
  | fuel + 1, node, key =>
    match node with
    | .short sk h c d tc =>
      let kb := key.map nb
      let p := commonPrefix sk kb
      if p < sk.length then { node := .short sk h c d tc, err := some .notFound }
      else if p = kb.length then { node := .nil, change := (WN.short sk h c d tc).weight, td := [h, c.hashField H] }
      else
        let r := delete hasDb s fuel c (key.drop sk.length)
        match r.err with
        | some e => { node := .short sk h r.node d tc, err := some e, td := r.td }
        | none =>
          match r.node with
          | .nil =>
            -- fix 9bafaec: the child was a short node itself (only in a trie imported from a crafted export) and is gone:
            -- so is this node
            { node := .nil, change := r.change, td := r.td ++ [h] }
          | .short ck _ cc _ _ => { node := .short (sk ++ ck) h cc true tc, change := r.change, td := r.td }
          | n' => { node := .short sk h n' true tc, change := r.change, td := r.td }
    | .routing h ch w d tc =>
      match key with
      | [] => { node := .routing h ch w d tc, err := some .panic }
      | k :: ks =>
        let r := delete hasDb s fuel (ch k) ks
        match r.err with
        | some e => { node := .routing h (upd ch k r.node) w d tc, err := some e, td := r.td }
        | none =>
          let ch' := upd ch k r.node
          let w' := w - r.change
          if !r.node.isNil then { node := .routing h ch' w' true tc, change := r.change, td := r.td }
          else
            match soleChild ch' with
            | none => { node := .routing h ch' w' true tc, change := r.change, td := r.td }
            | some pos =>
              match resolveNode hasDb s (ch' pos) with
              | .err e => { node := .routing h ch' w' true tc, err := some e, td := r.td ++ [h] }
              | .ok cn =>
                match cn with
                | .short ck chh cc _ _ =>
                  { node := .short (nb pos :: ck) [] cc true false, change := r.change, td := r.td ++ [h, chh] }
                | _ => { node := .short [nb pos] [] (ch' pos) true false, change := r.change, td := r.td ++ [h] }
    | .value h v w d =>
      -- fix acaed54: a value above the full key depth belongs to a shorter key
      if key ≠ [] then { node := .value h v w d, err := some .notFound }
      else { node := .nil, change := w, td := [h] }
    | .nil => { node := .nil, err := some .notFound }
    | .empty => { node := .empty, err := some .notFound }
    | .hashRef h w =>
      match resolveHash hasDb s h with
      | .err e => { node := .hashRef h w, err := some e }
      | .ok rn =>
        let r := delete hasDb s fuel rn key
        match r.err with
        | some e => { node := .hashRef h w, err := some e, td := r.td }
        | none => r

def normRoot (n : WN) : WN := if n.isNil then .empty else n

/-- `Update(key, value, weight)`; `key` = `keybytesToHex` of the 32 key bytes -/
def update (t : WT) (key : List Nib) (value : Bytes) (weight : Nat) : WT × Res Unit :=
  if key.length ≠ 64 then (t, .err .invalidKey)
  else if value ≠ [] then
    let r := insert t.hasDb t.store (fuelFor key) (normRoot t.root) key (.value [] value weight true)
    match r.err with
    | some e => ({ t with root := normRoot r.node, pending := t.pending ++ r.td }, .err e)
    | none => ({ t with root := r.node, pending := t.pending ++ r.td }, .ok ())
  else
    let r := delete H t.hasDb t.store (fuelFor key) (normRoot t.root) key
    match r.err with
    | some e => ({ t with root := normRoot r.node, pending := t.pending ++ r.td }, .err e)
    | none => ({ t with root := normRoot r.node, pending := t.pending ++ r.td }, .ok ())

/-- `Delete(key)` (no key-length check in Go) -/
def deleteKey (t : WT) (key : List Nib) : WT × Res Nat :=
  let r := delete H t.hasDb t.store (fuelFor key) t.root key
  match r.err with
  | some e => ({ t with root := r.node, pending := t.pending ++ r.td }, .err e)
  | none => ({ t with root := normRoot r.node, pending := t.pending ++ r.td }, .ok r.change)

/-! ### Root, Weight, CopyRoot -/

/-- `Root()` -/
def rootHash (t : WT) : WT × Bytes :=
  if t.root.dirty then
    let r := calcHash H t.root
    ({ t with root := r.1 }, r.2)
  else (t, t.root.hashField H)

def WT.weight (t : WT) : Nat := t.root.weight

/-- `Node.CopyRoot(currLevel, collapseLevel)` -/
def copyRoot (collapse : Int) : Nat → WN → WN
  | _, .nil => .nil
  | _, .empty => .empty
  | _, .hashRef h w => .hashRef h w
  | _, .value h v w _ => .value h v w false
  | lvl, .short k h c _ _ =>
    if (lvl : Int) = collapse then .short k h (.hashRef (c.hashField H) c.weight) false false
    else .short k h (copyRoot collapse (lvl + 1) c) false false
  | lvl, .routing h ch w _ _ =>
    if (lvl : Int) = collapse then .hashRef h w
    else .routing h (ofList (allNib.map (fun i => copyRoot collapse (lvl + 1) (ch i)))) w false false

/-! ### Commit -/

structure CRes where
  node : WN
  puts : List (Bytes × Bytes) := []
  created : List Bytes := []
  superseded : List Bytes := []

def CRes.merge (a : CRes) (n : WN) (b : CRes) : CRes :=
  { node := n, puts := a.puts ++ b.puts, created := a.created ++ b.created, superseded := a.superseded ++ b.superseded }

/-- `Save(batcher)` of a dirty node whose children are already committed: hash refreshed, flag cleared, one put -/
def saveNode (n : WN) : WN × (Bytes × Bytes) :=
  let r := serializeP H n
  let clean : WN := match r.1 with
    | .value h v w _ => .value h v w false
    | .short k h c _ tc => .short k h c false tc
    | .routing h ch w _ tc => .routing h ch w false tc
    | n => n
  (clean, (r.1.hashField H, Cbor.encBase r.2))

/-- `commit(node, batcher, collapseLevel, level, …)` -/
def commitNode (collapse : Int) : Nat → WN → CRes
  | lvl, .value h v w d =>
    if !d then { node := .value h v w d }
    else
      let s := saveNode H (.value h v w d)
      let h' := s.1.hashField H
      { node := s.1, puts := [s.2], created := [h'], superseded := if h = h' then [] else [h] }
  | lvl, .short k h c d tc =>
    if !d then { node := .short k h c d tc }
    else
      let rc : CRes := if c.isNil then { node := c } else commitNode collapse (lvl + 1) c
      let s := saveNode H (.short k h rc.node d tc)
      let h' := s.1.hashField H
      let n' : WN := match s.1 with
        | .short k' hh c' d' tc' =>
          if (lvl : Int) = collapse then .short k' hh (.hashRef (c'.hashField H) c'.weight) d' tc' else .short k' hh c' d' tc'
        | n => n
      { node := n', puts := rc.puts ++ [s.2], created := rc.created ++ [h'],
        superseded := rc.superseded ++ (if h = h' then [] else [h]) }
  | lvl, .routing h ch w d tc =>
    if !d then { node := .routing h ch w d tc }
    else
      let rs := allNib.map (fun i =>
        if (ch i).isNil || !(ch i).dirty then ({ node := ch i } : CRes) else commitNode collapse (lvl + 1) (ch i))
      let s := saveNode H (.routing h (ofList (rs.map (fun r => r.node))) w d tc)
      let h' := s.1.hashField H
      let puts := rs.flatMap (fun r => r.puts) ++ [s.2]
      -- a branch at the collapse level is replaced by its reference; it is recorded like any other saved node (fix e0c8e87)
      { node := if (lvl : Int) = collapse then .hashRef h' w else s.1,
        puts := puts, created := rs.flatMap (fun r => r.created) ++ [h'],
        superseded := rs.flatMap (fun r => r.superseded) ++ (if h = h' then [] else [h]) }
  | _, n => { node := n }

def eraseAll (l : List Bytes) (xs : List Bytes) : List Bytes := l.filter (fun k => !xs.contains k)

/-- `Commit(collapseLevel)`: the trie afterwards and the batch (to be applied by the caller) -/
def commit (t : WT) (collapse : Int) : WT × List StoreOp :=
  -- what the uncommitted changes superseded is queued for GC only now (fix a54b110)
  let t : WT := { t with tempDeleted := t.tempDeleted ++ t.pending, pending := [] }
  if !t.root.dirty then (t, [])
  else
    let r : CRes := match t.root with
      | .routing h ch w d tc =>
        -- the root branch is never collapsed; its old cached hash is queued unconditionally
        let rs := allNib.map (fun i =>
          if (ch i).isNil || !(ch i).dirty then ({ node := ch i } : CRes) else commitNode H collapse 1 (ch i))
        let s := saveNode H (.routing h (ofList (rs.map (fun r => r.node))) w d tc)
        { node := s.1, puts := rs.flatMap (fun r => r.puts) ++ [s.2],
          created := rs.flatMap (fun r => r.created) ++ [s.1.hashField H],
          superseded := h :: rs.flatMap (fun r => r.superseded) }
      | n => commitNode H collapse 0 n
    let td := eraseAll (t.tempDeleted ++ r.superseded.filter (fun h => h ≠ [])) r.created
    -- a hash that is already in storage also belongs to an earlier commit: not listed as created (fix b5c797f)
    let created := if t.hasDb then r.created.filter (fun h => (t.store.get h).isNone) else r.created
    ({ t with root := r.node, created := created, tempDeleted := td,
              deleted := eraseAll t.deleted (r.created.map pad32) },
     r.puts.map (fun p => StoreOp.put p.1 p.2))

/-- `DeleteNodes()`: the GC batch (applied immediately) -/
def deleteNodes (t : WT) : WT × List StoreOp :=
  let ops := t.deleted.map StoreOp.del
  ({ t with store := t.store.apply ops, deleted := (t.tempDeleted.map pad32).eraseDups, tempDeleted := [] }, ops)

/-- `SaveRoot()` -/
def saveRoot (t : WT) : WT :=
  { t with oldRoot := (t.root.hashField H, t.root.weight), created := [] }

/-- `Rollback()` -/
def rollback (t : WT) : WT × List StoreOp :=
  let ops := t.created.map StoreOp.del
  ({ t with root := if t.oldRoot.2 > 0 then .hashRef t.oldRoot.1 t.oldRoot.2 else .empty,
            store := t.store.apply ops, created := [], tempDeleted := [], pending := [], deleted := [] }, ops)

/-- `RollbackTrie(node)` -/
def rollbackTrie (t : WT) (node : WN) : WT × List StoreOp :=
  let toEmpty := node.isNil || node.weight = 0
  if !toEmpty && node.hashField H = t.root.hashField H then (t, [])
  else
    let ops := t.created.map StoreOp.del
    ({ t with root := if toEmpty then .empty else node, store := t.store.apply ops, created := [], tempDeleted := [],
              pending := [], deleted := [] }, ops)

end Ops
end Verif.Wmpt
