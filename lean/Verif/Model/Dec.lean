import Verif.Model.F64
/-! The part of github.com/shopspring/decimal v1.3.1 that core/currency uses, at value level (core Lean only).

`Decimal{value *big.Int, exp int32}` is `coeff · 10^exp`. The `int32` exponent is modelled as an unbounded `Int`
(exponents here come from `NewFromFloat`, |exp| < 400, plus a shift by 10 — recorded as an assumption).
`NewFromFloat` itself is NOT modelled: the generated code takes its result as an argument, and Props/C18 specifies it
(`ShortestRT`). Every definition below follows the library source line by line:

  New(v, e) = {v, e}            NewFromInt(v) = {v, 0}       Sign = value.Sign()      Exponent = exp
  Shift(k)  = {value, exp + k}  GreaterThan = Cmp == 1, Cmp rescales the one with the larger exponent down (exact)
  IntPart   = rescale(0).value.Int64()   (rescale up divides with truncation toward zero; Int64() = low 64 bits)
  Float64   = Rat().Float64()            (nearest binary64, ties to even, of the exact quotient) -/
namespace Verif.Dec
open Verif.F64

structure Dec where
  coeff : Int
  exp : Int
  deriving DecidableEq, Repr

def Dec.new (v : BitVec 64) (e : Int) : Dec := ⟨v.toInt, e⟩
def Dec.newFromInt (v : BitVec 64) : Dec := ⟨v.toInt, 0⟩
def Dec.sign (d : Dec) : Int := Int.sign d.coeff
abbrev Dec.exponent (d : Dec) : Int := d.exp
abbrev Dec.shift (d : Dec) (k : Int) : Dec := ⟨d.coeff, d.exp + k⟩

/-- `d.Cmp(d2) == 1`: both coefficients over the common exponent `min d.exp d2.exp` (an exact rescale) -/
def Dec.greaterThan (a b : Dec) : Bool :=
  let k := min a.exp b.exp
  decide (b.coeff * 10 ^ (b.exp - k).toNat < a.coeff * 10 ^ (a.exp - k).toNat)

/-- `d.Cmp(d2)`: -1, 0 or 1 (coefficients over the common exponent) -/
def Dec.cmp (a b : Dec) : Int :=
  let k := min a.exp b.exp
  if a.coeff * 10 ^ (a.exp - k).toNat < b.coeff * 10 ^ (b.exp - k).toNat then -1
  else if a.coeff * 10 ^ (a.exp - k).toNat = b.coeff * 10 ^ (b.exp - k).toNat then 0 else 1

/-- `rescale(0).value`: exact for exp ≥ 0, truncated toward zero (`big.Int.Quo`) for exp < 0 -/
def Dec.intValue (d : Dec) : Int :=
  if 0 ≤ d.exp then d.coeff * 10 ^ d.exp.toNat else Int.tdiv d.coeff (10 ^ (-d.exp).toNat)

/-- `IntPart()`: `big.Int.Int64()` keeps the low 64 bits (two's complement) -/
def Dec.intPart (d : Dec) : BitVec 64 := BitVec.ofInt 64 d.intValue

/-- `Float64()` (first result): the binary64 nearest to `coeff · 10^exp` -/
def Dec.float64 (d : Dec) : F64 :=
  if 0 ≤ d.exp then roundNE (decide (d.coeff < 0)) (d.coeff.natAbs * 10 ^ d.exp.toNat) 1
  else roundNE (decide (d.coeff < 0)) d.coeff.natAbs (10 ^ (-d.exp).toNat)

end Verif.Dec
