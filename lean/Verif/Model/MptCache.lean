/-
The node cache of the state trie (`core/util/merkle_patricia_trie.go`: getNode, insertNode, deleteNode;
`core/statecache/transactioncache.go`: Get / Set / Remove).  Core Lean only.

Every node read of a trie goes through `getNode`:

    v, ok := mpt.cache.Get(key);  if ok { return v }            -- a clone of the cached node
    n, err = mpt.db.GetNode(key); if err == nil { mpt.cache.Set(key, n) }

`insertNode(old, new)` does `cache.Set(newKey, new)` and, when the old node has another key, `cache.Remove(oldKey)`;
`deleteNode(n)` does `cache.Remove(key)`.

The cache is a `statecache.TransactionCache`:
  * `Set(k, e)`   stores `e.Clone()` in the transaction-local map;
  * `Get(k)`      local entry present: deleted → miss, else `data.Clone()`; no local entry → `main.Get(k)` (the block
                  cache below; `main` here is whatever it answers — `fun _ => none` for `statecache.NewEmpty()` and
                  for the cache `CloneMPT` creates);
  * `Remove(k)`   leaves a tombstone (`deleted = true`) that shadows `main`.
`Clone` of a node is `CreateNode(Encode(node))`, i.e. `decode (encode r)`; it panics if that fails.  `cloneR` returns
the decoded copy; `Verif.Lemmas.MptCache` shows that for every node the cache is ever given (a node decoded from stored
bytes, or a well-formed node produced by the trie) the copy is the node itself, so the failure branch is unreachable.

The store is the byte-level store of `Verif.Model.MptPartial` (`get : key → stored bytes`); as there, stored bytes that
do not decode to a leaf / branch / extension are outside the scope and read as an absent node.  The traversals follow
`lookupP` / `iterErr` / `valuesP` of that file case by case, reading nodes through `getNodeC` and threading the cache.
`fuel` bounds the number of nodes on a root-to-leaf walk exactly as in `buildP` (exhausted fuel = missing node).
-/
import Verif.Model.MptPartial
namespace Verif.Cache
open Verif.Mpt (Bytes Nib)
open Verif.Codec Verif.Partial

/-- `Clone()` of a node: `CreateNode(Encode(n))` -/
def cloneR (r : Repr) : Repr :=
  match decode (encode r) with
  | .ok r' => r'
  | _ => r

/-- a trie's `TransactionCache`: the local map (newest entry first; `none` = deleted tombstone) over `main` -/
structure Cache where
  loc : List (Bytes × Option Repr) := []
  main : Bytes → Option Repr := fun _ => none

namespace Cache

def empty : Cache := {}

/-- `Get` -/
def get (c : Cache) (k : Bytes) : Option Repr :=
  match c.loc.find? (fun e => e.1 == k) with
  | some (_, some r) => some (cloneR r)
  | some (_, none) => none
  | none => c.main k

/-- `Set` -/
def set (c : Cache) (k : Bytes) (r : Repr) : Cache := { c with loc := (k, some (cloneR r)) :: c.loc }

/-- `Remove` -/
def remove (c : Cache) (k : Bytes) : Cache := { c with loc := (k, none) :: c.loc }

/-- keys with a live local entry (for the driver) -/
def liveKeys (c : Cache) : List Bytes :=
  (c.loc.map (·.1)).eraseDups.filter (fun k => (c.get k).isSome)

end Cache

/-- `getNode(key)`: cache first, else the store; a node read from the store is put into the cache -/
def getNodeC (c : Cache) (get : Bytes → Option Bytes) (k : Bytes) : Cache × Option Repr :=
  match c.get k with
  | some r => (c, some r)
  | none =>
    match get k with
    | none => (c, none)
    | some bs =>
      match decode bs with
      | .ok r => (c.set k r, some r)
      | _ => (c, none)

/-- cache part of `insertNode(oldNode, newNode)`; `oldK` = key of the old node, if there is one -/
def cacheInsertNode (c : Cache) (newK : Bytes) (newR : Repr) (oldK : Option Bytes) : Cache :=
  let c1 := c.set newK newR
  match oldK with
  | none => c1
  | some ok => if ok = newK then c1 else c1.remove ok

/-- cache part of `deleteNode(node)` -/
def cacheDeleteNode (c : Cache) (k : Bytes) : Cache := c.remove k

/-- `getNodeValueRaw` from the node stored under `k` -/
def lookupKey (get : Bytes → Option Bytes) : Nat → Cache → Bytes → Bytes → Cache × LRes
  | 0, c, _, _ => (c, .nodeNotFound)
  | n + 1, c, k, p =>
    match getNodeC c get k with
    | (c', none) => (c', .nodeNotFound)
    | (c', some r) =>
      match r.body with
      | .leaf _ lp v => (c', if lp = p then valRes v else .notPresent)
      | .full ch v =>
        match p with
        | [] => (c', valRes v)
        | x :: rest =>
          match nibOf x with
          | none => (c', .panic)                       -- `FullNode.index` panics before any read
          | some i =>
            match ch[i.val]? with
            | some (some ck) => lookupKey get n c' ck rest
            | _ => (c', .notPresent)
      | .ext ep ck =>
        if matchLen p ep = 0 then (c', .notPresent)
        else if matchLen p ep = ep.length then lookupKey get n c' ck (p.drop ep.length)
        else (c', .notPresent)
      | .value _ => (c', .nodeNotFound)

/-- `GetNodeValueRaw(path)`: every step consumes at least one byte of the path, so `path.length + 1` nodes suffice -/
def lookupC (c : Cache) (get : Bytes → Option Bytes) (root p : Bytes) : Cache × LRes :=
  if root = [] then (c, .notPresent) else lookupKey get (p.length + 1) c root p

/-- state of the branch loop of `iterate`: cache, "some child failed" (`ecount != 0`), values so far -/
abbrev IterAcc := Cache × Bool × List (Bytes × Bytes)

/-- `iterate(path, key, handler)`: the error (with `m` = what a missing node yields, see `iterErr`) and the values
    handed to a value handler, in order -/
def iterKey (get : Bytes → Option Bytes) (m : IterErr) : Nat → Cache → Bytes → Bytes → Cache × IterErr × List (Bytes × Bytes)
  | 0, c, _, _ => (c, m, [])
  | n + 1, c, k, pre =>
    match getNodeC c get k with
    | (c', none) => (c', m, [])
    | (c', some r) =>
      match r.body with
      | .leaf _ lp v => (c', .none, match v with | some b => [(pre ++ lp, b)] | none => [])
      | .full ch v =>
        let own : List (Bytes × Bytes) := match v with | some b => [(pre, b)] | none => []
        let acc : IterAcc := (List.finRange 16).foldl (fun (a : IterAcc) i =>
          match ch[i.val]? with
          | some (some ck) =>
            let r := iterKey get m n a.1 ck (pre ++ [Verif.Mpt.nibChar i])
            (r.1, a.2.1 || r.2.1 != .none, a.2.2 ++ r.2.2)
          | _ => a) (c', false, own)
        (acc.1, if acc.2.1 then .iterChild else .none, acc.2.2)
      | .ext ep ck => iterKey get m n c' ck (pre ++ ep)
      | .value _ => (c', m, [])

/-- `Iterate` from the root key (nil root: nothing to do) -/
def iterC (m : IterErr) (fuel : Nat) (c : Cache) (get : Bytes → Option Bytes) (root : Bytes) :
    Cache × IterErr × List (Bytes × Bytes) :=
  if root = [] then (c, .none, []) else iterKey get m fuel c root []

/-- `HasMissingNodes` through a trie with cache `c` -/
def hasMissingC (fuel : Nat) (c : Cache) (get : Bytes → Option Bytes) (root : Bytes) : Cache × Bool :=
  let r := iterC .missingNodes fuel c get root
  (r.1, r.2.1 != .none)

/-- the store as seen through the cache: a cached node is found whether or not the store holds it -/
def unionGet (c : Cache) (get : Bytes → Option Bytes) (k : Bytes) : Option Bytes :=
  match c.get k with
  | some r => some (encode r)
  | none => get k

end Verif.Cache
