import Verif.Model.StateCache
/-!
# Reference-heap semantics of the state cache's client boundary (C07, "values are never shared")

Go values handed to and returned by the cache are pointers (`statecache.Value` implementations such as `*util.LeafNode`)
into one mutable heap shared by the client and the cache. This module models exactly that: the cache (`Sys`) stores
*references* (`V := Nat`), there is one `heap : Nat → C` from references to contents, and the client may overwrite the
content of any reference it holds at any time (`HOp.mutate`). The cache core is the same polymorphic `Sys.step` as
everywhere else — it never inspects, creates or changes a value; the only places where references cross the boundary
are the ones where the Go code calls `Clone()`:

* a value handed IN (`TransactionCache.Set`, `BlockCache.Set`: `data: e.Clone()`): the cache stores a freshly allocated
  reference whose content is a copy of the argument's content at call time;
* a value handed OUT (`TransactionCache.Get`, `BlockCache.Get`, `StateCache.Get`: `return v.data.Clone(), true`): the
  client receives a freshly allocated reference whose content is a copy of the stored content.

The clones the code makes while moving values between layers (`setValue`, `commit`) are internal — no reference
escapes there — and are not modelled (they cannot matter for what the client observes; the core is value-parametric).
Reference 0 is never allocated.
-/
namespace Verif.SC

variable {H K B C : Type} [DecidableEq H] [DecidableEq K] [DecidableEq B]

/-- the value argument of an operation, if it has one (`Set`) -/
def Op.valArg {V : Type} : Op H K B V → Option V
  | .tset _ _ v => some v
  | .bset _ _ v => some v
  | _ => none

/-- replace the value argument -/
def Op.withVal {V : Type} (v' : V) : Op H K B V → Op H K B V
  | .tset t k _ => .tset t k v'
  | .bset h k _ => .bset h k v'
  | o => o

def upd (heap : Nat → C) (r : Nat) (c : C) : Nat → C := fun x => if x = r then c else heap x

structure HSys (H K B C : Type) where
  sys : Sys H K B Nat          -- the cache holds references
  heap : Nat → C               -- one heap for client and cache
  next : Nat                   -- next fresh reference (≥ 1)
  client : List Nat            -- references the client holds

inductive HOp (H K B C : Type) where
  | new (c : C)                        -- the client allocates a value
  | mutate (r : Nat) (c : C)           -- the client overwrites a value it holds, in place
  | op (o : Op H K B Nat)              -- a cache operation; a value argument is a reference

inductive HOut where
  | ref (r : Nat)
  | unit
  | out (o : Out Nat)

def HSys.new (capK maxDepth : Nat) (dflt : C) : HSys H K B C := ⟨Sys.new capK maxDepth, fun _ => dflt, 1, []⟩

def HSys.step (hs : HSys H K B C) : HOp H K B C → HSys H K B C × HOut
  | .new c =>
    ({ hs with heap := upd hs.heap hs.next c, next := hs.next + 1, client := hs.next :: hs.client }, .ref hs.next)
  | .mutate r c =>
    if r ∈ hs.client then ({ hs with heap := upd hs.heap r c }, .unit) else (hs, .unit)
  | .op o =>
    match o.valArg with
    | some r =>
      -- `data: e.Clone()`: the cache keeps a fresh copy of the argument
      ({ sys := (hs.sys.step (o.withVal hs.next)).1, heap := upd hs.heap hs.next (hs.heap r), next := hs.next + 1,
         client := hs.client },
       .out (hs.sys.step (o.withVal hs.next)).2)
    | none =>
      match (hs.sys.step o).2 with
      | .hit r =>
        -- `return v.data.Clone(), true`: the client gets a fresh copy of the stored value
        ({ sys := (hs.sys.step o).1, heap := upd hs.heap hs.next (hs.heap r), next := hs.next + 1,
           client := hs.next :: hs.client },
         .out (.hit hs.next))
      | out => ({ hs with sys := (hs.sys.step o).1 }, .out out)

/-- `HSys.step` with the copy at the two clone sites computed by a function `cl` on contents instead of taken to be the
    content itself. For the real value types `cl` is `Clone()` = `CreateNode(Encode(n))` (`Verif.Cache.cloneR`). -/
def HSys.stepC (cl : C → C) (hs : HSys H K B C) : HOp H K B C → HSys H K B C × HOut
  | .new c =>
    ({ hs with heap := upd hs.heap hs.next c, next := hs.next + 1, client := hs.next :: hs.client }, .ref hs.next)
  | .mutate r c =>
    if r ∈ hs.client then ({ hs with heap := upd hs.heap r c }, .unit) else (hs, .unit)
  | .op o =>
    match o.valArg with
    | some r =>
      ({ sys := (hs.sys.step (o.withVal hs.next)).1, heap := upd hs.heap hs.next (cl (hs.heap r)), next := hs.next + 1,
         client := hs.client },
       .out (hs.sys.step (o.withVal hs.next)).2)
    | none =>
      match (hs.sys.step o).2 with
      | .hit r =>
        ({ sys := (hs.sys.step o).1, heap := upd hs.heap hs.next (cl (hs.heap r)), next := hs.next + 1,
           client := hs.next :: hs.client },
         .out (.hit hs.next))
      | out => ({ hs with sys := (hs.sys.step o).1 }, .out out)

end Verif.SC
