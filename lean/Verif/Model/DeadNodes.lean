/-
Dead-node record codec (`core/util/dead_nodes_gen.go`: deadNodes.MarshalMsg / UnmarshalMsg, msgp-generated, with the hand
guard of fix 9b8de94) over the primitives of github.com/0chain/msgp v1.1.62 it calls (read_bytes.go: ReadMapHeaderBytes,
ReadMapKeyZC, ReadStringZC, ReadBytesZC, ReadBoolBytes, Skip / getSize; write_bytes.go: AppendMapHeader, AppendString,
AppendBool), and the way `PNodeDB.PruneBelowVersion` treats one record.  Core Lean only.

  record = 0x81 0xa5 "Nodes" <map header n> (<str key> <bool>)^n        keys = hex strings of node hashes, sorted

Go slice expressions (`b[1:]`, `b[0:read]`, `big.Uint16(b[1:])`) are bounds-checked primitives returning `.panic` where Go
would panic.  `allocs` records every `make(map[string]bool, hint)` the decoder performs (the size hint comes from the
record): the defect fixed by 9b8de94 was a hint of up to 2^32−1 taken from 5 bytes of input.
Not modelled: Go's stack limit (msgp.Skip recurses once per nesting level of a skipped field).
-/
import Verif.Model.MptCodec
namespace Verif.DeadNodes
open Verif.Codec (DRes)
abbrev Bytes := List UInt8

/-! ### slice primitives -/

/-- `len(b) < k`.  Specified through `List.length`; executed (`@[csimp]` below) by walking at most `k` cells, so that the
    model driver stays linear on megabyte inputs. -/
def lenLt (b : Bytes) (k : Nat) : Bool := decide (b.length < k)

def lenLtFast : Bytes → Nat → Bool
  | _, 0 => false
  | [], _ + 1 => true
  | _ :: t, k + 1 => lenLtFast t k

theorem lenLtFast_eq (b : Bytes) (k : Nat) : lenLtFast b k = decide (b.length < k) := by
  induction b generalizing k with
  | nil => cases k <;> simp [lenLtFast]
  | cons x t ih => cases k <;> simp [lenLtFast, ih]

@[csimp] theorem lenLt_eq_fast : @lenLt = @lenLtFast := by
  funext b k; simp [lenLt, lenLtFast_eq]

/-- `b[n:]` -/
def slFrom (b : Bytes) (n : Nat) : DRes Bytes := if lenLt b n then .panic else .ok (b.drop n)

/-- `b[0:n]` -/
def slTo (b : Bytes) (n : Nat) : DRes Bytes := if lenLt b n then .panic else .ok (b.take n)

/-- `big.Uint16(b)` -/
def be16 (b : Bytes) : DRes Nat :=
  match b with
  | x :: y :: _ => .ok (x.toNat * 256 + y.toNat)
  | _ => .panic

/-- `big.Uint32(b)` -/
def be32 (b : Bytes) : DRes Nat :=
  match b with
  | x :: y :: z :: w :: _ => .ok (((x.toNat * 256 + y.toNat) * 256 + z.toNat) * 256 + w.toNat)
  | _ => .panic

def DRes.bind {α β : Type} (x : DRes α) (f : α → DRes β) : DRes β :=
  match x with
  | .ok a => f a
  | .err => .err
  | .panic => .panic

/-! ### msgp readers -/

/-- `ReadMapHeaderBytes`: entry count and the remaining bytes -/
def readMapHeader (b : Bytes) : DRes (Nat × Bytes) :=
  match b with
  | [] => .err                                             -- ErrShortBytes
  | lead :: _ =>
    if lead &&& 0xf0 = 0x80 then                           -- fixmap
      DRes.bind (slFrom b 1) fun o => .ok ((lead &&& 0x0f).toNat, o)
    else if lead = 0xde then                               -- map16
      if lenLt b 3 then .err else
      DRes.bind (slFrom b 1) fun t => DRes.bind (be16 t) fun n => DRes.bind (slFrom b 3) fun o => .ok (n, o)
    else if lead = 0xdf then                               -- map32
      if lenLt b 5 then .err else
      DRes.bind (slFrom b 1) fun t => DRes.bind (be32 t) fun n => DRes.bind (slFrom b 5) fun o => .ok (n, o)
    else .err                                              -- badPrefix

/-- the tail of `ReadStringZC` / `readBytesBytes`: `if len(b) < read → ErrShortBytes; v = b[0:read]; o = b[read:]` -/
def takeExact (b : Bytes) (read : Nat) : DRes (Bytes × Bytes) :=
  if lenLt b read then .err else
  DRes.bind (slTo b read) fun v => DRes.bind (slFrom b read) fun o => .ok (v, o)

/-- `ReadStringZC`: value and remaining bytes; a non-str lead byte is a TypeError -/
def readString (b : Bytes) : DRes (Bytes × Bytes) :=
  match b with
  | [] => .err
  | lead :: _ =>
    if lead &&& 0xe0 = 0xa0 then                           -- fixstr
      DRes.bind (slFrom b 1) fun t => takeExact t (lead &&& 0x1f).toNat
    else if lead = 0xd9 then                               -- str8
      if lenLt b 2 then .err else
      DRes.bind (slFrom b 1) fun t => match t with
        | n :: _ => DRes.bind (slFrom b 2) fun t2 => takeExact t2 n.toNat
        | [] => .panic
    else if lead = 0xda then                               -- str16
      if lenLt b 3 then .err else
      DRes.bind (slFrom b 1) fun t => DRes.bind (be16 t) fun n => DRes.bind (slFrom b 3) fun t2 => takeExact t2 n
    else if lead = 0xdb then                               -- str32
      if lenLt b 5 then .err else
      DRes.bind (slFrom b 1) fun t => DRes.bind (be32 t) fun n => DRes.bind (slFrom b 5) fun t2 => takeExact t2 n
    else .err

/-- `ReadBytesZC` (bin8 / bin16 / bin32) -/
def readBin (b : Bytes) : DRes (Bytes × Bytes) :=
  match b with
  | [] => .err
  | lead :: _ =>
    if lead = 0xc4 then
      if lenLt b 2 then .err else
      DRes.bind (slFrom b 1) fun t => match t with
        | n :: _ => DRes.bind (slFrom b 2) fun t2 => takeExact t2 n.toNat
        | [] => .panic
    else if lead = 0xc5 then
      if lenLt b 3 then .err else
      DRes.bind (slFrom b 1) fun t => DRes.bind (be16 t) fun n => DRes.bind (slFrom b 3) fun t2 => takeExact t2 n
    else if lead = 0xc6 then
      if lenLt b 5 then .err else
      DRes.bind (slFrom b 1) fun t => DRes.bind (be32 t) fun n => DRes.bind (slFrom b 5) fun t2 => takeExact t2 n
    else .err

/-- `ReadMapKeyZC`: a str, or (when `ReadStringZC` reports a TypeError whose encoded type is bin) a bin -/
def readMapKey (b : Bytes) : DRes (Bytes × Bytes) :=
  match b with
  | [] => .err
  | lead :: _ => if lead = 0xc4 ∨ lead = 0xc5 ∨ lead = 0xc6 then readBin b else readString b

/-- `ReadBoolBytes` -/
def readBool (b : Bytes) : DRes (Bool × Bytes) :=
  match b with
  | [] => .err
  | lead :: _ =>
    if lead = 0xc3 then DRes.bind (slFrom b 1) fun o => .ok (true, o)
    else if lead = 0xc2 then DRes.bind (slFrom b 1) fun o => .ok (false, o)
    else .err

/-- `getSize`: (bytes to skip, objects to skip afterwards); `none` = error (short bytes / invalid prefix 0xc1) -/
def getSize (b : Bytes) : DRes (Nat × Nat) :=
  match b with
  | [] => .err
  | lead :: _ =>
    let fixed (size : Nat) : DRes (Nat × Nat) := .ok (size, 0)
    let extra (size : Nat) (n : DRes Nat) : DRes (Nat × Nat) :=
      if lenLt b size then .err else DRes.bind n fun k => .ok (size + k, 0)
    let len8 : DRes Nat := DRes.bind (slFrom b 1) fun t => match t with | n :: _ => .ok n.toNat | [] => .panic
    let len16 : DRes Nat := DRes.bind (slFrom b 1) be16
    let len32 : DRes Nat := DRes.bind (slFrom b 1) be32
    let objs (size : Nat) (n : DRes Nat) (mul : Nat) : DRes (Nat × Nat) :=
      if lenLt b size then .err else DRes.bind n fun k => .ok (size, mul * k)
    if lead = 0xc0 ∨ lead = 0xc2 ∨ lead = 0xc3 then fixed 1
    else if lead = 0xc4 then extra 2 len8
    else if lead = 0xc5 then extra 3 len16
    else if lead = 0xc6 then extra 5 len32
    else if lead = 0xc7 then extra 3 len8
    else if lead = 0xc8 then extra 4 len16
    else if lead = 0xc9 then extra 6 len32
    else if lead = 0xca then fixed 5
    else if lead = 0xcb then fixed 9
    else if lead = 0xcc then fixed 2
    else if lead = 0xcd then fixed 3
    else if lead = 0xce then fixed 5
    else if lead = 0xcf then fixed 9
    else if lead = 0xd0 then fixed 2
    else if lead = 0xd1 then fixed 3
    else if lead = 0xd2 then fixed 5
    else if lead = 0xd3 then fixed 9
    else if lead = 0xd4 then fixed 3
    else if lead = 0xd5 then fixed 4
    else if lead = 0xd6 then fixed 6
    else if lead = 0xd7 then fixed 10
    else if lead = 0xd8 then fixed 18
    else if lead = 0xd9 then extra 2 len8
    else if lead = 0xda then extra 3 len16
    else if lead = 0xdb then extra 5 len32
    else if lead = 0xdc then objs 3 len16 1
    else if lead = 0xdd then objs 5 len32 1
    else if lead = 0xde then objs 3 len16 2
    else if lead = 0xdf then objs 5 len32 2
    else if lead < 0x80 then fixed 1                        -- positive fixint
    else if lead < 0x90 then .ok (1, 2 * (lead &&& 0x0f).toNat)   -- fixmap
    else if lead < 0xa0 then .ok (1, (lead &&& 0x0f).toNat)       -- fixarray
    else if lead < 0xc0 then fixed (1 + (lead &&& 0x1f).toNat)    -- fixstr
    else if 0xe0 ≤ lead then fixed 1                        -- negative fixint
    else .err                                               -- 0xc1: InvalidPrefixError

/-- `Skip`, with the recursion over nested objects flattened into a count of objects still to skip: skipping an
    object of `sz` bytes that announces `asz` sub-objects = dropping `sz` bytes and skipping `asz` more objects.
    Every step consumes at least one byte, so `fuel = len + 1` is never exhausted (exhaustion is reported as error). -/
def skipObjs : Nat → Nat → Bytes → DRes Bytes
  | _, 0, b => .ok b
  | 0, _ + 1, _ => .err
  | fuel + 1, n + 1, b =>
    match getSize b with
    | .ok (sz, asz) =>
      if lenLt b sz then .err else
      DRes.bind (slFrom b sz) fun b' => skipObjs fuel (n + asz) b'
    | .err => .err
    | .panic => .panic

def skip (b : Bytes) : DRes Bytes := skipObjs (b.length + 1) 1 b

/-! ### deadNodes.UnmarshalMsg -/

/-- decoded record: `nodes = none` is the nil map; entries in reading order (a later entry of the same key overwrites);
    `allocs` = size hints of the `make(map[string]bool, hint)` calls performed -/
structure Dec where
  nodes : Option (List (Bytes × Bool)) := none
  allocs : List Nat := []
  deriving DecidableEq

/-- the inner loop: `m` times ReadStringBytes, ReadBoolBytes, `z.Nodes[k] = v` -/
def readEntries : Nat → Bytes → List (Bytes × Bool) → DRes (List (Bytes × Bool) × Bytes)
  | 0, b, acc => .ok (acc.reverse, b)
  | m + 1, b, acc =>
    DRes.bind (readString b) fun (k, b1) =>
    DRes.bind (readBool b1) fun (v, b2) => readEntries m b2 ((k, v) :: acc)

def nodesName : Bytes := [78, 111, 100, 101, 115]   -- "Nodes"

/-- result of the decoder: the size hints of the `make(map[string]bool, hint)` calls it performed — also when it fails
    afterwards — and the outcome -/
abbrev Out (α : Type) := List Nat × DRes α

/-- continue with `k` on success; an error / panic ends the decoder with the allocations made so far -/
def orFail {α β : Type} (allocs : List Nat) (x : DRes α) (k : α → Out β) : Out β :=
  match x with
  | .ok a => k a
  | .err => (allocs, .err)
  | .panic => (allocs, .panic)

/-- the outer loop over the fields of the record; `guard` = the check added by 9b8de94; `d.allocs` = allocations so far -/
def readFields (guard : Bool) : Nat → Bytes → Dec → Out (Dec × Bytes)
  | 0, b, d => (d.allocs, .ok (d, b))
  | n + 1, b, d =>
    orFail d.allocs (readMapKey b) fun (field, b1) =>
    if field = nodesName then
      orFail d.allocs (readMapHeader b1) fun (m, b2) =>
      if guard && decide (m > b2.length) then (d.allocs, .err) else   -- hand edit of 9b8de94: uint64(zb0002) > uint64(len(bts))
      -- z.Nodes == nil: make(map, m); otherwise the existing map is emptied and reused
      let allocs := if d.nodes.isNone then d.allocs ++ [m] else d.allocs
      orFail allocs (readEntries m b2 []) fun (es, b3) => readFields guard n b3 { nodes := some es, allocs := allocs }
    else
      orFail d.allocs (skip b1) fun b2 => readFields guard n b2 d

/-- `deadNodes.decode` on a fresh `deadNodes{}` (what `PruneBelowVersion` does) -/
def decodeWith (guard : Bool) (bs : Bytes) : Out Dec :=
  orFail [] (readMapHeader bs) fun (n, b) =>
  let r := readFields guard n b {}
  (r.1, match r.2 with | .ok (d, _) => .ok d | .err => .err | .panic => .panic)

def decode (bs : Bytes) : Out Dec := decodeWith true bs

/-- the decoder before 9b8de94 -/
def decodeOld (bs : Bytes) : Out Dec := decodeWith false bs

/-! ### deadNodes.MarshalMsg -/

def u16 (n : Nat) : Bytes := [UInt8.ofNat (n / 256), UInt8.ofNat n]
def u32 (n : Nat) : Bytes := [UInt8.ofNat (n / 16777216), UInt8.ofNat (n / 65536), UInt8.ofNat (n / 256), UInt8.ofNat n]

/-- `AppendMapHeader` -/
def mapHeader (n : Nat) : Bytes :=
  if n ≤ 15 then [0x80 ||| UInt8.ofNat n]
  else if n ≤ 65535 then 0xde :: u16 n
  else 0xdf :: u32 n

/-- `AppendString` -/
def appendString (s : Bytes) : Bytes :=
  let n := s.length
  if n ≤ 31 then (0xa0 ||| UInt8.ofNat n) :: s
  else if n ≤ 255 then 0xd9 :: UInt8.ofNat n :: s
  else if n ≤ 65535 then 0xda :: (u16 n ++ s)
  else 0xdb :: (u32 n ++ s)

def appendBool (v : Bool) : Bytes := [if v then 0xc3 else 0xc2]

/-- `MarshalMsg` of the map given as the list of its entries sorted by key (`msgp.Sort` = `sort.Strings`) -/
def encode (m : List (Bytes × Bool)) : Bytes :=
  0x81 :: 0xa5 :: (nodesName ++ mapHeader m.length ++ m.flatMap (fun e => appendString e.1 ++ appendBool e.2))

/-! ### what PruneBelowVersion does with one record -/

/-- `fromHex` = `hex.DecodeString`: odd length or a non-hex character is an error -/
def unhex : Bytes → Option Bytes
  | [] => some []
  | [_] => none
  | p :: q :: r =>
    match Verif.Codec.fromHexChar p, Verif.Codec.fromHexChar q, unhex r with
    | some a, some b, some rest => some ((a * 16 + b) :: rest)
    | _, _, _ => none

/-- the node keys a record contributes to the prune, or `none` when the record is skipped (logged, left in place, its
    nodes not deleted): the record does not decode, or one of its keys is not a hex string -/
def pruneKeys (value : Bytes) : Option (List Bytes) :=
  match (decode value).2 with
  | .ok d => (d.nodes.getD []).mapM (fun e => unhex e.1)
  | _ => none

end Verif.DeadNodes
