/-
RW-lock discipline model (C16, also usable for C20): threads run scripts of operations over a shared memory of
named locations; an operation is a little program of atomic reads and writes that may acquire and release ONE
readers-writer lock ("main") and, around single accesses, named sub-locks. The lock semantics is the plain one
(W exclusive, R shared); Go's `sync.RWMutex` additionally blocks new readers behind a waiting writer, which only
removes schedules, so every statement "for all schedules admitted here" covers the schedules Go admits.

Core Lean only (no Mathlib).
-/
namespace Verif.RW

abbrev Loc := Nat
/-- sub-lock names; `0` = no sub-lock -/
abbrev Lk := Nat
abbrev Tid := Nat

inductive Mode | R | W
  deriving DecidableEq, Repr

/-- the program of one operation: atomic accesses (each optionally under a sub-lock `s ≠ 0`), acquisition and
release of the main lock, and the returned result -/
inductive Prog (V ρ : Type) : Type where
  | ret (r : ρ)
  | rd (l : Loc) (s : Lk) (k : V → Prog V ρ)
  | wr (l : Loc) (s : Lk) (v : V) (k : Prog V ρ)
  | acq (m : Mode) (k : Prog V ρ)
  | rel (k : Prog V ρ)

variable {V ρ : Type}

def upd (mem : Loc → V) (l : Loc) (v : V) : Loc → V := fun l' => if l' = l then v else mem l'

@[simp] theorem upd_same (mem : Loc → V) (l : Loc) (v : V) : upd mem l v l = v := by simp [upd]
theorem upd_other (mem : Loc → V) (l l' : Loc) (v : V) (h : l' ≠ l) : upd mem l v l' = mem l' := by simp [upd, h]

/-- sequential semantics: run the program alone on a memory (locks are no-ops) -/
def Prog.run : Prog V ρ → (Loc → V) → (Loc → V) × ρ
  | .ret r, mem => (mem, r)
  | .rd l _ k, mem => (k (mem l)).run mem
  | .wr l _ v k, mem => k.run (upd mem l v)
  | .acq _ k, mem => k.run mem
  | .rel k, mem => k.run mem

/-- an entry of the linearization log (ghost state): which thread acquired the lock, the program it was about to
run, and the result that program yields on the memory as it was at the acquisition -/
structure LinEntry (V ρ : Type) where
  tid : Tid
  prog : Prog V ρ
  pred : ρ

structure Thread (V ρ : Type) where
  todo : List (Prog V ρ)      -- operations not yet called
  cur  : Option (Prog V ρ)    -- rest of the operation in progress (`none` = between operations)
  main : Option Mode          -- how this thread holds the main lock
  sub  : Lk                   -- the sub-lock this thread holds (0 = none)
  done : List ρ               -- results returned so far, oldest first
  pred : Option ρ             -- ghost: result predicted when the running operation acquired the lock

structure Config (V ρ : Type) where
  thr : Tid → Thread V ρ
  mem : Loc → V
  lin : List (LinEntry V ρ)   -- ghost: operations in lock-acquisition order

def Config.set (c : Config V ρ) (t : Tid) (x : Thread V ρ) : Config V ρ :=
  { c with thr := fun u => if u = t then x else c.thr u }

@[simp] theorem Config.set_same (c : Config V ρ) (t : Tid) (x : Thread V ρ) : (c.set t x).thr t = x := by
  simp [Config.set]
theorem Config.set_other (c : Config V ρ) (t u : Tid) (x : Thread V ρ) (h : u ≠ t) : (c.set t x).thr u = c.thr u := by
  simp [Config.set, h]
@[simp] theorem Config.set_mem (c : Config V ρ) (t : Tid) (x : Thread V ρ) : (c.set t x).mem = c.mem := rfl
@[simp] theorem Config.set_lin (c : Config V ρ) (t : Tid) (x : Thread V ρ) : (c.set t x).lin = c.lin := rfl

/-- RW-lock admission: W needs nobody else holding, R needs no writer holding -/
def Admit (c : Config V ρ) (t : Tid) : Mode → Prop
  | .W => ∀ u, u ≠ t → (c.thr u).main = none
  | .R => ∀ u, u ≠ t → (c.thr u).main ≠ some .W

/-- one atomic step of thread `t` -/
inductive Step : Config V ρ → Tid → Config V ρ → Prop
  | call {c : Config V ρ} {t : Tid} {p : Prog V ρ} {rest : List (Prog V ρ)} :
      (c.thr t).cur = none → (c.thr t).todo = p :: rest →
      Step c t (c.set t { c.thr t with todo := rest, cur := some p })
  | acq {c : Config V ρ} {t : Tid} {m : Mode} {k : Prog V ρ} :
      (c.thr t).cur = some (.acq m k) → (c.thr t).main = none → Admit c t m →
      Step c t { (c.set t { c.thr t with cur := some k, main := some m, pred := some (k.run c.mem).2 }) with
                 lin := c.lin ++ [{ tid := t, prog := k, pred := (k.run c.mem).2 }] }
  | rel {c : Config V ρ} {t : Tid} {k : Prog V ρ} :
      (c.thr t).cur = some (.rel k) →
      Step c t (c.set t { c.thr t with cur := some k, main := none })
  | subAcq {c : Config V ρ} {t : Tid} {p : Prog V ρ} {s : Lk} :
      (c.thr t).cur = some p → (∃ l k, p = .rd l s k) ∨ (∃ l v k, p = .wr l s v k) → s ≠ 0 → (c.thr t).sub = 0 →
      (∀ u, u ≠ t → (c.thr u).sub ≠ s) →
      Step c t (c.set t { c.thr t with sub := s })
  | rd {c : Config V ρ} {t : Tid} {l : Loc} {s : Lk} {k : V → Prog V ρ} :
      (c.thr t).cur = some (.rd l s k) → (c.thr t).sub = s →
      Step c t (c.set t { c.thr t with cur := some (k (c.mem l)), sub := 0 })
  | wr {c : Config V ρ} {t : Tid} {l : Loc} {s : Lk} {v : V} {k : Prog V ρ} :
      (c.thr t).cur = some (.wr l s v k) → (c.thr t).sub = s →
      Step c t { (c.set t { c.thr t with cur := some k, sub := 0 }) with mem := upd c.mem l v }
  | ret {c : Config V ρ} {t : Tid} {r : ρ} :
      (c.thr t).cur = some (.ret r) →
      Step c t (c.set t { c.thr t with cur := none, done := (c.thr t).done ++ [r], pred := none })

/-- an execution: a schedule (list of thread ids) every step of which is enabled -/
inductive Exec : Config V ρ → List Tid → Config V ρ → Prop
  | nil {c : Config V ρ} : Exec c [] c
  | cons {c c' c'' : Config V ρ} {t : Tid} {s : List Tid} : Step c t c' → Exec c' s c'' → Exec c (t :: s) c''

def init (scripts : Tid → List (Prog V ρ)) (mem0 : Loc → V) : Config V ρ :=
  { thr := fun t => { todo := scripts t, cur := none, main := none, sub := 0, done := [], pred := none },
    mem := mem0, lin := [] }

/-- the configurations reachable under some admitted schedule -/
def Reachable (scripts : Tid → List (Prog V ρ)) (mem0 : Loc → V) (c : Config V ρ) : Prop :=
  ∃ s, Exec (init scripts mem0) s c

/-! ### accesses and conflicts -/

/-- an access with the lock context it is performed in -/
structure FAcc where
  loc : Loc
  write : Bool
  sub : Lk
  held : Option Mode
  deriving DecidableEq, Repr

/-- thread `t` is about to perform the memory access `a` (its sub-lock, if any, already taken) -/
def AtAccess (c : Config V ρ) (t : Tid) (a : FAcc) : Prop :=
  (∃ k, (c.thr t).cur = some (.rd a.loc a.sub k) ∧ a.write = false ∧ (c.thr t).sub = a.sub ∧ a.held = (c.thr t).main) ∨
  (∃ v k, (c.thr t).cur = some (.wr a.loc a.sub v k) ∧ a.write = true ∧ (c.thr t).sub = a.sub ∧ a.held = (c.thr t).main)

/-- two different threads are simultaneously about to access the same location, at least one writing:
the model-level data race -/
def Race (c : Config V ρ) : Prop :=
  ∃ t u a b, t ≠ u ∧ AtAccess c t a ∧ AtAccess c u b ∧ a.loc = b.loc ∧ (a.write = true ∨ b.write = true)

/-- the program performs only accesses listed in the footprint `fp`, each in the listed lock context; it never
returns while holding the main lock and never acquires it twice -/
def Conf (fp : List FAcc) : Option Mode → Prog V ρ → Prop
  | h, .ret _ => h = none
  | h, .rd l s k => { loc := l, write := false, sub := s, held := h } ∈ fp ∧ ∀ v, Conf fp h (k v)
  | h, .wr l s _ k => { loc := l, write := true, sub := s, held := h } ∈ fp ∧ Conf fp h k
  | h, .acq m k => h = none ∧ Conf fp (some m) k
  | h, .rel k => h ≠ none ∧ Conf fp none k

/-- two accesses of the footprint exclude each other: one holds the main lock in W mode while the other holds it
at all, or both are under the same sub-lock -/
def Protected (a b : FAcc) : Prop :=
  (a.held = some .W ∧ b.held ≠ none) ∨ (b.held = some .W ∧ a.held ≠ none) ∨ (a.sub ≠ 0 ∧ a.sub = b.sub)

/-- the lockset discipline over a footprint -/
def LocksetOK (fp : List FAcc) : Prop :=
  ∀ a, a ∈ fp → ∀ b, b ∈ fp → a.loc = b.loc → (a.write = true ∨ b.write = true) → Protected a b

/-! ### shape of disciplined operations (for linearizability) -/

/-- body of a disciplined operation: accesses only, then release, then return -/
def BodyOK : Prog V ρ → Prop
  | .ret _ => False
  | .rd _ _ k => ∀ v, BodyOK (k v)
  | .wr _ _ _ k => BodyOK k
  | .acq _ _ => False
  | .rel k => ∃ r, k = .ret r

/-- every write of the program goes to a location in `bk` (bookkeeping locations) -/
def WritesOnly (bk : Loc → Prop) : Prog V ρ → Prop
  | .ret _ => True
  | .rd _ _ k => ∀ v, WritesOnly bk (k v)
  | .wr l _ _ k => bk l ∧ WritesOnly bk k
  | .acq _ k => WritesOnly bk k
  | .rel k => WritesOnly bk k

/-- the program ignores what it reads from bookkeeping locations -/
def Oblivious (bk : Loc → Prop) : Prog V ρ → Prop
  | .ret _ => True
  | .rd l _ k => (bk l → ∀ v v', k v = k v') ∧ ∀ v, Oblivious bk (k v)
  | .wr _ _ _ k => Oblivious bk k
  | .acq _ k => Oblivious bk k
  | .rel k => Oblivious bk k

/-- a disciplined operation: acquire in mode `m`, a body, release, return; in R mode it writes bookkeeping only -/
def OpOK (bk : Loc → Prop) (p : Prog V ρ) : Prop :=
  ∃ m k, p = .acq m k ∧ BodyOK k ∧ (m = .R → WritesOnly bk k) ∧ Oblivious bk k

/-- memories that agree outside the bookkeeping locations -/
def AgreeMain (bk : Loc → Prop) (m m' : Loc → V) : Prop := ∀ l, ¬ bk l → m l = m' l

/-- run the logged operations one after the other, in log order -/
def seqRun : List (LinEntry V ρ) → (Loc → V) → (Loc → V) × List ρ
  | [], mem => (mem, [])
  | e :: es, mem =>
      let r := e.prog.run mem
      let rest := seqRun es r.1
      (rest.1, r.2 :: rest.2)

end Verif.RW
