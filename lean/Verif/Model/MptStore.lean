/-
Store layer of the state trie (`core/util`): the node events emitted by insert/delete, the change collector,
the layered node store, merge of a child trie, save, dead-node records and pruning.  Core Lean only.

Go counterparts (after the `fix:` commits):

  insertE / deleteE        the `insertNode(old,new)` / `deleteNode(n)` calls made by `Insert` / `Delete`, in call order
                           (merkle_patricia_trie.go: insertAtNode, insertAfterPathTraversal, deleteAtNode,
                           deleteAfterPathTraversal, liftOnlyChild)
  encode                   `Node.Encode` (mpt_node.go): type byte, version LE64, origin LE64, then the hash input
  Collector                `ChangeCollector` (mpt_node_change.go): AddChange, DeleteChange, GetChanges, GetDeletes
  Level                    `LevelNodeDB` with PropagateDeletes = false (mpt_nodedb.go): current, DeletedNodes; prev is
                           the store of the parent trie (or the persistent store)
  Trie.insertNode/deleteNode   `insertNode` / `deleteNode`
  mergeMPTChanges/mergeChanges `MergeMPTChanges` / `mergeChanges` with their root guards
  saveStream               `SaveChanges(ndb, includeDeletes=false)` = ONE atomic batch (`MultiPutNode`) followed by
                           `RecordDeadNodes` = one put into the dead-node column family
  pruneStream              `PNodeDB.PruneBelowVersion`: batched `MultiDeleteNode`s then one batch dropping the records

A node is referred to by its position and the subtree rooted there (`Ref`); its store key is `key H` of
`Verif.Model.MptEnc`.
-/
import Verif.Model.MptEnc
namespace Verif.MptStore
open Verif.Mpt

/-! ### finite maps as association lists (first match wins; `put` removes older entries) -/

abbrev Map (κ ν : Type) := List (κ × ν)

namespace Map
variable {κ ν : Type} [DecidableEq κ]

def get : Map κ ν → κ → Option ν
  | [], _ => none
  | (k', v) :: r, k => if k' = k then some v else get r k

def del (m : Map κ ν) (k : κ) : Map κ ν := m.filter (fun e => e.1 ≠ k)

def put (m : Map κ ν) (k : κ) (v : ν) : Map κ ν := (k, v) :: del m k

def has (m : Map κ ν) (k : κ) : Bool := (get m k).isSome

def keys (m : Map κ ν) : List κ := m.map (·.1)

def putAll (m : Map κ ν) (es : List (κ × ν)) : Map κ ν := es.foldl (fun a e => put a e.1 e.2) m

def delAll (m : Map κ ν) (ks : List κ) : Map κ ν := ks.foldl del m

end Map

/-! ### node references and the stored encoding -/

structure Ref where
  pos : List Nib
  t : Node

def origin : Node → Nat
  | .empty => 0
  | .leaf o _ _ => o
  | .full o _ _ => o
  | .ext o _ _ => o

/-- `GetSerializationPrefix`: NodeTypeLeafNode = 2, NodeTypeFullNode = 4, NodeTypeExtensionNode = 8 -/
def typeByte : Node → UInt8
  | .empty => 0
  | .leaf .. => 2
  | .full .. => 4
  | .ext .. => 8

/-- the `encode(buf)` part shared by `GetHashBytes` and `Encode` -/
def body (H : Bytes → Bytes) : Node → List Nib → Bytes
  | .empty, _ => []
  | .leaf _ lp lv, pre => pre.map nibChar ++ [sep] ++ lp.map nibChar ++ [sep] ++ lv
  | .full _ ch val, pre =>
    (List.finRange 16).flatMap (fun i =>
        (if (ch i).isEmpty then [] else hexBytes (key H (ch i) (pre ++ [i]))) ++ [sep])
      ++ (match val with | some b => b | none => [])
  | .ext _ ep c, pre => ep.map nibChar ++ [sep] ++ key H c (pre ++ ep)

/-- `Encode`: type byte, version, origin (both little endian; `SetOrigin` sets both), body -/
def encode (H : Bytes → Bytes) (n : Node) (pre : List Nib) : Bytes :=
  [typeByte n] ++ le64 (origin n) ++ le64 (origin n) ++ body H n pre

def Ref.key (H : Bytes → Bytes) (r : Ref) : Bytes := Verif.Mpt.key H r.t r.pos
def Ref.encode (H : Bytes → Bytes) (r : Ref) : Bytes := Verif.MptStore.encode H r.t r.pos

/-- all nodes of a tree with their positions, pre-order -/
def refs : Node → List Nib → List Ref
  | .empty, _ => []
  | .leaf o lp lv, pre => [⟨pre, .leaf o lp lv⟩]
  | .full o ch val, pre => ⟨pre, .full o ch val⟩ :: (List.finRange 16).flatMap (fun i => refs (ch i) (pre ++ [i]))
  | .ext o ep c, pre => ⟨pre, .ext o ep c⟩ :: refs c (pre ++ ep)

/-! ### events: the `insertNode` / `deleteNode` calls of one operation -/

inductive Event where
  | put (old : Option Ref) (new : Ref)   -- insertNode(old, new)
  | del (old : Ref)                      -- deleteNode(old)

/-- events of replacing the node `old` at `pre` by a branch `n` reached through the shared prefix `c`:
    no shared prefix: `insertNode(node, cnode)`; else `insertNode(nil, cnode)` then `insertExtension(node, c, ckey)` -/
def wrapE (v : Nat) (old : Ref) (pre c : List Nib) (n : Node) : List Event :=
  match c with
  | [] => [.put (some old) ⟨pre, n⟩]
  | _ :: _ => [.put none ⟨pre ++ c, n⟩, .put (some old) ⟨pre, .ext v c n⟩]

/-- `insertExtension(nil, er, NodeKey)` for the remainder of a split extension (nothing if it is empty) -/
def extRestE (v : Nat) (pos er : List Nib) (c : Node) : List Event :=
  match er with
  | [] => []
  | _ :: _ => [.put none ⟨pos, .ext v er c⟩]

/-- `insert` of `Verif.Model.Mpt` together with the node events in Go's call order; `pre` is the node's position -/
def insertE (v : Nat) (b : Bytes) : Node → List Nib → List Nib → Node × List Event
  | .empty, pre, p => (.leaf v p b, [.put none ⟨pre, .leaf v p b⟩])
  | .leaf o lp lv, pre, p =>
    let old : Ref := ⟨pre, .leaf o lp lv⟩
    match splitCommon p lp with
    | (_, [], []) => (.leaf v lp b, [.put (some old) ⟨pre, .leaf v lp b⟩])
    | (c, [], y :: lr) =>
      let f := Node.full v (upd emptyCh y (.leaf v lr lv)) (some b)
      (wrap v c f, .put none ⟨pre ++ c ++ [y], .leaf v lr lv⟩ :: wrapE v old pre c f)
    | (c, x :: pr, []) =>
      let f := Node.full v (upd emptyCh x (.leaf v pr b)) (some lv)
      (wrap v c f, .put none ⟨pre ++ c ++ [x], .leaf v pr b⟩ :: wrapE v old pre c f)
    | (c, x :: pr, y :: lr) =>
      let f := Node.full v (upd (upd emptyCh x (.leaf v pr b)) y (.leaf v lr lv)) none
      (wrap v c f,
        .put none ⟨pre ++ c ++ [x], .leaf v pr b⟩ :: .put none ⟨pre ++ c ++ [y], .leaf v lr lv⟩ :: wrapE v old pre c f)
  | .full o ch val, pre, [] =>
    (.full v ch (some b), [.put (some ⟨pre, .full o ch val⟩) ⟨pre, .full v ch (some b)⟩])
  | .full o ch val, pre, x :: pr =>
    let r := insertE v b (ch x) (pre ++ [x]) pr
    let n := Node.full v (upd ch x r.1) val
    (n, r.2 ++ [.put (some ⟨pre, .full o ch val⟩) ⟨pre, n⟩])
  | .ext o ep c, pre, p =>
    let old : Ref := ⟨pre, .ext o ep c⟩
    match splitCommon p ep with
    | (_, p', []) =>
      let r := insertE v b c (pre ++ ep) p'
      let n := Node.ext v ep r.1
      (n, r.2 ++ [.put (some old) ⟨pre, n⟩])
    | (cm, [], y :: er) =>
      let f := Node.full v (upd emptyCh y (extRest v er c)) (some b)
      (wrap v cm f, extRestE v (pre ++ cm ++ [y]) er c ++ wrapE v old pre cm f)
    | (cm, x :: pr, y :: er) =>
      let f := Node.full v (upd (upd emptyCh x (.leaf v pr b)) y (extRest v er c)) none
      (wrap v cm f,
        .put none ⟨pre ++ cm ++ [x], .leaf v pr b⟩ :: (extRestE v (pre ++ cm ++ [y]) er c ++ wrapE v old pre cm f))

/-- `liftOnlyChild(node, tempNode, prefix)`: the only remaining child `n` at index `i` replaces `old` -/
def liftE (v : Nat) (old : Ref) (pre : List Nib) (i : Nib) (n : Node) : DRes × List Event :=
  match n with
  | .leaf o p lv => (.node (.leaf v (i :: p) lv), [.del ⟨pre ++ [i], .leaf o p lv⟩, .put (some old) ⟨pre, .leaf v (i :: p) lv⟩])
  | .ext o p c => (.node (.ext v (i :: p) c), [.del ⟨pre ++ [i], .ext o p c⟩, .put (some old) ⟨pre, .ext v (i :: p) c⟩])
  | .full o ch val => (.node (.ext v [i] (.full o ch val)), [.put (some old) ⟨pre, .ext v [i] (.full o ch val)⟩])
  | .empty => (.panic, [])

def liftFirstE (v : Nat) (old : Ref) (pre : List Nib) (ch : Nib → Node) : DRes × List Event :=
  match firstCh ch with
  | some i => liftE v old pre i (ch i)
  | none => (.panic, [])

/-- `delete` of `Verif.Model.Mpt` together with the node events in Go's call order -/
def deleteE (v : Nat) : Node → List Nib → List Nib → DRes × List Event
  | .empty, _, _ => (.notPresent, [])
  | .leaf o lp lv, pre, p => if p = lp then (.removed, [.del ⟨pre, .leaf o lp lv⟩]) else (.notPresent, [])
  | .full o ch val, pre, [] =>
    match val with
    | none => (.notPresent, [])
    | some _ =>
      if countCh ch = 1 then liftFirstE v ⟨pre, .full o ch val⟩ pre ch
      else (.node (.full v ch none), [.put (some ⟨pre, .full o ch val⟩) ⟨pre, .full v ch none⟩])
  | .full o ch val, pre, x :: pr =>
    let old : Ref := ⟨pre, .full o ch val⟩
    match deleteE v (ch x) (pre ++ [x]) pr with
    | (.notPresent, _) => (.notPresent, [])
    | (.panic, _) => (.panic, [])
    | (.node c', es) => (.node (.full v (upd ch x c') val), es ++ [.put (some old) ⟨pre, .full v (upd ch x c') val⟩])
    | (.removed, es) =>
      if countCh ch = 1 then
        match val with
        | some bv => (.node (.leaf v [] bv), es ++ [.put (some old) ⟨pre, .leaf v [] bv⟩])
        | none => (.removed, es)
      else if countCh ch = 2 ∧ val.isNone then
        let r := liftFirstE v old pre (upd ch x .empty)
        (r.1, es ++ r.2)
      else (.node (.full v (upd ch x .empty) val), es ++ [.put (some old) ⟨pre, .full v (upd ch x .empty) val⟩])
  | .ext o ep c, pre, p =>
    let old : Ref := ⟨pre, .ext o ep c⟩
    match splitCommon p ep with
    | (_, p', []) =>
      match deleteE v c (pre ++ ep) p' with
      | (.notPresent, _) => (.notPresent, [])
      | (.panic, _) => (.panic, [])
      | (.removed, _) => (.panic, [])
      | (.node (.leaf o2 lp lv), es) =>
        (.node (.leaf v (ep ++ lp) lv), es ++ [.del ⟨pre ++ ep, .leaf o2 lp lv⟩, .put (some old) ⟨pre, .leaf v (ep ++ lp) lv⟩])
      | (.node (.ext o2 p2 c2), es) =>
        (.node (.ext v (ep ++ p2) c2), es ++ [.del ⟨pre ++ ep, .ext o2 p2 c2⟩, .put (some old) ⟨pre, .ext v (ep ++ p2) c2⟩])
      | (.node (.full o2 ch val), es) =>
        (.node (.ext v ep (.full o2 ch val)), es ++ [.put (some old) ⟨pre, .ext v ep (.full o2 ch val)⟩])
      | (.node .empty, _) => (.panic, [])
    | (_, _, _ :: _) => (.notPresent, [])

/-! ### the change collector (`mpt_node_change.go`), generic in the node type `N` with key function `k` -/

structure Change (N : Type) where
  old : Option N
  new : N

structure Collector (κ N : Type) where
  startRoot : κ
  changes : Map κ (Change N) := []
  deletes : Map κ N := []

namespace Collector
variable {κ N : Type} [DecidableEq κ]

/-- `AddChange(oldNode, newNode)` -/
def addChange (k : N → κ) (cc : Collector κ N) (old : Option N) (new : N) : Collector κ N :=
  let nh := k new
  let dl := Map.del cc.deletes nh
  match old with
  | none => { cc with deletes := dl, changes := Map.put cc.changes nh ⟨none, new⟩ }
  | some o =>
    let oh := k o
    match Map.get cc.changes oh with
    | some prev =>
      let ch := Map.del cc.changes oh
      match prev.old with
      | some po =>
        if k new = k po then { cc with deletes := dl, changes := ch }
        else { cc with deletes := dl, changes := Map.put ch nh ⟨some po, new⟩ }
      | none => { cc with deletes := dl, changes := Map.put ch nh ⟨none, new⟩ }
    | none => { cc with deletes := Map.put dl oh o, changes := Map.put cc.changes nh ⟨some o, new⟩ }

/-- `DeleteChange(oldNode)` -/
def deleteChange (k : N → κ) (cc : Collector κ N) (o : N) : Collector κ N :=
  match Map.get cc.changes (k o) with
  | some _ => { cc with changes := Map.del cc.changes (k o) }
  | none => { cc with deletes := Map.put cc.deletes (k o) o }

/-- `GetChanges` / `GetDeletes` (Go returns them in map order, i.e. as sets) -/
def getChanges (cc : Collector κ N) : List (Change N) := cc.changes.map (·.2)
def getDeletes (cc : Collector κ N) : List N := cc.deletes.map (·.2)

end Collector

/-! ### stores -/

abbrev Store := Map Bytes Bytes

/-- `LevelNodeDB` with `PropagateDeletes = false`; `prev` is given by the context (parent trie / persistent store) -/
structure Level where
  current : Store := []
  deleted : List Bytes := []   -- `DeletedNodes`

namespace Level

/-- `putNode`: always into `current` -/
def put (l : Level) (k v : Bytes) : Level := { l with current := Map.put l.current k v }

/-- `deleteNode`: from `current` if it is there, else remember the key in `DeletedNodes` (prev is never touched) -/
def delete (l : Level) (k : Bytes) : Level :=
  if Map.has l.current k then { l with current := Map.del l.current k }
  else if l.deleted.contains k then l else { l with deleted := k :: l.deleted }

end Level

/-- dead-node records: version ↦ keys -/
abbrev DeadRecs := Map Nat (List Bytes)

/-- `PNodeDB`: default column family (nodes) and the dead-node column family -/
structure PStore where
  nodes : Store := []
  dead : DeadRecs := []

/-- one atomic durable write of the persistent store -/
inductive Write where
  | putNodes (es : List (Bytes × Bytes))   -- `MultiPutNode` batch
  | putRec (version : Nat) (ks : List Bytes)   -- `RecordDeadNodes`
  | delNodes (ks : List Bytes)             -- `MultiDeleteNode` batch
  | delRecs (vs : List Nat)                -- `multiDeleteDeadNodes` batch

def PStore.apply (s : PStore) : Write → PStore
  | .putNodes es => { s with nodes := Map.putAll s.nodes es }
  | .putRec v ks => { s with dead := Map.put s.dead v ks }
  | .delNodes ks => { s with nodes := Map.delAll s.nodes ks }
  | .delRecs vs => { s with dead := Map.delAll s.dead vs }

def PStore.applyAll (s : PStore) (ws : List Write) : PStore := ws.foldl PStore.apply s

/-! ### a trie over a layered store -/

structure Trie where
  root : Bytes          -- `mpt.root` ([] = nil)
  tree : Node           -- the content the root stands for
  version : Nat
  db : Level := {}
  cc : Collector Bytes Ref

def Trie.open (root : Bytes) (tree : Node) (version : Nat) : Trie :=
  { root := root, tree := tree, version := version, cc := { startRoot := root } }

/-- `insertNode(oldNode, newNode)` -/
def Trie.insertNode (H : Bytes → Bytes) (t : Trie) (old : Option Ref) (new : Ref) : Trie :=
  let ck := new.key H
  let db1 := t.db.put ck (new.encode H)
  match old with
  | none => { t with db := db1, cc := t.cc.addChange (Ref.key H) none new }
  | some o =>
    if o.key H = ck then { t with db := db1 }
    else { t with db := db1.delete (o.key H), cc := t.cc.addChange (Ref.key H) (some o) new }

/-- `deleteNode(node)` -/
def Trie.deleteNode (H : Bytes → Bytes) (t : Trie) (o : Ref) : Trie :=
  { t with cc := t.cc.deleteChange (Ref.key H) o, db := t.db.delete (o.key H) }

def Trie.applyEvent (H : Bytes → Bytes) (t : Trie) : Event → Trie
  | .put old new => t.insertNode H old new
  | .del old => t.deleteNode H old

def Trie.applyEvents (H : Bytes → Bytes) (t : Trie) (es : List Event) : Trie := es.foldl (Trie.applyEvent H) t

/-- `Insert` of a non-empty value of admissible size -/
def Trie.insert (H : Bytes → Bytes) (t : Trie) (p : List Nib) (b : Bytes) : Trie × List Event :=
  let r := insertE t.version b t.tree [] p
  let t' := t.applyEvents H r.2
  ({ t' with tree := r.1, root := Verif.Mpt.root H r.1 }, r.2)

/-- `Delete`; on an error nothing changes -/
def Trie.delete (H : Bytes → Bytes) (t : Trie) (p : List Nib) : Trie × Outcome × List Event :=
  match deleteE t.version t.tree [] p with
  | (.notPresent, _) => (t, .notPresent, [])
  | (.panic, _) => (t, .panic, [])
  | (.removed, es) => ({ t.applyEvents H es with tree := .empty, root := [] }, .ok, es)
  | (.node n, es) => ({ t.applyEvents H es with tree := n, root := Verif.Mpt.root H n }, .ok, es)

inductive MergeRes where
  | ok (p : Trie)
  | stale            -- "optimistic lock failure"; the parent is not touched

/-! `orderChanges`: the order in which `mergeChanges` replays the child's changes — a change that replaces a node of
    key K is applied before a change that (re)creates a node of key K (Kahn-style passes with a counter per key;
    if a whole pass is blocked the rest is applied as given). -/

def replCount (m : Map Bytes Nat) (k : Bytes) : Nat := (Map.get m k).getD 0

/-- one pass over the pending changes: (applied in this pass, still blocked, counters) -/
def orderPass (H : Bytes → Bytes) : List (Change Ref) → Map Bytes Nat → List (Change Ref) × List (Change Ref) × Map Bytes Nat
  | [], m => ([], [], m)
  | c :: cs, m =>
    if replCount m (c.new.key H) > 0 then
      let r := orderPass H cs m
      (r.1, c :: r.2.1, r.2.2)
    else
      let m' := match c.old with
        | some o => Map.put m (o.key H) (replCount m (o.key H) - 1)
        | none => m
      let r := orderPass H cs m'
      (c :: r.1, r.2.1, r.2.2)

def orderLoop (H : Bytes → Bytes) : Nat → List (Change Ref) → Map Bytes Nat → List (Change Ref)
  | 0, pending, _ => pending
  | fuel + 1, pending, m =>
    if pending.isEmpty then []
    else
      let r := orderPass H pending m
      if r.2.1.length = pending.length then r.1 ++ r.2.1
      else r.1 ++ orderLoop H fuel r.2.1 r.2.2

def orderChanges (H : Bytes → Bytes) (changes : List (Change Ref)) : List (Change Ref) :=
  let counts := changes.foldl (fun m c =>
    match c.old with
    | some o => Map.put m (o.key H) (replCount m (o.key H) + 1)
    | none => m) ([] : Map Bytes Nat)
  orderLoop H (changes.length + 1) changes counts

/-- `mergeChanges(newRoot, changes, deletes, startRoot)`; `newTree` is the content `newRoot` stands for -/
def mergeChanges (H : Bytes → Bytes) (p : Trie) (newRoot : Bytes) (newTree : Node) (changes : List (Change Ref))
    (deletes : List Ref) (startRoot : Bytes) : MergeRes :=
  if p.root = newRoot then .ok p
  else if p.root ≠ startRoot then .stale
  else
    let p1 := (orderChanges H changes).foldl (fun t c => t.insertNode H c.old c.new) p
    let p2 := deletes.foldl (Trie.deleteNode H) p1
    .ok { p2 with root := newRoot, tree := newTree }

/-- `MergeMPTChanges(mpt2)` for a direct child over a `LevelNodeDB` of the same version. Go replays the child's
    changes in the iteration order of a map, i.e. in an unspecified order: `changes` is that order (a permutation of
    `c.cc.getChanges`). -/
def mergeMPTChangesOrd (H : Bytes → Bytes) (p c : Trie) (changes : List (Change Ref)) : MergeRes :=
  if p.root = c.root then .ok p
  else mergeChanges H p c.root c.tree changes c.cc.getDeletes c.cc.startRoot

def mergeMPTChanges (H : Bytes → Bytes) (p c : Trie) : MergeRes := mergeMPTChangesOrd H p c c.cc.getChanges

/-- the write stream of `SaveChanges(pndb, false)` followed by `RecordDeadNodes(GetDeletes(), version)` -/
def saveStream (H : Bytes → Bytes) (t : Trie) : List Write :=
  [ .putNodes (t.cc.getChanges.map (fun c => (c.new.key H, c.new.encode H))),
    .putRec t.version (t.cc.getDeletes.map (Ref.key H)) ]

/-- `PruneBelowVersion(version)`; `version` is the int64 argument clamped at 0 (the code returns at once, without
    any write, for `version <= 0`).  Otherwise: the records below `version` in ascending order; their keys are deleted
    in batches closed as soon as `maxN` keys are gathered, the rest in a last batch; then one batch drops the records. -/
def pruneBatches (maxN : Nat) : List (Nat × List Bytes) → List Bytes → List Write
  | [], acc => if acc.isEmpty then [] else [.delNodes acc]
  | (_, ks) :: r, acc =>
    let acc' := acc ++ ks
    if acc'.length ≥ maxN then .delNodes acc' :: pruneBatches maxN r [] else pruneBatches maxN r acc'

def insertSorted (e : Nat × List Bytes) : List (Nat × List Bytes) → List (Nat × List Bytes)
  | [] => [e]
  | x :: r => if e.1 ≤ x.1 then e :: x :: r else x :: insertSorted e r

def recordsBelow (d : DeadRecs) (version : Nat) : List (Nat × List Bytes) :=
  (d.filter (fun e => e.1 < version)).foldr insertSorted []

def pruneStream (maxN : Nat) (s : PStore) (version : Nat) : List Write :=
  if version = 0 then []
  else
    let recs := recordsBelow s.dead version
    pruneBatches maxN recs [] ++ [.delRecs (recs.map (·.1))]

/-! ### resolvability: every node of a tree is stored under its key with its encoding -/

def Resolves (H : Bytes → Bytes) (get : Bytes → Option Bytes) (t : Node) (pre : List Nib) : Prop :=
  ∀ r ∈ refs t pre, get (r.key H) = some (r.encode H)

def resolvesB (H : Bytes → Bytes) (get : Bytes → Option Bytes) (t : Node) (pre : List Nib) : Bool :=
  (refs t pre).all (fun r => get (r.key H) == some (r.encode H))

/-! ### rounds that are executed and saved more than once at the same version (competing blocks)

Every execution of a round ends with `SaveChanges` + `RecordDeadNodes(deletes, version)`; the executions of one round
share the version, the chain continues from the LAST one, the earlier ones are abandoned. -/

/-- `RecordDeadNodes` as the code does it: the record of the version is overwritten (`PutCF`) -/
def recOverwrite (d : DeadRecs) (v : Nat) (ks : List Bytes) : DeadRecs := Map.put d v ks

/-- a wrong policy: nothing is written when the new dead set is empty (the record of an earlier execution survives) -/
def recSkipEmpty (d : DeadRecs) (v : Nat) (ks : List Bytes) : DeadRecs := if ks.isEmpty then d else Map.put d v ks

/-- a wrong policy: the new dead set is merged into the record of the version -/
def recMerge (d : DeadRecs) (v : Nat) (ks : List Bytes) : DeadRecs := Map.put d v ((Map.get d v).getD [] ++ ks)

/-- the record map after executions `0..k` of one round at version `v` (`D j` = dead keys of execution `j`) -/
def recExecs (rec : DeadRecs → Nat → List Bytes → DeadRecs) (v : Nat) (D : Nat → List Bytes) : Nat → DeadRecs → DeadRecs
  | 0, d => rec d v (D 0)
  | k + 1, d => rec (recExecs rec v D k d) v (D (k + 1))

/-- the record map after rounds `1..R`; round `i` runs at version `ver i` and is executed `n i + 1` times -/
def recRounds (rec : DeadRecs → Nat → List Bytes → DeadRecs) (ver n : Nat → Nat) (D : Nat → Nat → List Bytes) : Nat → DeadRecs
  | 0 => []
  | R + 1 => recExecs rec (ver (R + 1)) (D (R + 1)) (n (R + 1)) (recRounds rec ver n D R)

theorem apply_putRec_overwrite (s : PStore) (v : Nat) (ks : List Bytes) :
    (s.apply (.putRec v ks)).dead = recOverwrite s.dead v ks := rfl

end Verif.MptStore
