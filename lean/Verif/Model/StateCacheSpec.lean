import Verif.Model.StateCache
/-!
# Specification side of the state-cache properties: the committed block tree and the ancestor-chain answer

`Tree` = the blocks whose commit took effect, in commit order (the first commit of a hash wins), each with its parent
hash and its writes. `Chain T k b e`: walking `b, parent b, …` through committed blocks, the first block that wrote `k`
wrote entry `e` (a value or a removal). A block that is not in `T` ends the walk (no answer).
-/
namespace Verif.SC

variable {H K B V : Type} [DecidableEq H] [DecidableEq K] [DecidableEq B]

structure Blk (K B V : Type) where
  hash : B
  prev : B
  writes : List (K × Entry V)

abbrev Tree (K B V : Type) := List (Blk K B V)

def Tree.find (T : Tree K B V) (b : B) : Option (Blk K B V) := List.find? (fun x => decide (x.hash = b)) T

/-- the ancestor-chain answer, as a relation (well defined also for cyclic parent links: the least fixed point) -/
inductive Chain (T : Tree K B V) (k : K) : B → Entry V → Prop where
  | here {b : B} {x : Blk K B V} {e : Entry V} :
      T.find b = some x → alookup x.writes k = some e → Chain T k b e
  | up {b : B} {x : Blk K B V} {e : Entry V} :
      T.find b = some x → alookup x.writes k = none → Chain T k x.prev e → Chain T k b e

/-- executable version with fuel (used for concrete witnesses) -/
def oracleN (T : Tree K B V) (k : K) : Nat → B → Option (Entry V)
  | 0, _ => none
  | n + 1, b =>
    match T.find b with
    | none => none
    | some x =>
      match alookup x.writes k with
      | some e => some e
      | none => oracleN T k n x.prev

/-- `c` is `b` or one of its committed ancestors reached through committed blocks -/
inductive Anc (T : Tree K B V) : B → B → Prop where
  | refl (b : B) : Anc T b b
  | step {b c : B} {x : Blk K B V} : T.find b = some x → Anc T x.prev c → Anc T b c

/-- commit of a block in the specification: the first commit of a hash wins -/
def Tree.commit (T : Tree K B V) (x : Blk K B V) : Tree K B V :=
  match T.find x.hash with
  | some _ => T
  | none => T ++ [x]

/-- the tree after a history prefix has been executed from system state `s` with tree `T` (ghost: derived from the
    operations only, never read by the model) -/
def Sys.treeStep (s : Sys H K B V) (T : Tree K B V) : Op H K B V → Tree K B V
  | .bcommit h =>
    match alookup s.bcs h with
    | some bc => T.commit ⟨bc.hash, bc.prev, bc.cache⟩
    | none => T
  | _ => T

/-- the committed tree after a whole history -/
def Sys.treeRun (s : Sys H K B V) (T : Tree K B V) : List (Op H K B V) → Tree K B V
  | [] => T
  | op :: ops => Sys.treeRun (s.step op).1 (s.treeStep T op) ops

/-- pending layers of a context, innermost first -/
def pendLookup : List (List (K × Entry V)) → K → Option (Entry V)
  | [], _ => none
  | m :: r, k =>
    match alookup m k with
    | some e => some e
    | none => pendLookup r k

/-- the answer the property demands for a lookup of `k` in a context with pending layers `pend` on top of block `b` -/
def Answer (T : Tree K B V) (pend : List (List (K × Entry V))) (b : B) (k : K) (e : Entry V) : Prop :=
  match pendLookup pend k with
  | some e' => e = e'
  | none => Chain T k b e

/-- the context a lookup operation addresses in state `s`: pending layers (innermost first), base block, key. A block
    cache's chain starts at the previous block while the block is being built and at the block itself once this block
    cache has been committed (`BC.base`). -/
def Sys.ctx (s : Sys H K B V) : Op H K B V → Option (List (List (K × Entry V)) × B × K)
  | .tget t k =>
    match alookup s.tcs t with
    | some tc =>
      match tc.main with
      | .block h =>
        match alookup s.bcs h with
        | some bc => some ([tc.cache, bc.cache], bc.base, k)
        | none => none
      | .query b => some ([tc.cache], b, k)
    | none => none
  | .bget h k =>
    match alookup s.bcs h with
    | some bc => some ([bc.cache], bc.base, k)
    | none => none
  | .qget b k => some ([], b, k)
  | .sget k b => some ([], b, k)
  | _ => none

/-- C06 for one operation: a hit carries exactly the demanded value; a removed key misses -/
def OpOK (s : Sys H K B V) (T : Tree K B V) (op : Op H K B V) : Prop :=
  ∀ pend b k, s.ctx op = some (pend, b, k) →
    (∀ v, (s.step op).2 = .hit v → Answer T pend b k (.val v)) ∧
    (Answer T pend b k .tomb → (s.step op).2 = .miss)

/-- C06 for every operation of a history executed from state `s` with committed tree `T` -/
def AllOK : Sys H K B V → Tree K B V → List (Op H K B V) → Prop
  | _, _, [] => True
  | s, T, op :: ops => OpOK s T op ∧ AllOK (s.step op).1 (s.treeStep T op) ops

/-- no LRU `Add` of the whole run reported an eviction -/
def NoEviction (s : Sys H K B V) (ops : List (Op H K B V)) : Prop := (s.run ops).1.sc.evictions = s.sc.evictions

/-- blocks that may receive an entry in the version map of key `k` through this operation: the block a state-level lookup
    of `k` is issued at (memo), the hash of a committed block cache that writes `k` -/
def Sys.cand (s : Sys H K B V) (k : K) : Op H K B V → List B
  | .sget k' b => if k' = k then [b] else []
  | .qget b k' => if k' = k then [b] else []
  | .bget h k' =>
    if k' = k then
      match alookup s.bcs h with
      | some bc => if (alookup bc.cache k').isSome then [] else [bc.base]
      | none => []
    else []
  | .tget t k' =>
    if k' = k then
      match alookup s.tcs t with
      | some tc =>
        if (alookup tc.cache k').isSome then [] else
        match tc.main with
        | .block h =>
          match alookup s.bcs h with
          | some bc => if (alookup bc.cache k').isSome then [] else [bc.base]
          | none => []
        | .query b => [b]
      | none => []
    else []
  | .bcommit h =>
    match alookup s.bcs h with
    | some bc => if (alookup bc.cache k).isSome then [bc.hash] else []
    | none => []
  | _ => []

/-- the hash a commit operation publishes a link for -/
def Sys.commitCand (s : Sys H K B V) : Op H K B V → List B
  | .bcommit h =>
    match alookup s.bcs h with
    | some bc => [bc.hash]
    | none => []
  | _ => []

def Sys.cands (s : Sys H K B V) (k : K) : List (Op H K B V) → List B
  | [] => []
  | op :: ops => s.cand k op ++ Sys.cands (s.step op).1 k ops

def Sys.commitCands (s : Sys H K B V) : List (Op H K B V) → List B
  | [] => []
  | op :: ops => s.commitCand op ++ Sys.commitCands (s.step op).1 ops

end Verif.SC
