import Verif.Model.GoSem
import Verif.Model.F64
import Verif.Model.Dec
/-! # Hand-written specification of core/currency (C18), independent of the Go source and of its translation.

One canonical definition per exported function, written the way the property states it: compute the exact result
in ℕ/ℤ (no wrap-around); return it when it is representable, otherwise the function's error. Floats are the
value-level binary64 model (`Verif/Model/F64.lean`), decimals `Verif/Model/Dec.lean`.

The error VALUES are a parameter (`Errs ε`): `Props/C18` instantiates them with the generated `ErrKind` constructors
for the bridge theorems `Gen.f = Spec.f`, the model driver with the error messages for the differential run against
the compiled code. Nothing here depends on `Verif/Gen`, so the specification — and the comparison of the
implementation against it — is available even when the translator rejects the source. -/
namespace Verif.Spec.Currency
open Verif.GoSem Verif.F64 Verif.Dec

/-- the error values the functions return -/
structure Errs (ε : Type) where
  negativeValue : ε          -- ErrNegativeValue
  tooManyDecimals : ε        -- ErrTooManyDecimals
  tooLarge : ε               -- ErrTooLarge
  multOverflow : ε           -- ErrUint64MultOverflow
  addOverflow : ε            -- ErrUint64AddOverflow
  minusOverflow : ε          -- ErrUint64MinusOverflow
  overflowsInt64 : ε         -- ErrUint64OverflowsInt64
  int64Underflows : ε        -- ErrInt64UnderflowsUint64
  float64Underflows : ε      -- ErrFloat64UnderflowsUint64
  notANumber : ε             -- ErrNotANumber
  divideByZero : ε           -- ErrDivideByZero

/-- the messages of the error values (what the compiled code's `err.Error()` prints) -/
def msgErrs : Errs String where
  negativeValue := "negative coin value"
  tooManyDecimals := "too many decimal places"
  tooLarge := "value is too large"
  multOverflow := "uint64 multiplication overflow"
  addOverflow := "uint64 addition overflow"
  minusOverflow := "uint64 minus overflow"
  overflowsInt64 := "uint64 overflows int64"
  int64Underflows := "int64 underflows uint64"
  float64Underflows := "float64 underflows uint64"
  notANumber := "value is not a number"
  divideByZero := "divide by zero"

variable {ε : Type} (E : Errs ε)

/-! ## integer helpers -/

def addCoin (a b : U64) : Res ε U64 :=
  if a.toNat + b.toNat < 2 ^ 64 then .ok (BitVec.ofNat 64 (a.toNat + b.toNat)) else .err E.addOverflow

def multCoin (a b : U64) : Res ε U64 :=
  if a.toNat * b.toNat < 2 ^ 64 then .ok (BitVec.ofNat 64 (a.toNat * b.toNat)) else .err E.multOverflow

def minusCoin (a b : U64) : Res ε U64 :=
  if b.toNat ≤ a.toNat then .ok (BitVec.ofNat 64 (a.toNat - b.toNat)) else .err E.minusOverflow

/-- `int64 → Coin`: the signed value when it is not negative -/
def int64ToCoin (a : I64) : Res ε U64 :=
  if a.toInt < 0 then .err E.int64Underflows else .ok (BitVec.ofNat 64 a.toInt.toNat)

/-- `Coin → int64`: the amount when it is below `2^63` -/
def coinInt64 (c : U64) : Res ε I64 :=
  if c.toNat < 2 ^ 63 then .ok (BitVec.ofInt 64 c.toNat) else .err E.overflowsInt64

def addInt64 (c : U64) (a : I64) : Res ε U64 :=
  if a.toInt < 0 then .err E.int64Underflows
  else if c.toNat + a.toInt.toNat < 2 ^ 64 then .ok (BitVec.ofNat 64 (c.toNat + a.toInt.toNat))
  else .err E.addOverflow

def minusInt64 (c : U64) (a : I64) : Res ε U64 :=
  if a.toInt < 0 then .err E.int64Underflows
  else if a.toInt.toNat ≤ c.toNat then .ok (BitVec.ofNat 64 (c.toNat - a.toInt.toNat))
  else .err E.minusOverflow

/-- quotient and remainder; a negative or zero number of parts is an error -/
def distributeCoin (c : U64) (a : I64) : Res ε (U64 × U64) :=
  if a.toInt < 0 then .err E.int64Underflows
  else if a.toInt = 0 then .err E.divideByZero
  else .ok (BitVec.ofNat 64 (c.toNat / a.toInt.toNat), BitVec.ofNat 64 (c.toNat % a.toInt.toNat))

def min (a b : U64) : Res ε U64 := .ok (BitVec.ofNat 64 (Min.min a.toNat b.toNat))

/-! ## float helpers -/

/-- the float truncated toward zero when `0 ≤ x < 2^64` (`-0` counts as 0); an error for NaN, ±∞, every negative
    non-zero value and every value `≥ 2^64` -/
def float64ToCoin (x : F64) : Res ε U64 :=
  match x.val with
  | .nan => .err E.notANumber
  | .inf true => .err E.float64Underflows
  | .inf false => .err E.tooLarge
  | .fin s m e =>
    if s = true ∧ m ≠ 0 then .err E.float64Underflows
    else if 2 ^ 64 ≤ truncNat m e then .err E.tooLarge
    else .ok (BitVec.ofNat 64 (truncNat m e))

/-- `+0` as a float -/
abbrev fzero : F64 := F64.mk 0x0000000000000000#64

/-- a negative multiplier is an error; otherwise the IEEE product `float64(c) · a` converted as above -/
def multFloat64 (c : U64) (a : F64) : Res ε U64 :=
  if F64.lt a fzero = true then .err E.negativeValue else float64ToCoin E (F64.mul (F64.ofUInt64 c) a)

/-- the nearest binary64 (ties to even); never an error -/
def coinFloat64 (c : U64) : Res ε F64 := .ok (roundNE false c.toNat 1)

/-! ## ZCN amounts -/

def maxInt64 : Int := 9223372036854775807

/-- `d · 10^10` for a decimal with at most ten decimal places -/
def amount (d : Dec) : Int := d.coeff * 10 ^ (d.exp + 10).toNat

/-- ParseZCN as a function of the decimal the library produced for the float -/
def parseDec (d : Dec) : Res ε U64 :=
  if d.coeff < 0 then .err E.negativeValue
  else if d.exp < -10 then .err E.tooManyDecimals
  else if maxInt64 < amount d then .err E.tooLarge
  else .ok (BitVec.ofNat 64 (amount d).toNat)

/-- NaN and ±∞ are errors (never a panic); a finite amount is parsed through its shortest decimal `d` -/
def parseZCN (x : F64) (d : Dec) : Res ε U64 :=
  match x.val with
  | .nan => .err E.notANumber
  | .inf true => .err E.negativeValue
  | .inf false => .err E.tooLarge
  | .fin _ _ _ => parseDec E d

/-- `amount / 10^10` rounded to the nearest binary64, for amounts up to MaxInt64 -/
def toZCN (c : U64) : Res ε F64 :=
  if 2 ^ 63 ≤ c.toNat then .err E.tooLarge else .ok (roundNE false c.toNat (10 ^ 10))

end Verif.Spec.Currency
