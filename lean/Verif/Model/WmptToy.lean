/-
A toy 32-byte hash for `decide`-style witnesses: a polynomial hash over the input bytes, output as 32 big-endian
bytes. It is of course not collision resistant; each witness checks explicitly (by `decide`) that the inputs hashed in
it are pairwise collision-free, which is all a witness needs.
-/
import Verif.Model.WmptSpec
namespace Verif.Wmpt

def toyNat (b : Bytes) : Nat := b.foldl (fun acc x => (acc * 257 + x.toNat + 1) % 115792089237316195423570985008687907853269984665640564039457584007913129639747) 7

def be256 (n : Nat) : Bytes := (List.range 32).map (fun i => UInt8.ofNat ((n >>> (8 * (31 - i))) % 256))

def toyH (b : Bytes) : Bytes := be256 (toyNat b)

/-- some two different listed inputs have the same hash -/
def CollisionIn (H : Bytes → Bytes) (S : List Bytes) : Prop := ∃ x ∈ S, ∃ y ∈ S, x ≠ y ∧ H x = H y

instance (H : Bytes → Bytes) (S : List Bytes) : Decidable (CollisionIn H S) := by
  unfold CollisionIn; infer_instance

end Verif.Wmpt
