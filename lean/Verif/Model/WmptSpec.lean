/-
Pure specification tree of the weighted trie: no flags, no cached hashes, no references into storage.
`entries` = the live (key, value, weight) list in key order, `weight`, `owner` (the weight-ordered descent of
proof.go), `ownerSpec` (the cumulative-weight interval definition of ownership over the entry list), `hash`,
and `abs`: the spec tree of an in-memory implementation node.  Core Lean only.
-/
import Verif.Model.WmptProof
namespace Verif.Wmpt

inductive PT where
  | none : PT
  | value (val : Bytes) (w : Nat) : PT
  | short (key : Bytes) (child : PT) : PT
  | branch (ch : Nib → PT) : PT

instance : Inhabited PT := ⟨.none⟩

/-- a live entry: key nibbles (as bytes), value, weight -/
abbrev Entry := Bytes × Bytes × Nat

def Entry.prepend (k : Bytes) (e : Entry) : Entry := (k ++ e.1, e.2.1, e.2.2)

namespace PT

def isNone : PT → Bool
  | .none => true
  | _ => false

/-- the live entries in key order -/
def entries : PT → List Entry
  | .none => []
  | .value v w => [([], v, w)]
  | .short k c => (entries c).map (Entry.prepend k)
  | .branch ch => allNib.flatMap (fun i => (entries (ch i)).map (Entry.prepend [nb i]))

def weight : PT → Nat
  | .none => 0
  | .value _ w => w
  | .short _ c => weight c
  | .branch ch => (allNib.map (fun i => weight (ch i))).sum

/-- first child (in index order) whose weight covers the remaining block number -/
def pick (ch : Nib → PT) : List Nib → Nat → Option (Nib × Nat)
  | [], _ => Option.none
  | i :: is, b =>
    if (ch i).isNone then pick ch is b
    else if b ≤ (ch i).weight then some (i, b)
    else pick ch is (b - (ch i).weight)

/-- the weight-ordered descent of `getBlockProof`: key nibbles and value of the leaf reached for block `b` -/
def owner : PT → Nat → Option (Bytes × Bytes)
  | .none, _ => Option.none
  | .value v _, _ => some ([], v)
  | .short k c, b =>
    if b > weight c then Option.none
    else (owner c b).map (fun r => (k ++ r.1, r.2))
  | .branch ch, b =>
    match pick ch allNib b with
    | Option.none => Option.none
    | some (i, b') => (owner (ch i) b').map (fun r => (nb i :: r.1, r.2))

end PT

/-- total weight of an entry list -/
def entriesWeight (es : List Entry) : Nat := (es.map (fun e => e.2.2)).sum

/-- ownership by cumulative weight: the first entry (in list order) whose cumulative weight reaches `b` -/
def ownerSpec : List Entry → Nat → Option (Bytes × Bytes)
  | [], _ => none
  | e :: es, b => if b ≤ e.2.2 then some (e.1, e.2.1) else ownerSpec es (b - e.2.2)

section
variable (H : Bytes → Bytes)

/-- hash of a spec tree = what `CalcHash` yields for a fully dirty in-memory trie of that shape -/
def PT.hash : PT → Bytes
  | .none => emptyHash H
  | .value v w => H (be64 w ++ v)
  | .short k c => H (k ++ PT.hash c)
  | .branch ch => H (be64 (PT.weight (.branch ch)) ++ allNib.flatMap (fun i => PT.hash (ch i)))

end

/-- spec tree of an in-memory node (no hash references) -/
def abs : WN → Option PT
  | .nil => some .none
  | .empty => some .none
  | .hashRef _ _ => none
  | .value _ v w _ => some (.value v w)
  | .short k _ c _ _ => (abs c).map (PT.short k)
  | .routing _ ch _ _ _ =>
    if allNib.all (fun i => (abs (ch i)).isSome) then
      some (.branch (fun i => (abs (ch i)).getD .none))
    else none

end Verif.Wmpt

namespace Verif.Wmpt
section
variable (H : Bytes → Bytes)

/-- the bytes `CalcHash` feeds to the hash function for a spec node -/
def PT.preimage : PT → Bytes
  | .none => []
  | .value v w => be64 w ++ v
  | .short k c => k ++ PT.hash H c
  | .branch ch => be64 (PT.weight (.branch ch)) ++ allNib.flatMap (fun i => PT.hash H (ch i))

/-- the entry of child `c` inside an honestly persisted branch (`routingNode.Serialize`) -/
def PT.childEntry : PT → Bytes
  | .none => []
  | .short k c => PT.hash H (.short k c) ++ be64 c.weight ++ PT.hash H c ++ k
  | c => PT.hash H c ++ be64 c.weight

/-- the persisted form of a spec node (`Serialize`) -/
def PT.persist : PT → PBase
  | .none => { nilNode := true }
  | .value v w => { value := some ⟨v, PT.hash H (.value v w), w⟩ }
  | .short k c => { short := some ⟨k, PT.hash H (.short k c), pad32 (PT.hash H c) ++ be64 c.weight⟩ }
  | .branch ch => { branch := some ⟨PT.hash H (.branch ch), allNib.map (fun i => PT.childEntry H (ch i))⟩ }

/-- the honest block proof: the persisted nodes on the weight-ordered descent for block `b` -/
def PT.proofPairs : PT → Nat → List PBase
  | .none, _ => []
  | .value v w, _ => [PT.persist H (.value v w)]
  | .short k c, b => PT.persist H (.short k c) :: PT.proofPairs c b
  | .branch ch, b =>
    PT.persist H (.branch ch) ::
      (match PT.pick ch allNib b with
       | Option.none => []
       | some (i, b') => PT.proofPairs (ch i) b')

/-- the hash pre-images of the nodes on the descent for block `b` -/
def PT.pathInputs : PT → Nat → List Bytes
  | .none, _ => []
  | .value v w, _ => [PT.preimage H (.value v w)]
  | .short k c, b => PT.preimage H (.short k c) :: PT.pathInputs c b
  | .branch ch, b =>
    PT.preimage H (.branch ch) ::
      (match PT.pick ch allNib b with
       | Option.none => []
       | some (i, b') => PT.pathInputs (ch i) b')

/-- the bytes `CalcHash` feeds to the hash function for a dirty implementation node -/
def WN.preimage : WN → Bytes
  | .value _ v w _ => be64 w ++ v
  | .short k _ c _ _ => if c.isNil then k else k ++ (calcHash H c).2
  | .routing _ ch w _ _ => be64 w ++ allNib.flatMap (fun i => (calcHash H (ch i)).2)
  | _ => []

/-- the hash pre-images recomputed by `verifyProof` (mirrors its recursion) -/
def verifyInputs : List PairD → Nat → List Bytes
  | .ok p :: rest, block =>
    match deserializeNode p with
    | .ok (.routing h ch w _ tc) =>
      (match pickChild ch allNib block with
       | some (i, b') =>
         (match verifyProof H rest b' with
          | .ok (c, _, _) => WN.preimage H (.routing h (upd ch i c) w true tc) :: verifyInputs rest b'
          | .err _ => [])
       | none => [])
    | .ok (.short k h _ _ tc) =>
      (match verifyProof H rest block with
       | .ok (c', _, _) => WN.preimage H (.short k h c' true tc) :: verifyInputs rest block
       | .err _ => [])
    | .ok (.value h v w _) => [WN.preimage H (.value h v w true)]
    | _ => []
  | _, _ => []

end
end Verif.Wmpt
