/-
Pure specification tree of the weighted trie: no flags, no cached hashes, no references into storage.
`entries` = the live (key, value, weight) list in key order, `weight`, `owner` (the weight-ordered descent of
proof.go), `ownerSpec` (the cumulative-weight interval definition of ownership over the entry list), `hash`,
and `abs`: the spec tree of an in-memory implementation node.  Core Lean only.
-/
import Verif.Model.WmptProof
namespace Verif.Wmpt

inductive PT where
  | none : PT
  | value (val : Bytes) (w : Nat) : PT
  | short (key : Bytes) (child : PT) : PT
  | branch (ch : Nib → PT) : PT

instance : Inhabited PT := ⟨.none⟩

/-- a live entry: key nibbles (as bytes), value, weight -/
abbrev Entry := Bytes × Bytes × Nat

def Entry.prepend (k : Bytes) (e : Entry) : Entry := (k ++ e.1, e.2.1, e.2.2)

namespace PT

def isNone : PT → Bool
  | .none => true
  | _ => false

/-- the live entries in key order -/
def entries : PT → List Entry
  | .none => []
  | .value v w => [([], v, w)]
  | .short k c => (entries c).map (Entry.prepend k)
  | .branch ch => allNib.flatMap (fun i => (entries (ch i)).map (Entry.prepend [nb i]))

def weight : PT → Nat
  | .none => 0
  | .value _ w => w
  | .short _ c => weight c
  | .branch ch => (allNib.map (fun i => weight (ch i))).sum

/-- first child (in index order) whose weight covers the remaining block number -/
def pick (ch : Nib → PT) : List Nib → Nat → Option (Nib × Nat)
  | [], _ => Option.none
  | i :: is, b =>
    if (ch i).isNone then pick ch is b
    else if b ≤ (ch i).weight then some (i, b)
    else pick ch is (b - (ch i).weight)

/-- the weight-ordered descent of `getBlockProof`: key nibbles and value of the leaf reached for block `b` -/
def owner : PT → Nat → Option (Bytes × Bytes)
  | .none, _ => Option.none
  | .value v _, _ => some ([], v)
  | .short k c, b =>
    if b > weight c then Option.none
    else (owner c b).map (fun r => (k ++ r.1, r.2))
  | .branch ch, b =>
    match pick ch allNib b with
    | Option.none => Option.none
    | some (i, b') => (owner (ch i) b').map (fun r => (nb i :: r.1, r.2))

end PT

/-- total weight of an entry list -/
def entriesWeight (es : List Entry) : Nat := (es.map (fun e => e.2.2)).sum

/-- ownership by cumulative weight: the first entry (in list order) whose cumulative weight reaches `b` -/
def ownerSpec : List Entry → Nat → Option (Bytes × Bytes)
  | [], _ => none
  | e :: es, b => if b ≤ e.2.2 then some (e.1, e.2.1) else ownerSpec es (b - e.2.2)

section
variable (H : Bytes → Bytes)

/-- hash of a spec tree = what `CalcHash` yields for a fully dirty in-memory trie of that shape -/
def PT.hash : PT → Bytes
  | .none => emptyHash H
  | .value v w => H (be64 w ++ v)
  | .short k c => H (k ++ PT.hash c)
  | .branch ch => H (be64 (PT.weight (.branch ch)) ++ allNib.flatMap (fun i => PT.hash (ch i)))

end

/-- spec tree of an in-memory node (no hash references) -/
def abs : WN → Option PT
  | .nil => some .none
  | .empty => some .none
  | .hashRef _ _ => none
  | .value _ v w _ => some (.value v w)
  | .short k _ c _ _ => (abs c).map (PT.short k)
  | .routing _ ch _ _ _ =>
    if allNib.all (fun i => (abs (ch i)).isSome) then
      some (.branch (fun i => (abs (ch i)).getD .none))
    else none

end Verif.Wmpt
