/-
Commit split in two, as in the Go API: `Commit(level)` only RETURNS the batch (the trie's memory is updated: nodes flagged
clean, collapsed, queues moved), the CALLER writes it to storage later. `WmptHistory.hstep` fuses the two; here they are
separate operations with anything in between.  Core Lean only.
-/
import Verif.Model.WmptHistory
namespace Verif.Wmpt

inductive SOp where
  | op (o : HOp)              -- anything of WmptHistory (its `.commit` is the fused commit + write)
  | commitB (lvl : Int)       -- Commit(lvl): the batch is returned and held by the caller
  | writeB                    -- the held batch is written (atomically)

structure SState where
  h : HState := {}
  pend : Option (List StoreOp) := none      -- the batch that has been returned but not written yet

section
variable (H : Bytes → Bytes)

def sstep (s : SState) : SOp → SState
  | .op o => { s with h := hstep H s.h o }
  | .commitB lvl =>
    match s.pend with
    | some _ => s                                   -- (one batch at a time)
    | none =>
      let r := commit H s.h.t lvl
      { h := { s.h with t := r.1 }, pend := some r.2 }
  | .writeB =>
    match s.pend with
    | none => s
    | some ops =>
      { h := { t := { s.h.t with store := s.h.t.store.apply ops },
               puts := s.h.puts ++ ops.filterMap (fun o => match o with | .put k v => some (k, v) | .del _ => none) },
        pend := none }

def srun (ops : List SOp) : SState := ops.foldl (sstep H) {}

end

/-- the fused history of a split one: the write of a batch is moved up to its Commit (what happened in between follows) -/
def fuse : List SOp → List HOp
  | [] => []
  | .op o :: r => o :: fuse r
  | .commitB lvl :: r => .commit lvl :: fuse r
  | .writeB :: r => fuse r

/-- the protocol under which the split is harmless: between a Commit and the write of its batch only `Root()` reads and AT
    MOST ONE `DeleteNodes` pass happen (`gcLeft` = passes still allowed, `held` = a batch is outstanding) -/
def splitOK : Bool → Nat → List SOp → Bool
  | _, _, [] => true
  | false, _, .op _ :: r => splitOK false 0 r
  | false, _, .commitB _ :: r => splitOK true 1 r
  | false, _, .writeB :: _ => false
  | true, n, .op .root :: r => splitOK true n r
  | true, n + 1, .op .gc :: r => splitOK true n r
  | true, _, .writeB :: r => splitOK false 0 r
  | true, _, _ :: _ => false

end Verif.Wmpt
