/-
The wmpt operations of Verif.Model.WmptOps / WmptProof with ONE fix reverted each, as explicit panic outcomes at the
index / slice site the fix guards (812c067: `key[pos]` / `key[0]` in markToCollect / delete on a branch below the full key
depth; 5dc7120: `key[prefixLen]` in insert when the key ends inside a short node's key; 95fe15c: hexToKeybytes on an odd
number of nibbles; 527796b: GetPath dereferencing the nil storage of a trie whose root is a reference).  Generated from the
definitions of the fixed functions by replacing exactly the guarded branch; used only for the negative witnesses of
Verif.Props.C15WmptOps.  Core Lean only.
-/
import Verif.Model.WmptProof
namespace Verif.Wmpt

section
variable (H : Bytes → Bytes)

/-- `insert(node, prefix, key, value)` -/
def insertOld (hasDb : Bool) (s : Store) : Nat → WN → List Nib → WN → IRes
  | 0, node, _, _ => { node := node, err := some .other }
  | _ + 1, node, [], value =>
    let r : Res WN := match node with
      | .hashRef h _ => resolveHash hasDb s h
      | n => .ok n
    match r with
    | .err e => { node := node, err := some e }
    | .ok n =>
      match n with
      | .value vh vv vw vd =>
        match value with
        | .value _ nv nw _ =>
          if vv = nv then { node := .value vh vv vw vd }
          else { node := .value vh nv nw true, change := (nw : Int) - vw }
        | _ => { node := node, err := some .panic }
      -- fix 5dc7120: the key ends at a branch or short node below the full key depth
      | .routing _ _ _ _ _ => { node := node, err := some .invalidKey }
      | .short _ _ _ _ _ => { node := node, err := some .invalidKey }
      | _ => { node := value, change := value.weight }
  | fuel + 1, node, k :: ks, value =>
    match node with
    | .routing h ch w _ tc =>
      let r := insertOld hasDb s fuel (ch k) ks value
      match r.err with
      | some e => { node := .routing h (upd ch k r.node) w true tc, err := some e, td := r.td }
      | none => { node := .routing h (upd ch k r.node) ((w : Int) + r.change).toNat true tc, change := r.change, td := r.td }
    | .short key h c d tc =>
      let kb := (k :: ks).map nb
      let p := commonPrefix key kb
      if p = key.length then
        let r := insertOld hasDb s fuel c ((k :: ks).drop p) value
        { node := .short key h r.node true tc, change := r.change, err := r.err, td := r.td }
      else if p = (k :: ks).length then
        -- BEFORE 5dc7120: `key[prefixLen]` with prefixLen = len(key): index out of range
        { node := .short key h c true tc, err := some .panic }
      else
        match nibOf (key.getD p 0), (k :: ks)[p]? with
        | some i1, some i2 =>
          let branch := WN.routing [] (upd (upd noCh i1 (mkShort (key.drop (p + 1)) c)) i2 (mkShort (kb.drop (p + 1)) value))
            ((WN.short key h c d tc).weight + value.weight) true false
          if p = 0 then { node := branch, change := value.weight, td := [h] }
          else { node := .short (kb.take p) [] branch true false, change := value.weight, td := [h] }
        | _, _ => { node := .short key h c true tc, err := some .panic, td := [h] }
    | .hashRef h w =>
      match resolveHash hasDb s h with
      | .err e => { node := .hashRef h w, err := some e }
      | .ok rn =>
        let r := insertOld hasDb s fuel rn (k :: ks) value
        match r.err with
        | some e => { node := .hashRef h w, err := some e, td := r.td }
        | none => r
    | .nil => { node := .short ((k :: ks).map nb) [] value true false, change := value.weight }
    | .empty => { node := .short ((k :: ks).map nb) [] value true false, change := value.weight }
    | .value vh vv vw vd => { node := .value vh vv vw vd, err := some .other }


/-- `delete(node, prefix, key)` -/
def deleteOld (hasDb : Bool) (s : Store) : Nat → WN → List Nib → DRes
  | 0, node, _ => { node := node, err := some .other }
  | fuel + 1, node, key =>
    match node with
    | .short sk h c d tc =>
      let kb := key.map nb
      let p := commonPrefix sk kb
      if p < sk.length then { node := .short sk h c d tc, err := some .notFound }
      else if p = kb.length then { node := .nil, change := (WN.short sk h c d tc).weight, td := [h, c.hashField H] }
      else
        let r := deleteOld hasDb s fuel c (key.drop sk.length)
        match r.err with
        | some e => { node := .short sk h r.node d tc, err := some e, td := r.td }
        | none =>
          match r.node with
          | .nil =>
            -- fix 9bafaec: the child was a short node itself (only in a trie imported from a crafted export) and is gone:
            -- so is this node
            { node := .nil, change := r.change, td := r.td ++ [h] }
          | .short ck _ cc _ _ => { node := .short (sk ++ ck) h cc true tc, change := r.change, td := r.td }
          | n' => { node := .short sk h n' true tc, change := r.change, td := r.td }
    | .routing h ch w d tc =>
      match key with
      | [] => { node := .routing h ch w d tc, err := some .panic }   -- BEFORE 812c067: `key[0]` of an empty key
      | k :: ks =>
        let r := deleteOld hasDb s fuel (ch k) ks
        match r.err with
        | some e => { node := .routing h (upd ch k r.node) w d tc, err := some e, td := r.td }
        | none =>
          let ch' := upd ch k r.node
          let w' := w - r.change
          if !r.node.isNil then { node := .routing h ch' w' true tc, change := r.change, td := r.td }
          else
            match soleChild ch' with
            | none => { node := .routing h ch' w' true tc, change := r.change, td := r.td }
            | some pos =>
              match resolveNode hasDb s (ch' pos) with
              | .err e => { node := .routing h ch' w' true tc, err := some e, td := r.td ++ [h] }
              | .ok cn =>
                match cn with
                | .short ck chh cc _ _ =>
                  { node := .short (nb pos :: ck) [] cc true false, change := r.change, td := r.td ++ [h, chh] }
                | _ => { node := .short [nb pos] [] (ch' pos) true false, change := r.change, td := r.td ++ [h] }
    | .value h v w d =>
      -- fix acaed54: a value above the full key depth belongs to a shorter key
      if key ≠ [] then { node := .value h v w d, err := some .notFound }
      else { node := .nil, change := w, td := [h] }
    | .nil => { node := .nil, err := some .notFound }
    | .empty => { node := .empty, err := some .notFound }
    | .hashRef h w =>
      match resolveHash hasDb s h with
      | .err e => { node := .hashRef h w, err := some e }
      | .ok rn =>
        let r := deleteOld hasDb s fuel rn key
        match r.err with
        | some e => { node := .hashRef h w, err := some e, td := r.td }
        | none => r

/-- `markToCollect(node, key, pos)` with `key` = the nibbles from `pos` on -/
def markToCollectOld (hasDb : Bool) (s : Store) : Nat → WN → List Nib → MRes
  | 0, n, _ => { node := n, err := some .other }
  | fuel + 1, n, key =>
    match n with
    | .routing h ch w d tc =>
      match key with
      | [] => { node := .routing h ch w d tc, err := some .panic }   -- BEFORE 812c067: `key[pos]` with pos = len(key)
      | k :: ks =>
        let r := markToCollectOld hasDb s fuel (ch k) ks
        match r.err with
        | some e => { node := .routing h (upd ch k r.node) w d tc, err := some e }
        | none => { node := .routing h (upd ch k r.node) w d true }
    | .short sk h c d _ =>
      let kb := key.map nb
      if kb.length < sk.length ∨ sk ≠ kb.take sk.length then { node := .short sk h c d true }
      else
        let r := markToCollectOld hasDb s fuel c (key.drop sk.length)
        { node := .short sk h r.node d true, err := r.err }
    | .hashRef h w =>
      match resolveHash hasDb s h with
      | .err e => { node := .hashRef h w, err := some e }
      | .ok rn =>
        let r := markToCollectOld hasDb s fuel rn key
        match r.err with
        | some e => { node := .hashRef h w, err := some e }
        | none => r
    | n => { node := n }


/-- `hexToKeybytes` BEFORE 95fe15c: an odd number of nibbles indexes past the end -/
def hexToKeybytesOld : Bytes → Res Bytes
  | [] => .ok []
  | [_] => .err .panic
  | a :: b :: r =>
    match hexToKeybytesOld r with
    | .ok k => .ok ((a <<< 4 ||| b) :: k)
    | .err e => .err e

/-- the first step of `GetPath` BEFORE 527796b: a reference root is loaded through `t.db.Get` directly — a nil storage
    is dereferenced -/
def getPathRootOld (t : WT) : Res WN :=
  match t.root with
  | .hashRef h _ => if !t.hasDb then .err .panic else resolveHash t.hasDb t.store h
  | n => .ok n

end

/-! ### cost of VerifyBlockProof (fix 75bbdaf) -/

/-- hash computations `CalcHash` performs on `n`: it descends into dirty nodes only -/
def hashCost : WN → Nat
  | .value _ _ _ d => if d then 1 else 0
  | .short _ _ c d _ => if d then 1 + hashCost c else 0
  | .routing _ ch _ d _ => if d then 1 + (allNib.map (fun i => hashCost (ch i))).sum else 0
  | _ => 0

/-- the dirty flag of the node itself cleared (what 75bbdaf does after a node of the proof has been hashed) -/
def setClean : WN → WN
  | .value h v w _ => .value h v w false
  | .short k h c _ tc => .short k h c false tc
  | .routing h ch w _ tc => .routing h ch w false tc
  | n => n

/-- `verifyProof` with a step counter (hash computations); `clear` = fix 75bbdaf.  Only shapes and dirty flags matter
    for the count, so the hashes themselves are not refreshed here.  `none` = the proof is rejected. -/
def verifyCost (clear : Bool) : List PairD → Nat → Option (WN × Nat)
  | [], _ => none
  | .nilPair :: _, _ => none
  | .bad :: _, _ => none
  | .ok p :: rest, block =>
    match deserializeNode p with
    | .err _ => none
    | .ok n =>
      let fin := fun (node : WN) (k : Nat) =>
        some ((if clear then setClean node else node), k + hashCost node)
      match n with
      | .routing h ch w _ tc =>
        match pickChild ch allNib block with
        | none => none
        | some (i, b') =>
          match verifyCost clear rest b' with
          | none => none
          | some (c, k) => fin (.routing h (upd ch i c) w true tc) k
      | .short k h c _ tc =>
        if block > c.weight then none
        else
          match verifyCost clear rest block with
          | none => none
          | some (c', k') => fin (.short k h c' true tc) k'
      | .value h v w _ => if block > w then none else fin (.value h v w true) 0
      | _ => none

/-- a proof of four elements: three short nodes over a value -/
def chainProof : List PairD :=
  let sh : PairD := .ok { short := some ⟨[1], [], List.replicate 32 0 ++ [0, 0, 0, 0, 0, 0, 0, 1]⟩ }
  [sh, sh, sh, .ok { value := some ⟨[7], [], 1⟩ }]


end Verif.Wmpt
