import Verif.Model.StateCache
/-!
# Small-step interleaving semantics of the state cache (C08)

One shared `SC`; any number of threads, each a `Reader` (`StateCache.Get`) or a `Committer` (`StateCache.commit`) from
`Verif.Model.StateCache`. One scheduler step runs one thread from the yield point it is parked at to its next yield
point: exactly one access to a shared LRU (trusted: each golang-lru call is atomic, it takes the cache's own mutex).
`sc.lock` serialises committers: a committer at `start` can only step when the lock is free and takes it; it releases
it when it reaches `done`. A step of a finished or blocked thread, or of a thread id that does not exist, changes
nothing. `Sched := List Nat` (thread ids).
-/
namespace Verif.SC

variable {K B V : Type} [DecidableEq K] [DecidableEq B]

inductive Thread (K B V : Type) where
  | reader (r : Reader K B V)
  | committer (c : Committer K B V)

def Thread.finished : Thread K B V → Bool
  | .reader r => match r.pc with | .done _ => true | _ => false
  | .committer c => match c.pc with | .done _ => true | _ => false

structure Conc (K B V : Type) where
  sc : SC K B V
  lock : Option Nat                 -- thread id holding `sc.lock`
  threads : List (Thread K B V)

def setNth {α : Type} : List α → Nat → α → List α
  | [], _, _ => []
  | _ :: r, 0, x => x :: r
  | a :: r, n + 1, x => a :: setNth r n x

/-- can thread `tid` take a step? -/
def Conc.enabled (c : Conc K B V) (tid : Nat) : Bool :=
  match c.threads[tid]? with
  | none => false
  | some (.reader r) => match r.pc with | .done _ => false | _ => true
  | some (.committer m) =>
    match m.pc with
    | .done _ => false
    | .start => c.lock.isNone
    | _ => true

def Conc.step (c : Conc K B V) (tid : Nat) : Conc K B V :=
  match c.threads[tid]? with
  | none => c
  | some (.reader r) =>
    let (sc', r') := r.step c.sc
    { c with sc := sc', threads := setNth c.threads tid (.reader r') }
  | some (.committer m) =>
    match m.pc with
    | .done _ => c
    | .start =>
      match c.lock with
      | some _ => c                                             -- blocked on `sc.lock`
      | none => { c with lock := some tid, threads := setNth c.threads tid (.committer { m with pc := .linkcheck }) }
    | _ =>
      let (sc', m') := m.step c.sc
      let lock' := match m'.pc with | .done _ => none | _ => c.lock   -- `defer sc.lock.Unlock()`
      { sc := sc', lock := lock', threads := setNth c.threads tid (.committer m') }

def Conc.run (c : Conc K B V) (sched : List Nat) : Conc K B V := sched.foldl Conc.step c

/-- results of the reader threads that have completed, by thread id -/
def Conc.results (c : Conc K B V) : List (Option (Option V)) :=
  c.threads.map fun
    | .reader r => (match r.pc with | .done v => some v | _ => none)
    | .committer _ => none

end Verif.SC
