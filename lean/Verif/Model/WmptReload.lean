/-
Histories that continue on a reloaded trie. `reload` = what a restarted process does: forget the in-memory trie (with
its uncommitted changes and its deletion queues) and open `New(NewHashNode(root, weight), sameStorage)` from the root
hash and weight recorded at the last `Commit` (the empty trie for weight 0, as the harness's `openTrie` does).  The
state remembers these two values, nothing else survives.  Core Lean only.
-/
import Verif.Model.WmptHistory
import Verif.Model.WmptSpecOps
namespace Verif.Wmpt

inductive ROp where
  | op (o : HOp)
  | reload

structure RState where
  h : HState := {}
  croot : Bytes := []       -- `Root()` read after the last commit
  cweight : Nat := 0        -- `Weight()` read after the last commit

section
variable (H : Bytes → Bytes)

def rstep (s : RState) : ROp → RState
  | .op (.commit lvl) =>
    let h' := hstep H s.h (.commit lvl)
    { h := h', croot := (rootHash H h'.t).2, cweight := h'.t.weight }
  | .op o => { s with h := hstep H s.h o }
  | .reload =>
    { s with h := { s.h with t := { root := if s.cweight = 0 then .empty else .hashRef s.croot s.cweight,
                                     store := s.h.t.store } } }

def rrun (ops : List ROp) : RState := ops.foldl (rstep H) {}

end

/-- the spec of a history with reloads: (live content, content of the last commit); a reload falls back to the commit -/
def rspecStep (a : PT × PT) : ROp → PT × PT
  | .op (.upd key v w) => (a.1.insert key v w, a.2)
  | .op (.del key) => (match a.1.delete key with | some t' => t' | none => a.1, a.2)
  | .op (.commit _) => (a.1, a.1)
  | .op _ => a
  | .reload => (a.2, a.2)

def rspecRun (ops : List ROp) : PT × PT := ops.foldl rspecStep (PT.none, PT.none)

end Verif.Wmpt
