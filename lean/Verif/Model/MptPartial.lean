/-
The state trie as seen through a node store that may lack nodes (`merkle_patricia_trie.go`: getNodeValueRaw, iterate,
HasMissingNodes, pp2 / GetAllMissingNodes, MergeDB; after `fix:` 13a4873).  Core Lean only.

A store is a finite map key ↦ stored bytes.  `buildP` unfolds (store, root key) into a *partial tree*: a node that the
store does not hold becomes the leaf `missing k` (nothing below it is known, exactly as for the Go traversals, which
stop at the first missing node on each path).  All traversals are then structural recursions over the partial tree
and follow the error propagation of the Go code:

  * `iterErr`     = `iterate`: a missing node yields the error the handler turns it into (`ErrMissingNodes` for
                    HasMissingNodes' handler, `ErrNodeNotFound` for a handler that ignores nil nodes); a branch counts
                    failing children (`ecount`) and returns `ErrIteratingChildNodes`; an extension returns its child's
                    error unchanged.
  * `allMissing`  = `pp2`: errors of children are swallowed (`_ = mpt.pp2(...)`), each missing key is appended.
  * `lookupP`     = `getNodeValueRaw`: a missing child gives `ErrNodeNotFound`, never `ErrValueNotPresent`.
  * `mergeDB`     = `MergeDB`: every donor node is stored under the key it has in the donor, unchanged.
-/
import Verif.Model.MptCodec
namespace Verif.Partial
open Verif.Mpt (Bytes Nib)
open Verif.Codec

inductive PTree where
  | empty : PTree                                  -- nil key (empty trie / empty child slot)
  | missing (k : Bytes) : PTree                    -- the store has no node under k
  | leaf (path : Bytes) (val : Option Bytes) : PTree
  | full (ch : Nib → PTree) (val : Option Bytes) : PTree
  | ext (path : Bytes) (child : PTree) : PTree

namespace PTree
def isEmpty : PTree → Bool
  | .empty => true
  | _ => false
end PTree

/-! ### Stores -/

/-- node store: association list, the first entry of a key wins (`put` shadows) -/
abbrev Store := List (Bytes × Bytes)

def Store.get (s : Store) (k : Bytes) : Option Bytes := (s.find? (fun e => e.1 == k)).map (·.2)

def Store.put (s : Store) (k b : Bytes) : Store := (k, b) :: s

/-- unfold (store, key) into the partial tree; `fuel` bounds the depth (a store of n nodes needs fuel n + 1;
    exhausted fuel is reported as `missing`, which cannot happen for an acyclic store and enough fuel).
    Stored bytes that do not decode to a leaf / branch / extension are outside the scope (healthy stores hold valid
    encodings or nothing) and are treated like an absent node. -/
def buildP (get : Bytes → Option Bytes) : Nat → Bytes → PTree
  | 0, k => .missing k
  | n + 1, k =>
    match get k with
    | none => .missing k
    | some bs =>
      match decode bs with
      | .ok ⟨_, _, .leaf _ p v⟩ => .leaf p v
      | .ok ⟨_, _, .full ch v⟩ =>
        .full (fun i => match ch[i.val]? with
                        | some (some ck) => buildP get n ck
                        | _ => .empty) v
      | .ok ⟨_, _, .ext p ck⟩ => .ext p (buildP get n ck)
      | _ => .missing k

/-- the trie under a root key: `Iterate` / `GetNodeValueRaw` treat the nil root as the empty trie -/
def buildRoot (get : Bytes → Option Bytes) (fuel : Nat) (root : Bytes) : PTree :=
  if root = [] then .empty else buildP get fuel root

/-! ### iterate / HasMissingNodes -/

inductive IterErr where
  | none | nodeNotFound | missingNodes | iterChild
  deriving DecidableEq

/-- error returned by `iterate` over the partial tree; `m` is what a missing node yields: the handler's error if it
    returns one for a nil node (HasMissingNodes: `ErrMissingNodes`), else `getNode`'s `ErrNodeNotFound` -/
def iterErr (m : IterErr) : PTree → IterErr
  | .empty => .none
  | .missing _ => m
  | .leaf _ _ => .none
  | .full ch _ => if (List.finRange 16).any (fun i => iterErr m (ch i) != .none) then .iterChild else .none
  | .ext _ c => iterErr m c

/-- `HasMissingNodes`: nil error → false; ErrMissingNodes / ErrNodeNotFound / ErrIteratingChildNodes → true -/
def hasMissing (t : PTree) : Bool := iterErr .missingNodes t != .none

/-! ### pp2 / GetAllMissingNodes -/

def allMissing : PTree → List Bytes
  | .empty => []
  | .missing k => [k]
  | .leaf _ _ => []
  | .full ch _ => (List.finRange 16).flatMap (fun i => allMissing (ch i))
  | .ext _ c => allMissing c

/-- `GetAllMissingNodes`: the error of the ROOT's `getNode` is returned (a nil or absent root gives
    `ErrNodeNotFound`, not `[root]`); below the root errors are swallowed -/
def getAllMissing (t : PTree) : Option (List Bytes) :=
  match t with
  | .empty => none
  | .missing _ => none
  | t => some (allMissing t)

/-! ### getNodeValueRaw -/

inductive LRes where
  | ok (v : Bytes) | notPresent | nodeNotFound | panic
  deriving DecidableEq

/-- `FullNode.index` -/
def nibOf (c : UInt8) : Option Nib :=
  if 48 ≤ c ∧ c ≤ 57 then some (Fin.ofNat 16 (c.toNat - 48))
  else if 97 ≤ c ∧ c ≤ 102 then some (Fin.ofNat 16 (c.toNat - 97 + 10))
  else if 65 ≤ c ∧ c ≤ 70 then some (Fin.ofNat 16 (c.toNat - 65 + 10))
  else none

/-- length of `matchingPrefix` -/
def matchLen : Bytes → Bytes → Nat
  | a :: p, b :: q => if a = b then matchLen p q + 1 else 0
  | _, _ => 0

def valRes : Option Bytes → LRes
  | some b => if b = [] then .notPresent else .ok b
  | none => .notPresent

def lookupP : PTree → Bytes → LRes
  | .empty, _ => .notPresent
  | .missing _, _ => .nodeNotFound
  | .leaf lp v, p => if lp = p then valRes v else .notPresent
  | .full _ v, [] => valRes v
  | .full ch _, c :: r =>
    match nibOf c with
    | none => .panic                                  -- "Invalid byte for index in Patricia Merkle Trie"
    | some i => if (ch i).isEmpty then .notPresent else lookupP (ch i) r
  | .ext ep c, p =>
    if matchLen p ep = 0 then .notPresent
    else if matchLen p ep = ep.length then lookupP c (p.drop ep.length)
    else .notPresent

/-- the key of the missing node a lookup runs into (`getNode` records it in the trie's missing-key list) -/
def lookupMiss : PTree → Bytes → Option Bytes
  | .empty, _ => none
  | .missing k, _ => some k
  | .leaf _ _, _ => none
  | .full _ _, [] => none
  | .full ch _, c :: r =>
    match nibOf c with
    | none => none
    | some i => if (ch i).isEmpty then none else lookupMiss (ch i) r
  | .ext ep c, p =>
    if matchLen p ep = 0 then none
    else if matchLen p ep = ep.length then lookupMiss c (p.drop ep.length)
    else none

/-- node reads (`getNode` calls) of an undisturbed `iterate` over the partial tree: every node is read once, a missing
    one included; `iterate` checks its context before each read -/
def reads : PTree → Nat
  | .empty => 0
  | .missing _ => 1
  | .leaf _ _ => 1
  | .full ch _ => 1 + ((List.finRange 16).map (fun i => reads (ch i))).sum
  | .ext _ c => 1 + reads c

/-- `iterate` under a context that is cancelled right after the `n`-th node read: the next call of `iterate` returns the
    context's error, which every caller hands up unchanged (it is none of the three sentinels the branch loop counts);
    if the `n`-th read is the last one, the walk ends undisturbed.  `none` = the context's error. -/
def iterErrCancelled (m : IterErr) (n : Nat) (t : PTree) : Option IterErr :=
  if n < reads t then none else some (iterErr m t)

/-- values in iteration order (what `Iterate` hands to a value handler when nothing is missing) -/
def valuesP : PTree → Bytes → List (Bytes × Bytes)
  | .empty, _ => []
  | .missing _, _ => []
  | .leaf lp v, pre => (match v with | some b => [(pre ++ lp, b)] | none => [])
  | .full ch v, pre =>
    (match v with | some b => [(pre, b)] | none => [])
      ++ (List.finRange 16).flatMap (fun i => valuesP (ch i) (pre ++ [Verif.Mpt.nibChar i]))
  | .ext ep c, pre => valuesP c (pre ++ ep)

/-! ### MergeDB -/

/-- `MergeDB(donor, root, nil)` at trie version `v` (fixed code: the version plays no role): every node of the donor is
    put under the key it has in the donor.  The donor is not an output: it is left as it was. -/
def mergeDB (_v : Nat) (s : Store) (donor : List (Bytes × Repr)) : Store :=
  donor.foldl (fun s e => s.put e.1 (encode e.2)) s

/-- `MergeDB` before 13a4873: each donor node went through `insertNode`, which re-stamps origin (and version) with the
    trie version and stores the node under the hash of the re-stamped node; the donor's node objects are the ones
    modified.  Returns the new store and the donor as left behind. -/
def mergeDBOld (H : Bytes → Bytes) (v : Nat) (s : Store) (donor : List (Bytes × Repr)) : Store × List (Bytes × Repr) :=
  let donor' := donor.map (fun e => (e.1, ({ e.2 with origin := v, version := v } : Repr)))
  (donor'.foldl (fun s e => s.put (H (hashBytes e.2)) (encode e.2)) s, donor')

end Verif.Partial
