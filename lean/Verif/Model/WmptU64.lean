/-
Go's fixed-width weight arithmetic. The model of Verif.Model.WmptOps computes weights over the natural numbers / integers;
the Go code uses `uint64` weights and an `int64` weight delta, all of which wrap modulo 2^64. This file gives the
wrap-around versions `insertU` / `deleteU` of `insert` / `delete` — identical except for the four arithmetic sites of
trie.go:

  insert, value update   change := int64(value.Weight()) - int64(v.Weight())          (int64, wraps)
  insert, new entry      change := int64(value.Weight())                              (int64 of a uint64)
  insert, branch         n.weight = uint64(int64(n.weight) + change)                  (wraps)
  insert, split          branch.weight = n.Weight() + value.Weight()                  (uint64, wraps)
  delete, branch         n.weight -= change                                            (uint64, wraps)

(`getBlockProof` / `verifyProof` subtract a child weight from the block number only after checking it is smaller, and
`DeserializeNode`'s sum is already modelled modulo 2^64.)  `Verif.Lemmas.WmptU64` proves that under the no-overflow
hypothesis the wrap-around versions coincide with the model's, so these are the only places where arithmetic could differ.
Core Lean only.
-/
import Verif.Model.WmptHistory
namespace Verif.Wmpt

def M64 : Nat := 2 ^ 64

/-- uint64 addition -/
def add64 (a b : Nat) : Nat := (a + b) % M64

/-- uint64 subtraction -/
def sub64 (a b : Nat) : Nat := (((a : Int) - (b : Int)) % (M64 : Int)).toNat

/-- the int64 value with the bit pattern of the integer `x` (representative in [-2^63, 2^63)) -/
def wrapI64 (x : Int) : Int := ((x + 2 ^ 63) % (M64 : Int)) - 2 ^ 63

/-- `uint64(int64(a) + c)` -/
def addI64 (a : Nat) (c : Int) : Nat := (((a : Int) + c) % (M64 : Int)).toNat

/-- `insert` with Go's wrap-around arithmetic -/
def insertU (hasDb : Bool) (s : Store) : Nat → WN → List Nib → WN → IRes
  | 0, node, _, _ => { node := node, err := some .other }
  | _ + 1, node, [], value =>
    let r : Res WN := match node with
      | .hashRef h _ => resolveHash hasDb s h
      | n => .ok n
    match r with
    | .err e => { node := node, err := some e }
    | .ok n =>
      match n with
      | .value vh vv vw vd =>
        match value with
        | .value _ nv nw _ =>
          if vv = nv then { node := .value vh vv vw vd }
          else { node := .value vh nv nw true, change := wrapI64 ((nw : Int) - vw) }
        | _ => { node := node, err := some .panic }
      | _ => { node := value, change := wrapI64 value.weight }
  | fuel + 1, node, k :: ks, value =>
    match node with
    | .routing h ch w _ tc =>
      let r := insertU hasDb s fuel (ch k) ks value
      match r.err with
      | some e => { node := .routing h (upd ch k r.node) w true tc, err := some e, td := r.td }
      | none => { node := .routing h (upd ch k r.node) (addI64 w r.change) true tc, change := r.change, td := r.td }
    | .short key h c d tc =>
      let kb := (k :: ks).map nb
      let p := commonPrefix key kb
      if p = key.length then
        let r := insertU hasDb s fuel c ((k :: ks).drop p) value
        { node := .short key h r.node true tc, change := r.change, err := r.err, td := r.td }
      else
        match nibOf (key.getD p 0), (k :: ks)[p]? with
        | some i1, some i2 =>
          let branch := WN.routing [] (upd (upd noCh i1 (mkShort (key.drop (p + 1)) c)) i2 (mkShort (kb.drop (p + 1)) value))
            (add64 (WN.short key h c d tc).weight value.weight) true false
          if p = 0 then { node := branch, change := wrapI64 value.weight, td := [h] }
          else { node := .short (kb.take p) [] branch true false, change := wrapI64 value.weight, td := [h] }
        | _, _ => { node := .short key h c true tc, err := some .panic, td := [h] }
    | .hashRef h w =>
      match resolveHash hasDb s h with
      | .err e => { node := .hashRef h w, err := some e }
      | .ok rn =>
        let r := insertU hasDb s fuel rn (k :: ks) value
        match r.err with
        | some e => { node := .hashRef h w, err := some e, td := r.td }
        | none => r
    | .nil => { node := .short ((k :: ks).map nb) [] value true false, change := wrapI64 value.weight }
    | .empty => { node := .short ((k :: ks).map nb) [] value true false, change := wrapI64 value.weight }
    | .value vh vv vw vd => { node := .value vh vv vw vd, err := some .other }

/-- `delete` with Go's wrap-around arithmetic -/
def deleteU (H : Bytes → Bytes) (hasDb : Bool) (s : Store) : Nat → WN → List Nib → DRes
  | 0, node, _ => { node := node, err := some .other }
  | fuel + 1, node, key =>
    match node with
    | .short sk h c d tc =>
      let kb := key.map nb
      let p := commonPrefix sk kb
      if p < sk.length then { node := .short sk h c d tc, err := some .notFound }
      else if p = kb.length then { node := .nil, change := (WN.short sk h c d tc).weight, td := [h, c.hashField H] }
      else
        let r := deleteU H hasDb s fuel c (key.drop sk.length)
        match r.err with
        | some e => { node := .short sk h r.node d tc, err := some e, td := r.td }
        | none =>
          match r.node with
          | .nil =>
            -- fix 9bafaec: the child was a short node itself (only in a trie imported from a crafted export) and is gone:
            -- so is this node
            { node := .nil, change := r.change, td := r.td ++ [h] }
          | .short ck _ cc _ _ => { node := .short (sk ++ ck) h cc true tc, change := r.change, td := r.td }
          | n' => { node := .short sk h n' true tc, change := r.change, td := r.td }
    | .routing h ch w d tc =>
      match key with
      | [] => { node := .routing h ch w d tc, err := some .panic }
      | k :: ks =>
        let r := deleteU H hasDb s fuel (ch k) ks
        match r.err with
        | some e => { node := .routing h (upd ch k r.node) w d tc, err := some e, td := r.td }
        | none =>
          let ch' := upd ch k r.node
          let w' := sub64 w r.change
          if !r.node.isNil then { node := .routing h ch' w' true tc, change := r.change, td := r.td }
          else
            match soleChild ch' with
            | none => { node := .routing h ch' w' true tc, change := r.change, td := r.td }
            | some pos =>
              match resolveNode hasDb s (ch' pos) with
              | .err e => { node := .routing h ch' w' true tc, err := some e, td := r.td ++ [h] }
              | .ok cn =>
                match cn with
                | .short ck chh cc _ _ =>
                  { node := .short (nb pos :: ck) [] cc true false, change := r.change, td := r.td ++ [h, chh] }
                | _ => { node := .short [nb pos] [] (ch' pos) true false, change := r.change, td := r.td ++ [h] }
    | .value h v w d =>
      -- fix acaed54: a value above the full key depth belongs to a shorter key
      if key ≠ [] then { node := .value h v w d, err := some .notFound }
      else { node := .nil, change := w, td := [h] }
    | .nil => { node := .nil, err := some .notFound }
    | .empty => { node := .empty, err := some .notFound }
    | .hashRef h w =>
      match resolveHash hasDb s h with
      | .err e => { node := .hashRef h w, err := some e }
      | .ok rn =>
        let r := deleteU H hasDb s fuel rn key
        match r.err with
        | some e => { node := .hashRef h w, err := some e, td := r.td }
        | none => r

/-- `Update` over the wrap-around arithmetic -/
def updateU (H : Bytes → Bytes) (t : WT) (key : List Nib) (value : Bytes) (weight : Nat) : WT × Res Unit :=
  if key.length ≠ 64 then (t, .err .invalidKey)
  else if value ≠ [] then
    let r := insertU t.hasDb t.store (fuelFor key) (normRoot t.root) key (.value [] value weight true)
    match r.err with
    | some e => ({ t with root := normRoot r.node, pending := t.pending ++ r.td }, .err e)
    | none => ({ t with root := r.node, pending := t.pending ++ r.td }, .ok ())
  else
    let r := deleteU H t.hasDb t.store (fuelFor key) (normRoot t.root) key
    match r.err with
    | some e => ({ t with root := normRoot r.node, pending := t.pending ++ r.td }, .err e)
    | none => ({ t with root := normRoot r.node, pending := t.pending ++ r.td }, .ok ())

/-- `Delete` over the wrap-around arithmetic -/
def deleteKeyU (H : Bytes → Bytes) (t : WT) (key : List Nib) : WT × Res Nat :=
  let r := deleteU H t.hasDb t.store (fuelFor key) t.root key
  match r.err with
  | some e => ({ t with root := r.node, pending := t.pending ++ r.td }, .err e)
  | none => ({ t with root := normRoot r.node, pending := t.pending ++ r.td }, .ok r.change)

/-- a history step over the wrap-around arithmetic (the other operations do no weight arithmetic) -/
def hstepU (H : Bytes → Bytes) (s : HState) : HOp → HState
  | .upd key v w => { s with t := (updateU H s.t key v w).1 }
  | .del key => { s with t := (deleteKeyU H s.t key).1 }
  | op => hstep H s op

def hrunU (H : Bytes → Bytes) (ops : List HOp) : HState := ops.foldl (hstepU H) {}

end Verif.Wmpt
