/-
The interpreter of the trie-building part of the store-layer op language (the ops of go/harness/mptstore.go that create,
change, merge and drop tries): a forest of tries, each with the id of its parent.  The model driver (`Driver/MptStore`)
executes these ops through `Forest.step`, so the correspondence run ties this interpreter to the Go code.
Core Lean only.
-/
import Verif.Model.MptStore
namespace Verif.MptStore
open Verif.Mpt

/-- the trie-building ops -/
inductive TOp where
  | child (id pid : Nat)                        -- open a child of `pid` at its current root and version
  | ins (id : Nat) (p : List Nib) (b : Bytes)   -- Insert (an empty value is a Delete)
  | del (id : Nat) (p : List Nib)               -- Delete
  | merge (id : Nat) (keep : Bool)              -- MergeMPTChanges / MergeChanges of `id` into its parent; ok closes it unless `keep`
  | discard (id : Nat)                          -- drop the trie and its descendants
  | ver (id : Nat) (v : Nat)                    -- SetVersion

/-- what an op reports -/
inductive TRes where
  | ok (es : List Event)   -- the events the op caused on the trie it changed (a merge: on the parent)
  | notPresent
  | stale
  | badOp
  | panic

structure Forest where
  tries : List (Nat × Nat × Trie) := []   -- id, parent id, trie (the root trie is its own parent)

namespace Forest

def find (f : Forest) (id : Nat) : Option (Nat × Trie) := (f.tries.find? (fun e => e.1 = id)).map (·.2)

def set (f : Forest) (id : Nat) (t : Trie) : Forest :=
  { tries := f.tries.map (fun e => if e.1 = id then (e.1, e.2.1, t) else e) }

/-- is `x` a proper descendant of `id` (follow parent links, at most `fuel` steps) -/
def isDesc (f : Forest) (id : Nat) : Nat → Nat → Bool
  | 0, _ => false
  | fuel + 1, x =>
    match f.find x with
    | some (px, _) => if px = x then false else if px = id then true else isDesc f id fuel px
    | none => false

/-- drop `id` and its descendants -/
def close (f : Forest) (id : Nat) : Forest :=
  { tries := f.tries.filter (fun e => !(e.1 = id || isDesc f id f.tries.length e.1)) }

/-- one op; `ord` is the order in which the child's pending changes are handed to `mergeChanges` (any permutation) -/
def step (H : Bytes → Bytes) (ord : List (Change Ref) → List (Change Ref)) (f : Forest) : TOp → Forest × TRes
  | .child id pid =>
    match f.find pid, f.find id with
    | some (_, p), none =>
      if id = 0 then (f, .badOp)
      else ({ tries := f.tries ++ [(id, pid, Trie.open p.root p.tree p.version)] }, .ok [])
    | _, _ => (f, .badOp)
  | .ins id p b =>
    match f.find id with
    | some (_, t) =>
      if b = [] then
        match t.delete H p with
        | (t', .ok, es) => (f.set id t', .ok es)
        | (_, .notPresent, _) => (f, .notPresent)
        | (_, _, _) => (f, .panic)
      else
        let r := t.insert H p b
        (f.set id r.1, .ok r.2)
    | none => (f, .badOp)
  | .del id p =>
    match f.find id with
    | some (_, t) =>
      match t.delete H p with
      | (t', .ok, es) => (f.set id t', .ok es)
      | (_, .notPresent, _) => (f, .notPresent)
      | (_, _, _) => (f, .panic)
    | none => (f, .badOp)
  | .merge id keep =>
    match f.find id with
    | some (pid, c) =>
      if id = 0 then (f, .badOp)
      else
        match f.find pid with
        | some (_, p) =>
          match mergeMPTChangesOrd H p c (ord c.cc.getChanges) with
          | .ok p' =>
            let f1 := f.set pid p'
            (if keep then f1 else f1.close id,
              .ok (if p.root = c.root then [] else mergeEvents' H (ord c.cc.getChanges) c.cc.getDeletes))
          | .stale => (f, .stale)
        | none => (f, .badOp)
    | none => (f, .badOp)
  | .discard id =>
    match f.find id with
    | some _ => if id = 0 then (f, .badOp) else (f.close id, .ok [])
    | none => (f, .badOp)
  | .ver id v =>
    match f.find id with
    | some (_, t) => (f.set id { t with version := v }, .ok [])
    | none => (f, .badOp)
where
  /-- the events `mergeChanges` replays on the parent -/
  mergeEvents' (H : Bytes → Bytes) (cs : List (Change Ref)) (ds : List Ref) : List Event :=
    (orderChanges H cs).map (fun c => Event.put c.old c.new) ++ ds.map Event.del

def run (H : Bytes → Bytes) (ord : List (Change Ref) → List (Change Ref)) (f : Forest) (ops : List TOp) : Forest :=
  ops.foldl (fun f op => (f.step H ord op).1) f

end Forest
end Verif.MptStore
