import Verif.Model.RingHeap
/-!
# The glue around the log ring (`inmemory_logger.go`: `Check`, `With`, `WriteLogs`; `handler.go`)

* An entry (`observer.LoggedEntry`) carries a level, a message, the fields given at the call site
  (`entry.Context`; fields attached with `With` go into the derived core's encoder, which neither `GetLogs` nor
  `WriteLogs` ever uses, so they are not part of a retained entry) and possibly a stack trace (`ent.Stack`, filled in
  by zap for levels at or above the logger's `AddStacktrace` level).
* `MemCore.Check` writes the entry only if the core's `LevelEnabler` enables its level; `clone()` copies the
  `LevelEnabler`, so a derived core filters exactly as the core it was derived from.
* `WriteLogs(w, detailLevel)` renders every entry `GetLogs` returns (its `!= nil` test is redundant: `GetLogs`
  returns non-nil entries only), with the fields iff `detailLevel ≥ IncludeFields = 2` and the stack trace iff
  `detailLevel ≥ IncludeStacktrace = 3`.  What is modelled is *which parts are present*, not the console format.
* the three HTTP handlers parse `detail` with `strconv.Atoi` and ignore the error.
-/
namespace Verif.Ring

/-- `zapcore.Level`: Debug = -1, Info = 0, Warn = 1, Error = 2 -/
structure LEntry where
  lvl : Int
  msg : String
  fields : List (String × String)
  stack : Bool
deriving DecidableEq, Repr

/-- what `WriteLogs` shows of an entry -/
structure Shown where
  lvl : Int
  msg : String
  fields : List (String × String)
  stack : Bool
deriving DecidableEq, Repr

def includeFields : Int := 2
def includeStacktrace : Int := 3

/-- `writeEntry` -/
def renderEntry (detail : Int) (e : LEntry) : Shown :=
  { lvl := e.lvl, msg := e.msg,
    fields := if includeFields ≤ detail then e.fields else [],
    stack := decide (includeStacktrace ≤ detail) && e.stack }

structure GState where
  h : HState LEntry
  /-- per core: the minimum level its `LevelEnabler` enables -/
  enab : List Int

/-- `NewMemLogger(enc, enab)` -/
def initG (cap : Nat) (min : Int) : GState := { h := initH cap, enab := [min] }

/-- `With` → `clone()`: `LevelEnabler: mc.LevelEnabler` -/
def deriveG (s : GState) (c : Nat) : GState :=
  match s.enab[c]?, s.h.ring.cores[c]? with
  | some m, some _ => { h := stepH s.h (.derive c), enab := s.enab ++ [m] }
  | _, _ => s

/-- `Check` then `Write`: `if mc.Enabled(ent.Level) { ce.AddCore(ent, mc) }` -/
def logG (s : GState) (c : Nat) (e : LEntry) : GState :=
  match s.enab[c]? with
  | some m => if m ≤ e.lvl then { s with h := writeH s.h c e } else s
  | none => s

inductive GOp where
  | log (core : Nat) (e : LEntry)
  | derive (core : Nat)
deriving Repr

def stepG (s : GState) : GOp → GState
  | .log c e => logG s c e
  | .derive c => deriveG s c

def runG (s : GState) (h : List GOp) : GState := h.foldl stepG s

/-- the entries `GetLogs` returns -/
def getLogsG (s : GState) : List LEntry := deref s.h (getLogsH s.h)

/-- `WriteLogs(w, detail)`: one rendered entry per retained entry, newest first -/
def writeLogs (detail : Int) (s : GState) : List Shown := (getLogsG s).map (renderEntry detail)

/-- `detailLevel, _ := strconv.Atoi(queryValues.Get("detail"))`: optional sign and decimal digits; `0` on a syntax
error (also for the empty / absent value); on a range error Atoi returns the nearest `int64`, and the handler uses it -/
def atoi (s : String) : Int :=
  let cs := s.toList
  let (neg, ds) : Bool × List Char :=
    match cs with
    | '-' :: r => (true, r)
    | '+' :: r => (false, r)
    | r => (false, r)
  if ds.isEmpty || !ds.all Char.isDigit then 0
  else
    let n : Nat := ds.foldl (fun a c => a * 10 + (c.toNat - 48)) 0
    if neg then (if n > 2 ^ 63 then -(2 ^ 63 : Int) else -(n : Int))
    else (if n ≥ 2 ^ 63 then (2 ^ 63 : Int) - 1 else (n : Int))

/-- the handlers: `WriteLogs(w, atoi detail)` -/
def handler (detailParam : String) (s : GState) : List Shown := writeLogs (atoi detailParam) s

end Verif.Ring
