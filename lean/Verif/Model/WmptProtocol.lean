/-
Histories with checkpoints: `SaveRoot` / `Rollback` in any number, mixed with Update / Delete / Root / Commit /
DeleteNodes, restricted only by the protocol under which `Rollback` is meaningful in the Go code:

  * `SaveRoot` is called on a clean root (it records the root's CACHED hash; initially, after a Commit or a Rollback);
  * `Rollback` is called while the checkpoint taken by the last `SaveRoot` is still intact: no second Commit since
    (`created` lists the nodes of the last commit only) and at most ONE `DeleteNodes` pass after the commit (a pass only
    stages what the commit superseded — nodes of the checkpoint among them —, the next pass deletes it).

`pctl` is the automaton that accepts these histories, `pspecStep` their spec: (live content, content of the last commit,
content at the checkpoint).  Core Lean only.
-/
import Verif.Model.WmptHistory
import Verif.Model.WmptSpecOps
namespace Verif.Wmpt

inductive PMode where
  | idle                          -- no usable checkpoint: `Rollback` not allowed
  | armed                         -- `SaveRoot` done, nothing committed since
  | committed (gcUsed : Bool)     -- … and one Commit since, followed by no / one `DeleteNodes` pass
  deriving DecidableEq, Repr

structure PCtl where
  mode : PMode := .idle
  clean : Bool := true            -- the root is known to be clean (nothing changed since the last commit / rollback)
  deriving DecidableEq, Repr

/-- one step of the protocol automaton; `none` = the history leaves the protocol -/
def pctl (c : PCtl) : HOp → Option PCtl
  | .upd _ _ _ => some { clean := false, mode := match c.mode with | .committed _ => .idle | m => m }
  | .del _ => some { clean := false, mode := match c.mode with | .committed _ => .idle | m => m }
  | .root => some c
  | .gc =>
    some { c with mode := match c.mode with
                          | .committed false => .committed true
                          | .committed true => .idle
                          | m => m }
  | .commit _ =>
    some { clean := true, mode := match c.mode with | .armed => .committed false | _ => .idle }
  | .saveRoot => if c.clean then some { clean := true, mode := .armed } else none
  | .rollback =>
    match c.mode with
    | .idle => none
    | _ => some { clean := true, mode := .idle }

def pctlRun (ops : List HOp) : Option PCtl := ops.foldl (fun c op => c.bind (fun c => pctl c op)) (some {})

/-- the spec: (live content, content of the last commit, content at the last checkpoint) -/
def pspecStep (a : PT × PT × PT) : HOp → PT × PT × PT
  | .upd key v w => (a.1.insert key v w, a.2.1, a.2.2)
  | .del key => (match a.1.delete key with | some t' => t' | none => a.1, a.2.1, a.2.2)
  | .commit _ => (a.1, a.1, a.2.2)
  | .saveRoot => (a.1, a.2.1, a.1)
  | .rollback => (a.2.2, a.2.2, a.2.2)
  | _ => a

def pspecRun (ops : List HOp) : PT × PT × PT := ops.foldl pspecStep (PT.none, PT.none, PT.none)

end Verif.Wmpt
