/-
Node hash format of the state trie (`mpt_node.go`: GetHashBytes / encode), parametric in the hash function `H`.

  leaf      : LE64(origin) ++ prefix ++ ':' ++ path ++ ':' ++ value          (prefix, path as ASCII hex digits)
  full      : LE64(origin) ++ (hex(child key)? ++ ':') × 16 ++ value?
  extension : LE64(origin) ++ path ++ ':' ++ raw child key
  key n     = H (hashBytes n)
-/
import Verif.Model.Mpt
namespace Verif.Mpt

def nibChar (n : Nib) : UInt8 := if n.val < 10 then UInt8.ofNat (48 + n.val) else UInt8.ofNat (87 + n.val)

def hexDigit (n : Nat) : UInt8 := if n < 10 then UInt8.ofNat (48 + n) else UInt8.ofNat (87 + n)

def hexBytes (b : Bytes) : Bytes := b.flatMap (fun x => [hexDigit (x.toNat / 16), hexDigit (x.toNat % 16)])

def le64 (n : Nat) : Bytes := (List.range 8).map (fun k => UInt8.ofNat ((n >>> (8 * k)) % 256))

def sep : UInt8 := 58

/-- key (hash) of the node `n` located at position `pre`; the empty trie has the nil key `[]` -/
def key (H : Bytes → Bytes) : Node → List Nib → Bytes
  | .empty, _ => []
  | .leaf o lp lv, pre => H (le64 o ++ pre.map nibChar ++ [sep] ++ lp.map nibChar ++ [sep] ++ lv)
  | .full o ch val, pre =>
    H (le64 o
      ++ (List.finRange 16).flatMap (fun i =>
            (if (ch i).isEmpty then [] else hexBytes (key H (ch i) (pre ++ [i]))) ++ [sep])
      ++ (match val with | some b => b | none => []))
  | .ext o ep c, pre => H (le64 o ++ ep.map nibChar ++ [sep] ++ key H c (pre ++ ep))

/-- root key of a trie -/
def root (H : Bytes → Bytes) (t : Node) : Bytes := key H t []

end Verif.Mpt
