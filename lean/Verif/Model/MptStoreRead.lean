/-
Store-READING operations of the store-layer model.  `MptStore.Trie` keeps its content by value; here the content is
re-obtained from a node store: every node is resolved through `get` (on a layered store: current level, then the levels
below), a node that `get` does not deliver makes the operation fail with `nodeNotFound`.  The loader reads the WHOLE tree
under the root (Go reads the nodes on the operation's path only: a Go operation can succeed where this one reports
`nodeNotFound`, never the other way round); the refinement theorems are in Lemmas/StoreRead.  Core Lean only.
-/
import Verif.Model.MptStore
namespace Verif.MptStore
open Verif.Mpt

/-- a stored node as a reader sees it: its own fields and the KEYS of its children (`none`: no child) -/
inductive Shape where
  | leaf (o : Nat) (lp : List Nib) (lv : Bytes)
  | full (o : Nat) (ck : Nib → Option Bytes) (val : Option Bytes)
  | ext (o : Nat) (ep : List Nib) (ck : Option Bytes)

/-- the key under which a (sub)tree is referenced from its parent -/
def okey (H : Bytes → Bytes) (t : Node) (pos : List Nib) : Option Bytes :=
  if t.isEmpty then none else some (key H t pos)

def shapeOf (H : Bytes → Bytes) : Node → List Nib → Option Shape
  | .empty, _ => none
  | .leaf o lp lv, _ => some (.leaf o lp lv)
  | .full o ch val, pre => some (.full o (fun i => okey H (ch i) (pre ++ [i])) val)
  | .ext o ep c, pre => some (.ext o ep (okey H c (pre ++ ep)))

/-- all sixteen children, if every one of them could be loaded -/
def allSome (f : Nib → Option Node) : Option (Nib → Node) :=
  if ∀ i, (f i).isSome then some (fun i => (f i).getD .empty) else none

/-- load the tree under a key: every node through `getS`; `none` = some node was not delivered (or fuel ran out) -/
def loadS (getS : Bytes → Option Shape) : Nat → Option Bytes → Option Node
  | _, none => some .empty
  | 0, some _ => none
  | n + 1, some k =>
    match getS k with
    | none => none
    | some (.leaf o lp lv) => some (.leaf o lp lv)
    | some (.full o ck val) => (allSome (fun i => loadS getS n (ck i))).map (fun ch => .full o ch val)
    | some (.ext o ep ck) => (loadS getS n ck).map (fun c => .ext o ep c)

inductive SRes (α : Type) where
  | ok (a : α)
  | nodeNotFound

/-- a layered store: the current level, then what is below -/
def layered (cur below : Bytes → Option Bytes) : Bytes → Option Bytes :=
  fun k => match cur k with | some v => some v | none => below k

/-- reading shapes out of stored bytes with a decoder -/
def shapesOf (dec : Bytes → Option Shape) (get : Bytes → Option Bytes) : Bytes → Option Shape :=
  fun k => (get k).bind dec

/-- `Insert` on a trie given by (store, root key) -/
def insertS (getS : Bytes → Option Shape) (fuel v : Nat) (b : Bytes) (root : Option Bytes) (p : List Nib) : SRes (Node × List Event) :=
  match loadS getS fuel root with
  | some t => .ok (insertE v b t [] p)
  | none => .nodeNotFound

/-- `Delete` -/
def deleteS (getS : Bytes → Option Shape) (fuel v : Nat) (root : Option Bytes) (p : List Nib) : SRes (DRes × List Event) :=
  match loadS getS fuel root with
  | some t => .ok (deleteE v t [] p)
  | none => .nodeNotFound

/-- `GetNodeValueRaw` -/
def lookupS (getS : Bytes → Option Shape) (fuel : Nat) (root : Option Bytes) (p : List Nib) : SRes (Option Bytes) :=
  match loadS getS fuel root with
  | some t => .ok (lookup t p)
  | none => .nodeNotFound

def height : Node → Nat
  | .empty => 0
  | .leaf .. => 1
  | .full _ ch _ => 1 + ((List.finRange 16).map (fun i => height (ch i))).foldl max 0
  | .ext _ _ c => 1 + height c

end Verif.MptStore
