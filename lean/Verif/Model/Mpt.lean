/-
Structural model of the state trie of `core/util/merkle_patricia_trie.go` (after the `fix:` commits recorded in
/verif/known_findings.json). Core Lean only.

Go keeps the trie as a root key plus a content-addressed node store; here the trie is the tree itself and a
node's key is computed from it (`Verif.Model.MptEnc`). Every function follows its Go counterpart case by case:

  insert   = insert / insertAtNode / insertAfterPathTraversal / insertLeaf / insertExtension
  delete   = delete / deleteAtNode / deleteAfterPathTraversal / liftOnlyChild
  lookup   = getNodeValueRaw
  iterate  = iterate (values only)

`o` is the node's origin (the trie version at which `insertNode` stored it).  The leaf's `Prefix` field is the
node's position and therefore implicit.
-/
namespace Verif.Mpt

abbrev Nib := Fin 16
abbrev Bytes := List UInt8

inductive Node where
  | empty : Node
  | leaf (o : Nat) (path : List Nib) (val : Bytes) : Node
  | full (o : Nat) (ch : Nib → Node) (val : Option Bytes) : Node
  | ext (o : Nat) (path : List Nib) (child : Node) : Node

namespace Node

def isEmpty : Node → Bool
  | .empty => true
  | _ => false

end Node

def emptyCh : Nib → Node := fun _ => .empty

/-- `PutChild` -/
def upd (ch : Nib → Node) (i : Nib) (t : Node) : Nib → Node := fun j => if j = i then t else ch j

/-- `matchingPrefix`, returning the common prefix and both remainders -/
def splitCommon : List Nib → List Nib → List Nib × List Nib × List Nib
  | a :: p, b :: q =>
    if a = b then
      let r := splitCommon p q
      (a :: r.1, r.2.1, r.2.2)
    else ([], a :: p, b :: q)
  | p, q => ([], p, q)

/-- a branch reached through a shared prefix `c` becomes an extension (`insertExtension(node, matchPrefix, ckey)`);
    with no shared prefix the branch itself replaces the old node -/
def wrap (v : Nat) (c : List Nib) (n : Node) : Node :=
  match c with
  | [] => n
  | _ :: _ => .ext v c n

/-- the node an extension's remainder `er` below a new branch points to -/
def extRest (v : Nat) (er : List Nib) (c : Node) : Node :=
  match er with
  | [] => c
  | _ :: _ => .ext v er c

def insert (v : Nat) (b : Bytes) : Node → List Nib → Node
  | .empty, p => .leaf v p b
  | .leaf _ lp lv, p =>
    match splitCommon p lp with
    | (_, [], []) => .leaf v lp b
    | (c, [], y :: lr) => wrap v c (.full v (upd emptyCh y (.leaf v lr lv)) (some b))
    | (c, x :: pr, []) => wrap v c (.full v (upd emptyCh x (.leaf v pr b)) (some lv))
    | (c, x :: pr, y :: lr) =>
      wrap v c (.full v (upd (upd emptyCh x (.leaf v pr b)) y (.leaf v lr lv)) none)
  | .full _ ch _, [] => .full v ch (some b)
  | .full _ ch val, x :: pr => .full v (upd ch x (insert v b (ch x) pr)) val
  | .ext _ ep c, p =>
    match splitCommon p ep with
    | (_, p', []) => .ext v ep (insert v b c p')
    | (cm, [], y :: er) => wrap v cm (.full v (upd emptyCh y (extRest v er c)) (some b))
    | (cm, x :: pr, y :: er) =>
      wrap v cm (.full v (upd (upd emptyCh x (.leaf v pr b)) y (extRest v er c)) none)

/-- result of the recursive `delete`: Go returns (node, key, err); (nil, nil, nil) means "subtree removed" -/
inductive DRes where
  | notPresent : DRes
  | removed : DRes
  | node (n : Node) : DRes
  | panic : DRes

def countCh (ch : Nib → Node) : Nat := (List.finRange 16).countP (fun i => !(ch i).isEmpty)

def firstCh (ch : Nib → Node) : Option Nib := (List.finRange 16).find? (fun i => !(ch i).isEmpty)

/-- `liftOnlyChild`: the only remaining child `n` at index `i` moves one level up -/
def lift (v : Nat) (i : Nib) (n : Node) : DRes :=
  match n with
  | .leaf _ p lv => .node (.leaf v (i :: p) lv)
  | .ext _ p c => .node (.ext v (i :: p) c)
  | .full o ch val => .node (.ext v [i] (.full o ch val))
  | .empty => .panic

def liftFirst (v : Nat) (ch : Nib → Node) : DRes :=
  match firstCh ch with
  | some i => lift v i (ch i)
  | none => .panic

def delete (v : Nat) : Node → List Nib → DRes
  | .empty, _ => .notPresent
  | .leaf _ lp _, p => if p = lp then .removed else .notPresent
  | .full _ ch val, [] =>
    match val with
    | none => .notPresent
    | some _ => if countCh ch = 1 then liftFirst v ch else .node (.full v ch none)
  | .full _ ch val, x :: pr =>
    match delete v (ch x) pr with
    | .notPresent => .notPresent
    | .panic => .panic
    | .node c' => .node (.full v (upd ch x c') val)
    | .removed =>
      if countCh ch = 1 then
        match val with
        | some bv => .node (.leaf v [] bv)
        | none => .removed
      else if countCh ch = 2 ∧ val.isNone then liftFirst v (upd ch x .empty)
      else .node (.full v (upd ch x .empty) val)
  | .ext _ ep c, p =>
    match splitCommon p ep with
    | (_, p', []) =>
      match delete v c p' with
      | .notPresent => .notPresent
      | .panic => .panic
      | .removed => .panic
      | .node (.leaf _ lp lv) => .node (.leaf v (ep ++ lp) lv)
      | .node (.ext _ p2 c2) => .node (.ext v (ep ++ p2) c2)
      | .node (.full o ch val) => .node (.ext v ep (.full o ch val))
      | .node .empty => .panic
    | (_, _, _ :: _) => .notPresent

def lookup : Node → List Nib → Option Bytes
  | .empty, _ => none
  | .leaf _ lp lv, p => if p = lp then (if lv = [] then none else some lv) else none
  | .full _ _ val, [] =>
    match val with
    | some b => if b = [] then none else some b
    | none => none
  | .full _ ch _, x :: pr => lookup (ch x) pr
  | .ext _ ep c, p =>
    match splitCommon p ep with
    | (_, p', []) => if ep = [] then none else lookup c p'
    | (_, _, _ :: _) => none

def iterate : Node → List Nib → List (List Nib × Bytes)
  | .empty, _ => []
  | .leaf _ lp lv, pre => if lv = [] then [] else [(pre ++ lp, lv)]
  | .full _ ch val, pre =>
    (match val with
      | some b => if b = [] then [] else [(pre, b)]
      | none => [])
    ++ (List.finRange 16).flatMap (fun i => iterate (ch i) (pre ++ [i]))
  | .ext _ ep c, pre => iterate c (pre ++ ep)

/-! ### The exported operations (`Insert`, `Delete`, `GetNodeValueRaw`, `Iterate`) on a whole trie -/

inductive Outcome where
  | ok : Outcome
  | notPresent : Outcome
  | tooLarge : Outcome
  | panic : Outcome
  deriving DecidableEq, Repr

/-- `Delete`: on error the root is unchanged -/
def Trie.delete (v : Nat) (t : Node) (p : List Nib) : Node × Outcome :=
  match Verif.Mpt.delete v t p with
  | .notPresent => (t, .notPresent)
  | .panic => (t, .panic)
  | .removed => (.empty, .ok)
  | .node n => (n, .ok)

/-- `Insert`: an empty value is a delete, an over-size value is rejected -/
def Trie.insert (maxSize : Nat) (v : Nat) (t : Node) (p : List Nib) (b : Bytes) : Node × Outcome :=
  if b = [] then Trie.delete v t p
  else if b.length > maxSize then (t, .tooLarge)
  else (Verif.Mpt.insert v b t p, .ok)

end Verif.Mpt
