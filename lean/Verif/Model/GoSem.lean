/-! Go result semantics shared by the code generated from Go sources (`Verif/Gen/*.lean`, emitted by `go/xlate`).

A Go function `func f(..) (T, error)` becomes a Lean function returning `Res ε T`:
  * `.ok v`    — returned `(v, nil)`
  * `.err e`   — returned `(zero value, e)` (the translator refuses functions that return a non-zero value with an error)
  * `.panic`   — a run-time panic (integer division by zero, a panicking library call)

`uint64`/`Coin` and `int64` are both `BitVec 64`; the signed view is taken with `BitVec.slt`/`BitVec.toInt`. -/
namespace Verif.GoSem

inductive Res (ε α : Type) where
  | ok (a : α)
  | err (e : ε)
  | panic
  deriving DecidableEq, Repr

/-- Go `uint64` (wrapping arithmetic, unsigned comparison) -/
abbrev U64 := BitVec 64
/-- Go `int64` (wrapping arithmetic, signed comparison via `BitVec.slt`/`BitVec.sle`) -/
abbrev I64 := BitVec 64

/-- the three ways a call can end: `Res.elim (f a) (fun v => ..) (fun e => ..) <on panic>` -/
def Res.elim {ε α β : Type} (x : Res ε α) (f : α → β) (g : ε → β) (p : β) : β :=
  match x with
  | .ok a => f a
  | .err e => g e
  | .panic => p

/-- use the value of a call that cannot fail (a helper without error result) -/
def Res.andThen {ε α β : Type} (x : Res ε α) (k : α → Res ε β) : Res ε β := Res.elim x k (fun e => .err e) .panic

/-- change the error type (used to compare results of different error enumerations by message) -/
def Res.mapErr {ε ε' α : Type} (h : ε → ε') : Res ε α → Res ε' α
  | .ok a => .ok a
  | .err e => .err (h e)
  | .panic => .panic

/-! `math/bits` -/

/-- `hi` of `bits.Mul64(a, b)`: the upper 64 bits of the 128-bit product -/
def mul64Hi (a b : U64) : U64 := BitVec.ofNat 64 (a.toNat * b.toNat / 2 ^ 64)
/-- `lo` of `bits.Mul64(a, b)` -/
def mul64Lo (a b : U64) : U64 := a * b
/-- `sum` of `bits.Add64(a, b, carry)` -/
def add64Sum (a b c : U64) : U64 := a + b + c
/-- `carryOut` of `bits.Add64(a, b, carry)` -/
def add64Carry (a b c : U64) : U64 := BitVec.ofNat 64 ((a.toNat + b.toNat + c.toNat) / 2 ^ 64)
/-- `diff` of `bits.Sub64(a, b, borrow)` -/
def sub64Diff (a b c : U64) : U64 := a - b - c
/-- `borrowOut` of `bits.Sub64(a, b, borrow)` (borrow ∈ {0,1}): 1 exactly when `a < b + borrow` -/
def sub64Borrow (a b c : U64) : U64 := BitVec.ofNat 64 ((b.toNat + c.toNat + (2 ^ 64 - 1 - a.toNat)) / 2 ^ 64)
/-- `bits.Len64(x)`: the number of bits needed to represent `x` -/
def len64 (x : U64) : Int := if x = 0#64 then 0 else (Nat.log2 x.toNat : Int) + 1

end Verif.GoSem
