/-! Go result semantics shared by the code generated from Go sources (`Verif/Gen/*.lean`, emitted by `go/xlate`).

A Go function `func f(..) (T, error)` becomes a Lean function returning `Res ε T`:
  * `.ok v`    — returned `(v, nil)`
  * `.err e`   — returned `(zero value, e)` (the translator refuses functions that return a non-zero value with an error)
  * `.panic`   — a run-time panic (integer division by zero, a panicking library call)

`uint64`/`Coin` and `int64` are both `BitVec 64`; the signed view is taken with `BitVec.slt`/`BitVec.toInt`. -/
namespace Verif.GoSem

inductive Res (ε α : Type) where
  | ok (a : α)
  | err (e : ε)
  | panic
  deriving DecidableEq, Repr

/-- Go `uint64` (wrapping arithmetic, unsigned comparison) -/
abbrev U64 := BitVec 64
/-- Go `int64` (wrapping arithmetic, signed comparison via `BitVec.slt`/`BitVec.sle`) -/
abbrev I64 := BitVec 64

end Verif.GoSem
