/-! MessagePack codec of `Coin` (core/currency/currency_gen.go → github.com/0chain/msgp v1.1.62), byte-exact, core Lean.

  MarshalMsg(b)    = msgp.AppendUint64(msgp.Require(b, Msgsize), uint64(z))   → `b ++ appendUint64 z`
  UnmarshalMsg(b)  = msgp.ReadUint64Bytes(b) (error wrapped, receiver untouched) → `readUint64 b`
  Msgsize          = msgp.Uint64Size = 9

`readUint64` follows read_bytes.go case by case; every slice index of the Go code is an explicit `.panic` when out of
range (`byteAt`, `readBE`), so "the decoder never panics" is a theorem about this model. Error classification follows
errors.go/elsize.go (`badPrefix`, `getType`). -/
namespace Verif.Msgp

abbrev Bytes := List UInt8

inductive Err where
  | short                       -- ErrShortBytes
  | belowZero (v : Int)         -- UintBelowZero{Value: v}
  | badType (name : String)     -- TypeError{Method: UintType, Encoded: <name>}
  | invalidPrefix (lead : UInt8) -- InvalidPrefixError(lead)
  deriving DecidableEq, Repr

inductive R (α : Type) where
  | ok (a : α)
  | err (e : Err)
  | panic
  deriving DecidableEq, Repr

/-- `msgp.Uint64Size` -/
def uint64Size : Nat := 9

/-- big-endian bytes of `u`, `k` of them -/
def be (u : Nat) : Nat → Bytes
  | 0 => []
  | k + 1 => UInt8.ofNat (u / 256 ^ k) :: be u k

/-- `msgp.AppendUint64(nil, u)`: the smallest unsigned format that fits -/
def appendUint64 (u : Nat) : Bytes :=
  if u ≤ 127 then [UInt8.ofNat u]
  else if u ≤ 255 then 0xcc :: be u 1
  else if u ≤ 65535 then 0xcd :: be u 2
  else if u ≤ 4294967295 then 0xce :: be u 4
  else 0xcf :: be u 8

/-- `b[i]` -/
def byteAt (b : Bytes) (i : Nat) : R UInt8 :=
  match b[i]? with
  | some x => .ok x
  | none => .panic

/-- the `k` bytes `b[off], …, b[off+k-1]` as a big-endian number (`getMuint16(b)` etc. with off = 1) -/
def readBE (b : Bytes) (off : Nat) : Nat → R Nat
  | 0 => .ok 0
  | k + 1 =>
    match byteAt b off with
    | .ok x =>
      match readBE b (off + 1) k with
      | .ok v => .ok (x.toNat * 256 ^ k + v)
      | .err e => .err e
      | .panic => .panic
    | .err e => .err e
    | .panic => .panic

/-- two's complement reading of a `k`-byte number -/
def signed (k : Nat) (n : Nat) : Int := if n < 2 ^ (8 * k - 1) then n else (n : Int) - 2 ^ (8 * k)

/-- `msgp.getType(lead).String()`, `none` for the unused prefix 0xc1 -/
def typeName (lead : UInt8) : Option String :=
  let v := lead.toNat
  if v < 0x80 then some "int" else if v < 0x90 then some "map" else if v < 0xa0 then some "array"
  else if v < 0xc0 then some "str" else if v = 0xc0 then some "nil" else if v = 0xc1 then none
  else if v ≤ 0xc3 then some "bool" else if v ≤ 0xc6 then some "bin" else if v ≤ 0xc9 then some "ext"
  else if v = 0xca then some "float32" else if v = 0xcb then some "float64" else if v ≤ 0xcf then some "uint"
  else if v ≤ 0xd3 then some "int" else if v ≤ 0xd8 then some "ext" else if v ≤ 0xdb then some "str"
  else if v ≤ 0xdd then some "array" else if v ≤ 0xdf then some "map" else some "int"

/-- a fixed-width case of ReadUint64Bytes: `if l < 1+k {short}; v := get(b); [if v < 0 {belowZero}]; o = b[1+k:]` -/
def readFixed (b : Bytes) (k : Nat) (isSigned : Bool) : R (Nat × Bytes) :=
  if b.length < 1 + k then .err .short else
  match readBE b 1 k with
  | .ok n =>
    if isSigned && decide (signed k n < 0) then .err (.belowZero (signed k n))
    else .ok (n, b.drop (1 + k))
  | .err e => .err e
  | .panic => .panic

/-- `msgp.ReadUint64Bytes` -/
def readUint64 (b : Bytes) : R (Nat × Bytes) :=
  if b.length < 1 then .err .short else
  match byteAt b 0 with
  | .err e => .err e
  | .panic => .panic
  | .ok lead =>
    if lead.toNat < 0x80 then .ok (lead.toNat, b.drop 1)         -- isfixint
    else if lead = 0xd0 then readFixed b 1 true
    else if lead = 0xcc then readFixed b 1 false
    else if lead = 0xd1 then readFixed b 2 true
    else if lead = 0xcd then readFixed b 2 false
    else if lead = 0xd2 then readFixed b 4 true
    else if lead = 0xce then readFixed b 4 false
    else if lead = 0xd3 then readFixed b 8 true
    else if lead = 0xcf then readFixed b 8 false
    else if 0xe0 ≤ lead.toNat then .err (.belowZero ((lead.toNat : Int) - 256))   -- isnfixint
    else match typeName lead with
      | some t => .err (.badType t)
      | none => .err (.invalidPrefix lead)

/-- `Coin.MarshalMsg(prefix)` -/
def marshalCoin (pre : Bytes) (c : BitVec 64) : Bytes := pre ++ appendUint64 c.toNat

/-- `(*Coin).UnmarshalMsg(b)`: value and remaining bytes -/
def unmarshalCoin (b : Bytes) : R (BitVec 64 × Bytes) :=
  match readUint64 b with
  | .ok (n, rest) => .ok (BitVec.ofNat 64 n, rest)
  | .err e => .err e
  | .panic => .panic

end Verif.Msgp
