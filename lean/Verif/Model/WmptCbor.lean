/-
Byte-exact CBOR codec for the persisted shapes of `core/util/wmpt/type.go` as produced by fxamacker/cbor v2.7.0
(`keyasint` map for `PersistNodeBase`, `toarray` for the others; nil slices and nil pointers are CBOR null; shortest
heads). The decoder accepts definite-length encodings of exactly these shapes (any head width), which covers every
encoding the encoder — and hence the real code — produces; anything else is `none` (an error of the CBOR layer).
Checked against the real library by the correspondence runs (storage values, proof bytes, export bytes).
-/
import Verif.Model.Wmpt
namespace Verif.Wmpt.Cbor
open Verif.Wmpt

def beN (k : Nat) (n : Nat) : Bytes := (List.range k).map (fun i => UInt8.ofNat ((n >>> (8 * (k - 1 - i))) % 256))

/-- initial byte + argument, shortest form -/
def head (major : Nat) (n : Nat) : Bytes :=
  if n < 24 then [UInt8.ofNat (major * 32 + n)]
  else if n < 256 then UInt8.ofNat (major * 32 + 24) :: beN 1 n
  else if n < 65536 then UInt8.ofNat (major * 32 + 25) :: beN 2 n
  else if n < 4294967296 then UInt8.ofNat (major * 32 + 26) :: beN 4 n
  else UInt8.ofNat (major * 32 + 27) :: beN 8 n

def null : Bytes := [0xf6]

def bstr (b : Bytes) : Bytes := head 2 b.length ++ b
def uint (n : Nat) : Bytes := head 0 n
def arr (items : List Bytes) : Bytes := head 4 items.length ++ items.flatten

/-- a child entry: nil slice = null -/
def childBstr (b : Bytes) : Bytes := if b = [] then null else bstr b

def encBranch (p : PBranch) : Bytes := arr [bstr p.hash, arr (p.children.map childBstr)]
def encValue (p : PValue) : Bytes := arr [bstr p.value, bstr p.hash, uint p.weight]
def encShort (p : PShort) : Bytes := arr [bstr p.key, bstr p.hash, bstr p.value]
def encHash (p : PHash) : Bytes := arr [bstr p.hash, uint p.weight]

def optEntry {α} (key : Nat) (enc : α → Bytes) : Option α → List Bytes
  | some a => [uint key ++ enc a]
  | none => []

/-- `cbor.Marshal(&PersistNodeBase{…})` -/
def encBase (p : PBase) : Bytes :=
  let es := optEntry 10 encBranch p.branch ++ optEntry 11 encValue p.value ++ optEntry 12 encShort p.short
    ++ (if p.nilNode then [uint 13 ++ [0xa0]] else []) ++ optEntry 14 encHash p.hashNode
  head 5 es.length ++ es.flatten

/-- `cbor.Marshal(&PersistTrie{Pairs: …})` where each pair holds one byte string -/
def encTrie (pairs : List Bytes) : Bytes :=
  arr [if pairs = [] then null else arr (pairs.map (fun v => arr [bstr v]))]

/-! ### Decoder -/

inductive Item where
  | uint (n : Nat)
  | nint (n : Nat)
  | bstr (b : Bytes)
  | tstr (b : Bytes)
  | arr (l : List Item)
  | map (l : List (Item × Item))
  | tag (n : Nat) (i : Item)
  | simple (n : Nat)
  deriving Inhabited

def natOfBytes (b : Bytes) : Nat := b.foldl (fun acc x => acc * 256 + x.toNat) 0

/-- initial byte and argument: (major, argument, rest) -/
def decHead : Bytes → Option (Nat × Nat × Bytes)
  | [] => none
  | ib :: rest =>
    let major := ib.toNat / 32
    let ai := ib.toNat % 32
    if ai < 24 then some (major, ai, rest)
    else
      let k := if ai = 24 then 1 else if ai = 25 then 2 else if ai = 26 then 4 else if ai = 27 then 8 else 0
      if k = 0 then none
      else if rest.length < k then none
      else some (major, natOfBytes (rest.take k), rest.drop k)

def pairUp : List Item → List (Item × Item)
  | a :: b :: r => (a, b) :: pairUp r
  | _ => []

mutual
/-- one data item; `fuel` bounds nesting depth plus the number of items visited (see `decTop`) -/
def decItem : Nat → Bytes → Option (Item × Bytes)
  | 0, _ => none
  | fuel + 1, b =>
    match decHead b with
    | none => none
    | some (major, n, rest) =>
      if major = 0 then some (.uint n, rest)
      else if major = 1 then some (.nint n, rest)
      else if major = 2 then (if rest.length < n then none else some (.bstr (rest.take n), rest.drop n))
      else if major = 3 then (if rest.length < n then none else some (.tstr (rest.take n), rest.drop n))
      else if major = 4 then
        match decItems fuel n rest with
        | some (l, r) => some (.arr l, r)
        | none => none
      else if major = 5 then
        match decItems fuel (2 * n) rest with
        | some (l, r) => some (.map (pairUp l), r)
        | none => none
      else if major = 6 then
        match decItem fuel rest with
        | some (i, r) => some (.tag n i, r)
        | none => none
      else
        -- major type 7: null (0xf6) and undefined (0xf7) matter; a two-byte simple value below 32 is malformed;
        -- everything else (false, true, floats, other simple values) is "some other item"
        match b with
        | 0xf6 :: _ => some (.simple 22, rest)
        | 0xf7 :: _ => some (.simple 23, rest)
        | 0xf8 :: _ => if n < 32 then none else some (.simple 0, rest)
        | _ => some (.simple 0, rest)
/-- `n` consecutive items -/
def decItems : Nat → Nat → Bytes → Option (List Item × Bytes)
  | _, 0, b => some ([], b)
  | 0, _ + 1, _ => none
  | fuel + 1, n + 1, b =>
    if b.length < n + 1 then none
    else
      match decItem fuel b with
      | none => none
      | some (i, r) =>
        match decItems fuel n r with
        | none => none
        | some (l, r') => some (i :: l, r')
end

/-- a whole input: exactly one item, no trailing bytes. Fuel: every step of `decItem` / `decItems` either descends one
    nesting level or moves to the next item of a sequence; an input of n bytes has at most n items and nesting depth
    at most n, so 2 n + 2 steps always suffice. -/
def decTop (b : Bytes) : Option Item :=
  match decItem (2 * b.length + 2) b with
  | some (i, []) => some i
  | _ => none

def asBytes : Item → Option Bytes
  | .bstr b => some b
  | .simple 22 => some []
  | .simple 23 => some []
  | _ => none

def asNat : Item → Option Nat
  | .uint n => some n
  | _ => none

def asBytesList : Item → Option (List Bytes)
  | .arr l => l.mapM asBytes
  | .simple 22 => some []
  | .simple 23 => some []
  | _ => none

def asBranch : Item → Option PBranch
  | .arr [h, c] => do pure ⟨← asBytes h, ← asBytesList c⟩
  | _ => none

def asValue : Item → Option PValue
  | .arr [v, h, w] => do pure ⟨← asBytes v, ← asBytes h, ← asNat w⟩
  | _ => none

def asShort : Item → Option PShort
  | .arr [k, h, v] => do pure ⟨← asBytes k, ← asBytes h, ← asBytes v⟩
  | _ => none

def asHash : Item → Option PHash
  | .arr [h, w] => do pure ⟨← asBytes h, ← asNat w⟩
  | _ => none

def isNull : Item → Bool
  | .simple 22 => true
  | .simple 23 => true
  | _ => false

/-- one map entry into the accumulated structure (a null value leaves the pointer field nil) -/
def baseEntry (p : PBase) (k v : Item) : Option PBase :=
  match k with
  | .uint 10 => if isNull v then some p else do pure { p with branch := some (← asBranch v) }
  | .uint 11 => if isNull v then some p else do pure { p with value := some (← asValue v) }
  | .uint 12 => if isNull v then some p else do pure { p with short := some (← asShort v) }
  | .uint 13 => if isNull v then some p else (match v with | .map _ => some { p with nilNode := true } | _ => none)
  | .uint 14 => if isNull v then some p else do pure { p with hashNode := some (← asHash v) }
  | _ => none

def asBase : Item → Option PBase
  | .map l => l.foldlM (fun p kv => baseEntry p kv.1 kv.2) {}
  | _ => none

/-- `cbor.Unmarshal(data, &PersistNodeBase{})` -/
def decBase (b : Bytes) : Option PBase := decTop b >>= asBase

def asPair : Item → Option (Option Bytes)
  | .arr [v] => (asBytes v).map some
  | .simple 22 => some none
  | .simple 23 => some none
  | _ => none

/-- `Unmarshal(data, &PersistTrie{})`: the pair values; a null pair is `none` -/
def decTrie (b : Bytes) : Option (List (Option Bytes)) :=
  match decTop b with
  | some (.arr [.arr l]) => l.mapM asPair
  | some (.arr [.simple 22]) => some []
  | some (.arr [.simple 23]) => some []
  | _ => none

end Verif.Wmpt.Cbor
