import Verif.Model.StateCacheConc
/-!
# Block caches and transaction caches in the interleaving model (C08)

`LConc` puts the other two layers on top of `Conc` at the granularity the lock facts justify (`layer_lock_facts`): every
operation is atomic with respect to ITS OWN object (it holds that object's mutex for one critical section) and enters
another object's mutex once per call into it.

* `BlockCache.Set`, `TransactionCache.Set / Remove`: one step.
* `BlockCache.Get`: one step under `bc.mu` that reads the pending map; on a miss there it reads `base` (own hash after the
  commit, parent before) and the rest of the lookup is a `StateCache.Get` thread of `Conc` (spawned in that step). Go
  keeps `bc.mu` (deferred unlock, blockcache.go) while `main.Get` runs: the block cache is `busy` until that thread is
  done — no Set / Get / setValue / Commit on it meanwhile.
* `TransactionCache.Get`: the transaction's map, then the block cache as above (the transaction's own map cannot change
  between its two reads: `Commit` needs `tc.mu` exclusively; reading both in one step loses no behaviour).
* `TransactionCache.Commit`: `tcBegin` takes `tc.mu` (no Set / Remove / Get / second Commit of that transaction until the
  end) and snapshots the write set; then ONE STEP PER KEY (`tcApply`: `main.setValue` under `bc.mu`), in any interleaving
  with other users of the block cache; the step that applies the last key also clears the transaction's map.
* `BlockCache.Commit`: `bcBegin` takes `bc.mu` (the block cache is `busy`: Set / Get / setValue / Commit on it are blocked),
  reads hash, parent and the pending map and spawns a `StateCache.commit` thread of `Conc`; when that thread is done the
  pending map is cleared and `committed` set iff the commit took effect, and `bc.mu` is released.
-/
namespace Verif.SC

variable {H K B V : Type} [DecidableEq H] [DecidableEq K] [DecidableEq B]

/-- a transaction commit in flight: block-cache handle and the entries still to be applied -/
structure TJob (H K V : Type) where
  t : H
  h : H
  rest : List (K × Entry V)

structure LConc (H K B V : Type) where
  base : Conc K B V
  bcs : List (H × BC K B V)
  tcs : List (H × TC H K B V)
  busy : List (H × Nat)                 -- block cache ↦ committer thread of `base` that holds its mutex
  jobs : List (TJob H K V)              -- transaction commits in flight (they hold `tc.mu`)
  direct : List (H × K × Option V)      -- lookups answered from a pending map: (handle, key, result)

inductive LStep (H K B V : Type) where
  | sc (tid : Nat)                      -- a step of a StateCache.Get / StateCache.commit thread
  | bset (h : H) (k : K) (v : V)
  | bget (h : H) (k : K)
  | bcBegin (h : H)
  | tset (t : H) (k : K) (v : V)
  | trem (t : H) (k : K)
  | tget (t : H) (k : K)
  | tcBegin (t : H)
  | tcApply (t : H)

def LConc.inJob (l : LConc H K B V) (t : H) : Bool := l.jobs.any (fun j => j.t == t)
def LConc.isBusy (l : LConc H K B V) (h : H) : Bool := (alookup l.busy h).isSome

def Conc.spawn (c : Conc K B V) (th : Thread K B V) : Conc K B V := { c with threads := c.threads ++ [th] }

/-- the block-cache part of a lookup: pending map under `bc.mu`, else a `StateCache.Get` thread at `base` -/
def LConc.lookupBlock (l : LConc H K B V) (who h : H) (k : K) : LConc H K B V :=
  match alookup l.bcs h with
  | none => l
  | some bc =>
    if l.isBusy h then l else
    match alookup bc.cache k with
    | some e => { l with direct := (who, k, e.result) :: l.direct }
    | none =>
      -- `defer pcc.mu.Unlock()`: the block cache's mutex stays held until the state-cache lookup has returned
      { l with busy := aset l.busy h l.base.threads.length, base := l.base.spawn (.reader (Reader.init k bc.base)) }

def LConc.step (l : LConc H K B V) : LStep H K B V → LConc H K B V
  | .sc tid =>
    let base' := l.base.step tid
    -- a `BlockCache.Commit` whose `StateCache.commit` thread has just returned releases its block cache
    match l.busy.find? (fun p => p.2 == tid), base'.threads[tid]? with
    | some (h, _), some (.committer m) =>
      match m.pc, alookup l.bcs h with
      | .done eff, some bc =>
        { l with base := base', busy := aerase l.busy h,
                 bcs := aset l.bcs h (if eff then { bc with cache := [], committed := true } else bc) }
      | _, _ => { l with base := base' }
    | some (h, _), some (.reader r) =>
      -- a `BlockCache.Get` whose `StateCache.Get` has just returned releases the block cache's mutex
      match r.pc with
      | .done _ => { l with base := base', busy := aerase l.busy h }
      | _ => { l with base := base' }
    | _, _ => { l with base := base' }
  | .bset h k v =>
    match alookup l.bcs h with
    | some bc => if l.isBusy h then l else { l with bcs := aset l.bcs h (bc.set k v) }
    | none => l
  | .bget h k => l.lookupBlock h h k
  | .bcBegin h =>
    match alookup l.bcs h with
    | some bc =>
      if l.isBusy h then l else
      { l with busy := aset l.busy h l.base.threads.length,
               base := l.base.spawn (.committer ⟨bc.hash, bc.prev, bc.cache, .start⟩) }
    | none => l
  | .tset t k v =>
    match alookup l.tcs t with
    | some tc => if l.inJob t then l else { l with tcs := aset l.tcs t { tc with cache := aset tc.cache k (.val v) } }
    | none => l
  | .trem t k =>
    match alookup l.tcs t with
    | some tc => if l.inJob t then l else { l with tcs := aset l.tcs t { tc with cache := aset tc.cache k .tomb } }
    | none => l
  | .tget t k =>
    match alookup l.tcs t with
    | some tc =>
      if l.inJob t then l else
      match alookup tc.cache k with
      | some e => { l with direct := (t, k, e.result) :: l.direct }
      | none =>
        match tc.main with
        | .block h => l.lookupBlock t h k
        | .query b => { l with base := l.base.spawn (.reader (Reader.init k b)) }
    | none => l
  | .tcBegin t =>
    match alookup l.tcs t with
    | some tc =>
      match tc.main with
      | .block h => if l.inJob t then l else { l with jobs := ⟨t, h, tc.cache⟩ :: l.jobs }
      | .query _ => l
    | none => l
  | .tcApply t =>
    match l.jobs.find? (fun j => j.t == t) with
    | none => l
    | some j =>
      match j.rest with
      | [] =>
        -- nothing (left) to apply: clear the transaction's map, release `tc.mu`
        match alookup l.tcs t with
        | some tc => { l with jobs := l.jobs.filter (fun j' => !(j'.t == t)), tcs := aset l.tcs t { tc with cache := [] } }
        | none => { l with jobs := l.jobs.filter (fun j' => !(j'.t == t)) }
      | (k, e) :: rest =>
        match alookup l.bcs j.h with
        | some bc =>
          if l.isBusy j.h then l else
          { l with bcs := aset l.bcs j.h (bc.setValue k e),
                   jobs := l.jobs.map (fun j' => if j'.t == t then { j' with rest := rest } else j') }
        | none => l

def LConc.run (l : LConc H K B V) (sched : List (LStep H K B V)) : LConc H K B V := sched.foldl LConc.step l

end Verif.SC
