import Verif.Model.Merkle
/-!
# The Merkle tree with Go's run-time index checks

`Verif.Model.Merkle` reads and writes the flat array with total primitives.  Here every index expression of
`merkle_tree.go` is a *checked* primitive that yields `.panic` exactly where the Go run time panics (index out of
range — also for negative `int` indices —, `make` with a negative length, nil `*MTPath`), and the functions follow the
Go code statement by statement.  `Verif/Lemmas/MerkleChecked.lean` proves that on the inputs of the property (at
least one leaf, `0 ≤ idx < n`) nothing panics and the results are those of the total model, and characterises
inputs that do panic.
-/
namespace Verif.Merkle

variable {α : Type}

/-- result of a Go computation that may panic -/
inductive Chk (β : Type) where
  | ok (b : β)
  | panic
deriving Repr, DecidableEq

/-- `t[i]`, `i` a non-negative index expression -/
def rd (t : Array α) (i : Nat) : Chk α := if h : i < t.size then .ok t[i] else .panic

/-- `t[i]`, `i` a Go `int` (negative ⇒ panic) -/
def rdI (t : Array α) (i : Int) : Chk α := if 0 ≤ i then rd t i.toNat else .panic

/-- `t[i] = v` -/
def wr (t : Array α) (i : Nat) (v : α) : Chk (Array α) :=
  if i < t.size then .ok (t.setIfInBounds i v) else .panic

/-- `for idx, h := range hashes { tree[idx] = h.GetHash() }` -/
def copyLoopC : List α → Nat → Array α → Chk (Array α)
  | [], _, t => .ok t
  | h :: r, idx, t =>
    match wr t idx h with
    | .ok t' => copyLoopC r (idx + 1) t'
    | .panic => .panic

/-- the pair loop of `ComputeTree`, checked -/
def innerLoopC (H : α → α → α) (pl0 plsize : Nat) (i j : Nat) (t : Array α) : Chk (Array α) :=
  if _h : i < plsize then
    match rd t (pl0 + i), rd t (pl0 + i + 1) with
    | .ok a, .ok b =>
      match wr t (pl0 + plsize + j) (H a b) with
      | .ok t' => innerLoopC H pl0 plsize (i + 2) (j + 1) t'
      | .panic => .panic
    | _, _ => .panic
  else .ok t
termination_by plsize - i
decreasing_by omega

def levelPassC (H : α → α → α) (pl0 plsize : Nat) (t : Array α) : Chk (Array α) :=
  match innerLoopC H pl0 plsize 0 0 t with
  | .ok t1 =>
    if plsize % 2 = 1 then
      match rd t1 (pl0 + plsize - 1) with
      | .ok a => wr t1 (pl0 + plsize + plsize / 2) (H a a)
      | .panic => .panic
    else .ok t1
  | .panic => .panic

def outerLoopC (H : α → α → α) (pl0 plsize : Nat) (t : Array α) : Chk (Array α) :=
  if _h : 1 < plsize then
    match levelPassC H pl0 plsize t with
    | .ok t' => outerLoopC H (pl0 + plsize) ((plsize + 1) / 2) t'
    | .panic => .panic
  else .ok t
termination_by plsize
decreasing_by omega

/-- `ComputeTree` (any list, the empty one included) -/
def computeTreeC (H : α → α → α) (z : α) (ls : List α) : Chk (Tree α) :=
  let n := ls.length
  let sz := computeSize n
  match copyLoopC ls 0 (Array.replicate sz.1 z) with
  | .panic => .panic
  | .ok t0 =>
    let r :=
      if n = 1 then
        match rd t0 0 with
        | .ok a => wr t0 1 (H a a)
        | .panic => .panic
      else outerLoopC H 0 n t0
    match r with
    | .ok t => .ok { tree := t, leavesCount := n, levels := sz.2 }
    | .panic => .panic

/-- the zero value `&MerkleTree{}` (nothing computed or loaded) -/
def zeroTree : Tree α := { tree := #[], leavesCount := 0, levels := 0 }

/-- `GetRoot`: `mt.tree[len(mt.tree)-1]` -/
def getRootC (t : Tree α) : Chk α := rdI t.tree ((t.tree.size : Int) - 1)

/-- `SetTree(leavesCount int, tree)`; a negative count behaves as 0 everywhere it is used afterwards (`computeSize`,
the `< leavesCount` comparisons, the loop bounds), so it is stored as 0 -/
def setTreeC (leavesCount : Int) (tree : Array α) : Option (Tree α) := setTree leavesCount.toNat tree

/-- the loop of `GetPathByIndex` with `int` arithmetic on `idx` and checked reads / writes -/
def pathLoopC (z : α) (t : Array α) (pl0 plsize pi : Nat) (idx : Int) (path : List α) : Chk (List α) :=
  if _h : 2 < plsize then
    let l0 : Int := (pl0 + plsize : Nat)
    let idx := (idx - idx % 2) / 2
    let v :=
      if idx % 2 = 1 then rdI t (l0 + idx - 1)
      else if l0 + idx + 1 < l0 + ((plsize + 1) / 2 : Nat) then rdI t (l0 + idx + 1)
      else rdI t (l0 + idx)
    match v with
    | .ok v =>
      if pi < path.length then pathLoopC z t (pl0 + plsize) ((plsize + 1) / 2) (pi + 1) idx (path.set pi v)
      else .panic
    | .panic => .panic
  else .ok path
termination_by plsize
decreasing_by omega

/-- `GetPathByIndex(idx int)` -/
def pathByIndexC (z : α) (t : Tree α) (idx : Int) : Chk (Path α) :=
  if t.levels = 0 then .panic            -- make([]string, -1)
  else
    let path := List.replicate (t.levels - 1) z
    let p0 :=
      if idx % 2 = 1 then rdI t.tree (idx - 1)
      else if idx + 1 < (t.leavesCount : Int) then rdI t.tree (idx + 1)
      else rdI t.tree idx
    match p0 with
    | .ok p0 =>
      if 0 < path.length then
        match pathLoopC z t.tree 0 t.leavesCount 1 idx (path.set 0 p0) with
        | .ok nodes => .ok { nodes := nodes, leafIndex := idx }
        | .panic => .panic
      else .panic
    | .panic => .panic

/-- the loop of `GetLeafIndex`, checked -/
def leafIndexLoopC [DecidableEq α] (t : Array α) (h : α) (i : Nat) : Nat → Chk (Option Nat)
  | 0 => .ok none
  | fuel + 1 =>
    match rd t i with
    | .ok x => if x = h then .ok (some i) else leafIndexLoopC t h (i + 1) fuel
    | .panic => .panic

/-- `GetPath` -/
def getPathC [DecidableEq α] (z : α) (t : Tree α) (h : α) : Chk (Path α) :=
  match leafIndexLoopC t.tree h 0 t.leavesCount with
  | .ok none => .ok { nodes := [], leafIndex := 0 }
  | .ok (some i) => pathByIndexC z t i
  | .panic => .panic

/-- the loop of `VerifyMerklePath`: `for i := 0; i < pl; i++ { … pathNodes[i] … }` with the slice read checked -/
def verifyLoopC (H : α → α → α) (nodes : Array α) (i : Nat) (h : α) (idx : Int) : Nat → Chk α
  | 0 => .ok h
  | fuel + 1 =>
    match rd nodes i with
    | .ok s => verifyLoopC H nodes (i + 1) (if idx % 2 = 1 then H s h else H h s) ((idx - idx % 2) / 2) fuel
    | .panic => .panic

/-- `VerifyMerklePath(hash, path *MTPath, root)`; a nil `path` is dereferenced ⇒ panic -/
def verifyC [DecidableEq α] (H : α → α → α) (h : α) (p : Option (Path α)) (root : α) : Chk Bool :=
  match p with
  | none => .panic
  | some p =>
    match verifyLoopC H p.nodes.toArray 0 h p.leafIndex p.nodes.length with
    | .ok x => .ok (decide (x = root))
    | .panic => .panic

/-- `MerkleTree.VerifyPath`: `VerifyMerklePath(hash.GetHash(), path, mt.GetRoot())` -/
def verifyPathC [DecidableEq α] (H : α → α → α) (t : Tree α) (h : α) (p : Option (Path α)) : Chk Bool :=
  match getRootC t with
  | .ok root => verifyC H h p root
  | .panic => .panic

end Verif.Merkle
