/-!
# Model of the Merkle tree (`/repo/core/util/merkle_tree.go`, `merkle_tree_interface.go`)

Hashes are values of an arbitrary type `α` (hex strings in Go); the pair hash `MHash(a,b) = Hash(a+b)` is a
parameter `H : α → α → α`; `z` is the zero value a fresh Go slice is filled with (`""`).

The tree is the flat array of the Go code — all levels concatenated, leaves first, root last — and the functions
below follow the Go loops and their index arithmetic one to one: `computeSize`, `ComputeTree` (outer loop over the
levels, inner pair loop which on an odd level reads one slot past the level, the odd-level fix-up, the
single-leaf special case), `GetPathByIndex`, `VerifyMerklePath`, `GetLeafIndex`/`GetPath`, `SetTree`.
Array accesses are total here (`getD`, `setIfInBounds`); the Go code would panic on an out-of-range index.

The specification is `levels`: the list of levels, each the pairwise hash of the previous one with the last
node paired with itself when the level is odd.
-/
namespace Verif.Merkle

variable {α : Type}

/-! ## Specification -/

/-- hash adjacent pairs; a last node without partner is paired with itself -/
def pairUp (H : α → α → α) : List α → List α
  | [] => []
  | [a] => [H a a]
  | a :: b :: r => H a b :: pairUp H r

theorem length_pairUp (H : α → α → α) : ∀ l : List α, (pairUp H l).length = (l.length + 1) / 2
  | [] => by simp [pairUp]
  | [_] => by simp [pairUp]
  | _ :: _ :: r => by
    simp only [pairUp, List.length_cons, length_pairUp H r]
    omega

/-- the levels above (and including) `l`, up to the single root -/
def levelsFrom (H : α → α → α) (l : List α) : List (List α) :=
  if _h : 1 < l.length then l :: levelsFrom H (pairUp H l) else [l]
termination_by l.length
decreasing_by rw [length_pairUp]; omega

/-- all levels of the tree over the leaves `l`; a single leaf `a` gets the root `H a a` -/
def levels (H : α → α → α) : List α → List (List α)
  | [a] => [[a], [H a a]]
  | l => levelsFrom H l

/-! ## `computeSize` -/

/-- `for ll := leaves; ll > 1; ll = (ll+1)/2 { tsize += ll; levels++ }; tsize++; levels++` -/
def sizeLoop (ll tsize levels : Nat) : Nat × Nat :=
  if _h : 1 < ll then sizeLoop ((ll + 1) / 2) (tsize + ll) (levels + 1) else (tsize + 1, levels + 1)
termination_by ll
decreasing_by omega

/-- `(tree size, number of levels)` for a number of leaves -/
def computeSize (leaves : Nat) : Nat × Nat :=
  if leaves = 1 then (2, 2) else sizeLoop leaves 0 0

/-! ## `ComputeTree` -/

structure Tree (α : Type) where
  tree : Array α
  leavesCount : Nat
  levels : Nat

/-- `for i, j := 0, 0; i < plsize; i, j = i+2, j+1 { tree[pl0+plsize+j] = MHash(tree[pl0+i], tree[pl0+i+1]) }` -/
def innerLoop (H : α → α → α) (z : α) (pl0 plsize : Nat) (i j : Nat) (t : Array α) : Array α :=
  if _h : i < plsize then
    innerLoop H z pl0 plsize (i + 2) (j + 1)
      (t.setIfInBounds (pl0 + plsize + j) (H (t.getD (pl0 + i) z) (t.getD (pl0 + i + 1) z)))
  else t
termination_by plsize - i
decreasing_by omega

/-- one pass of the outer loop body: the pair loop, then
`if plsize&1 == 1 { tree[l0+plsize/2] = MHash(tree[pl0+plsize-1], tree[pl0+plsize-1]) }` -/
def levelPass (H : α → α → α) (z : α) (pl0 plsize : Nat) (t : Array α) : Array α :=
  let l0 := pl0 + plsize
  let t1 := innerLoop H z pl0 plsize 0 0 t
  if plsize % 2 = 1 then
    t1.setIfInBounds (l0 + plsize / 2) (H (t1.getD (pl0 + plsize - 1) z) (t1.getD (pl0 + plsize - 1) z))
  else t1

/-- `for pl0, plsize := 0, leavesCount; plsize > 1; pl0, plsize = pl0+plsize, (plsize+1)/2 { ... }` -/
def outerLoop (H : α → α → α) (z : α) (pl0 plsize : Nat) (t : Array α) : Array α :=
  if _h : 1 < plsize then
    outerLoop H z (pl0 + plsize) ((plsize + 1) / 2) (levelPass H z pl0 plsize t)
  else t
termination_by plsize
decreasing_by omega

/-- `ComputeTree`: allocate `tsize` slots, copy the leaf hashes to the front, then either the single-leaf special
case or the level loop. -/
def computeTree (H : α → α → α) (z : α) (ls : List α) : Tree α :=
  let n := ls.length
  let sz := computeSize n
  let t0 : Array α := (ls ++ List.replicate (sz.1 - n) z).toArray
  let t :=
    if n = 1 then t0.setIfInBounds 1 (H (t0.getD 0 z) (t0.getD 0 z))
    else outerLoop H z 0 n t0
  { tree := t, leavesCount := n, levels := sz.2 }

/-- `GetRoot`: `tree[len(tree)-1]` -/
def getRoot (z : α) (t : Tree α) : α := t.tree.getD (t.tree.size - 1) z

/-- `SetTree`: accepted iff the array has the size `computeSize leavesCount` prescribes -/
def setTree (leavesCount : Nat) (tree : Array α) : Option (Tree α) :=
  let sz := computeSize leavesCount
  if sz.1 ≠ tree.size then none
  else some { tree := tree, leavesCount := leavesCount, levels := sz.2 }

/-! ## Paths -/

/-- `MTPath` -/
structure Path (α : Type) where
  nodes : List α
  leafIndex : Int

/-- the loop of `GetPathByIndex`: at `(pl0, plsize)` it looks at the *next* level (offset `l0 = pl0+plsize`, size
`(plsize+1)/2`), halves `idx` and stores the sibling there — or the node itself when it is the last one and
has none — at `path[pi]`. -/
def pathLoop (z : α) (t : Array α) (pl0 plsize pi idx : Nat) (path : List α) : List α :=
  if _h : 2 < plsize then
    let l0 := pl0 + plsize
    let idx := (idx - idx % 2) / 2
    let v :=
      if idx % 2 = 1 then t.getD (l0 + idx - 1) z
      else if l0 + idx + 1 < l0 + (plsize + 1) / 2 then t.getD (l0 + idx + 1) z
      else t.getD (l0 + idx) z
    pathLoop z t (pl0 + plsize) ((plsize + 1) / 2) (pi + 1) idx (path.set pi v)
  else path
termination_by plsize
decreasing_by omega

/-- `GetPathByIndex` -/
def pathByIndex (z : α) (t : Tree α) (idx : Nat) : Path α :=
  let path := List.replicate (t.levels - 1) z
  let p0 :=
    if idx % 2 = 1 then t.tree.getD (idx - 1) z
    else if idx + 1 < t.leavesCount then t.tree.getD (idx + 1) z
    else t.tree.getD idx z
  { nodes := pathLoop z t.tree 0 t.leavesCount 1 idx (path.set 0 p0), leafIndex := idx }

/-- the loop of `GetLeafIndex`: first `i < leavesCount` with `tree[i] == hs` -/
def leafIndexLoop [DecidableEq α] (z : α) (t : Array α) (h : α) (i : Nat) : Nat → Option Nat
  | 0 => none
  | fuel + 1 => if t.getD i z = h then some i else leafIndexLoop z t h (i + 1) fuel

def getLeafIndex [DecidableEq α] (z : α) (t : Tree α) (h : α) : Option Nat :=
  leafIndexLoop z t.tree h 0 t.leavesCount

/-- `GetPath`: the empty path `&MTPath{}` when the hash is not a leaf -/
def getPath [DecidableEq α] (z : α) (t : Tree α) (h : α) : Path α :=
  match getLeafIndex z t h with
  | none => { nodes := [], leafIndex := 0 }
  | some i => pathByIndex z t i

/-- the loop of `VerifyMerklePath`; Go's `idx&1 == 1` is `idx % 2 = 1` and `(idx - idx&1) / 2` is exact, also for
negative `idx` (two's complement) -/
def verifyFold (H : α → α → α) : α → List α → Int → α
  | h, [], _ => h
  | h, s :: r, idx =>
    verifyFold H (if idx % 2 = 1 then H s h else H h s) r ((idx - idx % 2) / 2)

/-- `VerifyMerklePath(hash, path, root)`; `MerkleTree.VerifyPath` is this with `root = GetRoot()` -/
def verify [DecidableEq α] (H : α → α → α) (h : α) (p : Path α) (root : α) : Bool :=
  decide (verifyFold H h p.nodes p.leafIndex = root)

end Verif.Merkle
