/-
Histories of the weighted trie over one storage: the operations of the C11 / C13 statements as a fold, the reopened
trie (`New(NewHashNode(root, weight), sameStorage)`) and "observationally identical" (same total weight, same owner
and same proof bytes for every block).  Core Lean only.
-/
import Verif.Model.WmptProof
namespace Verif.Wmpt

inductive HOp where
  | upd (key : List Nib) (v : Bytes) (w : Nat)
  | del (key : List Nib)
  | root                       -- Root()
  | commit (lvl : Int)         -- Commit(lvl) and application of its batch
  | gc                         -- DeleteNodes()
  | saveRoot
  | rollback

structure HState where
  t : WT := {}
  puts : List (Bytes × Bytes) := []     -- every (key, data) ever written, for the collision side condition

section
variable (H : Bytes → Bytes)

def hstep (s : HState) : HOp → HState
  | .upd key v w => { s with t := (update H s.t key v w).1 }
  | .del key => { s with t := (deleteKey H s.t key).1 }
  | .root => { s with t := (rootHash H s.t).1 }
  | .commit lvl =>
    let r := commit H s.t lvl
    { t := { r.1 with store := r.1.store.apply r.2 },
      puts := s.puts ++ r.2.filterMap (fun o => match o with | .put k v => some (k, v) | .del _ => none) }
  | .gc => { s with t := (deleteNodes s.t).1 }
  | .saveRoot => { s with t := saveRoot H s.t }
  | .rollback => { s with t := (rollback s.t).1 }

def hrun (ops : List HOp) : HState := ops.foldl (hstep H) {}

/-- `New(NewHashNode(Root(), Weight()), sameStorage)` (the empty trie for weight 0) -/
def reopen (t : WT) : WT :=
  let r := rootHash H t
  { root := if r.1.weight = 0 then .empty else .hashRef r.2 r.1.weight, store := t.store }

def Res.isOk {α} : Res α → Bool
  | .ok _ => true
  | .err _ => false

/-- same total weight; for every block 1..weight both tries name the same owner and produce the same proof bytes -/
def sameAnswers (a b : WT) : Prop :=
  a.weight = b.weight ∧
    ∀ blk ∈ List.range' 1 a.weight, (blockProof H a blk).2 = (blockProof H b blk).2 ∧ Res.isOk (blockProof H a blk).2 = true

instance (a b : WT) : Decidable (sameAnswers H a b) := by unfold sameAnswers; infer_instance

/-- the hash pre-image of a stored node, recomputed from its stored form -/
def storedPreimage (p : PBase) : Bytes :=
  match p.branch, p.value, p.short with
  | some b, _, _ =>
    be64 ((b.children.filter (fun c => c.length ≥ 40)).foldl (fun acc c => acc + be64Dec (c.drop 32)) 0) ++
      b.children.flatMap (fun c => if c.length ≥ 40 then c.take 32 else emptyHash H)
  | none, some v, _ => be64 v.weight ++ v.value
  | none, none, some s => s.key ++ s.value.take 32
  | none, none, none => []

/-- the hash pre-images of everything a history wrote -/
def putPreimages (puts : List (Bytes × Bytes)) : List Bytes :=
  (puts.filterMap (fun kd => (Cbor.decBase kd.2).map (storedPreimage H))).eraseDups

end
end Verif.Wmpt
