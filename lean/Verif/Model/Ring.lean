/-!
# Model of the in-memory log ring buffer (`/repo/core/logging/inmemory_logger.go`)

Go state and its model:

* `ring.New(BufferSize)` — a circular list of `cap` slots, each `nil` or a `*LoggedEntry`:
  `slots : List (Option ε)` of length `cap`; slot `i`'s successor (`r.Next()`) is slot `(i+1) % cap`.
* A `*ring.Ring` value is a position in that ring: a `Nat` index.  A *cursor cell* is a memory cell holding
  such a position (`MemCore.r`, addressed through `MemCore.cur **ring.Ring`): `cells : List Nat`.
* A `MemCore` is, for the buffer, which cursor cell it writes through and which mutex it locks: `Core`.
  Core `0` is `MemLogger.core`.

Code at HEAD (after the `fix:` commit): `clone()` gives the derived core the *same* cursor cell
(`cur: mc.cursor()`) and the *same* mutex (`mu: mc.mu`) → `derive`.
Code before the fix (70d872e): `clone()` copied the cursor *by value* (`r: mc.r`) into the new core and
gave it a fresh mutex → `deriveOld`, kept only for the counter-example of C20.

`Write` stores a fresh entry at the position held in the core's cursor cell and advances that cell.
`GetLogs` walks the ring once (`Ring.Do`) from the position in the *root* core's cell — oldest slot first —
and fills its result from the back, so the returned slice is the non-nil slots in reverse visiting order.
-/
namespace Verif.Ring

structure Core where
  /-- index of the cursor cell this core writes through -/
  cell : Nat
  /-- identity of the mutex this core locks -/
  mu : Nat
deriving DecidableEq, Repr

structure State (ε : Type) where
  slots : List (Option ε)
  cells : List Nat
  cores : List Core
  /-- number of mutexes allocated so far -/
  mutexes : Nat

variable {ε : Type}

/-- `NewMemLogger`: an empty ring, one cursor cell at slot 0, the root core, one mutex -/
def init (cap : Nat) : State ε :=
  { slots := List.replicate cap none, cells := [0], cores := [⟨0, 0⟩], mutexes := 1 }

/-- `MemCore.With` → `clone()` at HEAD: same ring, same cursor cell, same mutex. -/
def derive (s : State ε) (c : Nat) : State ε :=
  match s.cores[c]? with
  | some k => { s with cores := s.cores ++ [⟨k.cell, k.mu⟩] }
  | none => s

/-- `clone()` before the fix: the cursor is copied by value into a new cell, the mutex is new. -/
def deriveOld (s : State ε) (c : Nat) : State ε :=
  match s.cores[c]? with
  | some k =>
    { s with cells := s.cells ++ [s.cells.getD k.cell 0],
             cores := s.cores ++ [⟨s.cells.length, s.mutexes⟩],
             mutexes := s.mutexes + 1 }
  | none => s

/-- `MemCore.Write`: `r := *cur; r.Value = entry; *cur = r.Next()` -/
def write (s : State ε) (c : Nat) (e : ε) : State ε :=
  match s.cores[c]? with
  | some k =>
    let i := s.cells.getD k.cell 0
    { s with slots := s.slots.set i (some e),
             cells := s.cells.set k.cell ((i + 1) % s.slots.length) }
  | none => s

/-- first half of `Write`: `r := *cur; r.Value = entry` -/
def writeStore (s : State ε) (c : Nat) (e : ε) : State ε :=
  match s.cores[c]? with
  | some k => { s with slots := s.slots.set (s.cells.getD k.cell 0) (some e) }
  | none => s

/-- second half of `Write`: `*cur = r.Next()` -/
def writeAdvance (s : State ε) (c : Nat) : State ε :=
  match s.cores[c]? with
  | some k => { s with cells := s.cells.set k.cell ((s.cells.getD k.cell 0 + 1) % s.slots.length) }
  | none => s

theorem write_eq_steps (s : State ε) (c : Nat) (e : ε) : write s c e = writeAdvance (writeStore s c e) c := by
  unfold write writeAdvance writeStore
  cases h : s.cores[c]? with
  | none => simp [h]
  | some k => simp [h]

/-- the slots in the order `Ring.Do` visits them from the root core's cursor: oldest first -/
def visit (s : State ε) : List (Option ε) :=
  let i := s.cells.getD ((s.cores.getD 0 ⟨0, 0⟩).cell) 0
  s.slots.drop i ++ s.slots.take i

/-- `MemLogger.GetLogs`: non-nil slots, newest first -/
def getLogs (s : State ε) : List ε :=
  ((visit s).filterMap id).reverse

/-- operations of a history: a write through core `c`, a derivation from core `c` -/
inductive Op (ε : Type) where
  | write (core : Nat) (e : ε)
  | derive (core : Nat)
deriving Repr

def step (s : State ε) : Op ε → State ε
  | .write c e => write s c e
  | .derive c => derive s c

def stepOld (s : State ε) : Op ε → State ε
  | .write c e => write s c e
  | .derive c => deriveOld s c

def run (s : State ε) (h : List (Op ε)) : State ε := h.foldl step s
def runOld (s : State ε) (h : List (Op ε)) : State ε := h.foldl stepOld s

/-! ## Specification: one append-only log shared by all loggers -/

structure Spec (ε : Type) where
  /-- every entry written so far, newest first -/
  log : List ε
  /-- number of loggers (cores) that exist -/
  ncores : Nat

def Spec.init : Spec ε := ⟨[], 1⟩

def Spec.step (s : Spec ε) : Op ε → Spec ε
  | .write c e => if c < s.ncores then { s with log := e :: s.log } else s
  | .derive c => if c < s.ncores then { s with ncores := s.ncores + 1 } else s

def Spec.run (s : Spec ε) (h : List (Op ε)) : Spec ε := h.foldl Spec.step s

end Verif.Ring
