/-
Stored-node codec of the state trie (`core/util/mpt_node.go`: Encode / encode, CreateNode, the Decode methods;
`origin.go`: OriginTracker.Write / Read), after the `fix:` commits 2e70be9, c43a135, 6f6ba66.  Core Lean only.

  stored node = type byte (value 1, leaf 2, full 4, extension 8) ++ LE64(version) ++ LE64(origin) ++ body
  body        = leaf:      prefix ':' path ':' value
                full:      16 × (hex(child)? ':') ++ value?
                extension: path ':' child key
                value:     the value bytes
  hash input  = LE64(origin) ++ body                       (`hashBytes`; the key of a node is H of it)

`decode` follows `CreateNode` and the `Decode` methods slice expression by slice expression.  Go slice expressions
and indexed writes are modelled by bounds-checked primitives (`sliceTo`, `sliceFrom`, the write index of
`hexDecodeInto`) that return `.panic` exactly where Go would panic, so "CreateNode never panics" is the theorem
`∀ bs, decode bs ≠ .panic` (Verif.Props.C15).
-/
import Verif.Model.MptEnc
namespace Verif.Codec
open Verif.Mpt (Bytes le64 hexBytes hexDigit sep Nib nibChar Node)

/-- outcome of a decoder: a value, a returned error, or a Go run-time panic -/
inductive DRes (α : Type) where
  | ok (a : α) : DRes α
  | err : DRes α
  | panic : DRes α
  deriving DecidableEq

/-- the node-kind specific part of a decoded node -/
inductive Body where
  | value (v : Bytes)
  | leaf (pre path : Bytes) (val : Option Bytes)
  | full (ch : List (Option Bytes)) (val : Option Bytes)     -- 16 child slots
  | ext (path key : Bytes)
  deriving DecidableEq

/-- a decoded node: origin tracker + body -/
structure Repr where
  version : Nat
  origin : Nat
  body : Body
  deriving DecidableEq

/-! ### Encode -/

def typeByte : Body → UInt8
  | .value _ => 1
  | .leaf .. => 2
  | .full .. => 4
  | .ext .. => 8

def optBytes : Option Bytes → Bytes
  | some b => b
  | none => []

def childField : Option Bytes → Bytes
  | some k => hexBytes k ++ [sep]
  | none => [sep]

/-- `encode(buf)` of the three node kinds (and the value bytes of a value node) -/
def encBody : Body → Bytes
  | .value v => v
  | .leaf p q v => p ++ [sep] ++ q ++ [sep] ++ optBytes v
  | .full ch v => ch.flatMap childField ++ optBytes v
  | .ext p k => p ++ [sep] ++ k

/-- `Encode()`: `writeNodePrefix` (type byte, `OriginTracker.Write`: version then origin) then `encode` -/
def encode (r : Repr) : Bytes := typeByte r.body :: (le64 r.version ++ le64 r.origin ++ encBody r.body)

/-- input of the node hash: `binary.Write(origin)` then `encode`; a value node hashes its value -/
def hashBytes (r : Repr) : Bytes :=
  match r.body with
  | .value v => v
  | b => le64 r.origin ++ encBody b

/-- `GetHashBytes` of a value node without value is nil -/
def hasHash (r : Repr) : Bool :=
  match r.body with
  | .value v => !v.isEmpty
  | _ => true

/-- `Encode` with the child array indexed as Go does (`fn.Children[fn.index(hex)]` for the 16 hex digits): an index
    outside the array would panic.  Used to state that whatever `decode` accepts re-encodes without panicking. -/
def encFullChecked (ch : List (Option Bytes)) : Nat → DRes Bytes
  | 0 => .ok []
  | n + 1 =>
    match encFullChecked ch n with
    | .ok acc =>
      match ch[n]? with
      | some c => .ok (acc ++ childField c)
      | none => .panic
    | e => e

def encodeChecked (r : Repr) : DRes Bytes :=
  match r.body with
  | .full ch v =>
    match encFullChecked ch 16 with
    | .ok f => .ok ((4 : UInt8) :: (le64 r.version ++ le64 r.origin ++ (f ++ optBytes v)))
    | .err => .err
    | .panic => .panic
  | _ => .ok (encode r)

/-! ### Go slice primitives -/

/-- `bytes.IndexByte(b, c)`: −1 when absent -/
def indexByte (b : Bytes) (c : UInt8) : Int := if c ∈ b then (b.idxOf c : Int) else -1

/-- `b[:n]` -/
def sliceTo (b : Bytes) (n : Int) : DRes Bytes :=
  if 0 ≤ n ∧ n ≤ (b.length : Int) then .ok (b.take n.toNat) else .panic

/-- `b[n:]` -/
def sliceFrom (b : Bytes) (n : Int) : DRes Bytes :=
  if 0 ≤ n ∧ n ≤ (b.length : Int) then .ok (b.drop n.toNat) else .panic

/-- `fromHexChar` of encoding/hex -/
def fromHexChar (c : UInt8) : Option UInt8 :=
  if 48 ≤ c ∧ c ≤ 57 then some (c - 48)
  else if 97 ≤ c ∧ c ≤ 102 then some (c - 97 + 10)
  else if 65 ≤ c ∧ c ≤ 70 then some (c - 65 + 10)
  else none

/-- `hex.Decode(dst, src)` with `len(dst) = cap`, `dst` zero-initialised: pairs are decoded left to right, an invalid
    digit returns an error, the write `dst[i] = …` panics when `i ≥ cap`, a trailing single digit is an error.
    `i` = bytes written so far, `acc` = those bytes.  Result: the whole `dst`. -/
def hexDecodeInto (cap : Nat) : Bytes → Nat → Bytes → DRes Bytes
  | p :: q :: rest, i, acc =>
    match fromHexChar p, fromHexChar q with
    | some a, some b => if i < cap then hexDecodeInto cap rest (i + 1) (acc ++ [a * 16 + b]) else .panic
    | _, _ => .err
  | [_], _, _ => .err
  | [], i, acc => .ok (acc ++ List.replicate (cap - i) 0)

/-- little-endian 64-bit read -/
def fromLE : Bytes → Nat
  | [] => 0
  | x :: r => x.toNat + 256 * fromLE r

/-- `var ot OriginTracker; _ = ot.Read(r)`: two `binary.Read`s of 8 bytes each; a short read consumes what is left,
    leaves the field zero and makes `Read` return (the error is ignored by `CreateNode`).
    Result: version, origin, the bytes left for `ioutil.ReadAll`. -/
def readTracker (b : Bytes) : Nat × Nat × Bytes :=
  if b.length < 8 then (0, 0, [])
  else
    let v := fromLE (b.take 8)
    let b' := b.drop 8
    if b'.length < 8 then (v, 0, []) else (v, fromLE (b'.take 8), b'.drop 8)

/-! ### Decode -/

/-- `LeafNode.Decode` -/
def decodeLeaf (buf : Bytes) : DRes Body :=
  let idx := indexByte buf sep
  if idx < 0 then .err else
  match sliceTo buf idx with                      -- ln.Prefix = buf[:idx]
  | .ok pre =>
    match sliceFrom buf (idx + 1) with             -- buf = buf[idx+1:]
    | .ok buf =>
      let idx := indexByte buf sep
      if idx < 0 then .err else
      match sliceTo buf idx with                   -- ln.Path = buf[:idx]
      | .ok path =>
        match sliceFrom buf (idx + 1) with         -- buf = buf[idx+1:]
        | .ok buf => .ok (.leaf pre path (if buf.length = 0 then none else some buf))
        | .err => .err
        | .panic => .panic
      | .err => .err
      | .panic => .panic
    | .err => .err
    | .panic => .panic
  | .err => .err
  | .panic => .panic

/-- the loop of `FullNode.Decode`: `n` iterations left, `acc` = children decoded so far (reversed) -/
def decodeFullLoop : Nat → Bytes → List (Option Bytes) → DRes (List (Option Bytes) × Bytes)
  | 0, buf, acc => .ok (acc.reverse, buf)
  | n + 1, buf, acc =>
    let idx := indexByte buf sep
    if idx < 0 then .err else
    if idx > 0 then
      if idx / 2 > 32 then .err else               -- hex.DecodedLen(idx) > len(key)
      match sliceTo buf idx with                   -- buf[:idx]
      | .ok field =>
        match hexDecodeInto 32 field 0 [] with     -- hex.Decode(key, buf[:idx]), key := make([]byte, 32)
        | .ok key =>
          match sliceFrom buf (idx + 1) with       -- buf = buf[idx+1:]
          | .ok buf' => decodeFullLoop n buf' (some key :: acc)
          | .err => .err
          | .panic => .panic
        | .err => .err
        | .panic => .panic
      | .err => .err
      | .panic => .panic
    else
      match sliceFrom buf (idx + 1) with
      | .ok buf' => decodeFullLoop n buf' (none :: acc)
      | .err => .err
      | .panic => .panic

/-- `FullNode.Decode` -/
def decodeFull (buf : Bytes) : DRes Body :=
  match decodeFullLoop 16 buf [] with
  | .ok (ch, rest) => .ok (.full ch (if rest.length = 0 then none else some rest))
  | .err => .err
  | .panic => .panic

/-- `ExtensionNode.Decode` -/
def decodeExt (buf : Bytes) : DRes Body :=
  let idx := indexByte buf sep
  if idx < 0 then .err else
  match sliceTo buf idx with                       -- copy(en.Path, buf[:idx])
  | .ok path =>
    match sliceFrom buf (idx + 1) with             -- buf = buf[idx+1:]
    | .ok key => .ok (.ext path key)
    | .err => .err
    | .panic => .panic
  | .err => .err
  | .panic => .panic

/-- `CreateNode(bytes.NewReader(bs))` -/
def decode (bs : Bytes) : DRes Repr :=
  match bs with
  | [] => .err                                     -- r.Read: io.EOF
  | t :: rest =>
    let code := t &&& 15                            -- code & NodeTypesAll
    if code = 1 ∨ code = 2 ∨ code = 4 ∨ code = 8 then
      let tr := readTracker rest
      let body :=
        if code = 1 then DRes.ok (Body.value tr.2.2)
        else if code = 2 then decodeLeaf tr.2.2
        else if code = 4 then decodeFull tr.2.2
        else decodeExt tr.2.2
      match body with
      | .ok b => .ok ⟨tr.1, tr.2.1, b⟩
      | .err => .err
      | .panic => .panic
    else .err                                       -- default: ErrInvalidEncoding

/-! ### The code before the fixes (kept only for the counter-example witnesses in Verif.Props.C15) -/

/-- `LeafNode.Decode` before c43a135: no check of the second `IndexByte` result -/
def decodeLeafOld (buf : Bytes) : DRes Body :=
  let idx := indexByte buf sep
  if idx < 0 then .err else
  match sliceTo buf idx, sliceFrom buf (idx + 1) with
  | .ok pre, .ok buf =>
    let idx := indexByte buf sep
    match sliceTo buf idx, sliceFrom buf (idx + 1) with
    | .ok path, .ok buf => .ok (.leaf pre path (if buf.length = 0 then none else some buf))
    | _, _ => .panic
  | _, _ => .panic

/-! ### Well-formed decoded nodes: what the trie operations produce -/

def isHexDigit (c : UInt8) : Bool := (48 ≤ c && c ≤ 57) || (97 ≤ c && c ≤ 102)

def optNonEmpty : Option Bytes → Prop
  | some b => b ≠ []
  | none => True

def BodyWF : Body → Prop
  | .value _ => True
  | .leaf p q v => (∀ c ∈ p, isHexDigit c = true) ∧ (∀ c ∈ q, isHexDigit c = true) ∧ optNonEmpty v
  | .full ch v => ch.length = 16 ∧ (∀ k, some k ∈ ch → k.length = 32) ∧ optNonEmpty v
  | .ext p _ => ∀ c ∈ p, isHexDigit c = true

/-- paths are hex digits, branch child keys have 32 bytes, version / origin fit 64 bits; the VALUE (leaf / branch) and
    the extension's child key are arbitrary bytes — `:` and `0x00` included — they are the last field -/
def ReprWF (r : Repr) : Prop := r.version < 2 ^ 64 ∧ r.origin < 2 ^ 64 ∧ BodyWF r.body

/-! ### The stored nodes of a structural trie (`Verif.Mpt.Node`) -/

def w64 (n : Nat) : Nat := n % 2 ^ 64

/-- the decoded form of the root node of the subtree `t` located at position `pre`; child keys via `Verif.Mpt.key` -/
def reprOf (H : Bytes → Bytes) : Node → List Nib → Repr
  | .empty, _ => ⟨0, 0, .value []⟩
  | .leaf o lp lv, pre => ⟨w64 o, w64 o, .leaf (pre.map nibChar) (lp.map nibChar) (if lv = [] then none else some lv)⟩
  | .full o ch val, pre =>
    ⟨w64 o, w64 o, .full ((List.finRange 16).map (fun i =>
        if (ch i).isEmpty then none else some (Verif.Mpt.key H (ch i) (pre ++ [i]))))
      (match val with | some b => if b = [] then none else some b | none => none)⟩
  | .ext o ep c, pre => ⟨w64 o, w64 o, .ext (ep.map nibChar) (Verif.Mpt.key H c (pre ++ ep))⟩

/-- all stored nodes of the trie `t` (pre-order, children in index order): key and decoded form -/
def nodesOf (H : Bytes → Bytes) : Node → List Nib → List (Bytes × Repr)
  | .empty, _ => []
  | .leaf o lp lv, pre => [(Verif.Mpt.key H (.leaf o lp lv) pre, reprOf H (.leaf o lp lv) pre)]
  | .full o ch val, pre =>
    (Verif.Mpt.key H (.full o ch val) pre, reprOf H (.full o ch val) pre)
      :: (List.finRange 16).flatMap (fun i => nodesOf H (ch i) (pre ++ [i]))
  | .ext o ep c, pre =>
    (Verif.Mpt.key H (.ext o ep c) pre, reprOf H (.ext o ep c) pre) :: nodesOf H c (pre ++ ep)

/-- key and stored nodes of `t` in one bottom-up pass (what the driver runs; `= (key, nodesOf)`, see Lemmas) -/
def entries (H : Bytes → Bytes) : Node → List Nib → Bytes × List (Bytes × Repr)
  | .empty, _ => ([], [])
  | .leaf o lp lv, pre =>
    let r := reprOf H (.leaf o lp lv) pre
    let k := H (hashBytes r)
    (k, [(k, r)])
  | .full o ch val, pre =>
    let subs := (List.finRange 16).map (fun i =>
      let e := entries H (ch i) (pre ++ [i])
      ((if (ch i).isEmpty then none else some e.1), e.2))
    let r : Repr := ⟨w64 o, w64 o, .full (subs.map (·.1))
      (match val with | some b => if b = [] then none else some b | none => none)⟩
    let k := H (hashBytes r)
    (k, (k, r) :: subs.flatMap (·.2))
  | .ext o ep c, pre =>
    let e := entries H c (pre ++ ep)
    let r : Repr := ⟨w64 o, w64 o, .ext (ep.map nibChar) e.1⟩
    let k := H (hashBytes r)
    (k, (k, r) :: e.2)

/-! ### Typed read -/

inductive TRead (α : Type) where
  | ok (a : α) | notPresent | unmarshalErr
  deriving DecidableEq

/-- `GetNodeValue(path, v)` on a complete trie: `GetNodeValueRaw`, then `v.UnmarshalMsg` of the value bytes (its error is
    returned as is); `um` is the target type's UnmarshalMsg -/
def getNodeValue {α : Type} (um : Bytes → Option α) (t : Node) (p : List Nib) : TRead α :=
  match Verif.Mpt.lookup t p with
  | none => .notPresent
  | some b => match um b with
    | some a => .ok a
    | none => .unmarshalErr

/-- the `ValueNode` of a leaf / branch value `b` as handed out by `Iterate` (fresh origin tracker) -/
def valueNode (b : Bytes) : Repr := ⟨0, 0, .value b⟩

end Verif.Codec
