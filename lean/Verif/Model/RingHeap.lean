import Verif.Model.Ring
/-!
# The log ring with entries as heap objects

`Verif.Model.Ring` stores entry *values* in the slots.  In Go a slot holds a `*observer.LoggedEntry`, and `GetLogs`
returns those pointers; whether an entry handed out earlier can change afterwards depends on whether `Write`
allocates a fresh object or reuses the slot's old one.  Here the ring (`State Nat`) stores *addresses* into a heap
of entries:

* `writeH` — `/repo` HEAD: `r.Value = &observer.LoggedEntry{Entry: ent, Context: fields}`: a fresh object.
* `writeOldH` — 70d872e: `if v == nil { entry = &LoggedEntry{}; r.Value = entry } else { entry = v.(*LoggedEntry) };
  entry.Entry = ent; entry.Context = fields`: the object already in the slot is overwritten in place.

`getLogsH` returns addresses (what the caller of `GetLogs` holds); `deref` reads them in a later heap.
-/
namespace Verif.Ring

variable {ε : Type}

structure HState (ε : Type) where
  /-- the entry objects allocated so far; an address is an index -/
  heap : List ε
  /-- the ring of references, cursor cells, cores -/
  ring : State Nat

def initH (cap : Nat) : HState ε := { heap := [], ring := init cap }

/-- `Write` at HEAD: allocate, store the reference, advance -/
def writeH (s : HState ε) (c : Nat) (e : ε) : HState ε :=
  match s.ring.cores[c]? with
  | some _ => { heap := s.heap ++ [e], ring := write s.ring c s.heap.length }
  | none => s

/-- `Write` before the fix: reuse the object in the slot when there is one -/
def writeOldH (s : HState ε) (c : Nat) (e : ε) : HState ε :=
  match s.ring.cores[c]? with
  | some k =>
    let i := s.ring.cells.getD k.cell 0
    match s.ring.slots.getD i none with
    | some a => { heap := s.heap.set a e, ring := writeAdvance s.ring c }
    | none => { heap := s.heap ++ [e], ring := write s.ring c s.heap.length }
  | none => s

def stepH (s : HState ε) : Op ε → HState ε
  | .write c e => writeH s c e
  | .derive c => { s with ring := derive s.ring c }

/-- the code before the fix: in-place `Write`, `clone()` copying the cursor -/
def stepOldH (s : HState ε) : Op ε → HState ε
  | .write c e => writeOldH s c e
  | .derive c => { s with ring := deriveOld s.ring c }

def runH (s : HState ε) (h : List (Op ε)) : HState ε := h.foldl stepH s
def runOldH (s : HState ε) (h : List (Op ε)) : HState ε := h.foldl stepOldH s

/-- `GetLogs`: the entry *pointers*, newest first -/
def getLogsH (s : HState ε) : List Nat := getLogs s.ring

/-- what a list of entry pointers reads as, in the heap of state `s` -/
def deref (s : HState ε) (refs : List Nat) : List ε := refs.filterMap (fun a => s.heap[a]?)

/-- forgetting the heap: the value-level ring of `Verif.Model.Ring` -/
def absH (s : HState ε) : State ε :=
  { slots := s.ring.slots.map (fun r => r.bind (fun a => s.heap[a]?)),
    cells := s.ring.cells, cores := s.ring.cores, mutexes := s.ring.mutexes }

end Verif.Ring
