/-
Model of `core/util/wmpt/proof.go` and `path.go` at /repo HEAD: GetBlockProof / VerifyBlockProof (verifyProof),
GetPath (markToCollect, collectNodes), Deserialize (deserializeTrie).  Core Lean only.
-/
import Verif.Model.WmptOps
import Verif.Gen.Constants
namespace Verif.Wmpt

/-- one element of a decoded `PersistTrie.Pairs`: a nil pair (CBOR null), a pair whose bytes the CBOR layer rejects,
    or a decoded node structure -/
inductive PairD where
  | nilPair
  | bad
  | ok (p : PBase)
  deriving DecidableEq, Repr

def PairD.ofBytes : Option Bytes → PairD
  | none => .nilPair
  | some b => match Cbor.decBase b with
    | some p => .ok p
    | none => .bad

section
variable (H : Bytes → Bytes)

/-- `hexToKeybytes` behind the length check of GetBlockProof: an odd number of nibbles is ErrInvalidKey -/
def hexToKeybytes : Bytes → Res Bytes
  | [] => .ok []
  | [_] => .err .invalidKey      -- fix 95fe15c: GetBlockProof reports a path of odd length instead of converting it
  | a :: b :: r =>
    match hexToKeybytes r with
    | .ok k => .ok ((a <<< 4 ||| b) :: k)
    | .err e => .err e

/-- first child (in index order) whose weight covers the remaining block number; returns the index and the block
    number relative to that child -/
def pickChild (ch : Nib → WN) : List Nib → Nat → Option (Nib × Nat)
  | [], _ => none
  | i :: is, block =>
    if (ch i).isNil then pickChild ch is block
    else if block ≤ (ch i).weight then some (i, block)
    else pickChild ch is (block - (ch i).weight)

structure PRes where
  node : WN                       -- the visited node afterwards (Serialize refreshes hashes, clears export marks)
  res : Res (Bytes × List Bytes)  -- key nibbles (as bytes) and the serialized nodes of the path

/-- `getBlockProof(node, block, prefix, persistTrie)` -/
def getBlockProof (hasDb : Bool) (s : Store) : Nat → WN → Nat → Bytes → PRes
  | 0, n, _, _ => { node := n, res := .err .other }
  | fuel + 1, n, block, pre =>
    match n with
    | .nil => { node := .nil, res := .err .notFound }
    | .empty => { node := .empty, res := .err .notFound }
    | .hashRef h w =>
      match resolveHash hasDb s h with
      | .err e => { node := .hashRef h w, res := .err e }
      | .ok rn => { node := .hashRef h w, res := (getBlockProof hasDb s fuel rn block pre).res }
    | .value h v w d =>
      let sp := serializeP H (.value h v w d)
      { node := sp.1, res := .ok (pre, [Cbor.encBase sp.2]) }
    | .short k h c d tc =>
      let sp := serializeP H (.short k h c d tc)
      match sp.1 with
      | .short k' h' c' d' tc' =>
        if block > c'.weight then { node := sp.1, res := .err .range }
        else
          let r := getBlockProof hasDb s fuel c' block (pre ++ k')
          { node := .short k' h' r.node d' tc',
            res := match r.res with
              | .ok (key, ps) => .ok (key, Cbor.encBase sp.2 :: ps)
              | .err e => .err e }
      | n' => { node := n', res := .err .other }
    | .routing h ch w d tc =>
      let sp := serializeP H (.routing h ch w d tc)
      match sp.1 with
      | .routing h' ch' w' d' tc' =>
        match pickChild ch' allNib block with
        | none => { node := sp.1, res := .err .notFound }
        | some (i, b') =>
          let r := getBlockProof hasDb s fuel (ch' i) b' (pre ++ [nb i])
          { node := .routing h' (upd ch' i r.node) w' d' tc',
            res := match r.res with
              | .ok (key, ps) => .ok (key, Cbor.encBase sp.2 :: ps)
              | .err e => .err e }
      | n' => { node := n', res := .err .other }

/-- `GetBlockProof(block)`: trie afterwards, (key bytes, proof bytes) -/
def blockProof (t : WT) (block : Nat) : WT × Res (Bytes × Bytes) :=
  if block > t.root.weight then (t, .err .range)
  else
    let r := getBlockProof H t.hasDb t.store 200 t.root block []
    match r.res with
    | .err .kvNotFound => ({ t with root := r.node }, .err .notFound)
    | .err e => ({ t with root := r.node }, .err e)
    | .ok (pre, ps) =>
      match hexToKeybytes pre with
      | .err e => ({ t with root := r.node }, .err e)
      | .ok key => ({ t with root := r.node }, .ok (key, Cbor.encTrie ps))

/-- refresh the hash of a node that `verifyProof` / `Deserialize` just marked dirty -/
def rehash (n : WN) : WN := (calcHash H n).1

/-- `verifyProof(persistTrie, block, &ind)` over the decoded pairs still to be consumed:
    the rebuilt node, the value, the pairs left -/
def verifyProof : List PairD → Nat → Res (WN × Bytes × List PairD)
  | [], _ => .err .other                                     -- index out of bounds
  | .nilPair :: _, _ => .err .other                          -- guard added by fix 990a210
  | .bad :: _, _ => .err .other
  | .ok p :: rest, block =>
    match deserializeNode p with
    | .err e => .err e
    | .ok n =>
      match n with
      | .routing h ch w _ tc =>
        match pickChild ch allNib block with
        | none => .err .range
        | some (i, b') =>
          match verifyProof rest b' with
          | .err e => .err e
          | .ok (c, v, rest') => .ok (rehash H (.routing h (upd ch i c) w true tc), v, rest')
      | .short k h c _ tc =>
        if block > c.weight then .err .range
        else
          match verifyProof rest block with
          | .err e => .err e
          | .ok (c', v, rest') => .ok (rehash H (.short k h c' true tc), v, rest')
      | .value h v w _ =>
        if block > w then .err .range
        else .ok (rehash H (.value h v w true), v, rest)
      | _ => .err .other

/-- `VerifyBlockProof(block, proof)` after the CBOR layer: (root hash, value) -/
def verifyPairs (pairs : List PairD) (block : Nat) : Res (Bytes × Bytes) :=
  if pairs = [] then .err .other
  else
    match verifyProof H pairs block with
    | .err e => .err e
    | .ok (n, v, _) => .ok (n.hashField H, v)

/-- `VerifyBlockProof(block, proof)` -/
def verifyBlockProof (proof : Bytes) (block : Nat) : Res (Bytes × Bytes) :=
  if proof = [] then .err .other
  else
    match Cbor.decTrie proof with
    | none => .err .other
    | some ps => verifyPairs H (ps.map PairD.ofBytes) block

/-! ### Path export -/

structure MRes where
  node : WN
  err : Option Err := none

/-- `markToCollect(node, key, pos)` with `key` = the nibbles from `pos` on -/
def markToCollect (hasDb : Bool) (s : Store) : Nat → WN → List Nib → MRes
  | 0, n, _ => { node := n, err := some .other }
  | fuel + 1, n, key =>
    match n with
    | .routing h ch w d tc =>
      match key with
      | [] => { node := .routing h ch w d true }     -- a branch below the full key depth: marked, no descent (round-4 fix)
      | k :: ks =>
        let r := markToCollect hasDb s fuel (ch k) ks
        match r.err with
        | some e => { node := .routing h (upd ch k r.node) w d tc, err := some e }
        | none => { node := .routing h (upd ch k r.node) w d true }
    | .short sk h c d _ =>
      let kb := key.map nb
      if kb.length < sk.length ∨ sk ≠ kb.take sk.length then { node := .short sk h c d true }
      else
        let r := markToCollect hasDb s fuel c (key.drop sk.length)
        { node := .short sk h r.node d true, err := r.err }
    | .hashRef h w =>
      match resolveHash hasDb s h with
      | .err e => { node := .hashRef h w, err := some e }
      | .ok rn =>
        let r := markToCollect hasDb s fuel rn key
        match r.err with
        | some e => { node := .hashRef h w, err := some e }
        | none => r
    | n => { node := n }

/-- `collectNodes(node, persistTrie)`: node afterwards and the serialized nodes in pre-order.
    (`Serialize` refreshes the cached hashes of the whole dirty subtree; refreshing is idempotent, so the recursion
    may run on the children as they were.) -/
def collectNodes : WN → WN × List Bytes
  | .nil => (.nil, [])
  | .routing h ch w d tc =>
    if !tc then
      -- not on a requested path: exported as a hash reference (CalcHash refreshes the cached hashes)
      let r := calcHash H (.routing h ch w d tc)
      (r.1, [Cbor.encBase { hashNode := some ⟨r.2, w⟩ }])
    else
      let sp := serializeP H (.routing h ch w d tc)
      let rs := allNib.map (fun i => collectNodes (ch i))
      (.routing (sp.1.hashField H) (ofList (rs.map (fun r => r.1))) w d false, Cbor.encBase sp.2 :: rs.flatMap (fun r => r.2))
  | .short k h c d tc =>
    let sp := serializeP H (.short k h c d tc)
    let r := collectNodes c
    (.short k (sp.1.hashField H) r.1 d false, Cbor.encBase sp.2 :: r.2)
  | .empty => (.empty, [Cbor.encBase (serializeP H .empty).2])
  | .hashRef h w => (.hashRef h w, [Cbor.encBase (serializeP H (.hashRef h w)).2])
  | .value h v w d =>
    let sp := serializeP H (.value h v w d)
    (sp.1, [Cbor.encBase sp.2])

def markAll (hasDb : Bool) (s : Store) : WN → List (List Nib) → MRes
  | n, [] => { node := n }
  | n, k :: ks =>
    let r := markToCollect hasDb s (fuelFor k) n k
    match r.err with
    | some e => { node := r.node, err := some e }
    | none => markAll hasDb s r.node ks

/-- the loop of the per-branch parallel marking over the children of a branch root: every key marks the subtree below
    its first nibble (`markToCollect(node.Children[k[0]], k, 1)`) and the result is assigned to that child. Go runs the
    keys in goroutines, serialised per first nibble by a mutex; the model runs them in list order
    (`mark_parallel_eq_sequential` shows the result is that of the sequential strategy). -/
def markKids (hasDb : Bool) (s : Store) : (Nib → WN) → List (List Nib) → (Nib → WN) × Option Err
  | ch, [] => (ch, none)
  | ch, [] :: _ => (ch, some .panic)                       -- `k[0]` of an empty key
  | ch, (k :: ks) :: rest =>
    let r := markToCollect hasDb s (fuelFor (k :: ks) - 1) (ch k) ks
    match r.err with
    | some e => (upd ch k r.node, some e)
    | none => markKids hasDb s (upd ch k r.node) rest

/-- the parallel strategy of `GetPath` (more than `pathParallelThreshold` keys and a branch root): the root is marked
    first, then the keys mark its children -/
def markParallel (hasDb : Bool) (s : Store) : WN → List (List Nib) → MRes
  | .routing h ch w d _, keys =>
    let r := markKids hasDb s ch keys
    { node := .routing h r.1 w d true, err := r.2 }
  | n, keys => markAll hasDb s n keys

def WN.isRouting : WN → Bool
  | .routing _ _ _ _ _ => true
  | _ => false

/-- `GetPath(keys)`: a branch root with more than `pathParallelThreshold` (path.go: `len(keys) > 10`, regenerated from
    the source into Verif.Gen.Constants) requested keys is marked by the parallel strategy, everything else sequentially -/
def getPath (t : WT) (keys : List (List Nib)) : WT × Res Bytes :=
  let r0 : Res WN := match t.root with
    | .hashRef h _ => resolveHash t.hasDb t.store h     -- fix 527796b: through resolveHashNode ("database is not set")
    | n => .ok n
  match r0 with
  | .err e => (t, .err e)
  | .ok root =>
    let m := if root.isRouting && keys.length > Verif.Gen.Constants.pathParallelThreshold
      then markParallel t.hasDb t.store root keys else markAll t.hasDb t.store root keys
    match m.err with
    | some .kvNotFound => ({ t with root := m.node }, .err .notFound)
    | some e => ({ t with root := m.node }, .err e)
    | none =>
      let c := collectNodes H m.node
      ({ t with root := c.1 }, .ok (Cbor.encTrie c.2))

/-! ### Import -/

/-- the loop over the 16 children in `deserializeTrie`, `rec` being the recursive call -/
def deserKids (rec : List PairD → Res (WN × List PairD)) : List Nib → (Nib → WN) → List PairD → Res ((Nib → WN) × List PairD)
  | [], ch, ps => .ok (ch, ps)
  | i :: is, ch, ps =>
    if (ch i).isNil then deserKids rec is ch ps
    else
      match rec ps with
      | .err e => .err e
      | .ok (c, ps') =>
        if (ch i).hashField H ≠ c.hashField H then .err .other
        else deserKids rec is (upd ch i c) ps'

/-- `deserializeTrie(pairs, &ind)` over the pairs still to be consumed; every call consumes one pair, `fuel` (callers
    pass the number of pairs + 1) bounds the nesting depth -/
def deserializeTrie : Nat → List PairD → Res (WN × List PairD)
  | 0, _ => .err .other
  | _, [] => .err .other                      -- index out of bounds
  | _, .nilPair :: _ => .err .other           -- guard added by fix 990a210
  | _, .bad :: _ => .err .other
  | fuel + 1, .ok p :: rest =>
    match deserializeNode p with
    | .err e => .err e
    | .ok n =>
      match n with
      | .routing h ch w d tc =>
        match deserKids H (deserializeTrie fuel) allNib ch rest with
        | .err e => .err e
        | .ok (ch', rest') => .ok (.routing h ch' w d tc, rest')
      | .short k h c d tc =>
        match deserializeTrie fuel rest with
        | .err e => .err e
        | .ok (c', rest') =>
          if c.hashField H ≠ c'.hashField H then .err .other
          else .ok (.short k h c' d tc, rest')
      | n => .ok (n, rest)

/-- `Deserialize(data)` after the CBOR layer: the new root (`none`: no pairs, trie unchanged) -/
def importPairs (pairs : List PairD) : Res (Option WN) :=
  if pairs = [] then .ok none
  else
    match deserializeTrie H (pairs.length + 1) pairs with
    | .err e => .err e
    | .ok (root, _) =>
      let claimed := root.hashField H
      let root' : WN := match root with
        | .routing h ch w _ tc => rehash H (.routing h ch w true tc)
        | .short k h c _ tc => rehash H (.short k h c true tc)
        | n => n
      if claimed ≠ root'.hashField H then .err .other else .ok (some root')

/-- `Deserialize(data)` on a trie -/
def importTrie (t : WT) (data : Bytes) : WT × Res Unit :=
  match Cbor.decTrie data with
  | none => (t, .err .other)
  | some ps =>
    match importPairs H (ps.map PairD.ofBytes) with
    | .err e => ({ t with root := .nil }, .err e)     -- Go leaves `t.root = nil` behind
    | .ok none => (t, .ok ())
    | .ok (some r) => ({ t with root := r }, .ok ())

end
end Verif.Wmpt
