/-
C05 — Dead-node records and pruning never remove live state.

Model: `Verif.Model.MptStore`.  `dead_not_live_partial`: the keys a round records as dead are disjoint from the nodes
of the round's final tree (under the event discipline, see Props/C04).  `C05_dead_forever`: with strictly increasing
versions a node recorded dead in round r is in no later tree (stated over key sets; its hypotheses are what the
collector algebra and the origin stamped by `insertNode` provide).  `prune_only_recorded`, `C05_prune_safe`,
`C05_prune_rerun`: `PruneBelowVersion v`, any prefix of its write stream, and any prefix of a re-run after such a
prefix, delete only keys recorded dead below `v` and keep every tree resolvable that contains none of them.
-/
import Verif.Lemmas.MptStoreTrie
import Verif.Lemmas.Prune
import Verif.Lemmas.MptStoreEvents
import Verif.Props.C04
namespace Verif.Props.C05
open Verif.Mpt Verif.MptStore Verif.MptStore.Collector Verif.Props.C04

/-- the keys `RecordDeadNodes(GetDeletes(), version)` writes for a trie -/
def deadKeys (H : Bytes → Bytes) (b : Trie) : List Bytes := b.cc.getDeletes.map (Ref.key H)

/-- **Dead set ∩ live set = ∅ within a round** (partial: under the event discipline of Props/C04). -/
theorem dead_not_live_partial (H : Bytes → Bytes) (t0 t : Node) (b0 : Trie) (es : List Event)
    (hfresh : b0.cc.changes = [] ∧ b0.cc.deletes = [])
    (hdisc : Disc (Ref.key H) (Live0 H t0) (callsOf H es))
    (hcov : ∀ r ∈ refs t [], liveRun (Ref.key H) (Live0 H t0) (callsOf H es) (r.key H)) :
    ∀ x ∈ deadKeys H (b0.applyEvents H es), x ∉ nodeKeys H t := by
  intro x hx hlive
  simp only [deadKeys, applyEvents_cc, Collector.getDeletes] at hx
  have hcc0 : b0.cc = { startRoot := b0.cc.startRoot } := by
    cases hb : b0.cc with
    | mk s c d => rw [hb] at hfresh; simp at hfresh; simp [hfresh.1, hfresh.2]
  rw [hcc0] at hx
  have inv := inv_run (callsOf H es) (inv_init (Ref.key H) (Live0 H t0) b0.cc.startRoot) hdisc
  have prov := prov_run (P := fun _ => True) (callsOf H es)
    (prov_init (Ref.key H) _ b0.cc.startRoot) (by
      intro c _; cases c with
      | add o n => exact ⟨trivial, fun _ _ => trivial⟩
      | del o => trivial)
  obtain ⟨d, hd, rfl⟩ := List.mem_map.mp hx
  obtain ⟨e, he, rfl⟩ := List.mem_map.mp hd
  have hk := (prov.deletes e he).1
  have hsome := Map.get_isSome_of_mem he
  cases hg : Map.get (run (Ref.key H) { startRoot := b0.cc.startRoot } (callsOf H es)).deletes e.1 with
  | none => rw [hg] at hsome; simp at hsome
  | some d' =>
    obtain ⟨r, hr, hrk⟩ := List.mem_map.mp hlive
    apply inv.deletes_dead e.1 d' hg
    rw [← hk, ← hrk]
    exact hcov r hr

/-- **Dead set ∩ live set = ∅ within a round** — closed form for a round of inserts and deletes on one trie: the
    event discipline is proved for the emitted events; remaining hypotheses: canonical start tree, fresh collector,
    key injectivity on the references of the start tree and of the round's events. -/
theorem dead_not_live (H : Bytes → Bytes) (t0 t : Node) (b0 : Trie) (v : Nat) (es : List Event)
    (hfresh : b0.cc.changes = [] ∧ b0.cc.deletes = [])
    (hw : WF t0)
    (hr : RoundEvents v t0 es t)
    (hU : KeyInjOn H (fun r => r ∈ refs t0 [] ∨ r ∈ eventRefs es)) :
    ∀ x ∈ deadKeys H (b0.applyEvents H es), x ∉ nodeKeys H t := by
  obtain ⟨hd, hc, _⟩ := round_discipline H hr hw hU
  exact dead_not_live_partial H t0 t b0 es hfresh hd hc

/-- non-vacuity of `dead_not_live`: the round `ins [3] := 66` on the one-leaf tree of version 1, at version 2 -/
example : ∀ x ∈ deadKeys id ((Trie.open [] (.leaf 1 [3] [65]) 2).applyEvents id ((insertE 2 [66] (.leaf 1 [3] [65]) [] [3]).2 ++ [])),
    x ∉ nodeKeys id (.leaf 2 [3] [66]) := by
  have hne : Ref.key id ⟨[], .leaf 1 [3] [65]⟩ ≠ Ref.key id ⟨[], .leaf 2 [3] [66]⟩ := by
    intro hk
    simp [Ref.key, key, le64] at hk
    exact absurd (congrArg List.getLast? hk) (by simp)
  have hr : RoundEvents 2 (.leaf 1 [3] [65]) ((insertE 2 [66] (.leaf 1 [3] [65]) [] [3]).2 ++ []) (.leaf 2 [3] [66]) := by
    apply RoundEvents.ins _ _ _ _ _ (by simp)
    have h2 : (insertE 2 [66] (.leaf 1 [3] [65]) [] [3]).1 = .leaf 2 [3] [66] := by simp [insertE, splitCommon]
    rw [h2]
    exact RoundEvents.nil _
  apply dead_not_live id _ _ (Trie.open [] (.leaf 1 [3] [65]) 2) 2 _ ⟨rfl, rfl⟩ (Or.inr (by simp [WFn])) hr
  intro a b ha hb hk
  simp [refs, insertE, splitCommon, eventRefs] at ha hb
  rcases ha with ha | ha <;> rcases hb with hb | hb <;> subst ha <;> subst hb <;>
    first | rfl | exact absurd hk hne | exact absurd hk.symm hne

/-- non-vacuity: overwrite the only leaf of a round's start tree; its old key is recorded dead, the new leaf is live -/
example : ∀ x ∈ deadKeys id ((Trie.open [] (.leaf 1 [3] [65]) 2).applyEvents id (insertE 2 [66] (.leaf 1 [3] [65]) [] [3]).2),
    x ∉ nodeKeys id (insertE 2 [66] (.leaf 1 [3] [65]) [] [3]).1 := by
  have hne : Ref.key id ⟨[], .leaf 1 [3] [65]⟩ ≠ Ref.key id ⟨[], .leaf 2 [3] [66]⟩ := by
    intro hk
    simp [Ref.key, key, le64] at hk
    exact absurd (congrArg List.getLast? hk) (by simp)
  apply dead_not_live_partial id (.leaf 1 [3] [65]) _ (Trie.open [] (.leaf 1 [3] [65]) 2) _ ⟨rfl, rfl⟩
  · simp [insertE, splitCommon, callsOf, callOf, hne, Disc, CallOk, Live0, nodeKeys, refs]
  · intro r hr
    simp [insertE, splitCommon, refs] at hr
    subst hr
    simp [insertE, splitCommon, callsOf, callOf, hne, liveRun, liveStep]

/-- **A node recorded dead stays dead.**  Over key sets: `L i` = keys of the tree saved in round `i`, `D (i+1)` =
    keys recorded dead by round `i+1`, `vs i` = version of round `i`, `org` = the creating version a key commits to
    (the origin is part of the hashed bytes).  Hypotheses: every node of round `i+1` is a node of round `i` or was
    created at version `vs (i+1)` (collector algebra + `insertNode` stamps the trie version); a dead key was live
    before and is not live after its round (`dead_not_live`).  Conclusion for strictly increasing versions. -/
theorem C05_dead_forever {κ : Type} (org : κ → Nat) (vs : Nat → Nat) (L D : Nat → κ → Prop)
    (hmono : ∀ i j, i < j → vs i < vs j)
    (hstep : ∀ i x, L (i + 1) x → L i x ∨ org x = vs (i + 1))
    (horg : ∀ i x, L i x → org x ≤ vs i)
    (hdead : ∀ i x, D (i + 1) x → L i x ∧ ¬ L (i + 1) x) :
    ∀ r j x, D (r + 1) x → ¬ L (r + 1 + j) x := by
  intro r j x hd
  induction j with
  | zero => exact (hdead r x hd).2
  | succ j ih =>
    intro hl
    rcases hstep (r + 1 + j) x hl with h | h
    · exact ih h
    · have h1 := horg r x (hdead r x hd).1
      have h2 := hmono r (r + 1 + j + 1) (by omega)
      omega

/-- non-vacuity: three rounds over keys = (version, name); round 1 kills (0,a), round 2 re-creates "a" as (2,a) -/
example : ∀ j x, (fun i x => i = 1 ∧ x = ((0 : Nat), "a")) (0 + 1) x →
    ¬ (fun (i : Nat) (x : Nat × String) => (i = 0 ∧ x = (0, "a")) ∨ (i ≥ 2 ∧ x = (2, "a"))) (0 + 1 + j) x := by
  apply C05_dead_forever (fun x : Nat × String => x.1) (fun i => i)
    (fun (i : Nat) (x : Nat × String) => (i = 0 ∧ x = (0, "a")) ∨ (i ≥ 2 ∧ x = (2, "a")))
    (fun i x => i = 1 ∧ x = ((0 : Nat), "a"))
  · intro i j h; exact h
  · intro i x h
    rcases h with ⟨h, _⟩ | ⟨h1, h2⟩
    · omega
    · by_cases hi : i = 1
      · right; subst hi; simp [h2]
      · left; right; exact ⟨by omega, h2⟩
  · intro i x h
    rcases h with ⟨_, h2⟩ | ⟨h1, h2⟩
    · simp [h2]
    · simp [h2]; omega
  · intro i x h
    obtain ⟨h1, h2⟩ := h
    have : i = 0 := by omega
    subst this
    refine ⟨Or.inl ⟨rfl, h2⟩, ?_⟩
    intro h
    rcases h with ⟨h, _⟩ | ⟨h, _⟩ <;> omega

/-- **Fresh origin**: every node an insert or delete at trie version `v` hands to `insertNode` as NEW carries origin
    `v` (so, the origin being part of the hashed bytes, a later round cannot re-create a key of an earlier origin —
    hypothesis `hstep` of `C05_dead_forever`). -/
theorem fresh_origin (v : Nat) (b : Bytes) (t : Node) (pre p : List Nib) :
    (∀ e ∈ (insertE v b t pre p).2, NewOrigin v e) ∧ (∀ e ∈ (deleteE v t pre p).2, NewOrigin v e) :=
  ⟨insertE_new_origin v b t pre p, deleteE_new_origin v t pre p⟩

/-- **Prune deletes only recorded keys**: every key deleted by (any prefix of) the write stream of
    `PruneBelowVersion v` is listed in a dead-node record of a version below `v`. -/
theorem prune_only_recorded (maxN : Nat) (s : PStore) (v n : Nat) :
    ∀ x ∈ prunedKeys ((pruneStream maxN s v).take n), ∃ e ∈ s.dead, e.1 < v ∧ x ∈ e.2 := by
  intro x hx
  have hx := prunedKeys_take_subset _ _ _ hx
  simp only [pruneStream] at hx
  split at hx
  · simp [prunedKeys] at hx
  simp only [prunedKeys_append, List.mem_append] at hx
  rcases hx with hx | hx
  · rcases prunedKeys_batches maxN _ [] x hx with h | ⟨e, he, hxe⟩
    · cases h
    · have := mem_recordsBelow s.dead v e he
      exact ⟨e, this.1, this.2, hxe⟩
  · simp [prunedKeys] at hx

/-- lookups after any prefix of a prune: a key is gone iff that prefix deleted it (nothing is added or changed) -/
theorem prune_prefix_get (maxN : Nat) (s : PStore) (v n : Nat) (x : Bytes) :
    Map.get (s.applyAll ((pruneStream maxN s v).take n)).nodes x
      = if x ∈ prunedKeys ((pruneStream maxN s v).take n) then none else Map.get s.nodes x :=
  get_nodes_pruneOnly _ s (pruneOnly_take _ n (pruneOnly_stream maxN s v)) x

/-- **Prune is safe, also when interrupted.**  If no key recorded dead below `v` is a node of `t` (which
    `C05_dead_forever` gives for every round at a version ≥ v), then after ANY prefix of the prune's write stream the
    tree `t` still resolves. -/
theorem C05_prune_safe (H : Bytes → Bytes) (maxN : Nat) (s : PStore) (v n : Nat) (t : Node)
    (hres : Resolves H (Map.get s.nodes) t [])
    (hdead : ∀ e ∈ s.dead, e.1 < v → ∀ x ∈ e.2, x ∉ nodeKeys H t) :
    Resolves H (Map.get (s.applyAll ((pruneStream maxN s v).take n)).nodes) t [] := by
  intro r hr
  rw [prune_prefix_get]
  have hnot : r.key H ∉ prunedKeys ((pruneStream maxN s v).take n) := by
    intro hx
    obtain ⟨e, he, hv, hxe⟩ := prune_only_recorded maxN s v n _ hx
    exact hdead e he hv _ hxe (List.mem_map.mpr ⟨r, hr, rfl⟩)
  simp only [hnot, if_false]
  exact hres r hr

/-- **Re-running an interrupted prune is safe** (any prefix of the re-run, after any prefix of the first run). -/
theorem C05_prune_rerun (H : Bytes → Bytes) (maxN : Nat) (s : PStore) (v n m : Nat) (t : Node)
    (hres : Resolves H (Map.get s.nodes) t [])
    (hdead : ∀ e ∈ s.dead, e.1 < v → ∀ x ∈ e.2, x ∉ nodeKeys H t) :
    let s1 := s.applyAll ((pruneStream maxN s v).take n)
    Resolves H (Map.get (s1.applyAll ((pruneStream maxN s1 v).take m)).nodes) t [] := by
  intro s1
  apply C05_prune_safe H maxN s1 v m t (C05_prune_safe H maxN s v n t hres hdead)
  intro e he hv x hx
  -- prune-only writes only remove records
  have hsub : ∀ e' ∈ s1.dead, e' ∈ s.dead := by
    intro e' he'
    exact dead_subset_pruneOnly _ s (pruneOnly_take _ n (pruneOnly_stream maxN s v)) e' he'
  exact hdead e (hsub e he) hv x hx

/-- non-vacuity of `C05_prune_safe`: a store with a live leaf and one dead key recorded at version 1; prune below 2 -/
example (n : Nat) :
    let live : Ref := ⟨[], .leaf 2 [3] [66]⟩
    let s : PStore := { nodes := [(live.key id, live.encode id), ([1, 2, 3], [9])], dead := [(1, [[1, 2, 3]])] }
    Resolves id (Map.get (s.applyAll ((pruneStream 1000 s 2).take n)).nodes) (.leaf 2 [3] [66]) [] := by
  intro live s
  apply C05_prune_safe
  · intro r hr; simp [refs] at hr; subst hr; simp [Map.get, s, live]
  · intro e he _ x hx
    simp [s] at he
    subst he
    simp at hx
    subst hx
    simp [nodeKeys, refs, Ref.key, key, le64]
    intro hk
    exact absurd (congrArg List.getLast? hk) (by simp)

end Verif.Props.C05
