/-
C05 — Dead-node records and pruning never remove live state.

Model: `Verif.Model.MptStore`.  `dead_not_live_partial`: the keys a round records as dead are disjoint from the nodes
of the round's final tree (under the event discipline, see Props/C04).  `C05_dead_forever`: with strictly increasing
versions a node recorded dead in round r is in no later tree (stated over key sets; its hypotheses are what the
collector algebra and the origin stamped by `insertNode` provide).  `prune_only_recorded`, `C05_prune_safe`,
`C05_prune_rerun`: `PruneBelowVersion v`, any prefix of its write stream, and any prefix of a re-run after such a
prefix, delete only keys recorded dead below `v` and keep every tree resolvable that contains none of them.
-/
import Verif.Lemmas.MptStoreTrie
import Verif.Lemmas.Prune
import Verif.Lemmas.MptStoreEvents
import Verif.Props.C04
import Verif.Lemmas.MptChain
import Verif.Lemmas.TrieRun
import Verif.Lemmas.Interp
import Verif.Lemmas.RunChain
import Verif.Lemmas.Reexec
namespace Verif.Props.C05
open Verif.Mpt Verif.MptStore Verif.MptStore.Collector Verif.Props.C04

/-- the keys `RecordDeadNodes(GetDeletes(), version)` writes for a trie -/
def deadKeys (H : Bytes → Bytes) (b : Trie) : List Bytes := b.cc.getDeletes.map (Ref.key H)

/-- **Dead set ∩ live set = ∅ within a round** (partial: under the event discipline of Props/C04). -/
theorem dead_not_live_partial (H : Bytes → Bytes) (t0 t : Node) (b0 : Trie) (es : List Event)
    (hfresh : b0.cc.changes = [] ∧ b0.cc.deletes = [])
    (hdisc : Disc (Ref.key H) (Live0 H t0) (callsOf H es))
    (hcov : ∀ r ∈ refs t [], liveRun (Ref.key H) (Live0 H t0) (callsOf H es) (r.key H)) :
    ∀ x ∈ deadKeys H (b0.applyEvents H es), x ∉ nodeKeys H t := by
  intro x hx hlive
  simp only [deadKeys, applyEvents_cc, Collector.getDeletes] at hx
  have hcc0 : b0.cc = { startRoot := b0.cc.startRoot } := by
    cases hb : b0.cc with
    | mk s c d => rw [hb] at hfresh; simp at hfresh; simp [hfresh.1, hfresh.2]
  rw [hcc0] at hx
  have inv := inv_run (callsOf H es) (inv_init (Ref.key H) (Live0 H t0) b0.cc.startRoot) hdisc
  have prov := prov_run (P := fun _ => True) (callsOf H es)
    (prov_init (Ref.key H) _ b0.cc.startRoot) (by
      intro c _; cases c with
      | add o n => exact ⟨trivial, fun _ _ => trivial⟩
      | del o => trivial)
  obtain ⟨d, hd, rfl⟩ := List.mem_map.mp hx
  obtain ⟨e, he, rfl⟩ := List.mem_map.mp hd
  have hk := (prov.deletes e he).1
  have hsome := Map.get_isSome_of_mem he
  cases hg : Map.get (run (Ref.key H) { startRoot := b0.cc.startRoot } (callsOf H es)).deletes e.1 with
  | none => rw [hg] at hsome; simp at hsome
  | some d' =>
    obtain ⟨r, hr, hrk⟩ := List.mem_map.mp hlive
    apply inv.deletes_dead e.1 d' hg
    rw [← hk, ← hrk]
    exact hcov r hr

/-- **Dead set ∩ live set = ∅ within a round** — closed form for a round of inserts and deletes on one trie: the
    event discipline is proved for the emitted events; remaining hypotheses: canonical start tree, fresh collector,
    key injectivity on the references of the start tree and of the round's events. -/
theorem dead_not_live (H : Bytes → Bytes) (t0 t : Node) (b0 : Trie) (v : Nat) (es : List Event)
    (hfresh : b0.cc.changes = [] ∧ b0.cc.deletes = [])
    (hw : WF t0)
    (hr : RoundEvents v t0 es t)
    (hU : KeyInjOn H (fun r => r ∈ refs t0 [] ∨ r ∈ eventRefs es)) :
    ∀ x ∈ deadKeys H (b0.applyEvents H es), x ∉ nodeKeys H t := by
  obtain ⟨hd, hc, _⟩ := round_discipline H hr hw hU
  exact dead_not_live_partial H t0 t b0 es hfresh hd hc

/-- **Dead set ∩ live set = ∅ — any round of a block trie** (own operations and merged, possibly nested, transactions:
    `TrieRun`); discipline proved, key injectivity on the run's references assumed. -/
theorem dead_not_live_run (H : Bytes → Bytes) (U : Ref → Prop) (Vok : Nat → Prop) (t0 t : Node) (b0 : Trie) (es : List Event)
    (hfresh : b0.cc.changes = [] ∧ b0.cc.deletes = []) (hw : WF t0) (hUt : ∀ r ∈ refs t0 [], U r)
    (hrun : TrieRun H U Vok t0 es t) (hU : KeyInjOn H U) :
    ∀ x ∈ deadKeys H (b0.applyEvents H es), x ∉ nodeKeys H t := by
  obtain ⟨hd, hc, _, _, _⟩ := trieRun_discipline H U hU hrun hw hUt (fun x => x ∈ (refs t0 []).map (Ref.key H))
    (fun r hr => List.mem_map.mpr ⟨r, hr, rfl⟩)
    (by intro x hx; obtain ⟨r, hr, hk⟩ := List.mem_map.mp hx; exact ⟨r, hUt r hr, hk⟩)
  exact dead_not_live_partial H t0 t b0 es hfresh hd hc

/-- **Dead set ∩ live set = ∅ — every history of the interpreter** (`Forest.step`, the trie-building ops the model
    driver replays next to the Go code): after ANY op list from a freshly opened block trie, no key the block trie would
    record as dead is the key of a node of its tree.  Side conditions as in `C04_complete_interp`. -/
theorem dead_not_live_interp (H : Bytes → Bytes) (ord : List (Change Ref) → List (Change Ref)) (hord : ∀ l, (ord l).Perm l)
    (U : Ref → Prop) (Vok : Nat → Prop) (hU : KeyInjOn H U) (hne : ∀ x, H x ≠ []) (t0 : Node) (v : Nat)
    (hw : WF t0) (hu : ∀ r ∈ refs t0 [], U r) (ops : List TOp)
    (hin : RunIn H ord U Vok { tries := [(0, 0, Trie.open (root H t0) t0 v)] } ops) (pid : Nat) (b : Trie)
    (hb : (Forest.run H ord { tries := [(0, 0, Trie.open (root H t0) t0 v)] } ops).find 0 = some (pid, b)) :
    ∀ x ∈ deadKeys H b, x ∉ nodeKeys H b.tree := by
  obtain ⟨es, v0, h1, _, hrun, _⟩ := block_is_trieRun H ord hord U Vok hU hne t0 v hw hu ops hin pid b hb
  have := dead_not_live_run H U Vok t0 b.tree (Trie.open (root H t0) t0 v0) es ⟨rfl, rfl⟩ hw hu hrun hU
  simp only [deadKeys] at this ⊢
  rw [h1]; exact this

/-- non-vacuity of `dead_not_live_run`: the block trie merges one transaction that inserted a key -/
example : ∃ es, TrieRun id (fun r => r = ⟨[], .leaf 1 [3] [65]⟩) (fun v => v = 1) .empty es (.leaf 1 [3] [65]) ∧
    ∀ x ∈ deadKeys id ((Trie.open [] .empty 1).applyEvents id es), x ∉ nodeKeys id (.leaf 1 [3] [65]) := by
  have hC : RoundEvents 1 .empty ((insertE 1 [65] .empty [] [3]).2 ++ []) (.leaf 1 [3] [65]) := by
    apply RoundEvents.ins _ _ _ _ _ (by simp)
    have h1 : (insertE 1 [65] .empty [] [3]).1 = .leaf 1 [3] [65] := by simp [insertE]
    rw [h1]; exact RoundEvents.nil _
  have hchild : TrieRun id (fun r => r = ⟨[], .leaf 1 [3] [65]⟩) (fun v => v = 1) .empty
      (((insertE 1 [65] .empty [] [3]).2 ++ []) ++ []) (.leaf 1 [3] [65]) :=
    TrieRun.own 1 _ _ _ _ _ rfl hC (by intro r hr; simpa [insertE, eventRefs] using hr) (TrieRun.nil _)
  have hrun := TrieRun.merge (H := id) (U := fun r => r = ⟨[], .leaf 1 [3] [65]⟩) (Vok := fun v => v = 1) .empty (.leaf 1 [3] [65])
    (.leaf 1 [3] [65]) (Trie.open [] .empty 1) _ [] _ ⟨rfl, rfl⟩ hchild (List.Perm.refl _) (by decide) (TrieRun.nil _)
  refine ⟨_, hrun, ?_⟩
  apply dead_not_live_run id _ _ .empty _ (Trie.open [] .empty 1) _ ⟨rfl, rfl⟩ (Or.inl rfl) (by intro r h; simp [refs] at h) hrun
  intro a b ha hb _
  rw [ha, hb]

/-- non-vacuity of `dead_not_live`: the round `ins [3] := 66` on the one-leaf tree of version 1, at version 2 -/
example : ∀ x ∈ deadKeys id ((Trie.open [] (.leaf 1 [3] [65]) 2).applyEvents id ((insertE 2 [66] (.leaf 1 [3] [65]) [] [3]).2 ++ [])),
    x ∉ nodeKeys id (.leaf 2 [3] [66]) := by
  have hne : Ref.key id ⟨[], .leaf 1 [3] [65]⟩ ≠ Ref.key id ⟨[], .leaf 2 [3] [66]⟩ := by
    intro hk
    simp [Ref.key, key, le64] at hk
    exact absurd (congrArg List.getLast? hk) (by simp)
  have hr : RoundEvents 2 (.leaf 1 [3] [65]) ((insertE 2 [66] (.leaf 1 [3] [65]) [] [3]).2 ++ []) (.leaf 2 [3] [66]) := by
    apply RoundEvents.ins _ _ _ _ _ (by simp)
    have h2 : (insertE 2 [66] (.leaf 1 [3] [65]) [] [3]).1 = .leaf 2 [3] [66] := by simp [insertE, splitCommon]
    rw [h2]
    exact RoundEvents.nil _
  apply dead_not_live id _ _ (Trie.open [] (.leaf 1 [3] [65]) 2) 2 _ ⟨rfl, rfl⟩ (Or.inr (by simp [WFn])) hr
  intro a b ha hb hk
  simp [refs, insertE, splitCommon, eventRefs] at ha hb
  rcases ha with ha | ha <;> rcases hb with hb | hb <;> subst ha <;> subst hb <;>
    first | rfl | exact absurd hk hne | exact absurd hk.symm hne

/-- non-vacuity: overwrite the only leaf of a round's start tree; its old key is recorded dead, the new leaf is live -/
example : ∀ x ∈ deadKeys id ((Trie.open [] (.leaf 1 [3] [65]) 2).applyEvents id (insertE 2 [66] (.leaf 1 [3] [65]) [] [3]).2),
    x ∉ nodeKeys id (insertE 2 [66] (.leaf 1 [3] [65]) [] [3]).1 := by
  have hne : Ref.key id ⟨[], .leaf 1 [3] [65]⟩ ≠ Ref.key id ⟨[], .leaf 2 [3] [66]⟩ := by
    intro hk
    simp [Ref.key, key, le64] at hk
    exact absurd (congrArg List.getLast? hk) (by simp)
  apply dead_not_live_partial id (.leaf 1 [3] [65]) _ (Trie.open [] (.leaf 1 [3] [65]) 2) _ ⟨rfl, rfl⟩
  · simp [insertE, splitCommon, callsOf, callOf, hne, Disc, CallOk, Live0, nodeKeys, refs]
  · intro r hr
    simp [insertE, splitCommon, refs] at hr
    subst hr
    simp [insertE, splitCommon, callsOf, callOf, hne, liveRun, liveStep]

/-- **A node recorded dead stays dead.**  Over key sets: `L i` = keys of the tree saved in round `i`, `D (i+1)` =
    keys recorded dead by round `i+1`, `vs i` = version of round `i`, `org` = the creating version a key commits to
    (the origin is part of the hashed bytes).  Hypotheses: every node of round `i+1` is a node of round `i` or was
    created at version `vs (i+1)` (collector algebra + `insertNode` stamps the trie version); a dead key was live
    before and is not live after its round (`dead_not_live`).  Conclusion for strictly increasing versions. -/
theorem C05_dead_forever {κ : Type} (org : κ → Nat) (vs : Nat → Nat) (L D : Nat → κ → Prop)
    (hmono : ∀ i j, i < j → vs i < vs j)
    (hstep : ∀ i x, L (i + 1) x → L i x ∨ org x = vs (i + 1))
    (horg : ∀ i x, L i x → org x ≤ vs i)
    (hdead : ∀ i x, D (i + 1) x → L i x ∧ ¬ L (i + 1) x) :
    ∀ r j x, D (r + 1) x → ¬ L (r + 1 + j) x := by
  intro r j x hd
  induction j with
  | zero => exact (hdead r x hd).2
  | succ j ih =>
    intro hl
    rcases hstep (r + 1 + j) x hl with h | h
    · exact ih h
    · have h1 := horg r x (hdead r x hd).1
      have h2 := hmono r (r + 1 + j + 1) (by omega)
      omega

/-- non-vacuity: three rounds over keys = (version, name); round 1 kills (0,a), round 2 re-creates "a" as (2,a) -/
example : ∀ j x, (fun i x => i = 1 ∧ x = ((0 : Nat), "a")) (0 + 1) x →
    ¬ (fun (i : Nat) (x : Nat × String) => (i = 0 ∧ x = (0, "a")) ∨ (i ≥ 2 ∧ x = (2, "a"))) (0 + 1 + j) x := by
  apply C05_dead_forever (fun x : Nat × String => x.1) (fun i => i)
    (fun (i : Nat) (x : Nat × String) => (i = 0 ∧ x = (0, "a")) ∨ (i ≥ 2 ∧ x = (2, "a")))
    (fun i x => i = 1 ∧ x = ((0 : Nat), "a"))
  · intro i j h; exact h
  · intro i x h
    rcases h with ⟨h, _⟩ | ⟨h1, h2⟩
    · omega
    · by_cases hi : i = 1
      · right; subst hi; simp [h2]
      · left; right; exact ⟨by omega, h2⟩
  · intro i x h
    rcases h with ⟨_, h2⟩ | ⟨h1, h2⟩
    · simp [h2]
    · simp [h2]; omega
  · intro i x h
    obtain ⟨h1, h2⟩ := h
    have : i = 0 := by omega
    subst this
    refine ⟨Or.inl ⟨rfl, h2⟩, ?_⟩
    intro h
    rcases h with ⟨h, _⟩ | ⟨h, _⟩ <;> omega

/-- every key recorded dead by a trie with a fresh collector is the key of an OLD reference of one of its events -/
theorem deadKeys_sub_eventRefs (H : Bytes → Bytes) (b0 : Trie) (es : List Event)
    (hfresh : b0.cc.changes = [] ∧ b0.cc.deletes = []) :
    ∀ x ∈ deadKeys H (b0.applyEvents H es), ∃ d ∈ eventRefs es, d.key H = x := by
  intro x hx
  simp only [deadKeys, applyEvents_cc, Collector.getDeletes] at hx
  have hcc0 : b0.cc = { startRoot := b0.cc.startRoot } := by
    cases hb : b0.cc with
    | mk s c d => rw [hb] at hfresh; simp at hfresh; simp [hfresh.1, hfresh.2]
  rw [hcc0] at hx
  have prov := prov_run (P := fun r => r ∈ eventRefs es) (callsOf H es)
    (prov_init (Ref.key H) _ b0.cc.startRoot) (callNodes_callsOf H es)
  obtain ⟨d, hd, rfl⟩ := List.mem_map.mp hx
  obtain ⟨e, he, rfl⟩ := List.mem_map.mp hd
  exact ⟨e.2, (prov.deletes e he).2, rfl⟩

/-- **A node recorded dead stays dead** — closed form for a chain of rounds on one trie.  `T i` is the tree saved by
    round `i`, `E (i+1)` the events of round `i+1` (a sequence of inserts/deletes at version `vs (i+1)` leading from
    `T i` to `T (i+1)`), `b i` the trie (fresh collector) that executed them.  With strictly increasing versions, and
    the key injective on the references of all trees and events of the chain, a key recorded dead by round `r+1` is
    the key of no node of any later tree: the origin stamped by `insertNode` is part of the reference, later rounds
    create only nodes of later origins. -/
theorem C05_dead_forever_rounds (H : Bytes → Bytes) (T : Nat → Node) (E : Nat → List Event) (vs : Nat → Nat)
    (b : Nat → Trie)
    (hfresh : ∀ i, (b i).cc.changes = [] ∧ (b i).cc.deletes = [])
    (hround : ∀ i, RoundEvents (vs (i + 1)) (T i) (E (i + 1)) (T (i + 1)))
    (hw0 : WF (T 0))
    (horg0 : ∀ r ∈ refs (T 0) [], origin r.t ≤ vs 0)
    (hmono : ∀ i j, i < j → vs i < vs j)
    (hU : KeyInjOn H (fun r => ∃ i, r ∈ refs (T i) [] ∨ r ∈ eventRefs (E (i + 1)))) :
    ∀ r j x, x ∈ deadKeys H ((b r).applyEvents H (E (r + 1))) → x ∉ nodeKeys H (T (r + 1 + j)) := by
  have hwf : ∀ i, WF (T i) := by
    intro i
    induction i with
    | zero => exact hw0
    | succ i ih => exact (round_ok (hround i) ih (fun r => r ∈ refs (T i) []) (fun _ h => h)).2.2
  have hnext : ∀ i, ∀ r ∈ refs (T (i + 1)) [], r ∈ refs (T i) [] ∨ r ∈ newRefs (E (i + 1)) := by
    intro i r hr
    have := (round_ok (hround i) (hwf i) (fun r => r ∈ refs (T i) []) (fun _ h => h)).2.1 r hr
    exact liveRunR_new _ _ r this
  have horg : ∀ i, ∀ r ∈ refs (T i) [], origin r.t ≤ vs i := by
    intro i
    induction i with
    | zero => exact horg0
    | succ i ih =>
      intro r hr
      rcases hnext i r hr with h | h
      · exact Nat.le_of_lt (Nat.lt_of_le_of_lt (ih r h) (hmono i (i + 1) (by omega)))
      · exact Nat.le_of_eq (round_new_origin (hround i) r h)
  intro r j x hx
  obtain ⟨d, hd, hdk⟩ := deadKeys_sub_eventRefs H (b r) (E (r + 1)) (hfresh r) x hx
  have hdorg : origin d.t ≤ vs (r + 1) := by
    have hdisc := (round_ok (hround r) (hwf r) (fun r' => r' ∈ refs (T r) []) (fun _ h => h)).1
    rcases eventRefs_sub_of_disc _ _ hdisc d hd with h | h
    · exact Nat.le_of_lt (Nat.lt_of_le_of_lt (horg r d h) (hmono r (r + 1) (by omega)))
    · exact Nat.le_of_eq (round_new_origin (hround r) d h)
  induction j with
  | zero =>
    apply dead_not_live H (T r) (T (r + 1)) (b r) (vs (r + 1)) (E (r + 1)) (hfresh r) (hwf r) (hround r) _ x hx
    intro a c ha hc hk
    exact hU a c ⟨r, ha⟩ ⟨r, hc⟩ hk
  | succ j ih =>
    intro hlive
    obtain ⟨ρ, hρ, hρk⟩ := List.mem_map.mp hlive
    have hρd : ρ = d := hU ρ d ⟨r + 1 + j + 1, Or.inl hρ⟩ ⟨r, Or.inr hd⟩ (hρk.trans hdk.symm)
    rcases hnext (r + 1 + j) ρ hρ with h | h
    · exact ih (List.mem_map.mpr ⟨ρ, h, hρk⟩)
    · have h1 := round_new_origin (hround (r + 1 + j)) ρ h
      rw [hρd] at h1
      have h2 := hmono (r + 1) (r + 1 + j + 1) (by omega)
      omega

/-- non-vacuity of `C05_dead_forever_rounds`: round 1 overwrites the only leaf, all later rounds are empty -/
example : ∀ r j x,
    x ∈ deadKeys id ((Trie.open [] .empty 0).applyEvents id
          ((fun i => if i = 1 then (insertE 2 [66] (.leaf 1 [3] [65]) [] [3]).2 ++ [] else ([] : List Event)) (r + 1))) →
    x ∉ nodeKeys id ((fun i => if i = 0 then Node.leaf 1 [3] [65] else .leaf 2 [3] [66]) (r + 1 + j)) := by
  have hne : Ref.key id ⟨[], .leaf 1 [3] [65]⟩ ≠ Ref.key id ⟨[], .leaf 2 [3] [66]⟩ := by
    intro hk
    simp [Ref.key, key, le64] at hk
    exact absurd (congrArg List.getLast? hk) (by simp)
  apply C05_dead_forever_rounds id (fun i => if i = 0 then Node.leaf 1 [3] [65] else .leaf 2 [3] [66])
    (fun i => if i = 1 then (insertE 2 [66] (.leaf 1 [3] [65]) [] [3]).2 ++ [] else []) (fun i => i + 1)
    (fun _ => Trie.open [] .empty 0) (fun _ => ⟨rfl, rfl⟩)
  · intro i
    cases i with
    | zero =>
      simp only [Nat.zero_add, if_true, Nat.reduceAdd]
      apply RoundEvents.ins _ _ _ _ _ (by simp)
      have h2 : (insertE 2 [66] (.leaf 1 [3] [65]) [] [3]).1 = .leaf 2 [3] [66] := by simp [insertE, splitCommon]
      rw [h2]
      exact RoundEvents.nil _
    | succ i => simp only [Nat.add_eq_zero_iff, Nat.succ_ne_zero, and_false, if_false, Nat.add_right_cancel_iff, false_and]
                exact RoundEvents.nil _
  · exact Or.inr (by simp [WFn])
  · intro r hr; simp [refs] at hr; subst hr; simp [origin]
  · intro i j h; omega
  · intro a c ⟨i, ha⟩ ⟨k, hc⟩ hk
    have hA : a = ⟨[], .leaf 1 [3] [65]⟩ ∨ a = ⟨[], .leaf 2 [3] [66]⟩ := by
      rcases ha with ha | ha
      · by_cases h0 : i = 0 <;> simp [h0, refs] at ha <;> simp [ha]
      · by_cases h0 : i = 0 <;> simp [h0, insertE, splitCommon, eventRefs] at ha
        rcases ha with ha | ha <;> simp [ha]
    have hC : c = ⟨[], .leaf 1 [3] [65]⟩ ∨ c = ⟨[], .leaf 2 [3] [66]⟩ := by
      rcases hc with hc | hc
      · by_cases h0 : k = 0 <;> simp [h0, refs] at hc <;> simp [hc]
      · by_cases h0 : k = 0 <;> simp [h0, insertE, splitCommon, eventRefs] at hc
        rcases hc with hc | hc <;> simp [hc]
    rcases hA with hA | hA <;> rcases hC with hC | hC <;> subst hA <;> subst hC <;>
      first | rfl | exact absurd hk hne | exact absurd hk.symm hne

/-- **A node recorded dead stays dead — chains of block runs with merged transactions at their own versions.**
    `T i` is the tree after block `i`; block `i+1` is a `TrieRun` from `T i` to `T (i+1)` (own rounds and merged, possibly
    nested, child tries) whose rounds run at versions of the set `S (i+1)` — a child may run at a version different from
    its parent's, `mergeChanges` keeps the child's origins (fix 280766e).  The version sets of different blocks are
    disjoint (the generator's constraint: a trie never runs at a version an earlier block of the store executed), the
    origins of the start tree lie in `S 0`, the key is injective on `U`.  Then a key recorded dead by block `r+1` is the
    key of no node of any later tree. -/
theorem C05_dead_forever_runs (H : Bytes → Bytes) (U : Ref → Prop) (hU : KeyInjOn H U) (T : Nat → Node)
    (E : Nat → List Event) (S : Nat → Nat → Prop) (b : Nat → Trie)
    (hfresh : ∀ i, (b i).cc.changes = [] ∧ (b i).cc.deletes = [])
    (hrun : ∀ i, TrieRun H U (S (i + 1)) (T i) (E (i + 1)) (T (i + 1)))
    (hw0 : WF (T 0)) (hU0 : ∀ r ∈ refs (T 0) [], U r)
    (horg0 : ∀ r ∈ refs (T 0) [], S 0 (origin r.t))
    (hdisj : ∀ i j, i < j → ∀ v, S i v → ¬ S j v) :
    ∀ r j x, x ∈ deadKeys H ((b r).applyEvents H (E (r + 1))) → x ∉ nodeKeys H (T (r + 1 + j)) := by
  have hinv : ∀ i, WF (T i) ∧ ∀ r ∈ refs (T i) [], U r := by
    intro i
    induction i with
    | zero => exact ⟨hw0, hU0⟩
    | succ i ih =>
      obtain ⟨_, _, hw, _, hu⟩ := trieRun_discipline H U hU (hrun i) ih.1 ih.2 (fun x => x ∈ (refs (T i) []).map (Ref.key H))
        (fun r hr => List.mem_map.mpr ⟨r, hr, rfl⟩)
        (by intro x hx; obtain ⟨r, hr, hk⟩ := List.mem_map.mp hx; exact ⟨r, ih.2 r hr, hk⟩)
      exact ⟨hw, hu⟩
  have hEU : ∀ i, ∀ r ∈ eventRefs (E (i + 1)), U r := by
    intro i
    exact (trieRun_discipline H U hU (hrun i) (hinv i).1 (hinv i).2 (fun x => x ∈ (refs (T i) []).map (Ref.key H))
        (fun r hr => List.mem_map.mpr ⟨r, hr, rfl⟩)
        (by intro x hx; obtain ⟨r, hr, hk⟩ := List.mem_map.mp hx; exact ⟨r, (hinv i).2 r hr, hk⟩)).2.2.2.1
  have horig := fun i => trieRun_origins H U hU (hrun i) (hinv i).1 (hinv i).2
  have horg : ∀ i, ∀ r ∈ refs (T i) [], ∃ k, k ≤ i ∧ S k (origin r.t) := by
    intro i
    induction i with
    | zero => intro r hr; exact ⟨0, Nat.le_refl _, horg0 r hr⟩
    | succ i ih =>
      intro r hr
      rcases (horig i).1 r hr with h | h
      · obtain ⟨k, hk, hs⟩ := ih r h
        exact ⟨k, Nat.le_succ_of_le hk, hs⟩
      · exact ⟨i + 1, Nat.le_refl _, (horig i).2.1 r h⟩
  intro r j x hx
  obtain ⟨d, hd, hdk⟩ := deadKeys_sub_eventRefs H (b r) (E (r + 1)) (hfresh r) x hx
  have hdorg : ∃ k, k ≤ r + 1 ∧ S k (origin d.t) := by
    rcases (horig r).2.2 d hd with h | h
    · obtain ⟨k, hk, hs⟩ := horg r d h
      exact ⟨k, Nat.le_succ_of_le hk, hs⟩
    · exact ⟨r + 1, Nat.le_refl _, h⟩
  induction j with
  | zero =>
    exact dead_not_live_run H U (S (r + 1)) (T r) (T (r + 1)) (b r) (E (r + 1)) (hfresh r) (hinv r).1 (hinv r).2 (hrun r) hU x hx
  | succ j ih =>
    intro hlive
    obtain ⟨ρ, hρ, hρk⟩ := List.mem_map.mp hlive
    have hρd : ρ = d := hU ρ d ((hinv (r + 1 + j + 1)).2 ρ hρ) (hEU r d hd) (hρk.trans hdk.symm)
    rcases (horig (r + 1 + j)).1 ρ hρ with h | h
    · exact ih (List.mem_map.mpr ⟨ρ, h, hρk⟩)
    · have h1 := (horig (r + 1 + j)).2.1 ρ h
      rw [hρd] at h1
      obtain ⟨k, hk, hs⟩ := hdorg
      exact hdisj k (r + 1 + j + 1) (by omega) _ hs h1

/-- non-vacuity of `C05_dead_forever_runs`: block 1 overwrites the only leaf at version 2, all later blocks are empty -/
example : ∀ r j x,
    x ∈ deadKeys id ((Trie.open [] .empty 0).applyEvents id
          ((fun i => if i = 1 then (insertE 2 [66] (.leaf 1 [3] [65]) [] [3]).2 ++ [] else ([] : List Event)) (r + 1))) →
    x ∉ nodeKeys id ((fun i => if i = 0 then Node.leaf 1 [3] [65] else .leaf 2 [3] [66]) (r + 1 + j)) := by
  have hne : Ref.key id ⟨[], .leaf 1 [3] [65]⟩ ≠ Ref.key id ⟨[], .leaf 2 [3] [66]⟩ := by
    intro hk
    simp [Ref.key, key, le64] at hk
    exact absurd (congrArg List.getLast? hk) (by simp)
  apply C05_dead_forever_runs id (fun a => a = ⟨[], .leaf 1 [3] [65]⟩ ∨ a = ⟨[], .leaf 2 [3] [66]⟩) _
    (fun i => if i = 0 then Node.leaf 1 [3] [65] else .leaf 2 [3] [66])
    (fun i => if i = 1 then (insertE 2 [66] (.leaf 1 [3] [65]) [] [3]).2 ++ [] else []) (fun i v => v = i + 1)
    (fun _ => Trie.open [] .empty 0) (fun _ => ⟨rfl, rfl⟩)
  · intro i
    cases i with
    | zero =>
      simp only [Nat.zero_add, if_true, Nat.reduceAdd]
      have hround : RoundEvents 2 (.leaf 1 [3] [65]) ((insertE 2 [66] (.leaf 1 [3] [65]) [] [3]).2 ++ []) (.leaf 2 [3] [66]) := by
        apply RoundEvents.ins _ _ _ _ _ (by simp)
        have h2 : (insertE 2 [66] (.leaf 1 [3] [65]) [] [3]).1 = .leaf 2 [3] [66] := by simp [insertE, splitCommon]
        rw [h2]
        exact RoundEvents.nil _
      have := TrieRun.own (H := id) (U := fun a => a = ⟨[], .leaf 1 [3] [65]⟩ ∨ a = ⟨[], .leaf 2 [3] [66]⟩)
        (Vok := fun v => v = 2) 2 _ _ _ _ [] rfl hround
        (by intro a ha; simp [insertE, splitCommon, eventRefs] at ha; rcases ha with ha | ha <;> simp [ha])
        (TrieRun.nil _)
      simpa using this
    | succ i => simp only [Nat.add_eq_zero_iff, Nat.succ_ne_zero, and_false, if_false, Nat.add_right_cancel_iff, false_and]
                exact TrieRun.nil _
  · exact Or.inr (by simp [WFn])
  · intro r hr; simp [refs] at hr; subst hr; exact Or.inl rfl
  · intro r hr; simp [refs] at hr; subst hr; simp [origin]
  · intro i j h v h1 h2; omega
  · intro a c hA hC hk
    rcases hA with hA | hA <;> rcases hC with hC | hC <;> subst hA <;> subst hC <;>
      first | rfl | exact absurd hk hne | exact absurd hk.symm hne

/-- **Fresh origin**: every node an insert or delete at trie version `v` hands to `insertNode` as NEW carries origin
    `v` (so, the origin being part of the hashed bytes, a later round cannot re-create a key of an earlier origin —
    hypothesis `hstep` of `C05_dead_forever`). -/
theorem fresh_origin (v : Nat) (b : Bytes) (t : Node) (pre p : List Nib) :
    (∀ e ∈ (insertE v b t pre p).2, NewOrigin v e) ∧ (∀ e ∈ (deleteE v t pre p).2, NewOrigin v e) :=
  ⟨insertE_new_origin v b t pre p, deleteE_new_origin v t pre p⟩

/-- **Prune deletes only recorded keys**: every key deleted by (any prefix of) the write stream of
    `PruneBelowVersion v` is listed in a dead-node record of a version below `v`. -/
theorem prune_only_recorded (maxN : Nat) (s : PStore) (v n : Nat) :
    ∀ x ∈ prunedKeys ((pruneStream maxN s v).take n), ∃ e ∈ s.dead, e.1 < v ∧ x ∈ e.2 := by
  intro x hx
  have hx := prunedKeys_take_subset _ _ _ hx
  simp only [pruneStream] at hx
  split at hx
  · simp [prunedKeys] at hx
  simp only [prunedKeys_append, List.mem_append] at hx
  rcases hx with hx | hx
  · rcases prunedKeys_batches maxN _ [] x hx with h | ⟨e, he, hxe⟩
    · cases h
    · have := mem_recordsBelow s.dead v e he
      exact ⟨e, this.1, this.2, hxe⟩
  · simp [prunedKeys] at hx

/-- lookups after any prefix of a prune: a key is gone iff that prefix deleted it (nothing is added or changed) -/
theorem prune_prefix_get (maxN : Nat) (s : PStore) (v n : Nat) (x : Bytes) :
    Map.get (s.applyAll ((pruneStream maxN s v).take n)).nodes x
      = if x ∈ prunedKeys ((pruneStream maxN s v).take n) then none else Map.get s.nodes x :=
  get_nodes_pruneOnly _ s (pruneOnly_take _ n (pruneOnly_stream maxN s v)) x

/-- **Prune is safe, also when interrupted.**  If no key recorded dead below `v` is a node of `t` (which
    `C05_dead_forever` gives for every round at a version ≥ v), then after ANY prefix of the prune's write stream the
    tree `t` still resolves. -/
theorem C05_prune_safe (H : Bytes → Bytes) (maxN : Nat) (s : PStore) (v n : Nat) (t : Node)
    (hres : Resolves H (Map.get s.nodes) t [])
    (hdead : ∀ e ∈ s.dead, e.1 < v → ∀ x ∈ e.2, x ∉ nodeKeys H t) :
    Resolves H (Map.get (s.applyAll ((pruneStream maxN s v).take n)).nodes) t [] := by
  intro r hr
  rw [prune_prefix_get]
  have hnot : r.key H ∉ prunedKeys ((pruneStream maxN s v).take n) := by
    intro hx
    obtain ⟨e, he, hv, hxe⟩ := prune_only_recorded maxN s v n _ hx
    exact hdead e he hv _ hxe (List.mem_map.mpr ⟨r, hr, rfl⟩)
  simp only [hnot, if_false]
  exact hres r hr

/-- **Re-running an interrupted prune is safe** (any prefix of the re-run, after any prefix of the first run). -/
theorem C05_prune_rerun (H : Bytes → Bytes) (maxN : Nat) (s : PStore) (v n m : Nat) (t : Node)
    (hres : Resolves H (Map.get s.nodes) t [])
    (hdead : ∀ e ∈ s.dead, e.1 < v → ∀ x ∈ e.2, x ∉ nodeKeys H t) :
    let s1 := s.applyAll ((pruneStream maxN s v).take n)
    Resolves H (Map.get (s1.applyAll ((pruneStream maxN s1 v).take m)).nodes) t [] := by
  intro s1
  apply C05_prune_safe H maxN s1 v m t (C05_prune_safe H maxN s v n t hres hdead)
  intro e he hv x hx
  -- prune-only writes only remove records
  have hsub : ∀ e' ∈ s1.dead, e' ∈ s.dead := by
    intro e' he'
    exact dead_subset_pruneOnly _ s (pruneOnly_take _ n (pruneOnly_stream maxN s v)) e' he'
  exact hdead e (hsub e he) hv x hx

/-- non-vacuity of `C05_prune_safe`: a store with a live leaf and one dead key recorded at version 1; prune below 2 -/
example (n : Nat) :
    let live : Ref := ⟨[], .leaf 2 [3] [66]⟩
    let s : PStore := { nodes := [(live.key id, live.encode id), ([1, 2, 3], [9])], dead := [(1, [[1, 2, 3]])] }
    Resolves id (Map.get (s.applyAll ((pruneStream 1000 s 2).take n)).nodes) (.leaf 2 [3] [66]) [] := by
  intro live s
  apply C05_prune_safe
  · intro r hr; simp [refs] at hr; subst hr; simp [Map.get, s, live]
  · intro e he _ x hx
    simp [s] at he
    subst he
    simp at hx
    subst hx
    simp [nodeKeys, refs, Ref.key, key, le64]
    intro hk
    exact absurd (congrArg List.getLast? hk) (by simp)
/-! ### rounds executed and saved more than once at the same version (competing blocks)

Round `i+1` runs at version `ver (i+1)` and is executed `n (i+1) + 1` times, every execution from the tree `T i` the
chain has reached; every execution is saved and records its dead set under the round's version.  The chain continues
from the LAST execution (`T (i+1)` is its tree), the earlier ones are abandoned.  `RecordDeadNodes` overwrites the record
of the version (`recOverwrite`, = `PStore.apply (.putRec ..)`), so the final record map holds, per round, the dead set of
the last execution only (`mem_recRounds_overwrite`).  Nothing is assumed about the abandoned executions. -/

/-- **A node recorded dead stays dead — rounds executed again at the same version.**  For every record `(v, ks)` of the
    record map after `R` rounds (overwrite policy) `v` is the version of a round `i+1 ≤ R` and no key of `ks` is the key
    of a node of the tree of the last execution of that round, nor of any later retained tree.  Hypotheses on the
    retained chain as in `C05_dead_forever_runs` (per-round version sets pairwise disjoint, `KeyInjOn`); none on the
    abandoned executions (`E i k`, `k < n i`, are arbitrary event lists). -/
theorem C05_dead_forever_reexec (H : Bytes → Bytes) (U : Ref → Prop) (hU : KeyInjOn H U) (T : Nat → Node)
    (ver n : Nat → Nat) (E : Nat → Nat → List Event) (S : Nat → Nat → Prop) (b : Nat → Nat → Trie)
    (hfresh : ∀ i k, (b i k).cc.changes = [] ∧ (b i k).cc.deletes = [])
    (hrun : ∀ i, TrieRun H U (S (i + 1)) (T i) (E (i + 1) (n (i + 1))) (T (i + 1)))
    (hw0 : WF (T 0)) (hU0 : ∀ r ∈ refs (T 0) [], U r)
    (horg0 : ∀ r ∈ refs (T 0) [], S 0 (origin r.t))
    (hdisj : ∀ i j, i < j → ∀ v, S i v → ¬ S j v) (R : Nat) :
    ∀ e ∈ recRounds recOverwrite ver n (fun i k => deadKeys H ((b i k).applyEvents H (E i k))) R,
      ∃ i, i < R ∧ e.1 = ver (i + 1) ∧ ∀ x ∈ e.2, ∀ j, x ∉ nodeKeys H (T (i + 1 + j)) := by
  intro e he
  obtain ⟨i, hi, rfl⟩ := mem_recRounds_overwrite ver n _ R e he
  refine ⟨i, hi, rfl, ?_⟩
  intro x hx j
  exact C05_dead_forever_runs H U hU T (fun i => E i (n i)) S (fun i => b (i + 1) (n (i + 1)))
    (fun i => hfresh _ _) hrun hw0 hU0 horg0 hdisj i j x hx

/-- **Prune safety over the record map of re-executed rounds** (any prefix of the prune's write stream, any batch size,
    any prefix of a re-run): if every round at a version below the prune version `pv` is at or before round `j`, the
    retained tree `T j` — resolvable before — stays resolvable. -/
theorem C05_prune_safe_reexec (H : Bytes → Bytes) (U : Ref → Prop) (hU : KeyInjOn H U) (T : Nat → Node)
    (ver n : Nat → Nat) (E : Nat → Nat → List Event) (S : Nat → Nat → Prop) (b : Nat → Nat → Trie)
    (hfresh : ∀ i k, (b i k).cc.changes = [] ∧ (b i k).cc.deletes = [])
    (hrun : ∀ i, TrieRun H U (S (i + 1)) (T i) (E (i + 1) (n (i + 1))) (T (i + 1)))
    (hw0 : WF (T 0)) (hU0 : ∀ r ∈ refs (T 0) [], U r)
    (horg0 : ∀ r ∈ refs (T 0) [], S 0 (origin r.t))
    (hdisj : ∀ i j, i < j → ∀ v, S i v → ¬ S j v) (R maxN : Nat) (s : PStore)
    (hs : s.dead = recRounds recOverwrite ver n (fun i k => deadKeys H ((b i k).applyEvents H (E i k))) R)
    (pv p q j : Nat) (hj : ∀ i, i < R → ver (i + 1) < pv → i + 1 ≤ j)
    (hres : Resolves H (Map.get s.nodes) (T j) []) :
    Resolves H (Map.get (s.applyAll ((pruneStream maxN s pv).take p)).nodes) (T j) [] ∧
    Resolves H (Map.get ((s.applyAll ((pruneStream maxN s pv).take p)).applyAll
      ((pruneStream maxN (s.applyAll ((pruneStream maxN s pv).take p)) pv).take q)).nodes) (T j) [] := by
  have hdead : ∀ e ∈ s.dead, e.1 < pv → ∀ x ∈ e.2, x ∉ nodeKeys H (T j) := by
    intro e he hlt x hx
    rw [hs] at he
    obtain ⟨i, hi, hv, hd⟩ := C05_dead_forever_reexec H U hU T ver n E S b hfresh hrun hw0 hU0 horg0 hdisj R e he
    have hle := hj i hi (hv ▸ hlt)
    have := hd x hx (j - (i + 1))
    rwa [Nat.add_sub_cancel' hle] at this
  exact ⟨C05_prune_safe H maxN s pv p (T j) hres hdead, C05_prune_rerun H maxN s pv p q (T j) hres hdead⟩

/-- the case of one execution per round (`n = 0`): the record map holds the dead set of every round's only execution,
    and each is dead forever (`C05_dead_forever_runs` read off the record map) -/
theorem C05_dead_forever_single_exec (H : Bytes → Bytes) (U : Ref → Prop) (hU : KeyInjOn H U) (T : Nat → Node)
    (ver : Nat → Nat) (E : Nat → List Event) (S : Nat → Nat → Prop) (b : Nat → Trie)
    (hfresh : ∀ i, (b i).cc.changes = [] ∧ (b i).cc.deletes = [])
    (hrun : ∀ i, TrieRun H U (S (i + 1)) (T i) (E (i + 1)) (T (i + 1)))
    (hw0 : WF (T 0)) (hU0 : ∀ r ∈ refs (T 0) [], U r)
    (horg0 : ∀ r ∈ refs (T 0) [], S 0 (origin r.t))
    (hdisj : ∀ i j, i < j → ∀ v, S i v → ¬ S j v) (R : Nat) :
    ∀ e ∈ recRounds recOverwrite ver (fun _ => 0) (fun i _ => deadKeys H ((b i).applyEvents H (E i))) R,
      ∃ i, i < R ∧ e.1 = ver (i + 1) ∧ ∀ x ∈ e.2, ∀ j, x ∉ nodeKeys H (T (i + 1 + j)) :=
  C05_dead_forever_reexec H U hU T ver (fun _ => 0) (fun i _ => E i) S (fun i _ => b i) (fun i _ => hfresh i) hrun hw0 hU0
    horg0 hdisj R

/-! #### the witness: one leaf; round 1 (version 2) is executed twice — first the leaf is overwritten (its key dies),
then, from the same start tree, nothing is done (nothing dies, the leaf stays live) -/

/-- on the witness the overwrite policy leaves the empty record of the last execution -/
theorem reexec_witness_overwrite : recRounds recOverwrite (fun _ => 2) (fun _ => 1) wD 1 = [(2, [])] := by
  simp [recRounds, recExecs, recOverwrite, wD_first, wD_second, Map.put, Map.del]

/-- **Negative: the record must be overwritten also by an empty dead set.**  With "nothing is written when nothing
    died" (`recSkipEmpty`) the record of the abandoned first execution survives and names the key of the leaf that is
    live in the retained tree: the conclusion of `C05_dead_forever_reexec` is false. -/
theorem reexec_skip_empty_unsafe :
    ∃ e ∈ recRounds recSkipEmpty (fun _ => 2) (fun _ => 1) wD 1, ∃ x ∈ e.2, x ∈ nodeKeys id wT0 := by
  refine ⟨(2, [Ref.key id ⟨[], wT0⟩]), ?_, Ref.key id ⟨[], wT0⟩, List.mem_singleton.mpr rfl, ?_⟩
  · simp [recRounds, recExecs, recSkipEmpty, wD_first, wD_second, Map.put, Map.del]
  · simp [nodeKeys, refs, wT0]

/-- **Negative: the records of the executions of a round must not be merged** (`recMerge`): same witness. -/
theorem reexec_merge_unsafe :
    ∃ e ∈ recRounds recMerge (fun _ => 2) (fun _ => 1) wD 1, ∃ x ∈ e.2, x ∈ nodeKeys id wT0 := by
  refine ⟨(2, [Ref.key id ⟨[], wT0⟩]), ?_, Ref.key id ⟨[], wT0⟩, List.mem_singleton.mpr rfl, ?_⟩
  · simp [recRounds, recExecs, recMerge, wD_first, wD_second, Map.put, Map.del, Map.get]
  · simp [nodeKeys, refs, wT0]

/-- ... and the next prune removes the live leaf: with the stale record the store that held the retained tree no longer
    resolves it after `PruneBelowVersion 3` -/
theorem reexec_skip_empty_prune_kills :
    let s : PStore := { nodes := [(Ref.key id ⟨[], wT0⟩, Ref.encode id ⟨[], wT0⟩)],
                        dead := recRounds recSkipEmpty (fun _ => 2) (fun _ => 1) wD 1 }
    Resolves id (Map.get s.nodes) wT0 [] ∧ ¬ Resolves id (Map.get (s.applyAll (pruneStream 1000 s 3)).nodes) wT0 [] := by
  have hrec : recRounds recSkipEmpty (fun _ => 2) (fun _ => 1) wD 1 = [(2, [Ref.key id ⟨[], wT0⟩])] := by
    simp [recRounds, recExecs, recSkipEmpty, wD_first, wD_second, Map.put, Map.del]
  rw [hrec]
  intro s
  constructor
  · intro r hr
    simp [refs, wT0] at hr
    subst hr
    simp [s, Map.get, wT0]
  · intro h
    have := h ⟨[], wT0⟩ (by simp [refs, wT0])
    simp [pruneStream, recordsBelow, insertSorted, pruneBatches, PStore.applyAll, PStore.apply, Map.delAll, Map.del,
      Map.get, s] at this

/-- non-vacuity of `C05_dead_forever_reexec` and `C05_prune_safe_reexec`: the witness history satisfies their
    hypotheses (the last execution of round 1 is the empty run; later rounds are empty) -/
example : ∀ e ∈ recRounds recOverwrite (fun _ => 2) (fun _ => 1) wD 1,
    ∃ i, i < 1 ∧ e.1 = (fun _ => 2) (i + 1) ∧ ∀ x ∈ e.2, ∀ j, x ∉ nodeKeys id ((fun _ => wT0) (i + 1 + j)) := by
  apply C05_dead_forever_reexec id (fun a => a = ⟨[], wT0⟩) _ (fun _ => wT0) (fun _ => 2) (fun _ => 1) wE
    (fun i v => v = i + 1) (fun _ _ => Trie.open [] wT0 2) (fun _ _ => ⟨rfl, rfl⟩)
  · intro i
    have : wE (i + 1) 1 = [] := by simp [wE]
    rw [this]
    exact TrieRun.nil _
  · exact Or.inr (by simp [wT0, WFn])
  · intro r hr; simp [refs, wT0] at hr; subst hr; rfl
  · intro r hr; simp [refs, wT0] at hr; subst hr; simp [origin]
  · intro i j h v h1 h2; omega
  · intro a c ha hc _; rw [ha, hc]
/-- non-vacuity of `C05_prune_safe_reexec`: the witness store (the leaf, and the record map the overwrite policy leaves)
    keeps the retained tree through any prefix of `PruneBelowVersion 3` and of its re-run -/
example (p q : Nat) :
    let s : PStore := { nodes := [(Ref.key id ⟨[], wT0⟩, Ref.encode id ⟨[], wT0⟩)],
                        dead := recRounds recOverwrite (fun _ => 2) (fun _ => 1) wD 1 }
    Resolves id (Map.get (s.applyAll ((pruneStream 1000 s 3).take p)).nodes) wT0 [] ∧
    Resolves id (Map.get ((s.applyAll ((pruneStream 1000 s 3).take p)).applyAll
      ((pruneStream 1000 (s.applyAll ((pruneStream 1000 s 3).take p)) 3).take q)).nodes) wT0 [] := by
  intro s
  apply C05_prune_safe_reexec id (fun a => a = ⟨[], wT0⟩) _ (fun _ => wT0) (fun _ => 2) (fun _ => 1) wE
    (fun i v => v = i + 1) (fun _ _ => Trie.open [] wT0 2) (fun _ _ => ⟨rfl, rfl⟩) _ _ _ _ _ 1 1000 s rfl 3 p q 1
  · intro i hi _; omega
  · intro r hr
    simp [refs, wT0] at hr
    subst hr
    simp [s, Map.get, wT0]
  · intro a c ha hc _; rw [ha, hc]
  · intro i
    have : wE (i + 1) 1 = [] := by simp [wE]
    rw [this]
    exact TrieRun.nil _
  · exact Or.inr (by simp [wT0, WFn])
  · intro r hr; simp [refs, wT0] at hr; subst hr; rfl
  · intro r hr; simp [refs, wT0] at hr; subst hr; simp [origin]
  · intro i j h v h1 h2; omega

/-- non-vacuity of `C05_dead_forever_single_exec`: the one-leaf chain of empty rounds -/
example : ∀ e ∈ recRounds recOverwrite (fun i => i + 1) (fun _ => 0)
      (fun i _ => deadKeys id (((fun _ => Trie.open [] wT0 2) i).applyEvents id ((fun _ => ([] : List Event)) i))) 3,
    ∃ i, i < 3 ∧ e.1 = (fun i => i + 1) (i + 1) ∧ ∀ x ∈ e.2, ∀ j, x ∉ nodeKeys id ((fun _ => wT0) (i + 1 + j)) := by
  apply C05_dead_forever_single_exec id (fun a => a = ⟨[], wT0⟩) _ (fun _ => wT0) (fun i => i + 1) (fun _ => [])
    (fun i v => v = i + 1) (fun _ => Trie.open [] wT0 2) (fun _ => ⟨rfl, rfl⟩)
  · intro i; exact TrieRun.nil _
  · exact Or.inr (by simp [wT0, WFn])
  · intro r hr; simp [refs, wT0] at hr; subst hr; rfl
  · intro r hr; simp [refs, wT0] at hr; subst hr; simp [origin]
  · intro i j h v h1 h2; omega
  · intro a c ha hc _; rw [ha, hc]
/-! ### interleaved histories: node writes, record writes and prune prefixes in any order -/

/-- one durable step of the store's life: the node batch of round `i`'s save, its dead-node record, or the first `n`
    writes of `PruneBelowVersion pv` (a complete prune, or one interrupted by a crash) -/
inductive SOp where
  | putNodes (i : Nat)
  | putRec (i : Nat)
  | prune (pv n : Nat)

def SOp.apply (N : Nat → List (Bytes × Bytes)) (D : Nat → List Bytes) (ver : Nat → Nat) (maxN : Nat) (s : PStore) : SOp → PStore
  | .putNodes i => s.apply (.putNodes (N i))
  | .putRec i => s.apply (.putRec (ver i) (D i))
  | .prune pv n => s.applyAll ((pruneStream maxN s pv).take n)

/-- every dead-node record of the store is the record of some round (possibly overwritten by a re-execution: `D i` is
    whatever the last `putRec i` wrote) -/
def Genuine (D : Nat → List Bytes) (ver : Nat → Nat) (s : PStore) : Prop := ∀ e ∈ s.dead, ∃ i, e = (ver i, D i)

/-- **Prune safety over the life of the store.**  For ANY sequence of node-batch writes, record writes (in either order
    within a save, also with a crash between them) and prune prefixes (complete, interrupted, re-run): a tree `T j` that
    resolves in the store keeps resolving, provided every prune of the sequence is below versions of rounds `≤ j` only.
    Hypotheses: `hdead` - the keys recorded by round `i` are keys of no node of `T j` for `i ≤ j` (the conclusion of
    `C05_dead_forever_reexec` / `_runs`); `hnodes` - a save's node batch keeps resolvable trees resolvable (`C04_old_roots`).
    The record map need not be complete: records come and go. -/
theorem C05_history_safe (H : Bytes → Bytes) (T : Nat → Node) (N : Nat → List (Bytes × Bytes)) (D : Nat → List Bytes)
    (ver : Nat → Nat) (maxN j : Nat)
    (hdead : ∀ i, i ≤ j → ∀ x ∈ D i, x ∉ nodeKeys H (T j))
    (hnodes : ∀ (s : PStore) (i : Nat), Resolves H (Map.get s.nodes) (T j) [] →
      Resolves H (Map.get (s.apply (.putNodes (N i))).nodes) (T j) []) :
    ∀ (ops : List SOp) (s : PStore), Genuine D ver s →
      (∀ pv n, SOp.prune pv n ∈ ops → ∀ i, ver i < pv → i ≤ j) →
      Resolves H (Map.get s.nodes) (T j) [] →
      Resolves H (Map.get (ops.foldl (SOp.apply N D ver maxN) s).nodes) (T j) [] ∧
      Genuine D ver (ops.foldl (SOp.apply N D ver maxN) s) := by
  intro ops
  induction ops with
  | nil => intro s hg _ hr; exact ⟨hr, hg⟩
  | cons op ops ih =>
    intro s hg hp hr
    simp only [List.foldl_cons]
    apply ih
    · cases op with
      | putNodes i => exact hg
      | putRec i =>
        intro e he
        rcases mem_put s.dead (ver i) (D i) e he with h | ⟨h, _⟩
        · exact ⟨i, h⟩
        · exact hg e h
      | prune pv n =>
        intro e he
        exact hg e (dead_subset_pruneOnly _ s (pruneOnly_take _ n (pruneOnly_stream maxN s pv)) e he)
    · intro pv n hm; exact hp pv n (List.mem_cons_of_mem _ hm)
    · cases op with
      | putNodes i => exact hnodes s i hr
      | putRec i => exact hr
      | prune pv n =>
        apply C05_prune_safe H maxN s pv n (T j) hr
        intro e he hlt x hx
        obtain ⟨i, rfl⟩ := hg e he
        exact hdead i (hp pv n (List.mem_cons_self ..) i hlt) x hx

/-- non-vacuity of `C05_history_safe`: the witness leaf; save of round 1 in the order record-then-nodes, an interrupted
    prune, the prune again, another save, another prune -/
example : let s0 : PStore := { nodes := [(Ref.key id ⟨[], wT0⟩, Ref.encode id ⟨[], wT0⟩)] }
    Resolves id (Map.get (([SOp.putRec 1, .putNodes 1, .prune 3 1, .prune 3 5, .putNodes 2, .putRec 2, .prune 9 7].foldl
      (SOp.apply (fun _ => []) (fun _ => []) (fun i => i + 1) 1000) s0).nodes)) wT0 [] := by
  intro s0
  refine (C05_history_safe id (fun _ => wT0) (fun _ => []) (fun _ => []) (fun i => i + 1) 1000 100 ?_ ?_ _ s0 ?_ ?_ ?_).1
  · intro i _ x hx; cases hx
  · intro s i h; simpa [PStore.apply, Map.putAll] using h
  · intro e he; cases he
  · intro pv n hm i hlt
    simp only [List.mem_cons, SOp.prune.injEq, reduceCtorEq, false_or, List.mem_nil_iff, or_false] at hm
    rcases hm with ⟨rfl, _⟩ | ⟨rfl, _⟩ | ⟨rfl, _⟩ <;> omega
  · intro r hr
    simp [refs, wT0] at hr
    subst hr
    simp [s0, Map.get, wT0]

/-- non-vacuity of `C05_dead_forever_reexec` on a chain whose RETAINED round changes something: round 1 (version 2) is
    executed twice from the leaf `[3] := 65` - first `[3] := 66` (abandoned), then `[3] := 67` (retained: the leaf of
    version 1 dies, the tree becomes the leaf of version 2 with 67) -/
example : ∀ e ∈ recRounds recOverwrite (fun _ => 2) (fun i => if i = 1 then 1 else 0)
      (fun i k => deadKeys id ((Trie.open [] .empty 0).applyEvents id
        ((fun i k => if i = 1 then (if k = 0 then (insertE 2 [66] (.leaf 1 [3] [65]) [] [3]).2 ++ []
                                     else (insertE 2 [67] (.leaf 1 [3] [65]) [] [3]).2 ++ []) else ([] : List Event)) i k))) 1,
    ∃ i, i < 1 ∧ e.1 = (fun _ => 2) (i + 1) ∧
      ∀ x ∈ e.2, ∀ j, x ∉ nodeKeys id ((fun i => if i = 0 then Node.leaf 1 [3] [65] else .leaf 2 [3] [67]) (i + 1 + j)) := by
  have hne : Ref.key id ⟨[], .leaf 1 [3] [65]⟩ ≠ Ref.key id ⟨[], .leaf 2 [3] [67]⟩ := by
    intro hk
    simp [Ref.key, key, le64] at hk
    exact absurd (congrArg List.getLast? hk) (by simp)
  apply C05_dead_forever_reexec id (fun a => a = ⟨[], .leaf 1 [3] [65]⟩ ∨ a = ⟨[], .leaf 2 [3] [67]⟩) _
    (fun i => if i = 0 then Node.leaf 1 [3] [65] else .leaf 2 [3] [67]) (fun _ => 2) (fun i => if i = 1 then 1 else 0)
    (fun i k => if i = 1 then (if k = 0 then (insertE 2 [66] (.leaf 1 [3] [65]) [] [3]).2 ++ []
                               else (insertE 2 [67] (.leaf 1 [3] [65]) [] [3]).2 ++ []) else [])
    (fun i v => v = i + 1) (fun _ _ => Trie.open [] .empty 0) (fun _ _ => ⟨rfl, rfl⟩)
  · intro i
    cases i with
    | zero =>
      simp only [Nat.zero_add, if_true, Nat.reduceAdd, Nat.succ_ne_zero, if_false]
      have hround : RoundEvents 2 (.leaf 1 [3] [65]) ((insertE 2 [67] (.leaf 1 [3] [65]) [] [3]).2 ++ []) (.leaf 2 [3] [67]) := by
        apply RoundEvents.ins _ _ _ _ _ (by simp)
        have h2 : (insertE 2 [67] (.leaf 1 [3] [65]) [] [3]).1 = .leaf 2 [3] [67] := by simp [insertE, splitCommon]
        rw [h2]
        exact RoundEvents.nil _
      have := TrieRun.own (H := id) (U := fun a => a = ⟨[], .leaf 1 [3] [65]⟩ ∨ a = ⟨[], .leaf 2 [3] [67]⟩)
        (Vok := fun v => v = 2) 2 _ _ _ _ [] rfl hround
        (by intro a ha; simp [insertE, splitCommon, eventRefs] at ha; rcases ha with ha | ha <;> simp [ha])
        (TrieRun.nil _)
      simpa using this
    | succ i => simp only [Nat.add_eq_zero_iff, Nat.succ_ne_zero, and_false, if_false, Nat.add_right_cancel_iff, false_and]
                exact TrieRun.nil _
  · exact Or.inr (by simp [WFn])
  · intro r hr; simp [refs] at hr; subst hr; exact Or.inl rfl
  · intro r hr; simp [refs] at hr; subst hr; simp [origin]
  · intro i j h v h1 h2; omega
  · intro a c hA hC hk
    rcases hA with hA | hA <;> rcases hC with hC | hC <;> subst hA <;> subst hC <;>
      first | rfl | exact absurd hk hne | exact absurd hk.symm hne

end Verif.Props.C05
