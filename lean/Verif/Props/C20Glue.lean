/-
C20 — the glue around the ring: level filtering by `Check` (root and derived cores) and `WriteLogs(detail)`.
Model: `Verif.Model.RingGlue` on top of the heap-level ring.
-/
import Verif.Lemmas.RingGlue
import Verif.Props.C20
namespace Verif.Props.C20
open Verif.Ring

/-- **Filtering and rendering.**  For a logger created with minimum level `min`, after any history of writes at any
levels through the root core and cores derived from it, `GetLogs` holds exactly the `cap` newest *enabled* entries
(level ≥ `min`, whichever logger they came through), newest first, and `WriteLogs(detail)` renders exactly those, in
that order, one each. -/
theorem C20_glue (cap : Nat) (hc : 0 < cap) (min : Int) (h : List GOp) (detail : Int) :
    getLogsG (runG (initG cap min) h) = (Spec.run Spec.init (h.filterMap (keep min))).log.take cap ∧
    writeLogs detail (runG (initG cap min) h)
      = ((Spec.run Spec.init (h.filterMap (keep min))).log.take cap).map (renderEntry detail) := by
  have hg : getLogsG (runG (initG cap min) h) = (Spec.run Spec.init (h.filterMap (keep min))).log.take cap := by
    unfold getLogsG
    rw [runG_keep min h _ (ginv_init cap min)]
    have := (C20_snapshot_immutable (ε := LEntry) cap (h.filterMap (keep min)) []).2
    simp only [initG] at this ⊢
    rw [this, C20_seq cap hc]
  exact ⟨hg, by unfold writeLogs; rw [hg]⟩

/-- a derived core keeps the `LevelEnabler` of the core it was derived from: every core of the logger filters at `min` -/
theorem C20_derived_keeps_level (cap : Nat) (min : Int) (h : List GOp) :
    ∀ m ∈ (runG (initG cap min) h).enab, m = min :=
  (ginv_run min h _ (ginv_init cap min)).all

/-- which parts `WriteLogs` shows: fields from detail 2, stack trace from detail 3 and only if the entry has one -/
example : renderEntry 1 ⟨2, "m", [("k", "v")], true⟩ = ⟨2, "m", [], false⟩ ∧
    renderEntry 2 ⟨2, "m", [("k", "v")], true⟩ = ⟨2, "m", [("k", "v")], false⟩ ∧
    renderEntry 3 ⟨2, "m", [("k", "v")], true⟩ = ⟨2, "m", [("k", "v")], true⟩ ∧
    renderEntry 3 ⟨0, "m", [], false⟩ = ⟨0, "m", [], false⟩ ∧
    renderEntry (-4) ⟨2, "m", [("k", "v")], true⟩ = ⟨2, "m", [], false⟩ := by decide

/-- a derived logger filters like the root: min = Info, a Debug entry through the derived logger is dropped -/
example : (getLogsG (runG (initG 4 0) [.log 0 ⟨0, "a", [], false⟩, .derive 0, .log 1 ⟨-1, "dbg", [], false⟩,
    .log 1 ⟨1, "w", [], false⟩])).map (·.msg) = ["w", "a"] := by decide

/-- `strconv.Atoi` with the error ignored -/
example : atoi "" = 0 ∧ atoi "2" = 2 ∧ atoi "+3" = 3 ∧ atoi "-5" = -5 ∧ atoi "abc" = 0 ∧ atoi "3.0" = 0 ∧
    atoi " 3" = 0 ∧ atoi "99999999999999999999" = 9223372036854775807 ∧
    atoi "-99999999999999999999" = -9223372036854775808 := by decide

end Verif.Props.C20
