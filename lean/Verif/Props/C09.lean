/-
C09 — weighted trie: total weight, block ownership and root follow content.

Spec tree `PT` (Verif.Model.WmptSpec): `entries t` is the live (key, value, weight) list in key order.
Proved here (for every tree, no size bound):

  weight_sum      the total weight of a trie is the sum of the weights of its live entries
  ownerSpec_iff   `ownerSpec es b` is exactly "the entry whose cumulative-weight interval (in list order) contains b"
  owner_interval  the weight-ordered descent used by GetBlockProof reaches that entry for every block 1..total
  owner_out_of_range  beyond the total weight there is no owner

Histories (`ptRun ops` = the spec trie after any sequence of updates / deletes of n-nibble keys, `mapRun ops` = the
finite map the same sequence denotes; `PT.insert` / `PT.delete` mirror trie.go case by case):

  history_content   the entry list of the trie is exactly the live (key, value, weight) set, strictly sorted by key
  history_weight    total weight = sum of the live weights, after every history
  history_owner     owner of block b = the live key whose cumulative-weight interval in key order contains b
  root_canon        the trie equals the independent construction `canonOf` from its live entries (hence so does its hash)
  root_history_independent   two histories that denote the same map give the same trie and the same root hash

Implementation-shaped model (`WN` with dirty flags, cached hashes, cached branch weights; `insert` / `delete` of
Verif.Model.WmptOps; `abs` = the spec tree of an in-memory node):

  abs_update / abs_delete   the abstraction commutes with insert and delete (same result class, same spec tree)
  C09_model        after ANY history of Update / Delete with 32-byte keys on an in-memory trie, the model trie represents
                   the spec trie of the history and `Weight()` = the sum of the live weights

  C09_through_storage   the same for histories that interleave Update / Delete / Root() with Commit at ANY collapse level
                   (subtrees collapsed to references are resolved from storage on demand — the code path of fix cd97817):
                   at every point `Weight()` = sum of the live weights of the spec trie of the history, `Root()` = its hash, and
                   `GetBlockProof(b)` names, for every block, the key whose cumulative-weight interval contains b;
  C09_root_through_storage: and `Root()` = hash of the independent canonical construction from the live set
  C09_through_storage_gc / C09_through_storage_reload: the same three conclusions for histories with DeleteNodes passes in
                   any position, and with reloads (reopen from the last committed root and weight) in any position — under the
                   hypotheses of the C11 theorems (`Distinct`: the complement of finding C11-F2)

Fixed-width arithmetic. The model computes weights over unbounded naturals / integers; the Go code uses `uint64`
weights and an `int64` delta, which wrap modulo 2^64. Model/WmptU64.lean has the wrap-around copies `insertU` /
`deleteU` (and `hrunU`, the histories over them) — they differ from `insert` / `delete` at the five arithmetic sites of
trie.go and nowhere else (the block-number subtraction of the proof walk is guarded by a comparison, the weight sum of
DeserializeNode is modelled modulo 2^64 already). The no-overflow hypothesis of every storage theorem above is the
`hok` they already carry: the total weight of the spec trie stays below 2^64 after every prefix (`PTOK`).

  wraparound_insert / wraparound_delete   one insert / delete: if the total weight is below 2^64 before and after, the
                   wrap-around version yields the same node, error and queue entries (the int64 delta is the model's
                   delta wrapped — it may differ as a number when |delta| >= 2^63, `delta_wraps` — and
                   `uint64(int64(weight) + delta)` is right all the same); in-memory variants `*_mem`
  C09_no_wraparound / C09_no_wraparound_gc   whole histories (without / with GC passes), exactly under the hypotheses of
                   C09_through_storage resp. C11_recoverable_partial: the run over Go's arithmetic IS the model's run
  overflow_differs the hypothesis is needed: two weights of 2^63 give a root weight of 0 instead of 2^64

See notes/C09.md for what ties these to the implementation-shaped model and what is checked by correspondence only.
-/
import Verif.Lemmas.WmptSpec
import Verif.Lemmas.WmptRun
import Verif.Lemmas.WmptCanon
import Verif.Lemmas.WmptModelRun
import Verif.Lemmas.WmptHistoryInv
import Verif.Lemmas.WmptHistorySpec
import Verif.Lemmas.WmptU64
import Verif.Lemmas.WmptReload
namespace Verif.Props.C09
open Verif.Wmpt

/-- total weight = sum of the weights of the live entries -/
theorem weight_sum (t : PT) : t.weight = entriesWeight t.entries := weight_eq_entriesWeight t

/-- what `ownerSpec` means: the owner of block `b` is the entry `e` such that the entries before it weigh less than
    `b` and, together with `e`, at least `b` -/
theorem ownerSpec_iff (es : List Entry) (b : Nat) (hb : 1 ≤ b) (k v : Bytes) :
    ownerSpec es b = some (k, v) ↔
      ∃ pre w post, es = pre ++ (k, v, w) :: post ∧ entriesWeight pre < b ∧ b ≤ entriesWeight pre + w
        ∧ ∀ e ∈ pre, True := by
  constructor
  · intro h
    induction es generalizing b with
    | nil => simp [ownerSpec] at h
    | cons e tl ih =>
      simp only [ownerSpec] at h
      by_cases hle : b ≤ e.2.2
      · simp only [hle, if_true, Option.some.injEq, Prod.mk.injEq] at h
        refine ⟨[], e.2.2, tl, ?_, ?_, ?_, by simp⟩
        · obtain ⟨h1, h2⟩ := h; subst h1; subst h2; rfl
        · simp [entriesWeight_nil]; omega
        · simp [entriesWeight_nil]; omega
      · simp only [hle, if_false] at h
        obtain ⟨pre, w, post, he, h1, h2, _⟩ := ih (b - e.2.2) (by omega) h
        refine ⟨e :: pre, w, post, by simp [he], ?_, ?_, by simp⟩
        · rw [entriesWeight_cons]; omega
        · rw [entriesWeight_cons]; omega
  · rintro ⟨pre, w, post, he, h1, h2, _⟩
    subst he
    rw [ownerSpec_append _ _ _ hb]
    have : ¬ b ≤ entriesWeight pre := by omega
    simp only [this, if_false, ownerSpec]
    have : b - entriesWeight pre ≤ w := by omega
    simp [this]

/-- the weight-ordered descent reaches, for every block number 1..total, the entry whose cumulative-weight interval
    in key order contains it -/
theorem owner_interval (t : PT) (b : Nat) (hb : 1 ≤ b) (hw : b ≤ t.weight) : t.owner b = ownerSpec t.entries b :=
  owner_eq_ownerSpec t b hb hw

/-- beyond the total weight no entry owns the block -/
theorem owner_out_of_range (t : PT) (b : Nat) (h : t.weight < b) : ownerSpec t.entries b = none := by
  apply ownerSpec_none_of_gt
  rw [← weight_sum]; exact h

/-! ### histories -/

/-- every trie reachable by a history is reachable in the sense of `Reach` -/
theorem run_reach (n : Nat) (ops : List Op) (hok : OpsOK n ops) : Reach n (ptRun ops) := by
  unfold ptRun
  have h : ∀ (l : List Op) (t : PT), Reach n t → (∀ op ∈ l, op.key.length = n) → Reach n (l.foldl ptStep t) := by
    intro l
    induction l with
    | nil => intro t ht _; exact ht
    | cons op tl ih =>
      intro t ht hk
      simp only [List.foldl_cons]
      apply ih
      · cases op with
        | upd key v w => exact Reach.insert key v w ht (hk _ List.mem_cons_self)
        | del key =>
          simp only [ptStep]
          cases hd : t.delete key with
          | none => exact ht
          | some t' => exact Reach.delete key ht (hk _ List.mem_cons_self) hd
      · intro o ho; exact hk o (List.mem_cons_of_mem _ ho)
  exact h ops _ Reach.empty hok

/-- after any history the entry list is exactly the live set, in strictly increasing key order -/
theorem history_content (n : Nat) (ops : List Op) (hok : OpsOK n ops) :
    (∀ k v w, (k, v, w) ∈ (ptRun ops).entries ↔
        ∃ key : List Nib, key.length = n ∧ k = key.map nb ∧ mapRun ops key = some (v, w)) ∧
    ((ptRun ops).entries.map (·.1)).Pairwise bytesLt :=
  ⟨run_entries hok, run_sorted ops⟩

/-- total weight = sum of the weights of the live keys, after any history -/
theorem history_weight (ops : List Op) : (ptRun ops).weight = entriesWeight (ptRun ops).entries := run_weight ops

/-- block ownership after any history -/
theorem history_owner (ops : List Op) (b : Nat) (hb : 1 ≤ b) (hw : b ≤ (ptRun ops).weight) :
    (ptRun ops).owner b = ownerSpec (ptRun ops).entries b := run_owner ops b hb hw

/-- the trie (and therefore its root hash) is the independent canonical construction from its live entries -/
theorem root_canon (H : Bytes → Bytes) (n : Nat) (ops : List Op) (hok : OpsOK n ops) :
    ptRun ops = canonOf n (ptRun ops).entriesN ∧ (ptRun ops).hash H = (canonOf n (ptRun ops).entriesN).hash H := by
  obtain ⟨hu, hc⟩ := reach_uniform_canon (run_reach n ops hok)
  exact ⟨eq_canonOf_entries hu hc, reach_hash_entries H (run_reach n ops hok)⟩

/-- two histories that denote the same map yield the same trie, hence the same root hash, weight and owners -/
theorem root_history_independent (H : Bytes → Bytes) (n : Nat) (ops₁ ops₂ : List Op) (h₁ : OpsOK n ops₁) (h₂ : OpsOK n ops₂)
    (hm : ∀ q, mapRun ops₁ q = mapRun ops₂ q) :
    ptRun ops₁ = ptRun ops₂ ∧ (ptRun ops₁).hash H = (ptRun ops₂).hash H := by
  have : ptRun ops₁ = ptRun ops₂ :=
    reach_unique (run_reach n ops₁ h₁) (run_reach n ops₂ h₂) (fun q hq => by
      rw [run_lookup h₁ q hq, run_lookup h₂ q hq, hm])
  exact ⟨this, by rw [this]⟩

/-! ### the implementation-shaped model -/

/-- `insert` on an in-memory node is `PT.insert` on its spec tree; it cannot fail for keys of the trie's key length -/
theorem abs_update (hasDb : Bool) (s : Store) (fuel m : Nat) (n : WN) (t : PT) (key : List Nib) (v : Bytes) (w : Nat)
    (ha : abs n = some t) (hu : Uniform m t) (hk : key.length = m) (hf : key.length + 1 ≤ fuel) :
    (insert hasDb s fuel n key (.value [] v w true)).err = none ∧
      abs (insert hasDb s fuel n key (.value [] v w true)).node = some (t.insert key v w) :=
  insert_ok ha hu hk hf

/-- `delete` on an in-memory node is `PT.delete` on its spec tree: not-found exactly when the key is absent (and then
    nothing changes), otherwise the spec tree of the result is the result of `PT.delete` -/
theorem abs_delete (H : Bytes → Bytes) (hasDb : Bool) (s : Store) (fuel m : Nat) (n : WN) (t : PT) (key : List Nib)
    (ha : abs n = some t) (hn : NoEmpty n) (hu : Uniform m t) (hk : key.length = m) (hf : key.length + 1 ≤ fuel) :
    ((delete H hasDb s fuel n key).err = some .notFound ∧ t.delete key = none ∧
        (delete H hasDb s fuel n key).node = n) ∨
    ((delete H hasDb s fuel n key).err = none ∧
      ∃ t', t.delete key = some t' ∧ abs (delete H hasDb s fuel n key).node = some t') := by
  rcases Verif.Wmpt.abs_delete (H := H) (hasDb := hasDb) (s := s) ha hn hu hk hf with ⟨a, b, c, _⟩ | ⟨a, t', b, c, _⟩
  · exact .inl ⟨a, b, c⟩
  · exact .inr ⟨a, t', b, c⟩

/-- After any history of `Update` (non-empty values) and `Delete` with 32-byte keys on an in-memory trie, the model
    trie represents the spec trie of that history, and `Weight()` is the sum of the weights of the live keys. -/
theorem C09_model (H : Bytes → Bytes) (ops : List Op) (hwf : OpsWF ops) :
    abs (normRoot (mRun H ops).root) = some (ptRun ops) ∧
    (mRun H ops).weight = entriesWeight (ptRun ops).entries := by
  have g := mRun_good H ops hwf
  refine ⟨g.abs_eq, ?_⟩
  rw [← run_weight ops, ← g.weight, weight_normRoot]
  rfl

/-- Histories with commits at any collapse level and resolve-on-demand: weight and ownership follow the content at
    every point of the history (committed or not). `hok`: sizes and weights stay below 2^64; `hinj`: no two different
    nodes of a committed spec trie collide under H (relative injectivity). -/
theorem C09_through_storage (H : Bytes → Bytes) (hlen : ∀ x, (H x).length = 32) (ops : List HOp)
    (hall : ∀ op ∈ ops, op.plain ∧ op.wf)
    (hok : ∀ p q, ops = p ++ q → RepOps.PTOK (specRun p))
    (hinj : ∀ p lvl q, ops = p ++ .commit lvl :: q → HashInj H (fun x => PT.Sub x (specRun p))) :
    (hrun H ops).t.weight = entriesWeight (specRun ops).entries ∧
    (rootHash H (hrun H ops).t).2 = PT.hash H (specRun ops) ∧
    ∀ b, 1 ≤ b → b ≤ (specRun ops).weight →
      ∃ k v key proof, ownerSpec (specRun ops).entries b = some (k, v) ∧ RepMore.keybytesToHex key = k ∧
        (blockProof H (hrun H ops).t b).2 = .ok (key, proof) := by
  have hi := hinv_run hlen ops hall hok hinj
  refine ⟨?_, (rep_rootHash _ hi.rep hi.proper hi.notNil).2, ?_⟩
  · rw [← weight_eq_entriesWeight]
    exact hi.rep.weight
  · intro b hb1 hb
    obtain ⟨k, v, key, ho, _, hk, _, hbp⟩ :=
      blockProof_rep' hlen (hrun H ops).t (specRun ops) 64 b hi.hasDb hi.rep hi.proper hi.upDirty hi.uniform
        (by decide) (by decide) (hok ops [] (by simp)) hb1 hb
    rw [owner_eq_ownerSpec _ b hb1 hb] at ho
    exact ⟨k, v, key, _, ho, hk, hbp⟩

/-- The same with `DeleteNodes` passes in ANY position of the history (also while changes are uncommitted), under the
    hypothesis of C11's GC theorems (`hok`: sizes below 2^64 and no two node occurrences with equal hash in any
    intermediate content): at every point weight, root and the owner of every block follow the content. -/
theorem C09_through_storage_gc (H : Bytes → Bytes) (hlen : ∀ x, (H x).length = 32) (ops : List HOp)
    (hall : ∀ op ∈ ops, op.plainGC ∧ op.wf)
    (hok : ∀ p q, ops = p ++ q → RepOps.PTOK (specRun p) ∧ Distinct H (specRun p)) :
    (hrun H ops).t.weight = entriesWeight (specRun ops).entries ∧
    (rootHash H (hrun H ops).t).2 = PT.hash H (specRun ops) ∧
    ∀ b, 1 ≤ b → b ≤ (specRun ops).weight →
      ∃ k v key proof, ownerSpec (specRun ops).entries b = some (k, v) ∧ RepMore.keybytesToHex key = k ∧
        (blockProof H (hrun H ops).t b).2 = .ok (key, proof) := by
  have hi := (ginv_run hlen ops hall hok).hinv
  refine ⟨?_, (rep_rootHash _ hi.rep hi.proper hi.notNil).2, ?_⟩
  · rw [← weight_eq_entriesWeight]
    exact hi.rep.weight
  · intro b hb1 hb
    obtain ⟨k, v, key, ho, _, hk, _, hbp⟩ :=
      blockProof_rep' hlen (hrun H ops).t (specRun ops) 64 b hi.hasDb hi.rep hi.proper hi.upDirty hi.uniform
        (by decide) (by decide) (hok ops [] (by simp)).1 hb1 hb
    rw [owner_eq_ownerSpec _ b hb1 hb] at ho
    exact ⟨k, v, key, _, ho, hk, hbp⟩

/-- …and with RELOADS in any position (the trie reopened from the root hash and weight of the last commit; uncommitted
    changes are dropped: `rspecRun` falls back to the committed content), GC passes included. -/
theorem C09_through_storage_reload (H : Bytes → Bytes) (hlen : ∀ x, (H x).length = 32) (ops : List ROp)
    (hall : ∀ op ∈ ops, op.ok)
    (hok : ∀ p q, ops = p ++ q → RepOps.PTOK (rspecRun p).1 ∧ Distinct H (rspecRun p).1 ∧
      ((rspecRun p).2.weight = 0 → (rspecRun p).2 = .none)) :
    (rrun H ops).h.t.weight = entriesWeight (rspecRun ops).1.entries ∧
    (rootHash H (rrun H ops).h.t).2 = PT.hash H (rspecRun ops).1 ∧
    ∀ b, 1 ≤ b → b ≤ (rspecRun ops).1.weight →
      ∃ k v key proof, ownerSpec (rspecRun ops).1.entries b = some (k, v) ∧ RepMore.keybytesToHex key = k ∧
        (blockProof H (rrun H ops).h.t b).2 = .ok (key, proof) := by
  have hi := (rinv_run hlen ops hall hok).ginv.hinv
  refine ⟨?_, (rep_rootHash _ hi.rep hi.proper hi.notNil).2, ?_⟩
  · rw [← weight_eq_entriesWeight]
    exact hi.rep.weight
  · intro b hb1 hb
    obtain ⟨k, v, key, ho, _, hk, _, hbp⟩ :=
      blockProof_rep' hlen (rrun H ops).h.t (rspecRun ops).1 64 b hi.hasDb hi.rep hi.proper hi.upDirty hi.uniform
        (by decide) (by decide) (hok ops [] (by simp)).1 hb1 hb
    rw [owner_eq_ownerSpec _ b hb1 hb] at ho
    exact ⟨k, v, key, _, ho, hk, hbp⟩

/-- …and the root hash the implementation-shaped trie shows after such a history is the hash of the independent canonical
    construction from the live (key, value, weight) set — whatever the history, the commits and the collapse levels -/
theorem C09_root_through_storage (H : Bytes → Bytes) (hlen : ∀ x, (H x).length = 32) (ops : List HOp)
    (hall : ∀ op ∈ ops, op.plain ∧ op.wf)
    (hok : ∀ p q, ops = p ++ q → RepOps.PTOK (specRun p))
    (hinj : ∀ p lvl q, ops = p ++ .commit lvl :: q → HashInj H (fun x => PT.Sub x (specRun p))) :
    (rootHash H (hrun H ops).t).2 = (canonOf 64 (specRun ops).entriesN).hash H ∧
    (∀ k v w, (k, v, w) ∈ (specRun ops).entries ↔
        ∃ key : List Nib, key.length = 64 ∧ k = key.map nb ∧ mapRun (HOp.proj ops) key = some (v, w)) := by
  obtain ⟨_, hr, _⟩ := C09_through_storage H hlen ops hall hok hinj
  have hok64 := proj_opsOK ops hall
  rw [hr, specRun_eq_ptRun]
  exact ⟨(root_canon H 64 _ hok64).2, (history_content 64 _ hok64).1⟩

/-! ### Go's fixed-width arithmetic -/

/-- one `insert` over Go's wrap-around arithmetic on a storage-backed trie whose total weight is below 2^64 before
    (`PTOK`) and after: same node, same error, same queue entries; the int64 delta is the model's delta wrapped -/
theorem wraparound_insert (H : Bytes → Bytes) (hlen : ∀ x, (H x).length = 32) (s : Store) (v : Bytes) (w : Nat)
    (fuel : Nat) (n : WN) (t : PT) (m : Nat) (key : List Nib)
    (hrep : RepS H s n t) (hu : Uniform m t) (hok : RepOps.PTOK t) (hnew : (t.insert key v w).weight < 2 ^ 64)
    (hk : key.length = m) (hf : RepOps.need n key ≤ fuel) :
    (insertU true s fuel n key (.value [] v w true)).node = (insert true s fuel n key (.value [] v w true)).node ∧
    (insertU true s fuel n key (.value [] v w true)).err = (insert true s fuel n key (.value [] v w true)).err ∧
    (insertU true s fuel n key (.value [] v w true)).td = (insert true s fuel n key (.value [] v w true)).td ∧
    (insertU true s fuel n key (.value [] v w true)).change =
      wrapI64 (insert true s fuel n key (.value [] v w true)).change :=
  insertU_eq hlen v w fuel n t m key hrep hu hok hnew hk hf

/-- one `delete` over the wrap-around arithmetic: identical result (weights only shrink) -/
theorem wraparound_delete (H : Bytes → Bytes) (hlen : ∀ x, (H x).length = 32) (s : Store)
    (fuel : Nat) (n : WN) (t : PT) (m : Nat) (key : List Nib)
    (hrep : RepS H s n t) (hne : RepOps.NoEmp n) (hu : Uniform m t) (hok : RepOps.PTOK t)
    (hk : key.length = m) (hf : RepOps.need n key ≤ fuel) :
    deleteU H true s fuel n key = delete H true s fuel n key :=
  deleteU_eq_delete hlen fuel n t m key hrep hne hu hok hk hf

/-- the same for in-memory tries (any database flag) -/
theorem wraparound_insert_mem (hasDb : Bool) (s : Store) (v : Bytes) (w : Nat) {fuel m : Nat} {n : WN} {t : PT}
    {key : List Nib} (g : Good m n t) (hk : key.length = m) (hf : key.length + 1 ≤ fuel) (hold : t.weight < 2 ^ 64)
    (hnew : (t.insert key v w).weight < 2 ^ 64) :
    (insertU hasDb s fuel n key (.value [] v w true)).node = (insert hasDb s fuel n key (.value [] v w true)).node ∧
    (insertU hasDb s fuel n key (.value [] v w true)).err = (insert hasDb s fuel n key (.value [] v w true)).err ∧
    (insertU hasDb s fuel n key (.value [] v w true)).td = (insert hasDb s fuel n key (.value [] v w true)).td ∧
    (insertU hasDb s fuel n key (.value [] v w true)).change =
      wrapI64 (insert hasDb s fuel n key (.value [] v w true)).change :=
  insertU_eq_mem (hasDb := hasDb) (s := s) v w g hk hf hold hnew

theorem wraparound_delete_mem (H : Bytes → Bytes) (hasDb : Bool) (s : Store) {fuel m : Nat} {n : WN} {t : PT}
    {key : List Nib} (g : Good m n t) (hk : key.length = m) (hf : key.length + 1 ≤ fuel) (hold : t.weight < 2 ^ 64) :
    deleteU H hasDb s fuel n key = delete H hasDb s fuel n key :=
  deleteU_eq_delete_mem fuel n t m key g.abs_eq g.winv g.noEmpty g.uniform hk hf hold

/-- whole histories, exactly under the hypotheses of `C09_through_storage` (`hok`: the total weight stays below 2^64
    after every prefix): the run over Go's wrap-around arithmetic is the model's run — so every theorem about `hrun`
    is a theorem about the fixed-width arithmetic, and `hok` is the only place where it could differ -/
theorem C09_no_wraparound (H : Bytes → Bytes) (hlen : ∀ x, (H x).length = 32) (ops : List HOp)
    (hall : ∀ op ∈ ops, op.plain ∧ op.wf)
    (hok : ∀ p q, ops = p ++ q → RepOps.PTOK (specRun p))
    (hinj : ∀ p lvl q, ops = p ++ .commit lvl :: q → HashInj H (fun x => PT.Sub x (specRun p))) :
    hrunU H ops = hrun H ops :=
  hrunU_eq hlen ops hall hok hinj

/-- …and for histories with GC passes, under the hypotheses of C11's `C11_recoverable_partial` -/
theorem C09_no_wraparound_gc (H : Bytes → Bytes) (hlen : ∀ x, (H x).length = 32) (ops : List HOp)
    (hall : ∀ op ∈ ops, op.plainGC ∧ op.wf)
    (hok : ∀ p q, ops = p ++ q → RepOps.PTOK (specRun p) ∧ Distinct H (specRun p)) :
    hrunU H ops = hrun H ops :=
  hrunU_eq_gc hlen ops hall hok

/-- the hypothesis is needed: two entries of weight 2^63 — the model's root weighs 2^64, Go's `uint64` shows 0 -/
theorem overflow_differs :
    let v1 : WN := .value [] [1] (2 ^ 63) true
    let v2 : WN := .value [] [2] (2 ^ 63) true
    let r1 := insert false [] 2 .empty [1] v1
    let r2 := insert false [] 2 r1.node [2] v2
    let u1 := insertU false [] 2 .empty [1] v1
    let u2 := insertU false [] 2 u1.node [2] v2
    r1.err = none ∧ r2.err = none ∧ u1.err = none ∧ u2.err = none ∧
      r1.node.weight = 2 ^ 63 ∧ u1.node.weight = 2 ^ 63 ∧ r2.node.weight = 2 ^ 64 ∧ u2.node.weight = 0 :=
  Verif.Wmpt.overflow_differs

/-- the int64 delta itself wraps for a weight of 2^63 (not an int64), the resulting weight is right all the same -/
theorem delta_wraps :
    (insertU false [] 2 .empty [1] (.value [] [1] (2 ^ 63) true)).change = -(2 ^ 63) ∧
    (insert false [] 2 .empty [1] (.value [] [1] (2 ^ 63) true)).change = 2 ^ 63 ∧
    (insertU false [] 2 .empty [1] (.value [] [1] (2 ^ 63) true)).node.weight = 2 ^ 63 :=
  ⟨change_wraps.1, change_wraps.2, Verif.Wmpt.overflow_differs.2.2.2.2.2.1⟩

/-- non-vacuity of the history theorems: delete-then-reinsert and a different insertion order give the same trie -/
example :
    let a : List Nib := [1, 2]; let b : List Nib := [1, 7]; let c : List Nib := [4, 0]
    let ops₁ : List Op := [.upd a [1] 2, .upd b [2] 3, .upd c [3] 1, .del b, .upd b [2] 3]
    let ops₂ : List Op := [.upd c [3] 1, .upd b [9] 4, .upd b [2] 3, .upd a [1] 2]
    OpsOK 2 ops₁ ∧ OpsOK 2 ops₂ ∧ (ptRun ops₁).entries = (ptRun ops₂).entries ∧ (ptRun ops₁).weight = 6 := by
  refine ⟨?_, ?_, ?_, ?_⟩
  · intro op hop; simp only [List.mem_cons, List.not_mem_nil, or_false] at hop; rcases hop with h | h | h | h | h <;> subst h <;> rfl
  · intro op hop; simp only [List.mem_cons, List.not_mem_nil, or_false] at hop; rcases hop with h | h | h | h <;> subst h <;> rfl
  · decide
  · decide

/-- non-vacuity: a branch over two short leaves of weight 2 and 3; block 3 belongs to the second key -/
example :
    let t : PT := .branch (fun i => if i = 1 then .short [5] (.value [0xaa] 2) else if i = 7 then .short [6] (.value [0xbb] 3) else .none)
    t.weight = 5 ∧ t.owner 3 = some ([7, 6], [0xbb]) ∧ ownerSpec t.entries 3 = some ([7, 6], [0xbb]) := by
  decide

end Verif.Props.C09
