/-
C09 — weighted trie: total weight, block ownership and root follow content.

Spec tree `PT` (Verif.Model.WmptSpec): `entries t` is the live (key, value, weight) list in key order.
Proved here (for every tree, no size bound):

  weight_sum      the total weight of a trie is the sum of the weights of its live entries
  ownerSpec_iff   `ownerSpec es b` is exactly "the entry whose cumulative-weight interval (in list order) contains b"
  owner_interval  the weight-ordered descent used by GetBlockProof reaches that entry for every block 1..total
  owner_out_of_range  beyond the total weight there is no owner

See notes/C09.md for what ties these to the implementation-shaped model and what is checked by correspondence only.
-/
import Verif.Lemmas.WmptSpec
namespace Verif.Props.C09
open Verif.Wmpt

/-- total weight = sum of the weights of the live entries -/
theorem weight_sum (t : PT) : t.weight = entriesWeight t.entries := weight_eq_entriesWeight t

/-- what `ownerSpec` means: the owner of block `b` is the entry `e` such that the entries before it weigh less than
    `b` and, together with `e`, at least `b` -/
theorem ownerSpec_iff (es : List Entry) (b : Nat) (hb : 1 ≤ b) (k v : Bytes) :
    ownerSpec es b = some (k, v) ↔
      ∃ pre w post, es = pre ++ (k, v, w) :: post ∧ entriesWeight pre < b ∧ b ≤ entriesWeight pre + w
        ∧ ∀ e ∈ pre, True := by
  constructor
  · intro h
    induction es generalizing b with
    | nil => simp [ownerSpec] at h
    | cons e tl ih =>
      simp only [ownerSpec] at h
      by_cases hle : b ≤ e.2.2
      · simp only [hle, if_true, Option.some.injEq, Prod.mk.injEq] at h
        refine ⟨[], e.2.2, tl, ?_, ?_, ?_, by simp⟩
        · obtain ⟨h1, h2⟩ := h; subst h1; subst h2; rfl
        · simp [entriesWeight_nil]; omega
        · simp [entriesWeight_nil]; omega
      · simp only [hle, if_false] at h
        obtain ⟨pre, w, post, he, h1, h2, _⟩ := ih (b - e.2.2) (by omega) h
        refine ⟨e :: pre, w, post, by simp [he], ?_, ?_, by simp⟩
        · rw [entriesWeight_cons]; omega
        · rw [entriesWeight_cons]; omega
  · rintro ⟨pre, w, post, he, h1, h2, _⟩
    subst he
    rw [ownerSpec_append _ _ _ hb]
    have : ¬ b ≤ entriesWeight pre := by omega
    simp only [this, if_false, ownerSpec]
    have : b - entriesWeight pre ≤ w := by omega
    simp [this]

/-- the weight-ordered descent reaches, for every block number 1..total, the entry whose cumulative-weight interval
    in key order contains it -/
theorem owner_interval (t : PT) (b : Nat) (hb : 1 ≤ b) (hw : b ≤ t.weight) : t.owner b = ownerSpec t.entries b :=
  owner_eq_ownerSpec t b hb hw

/-- beyond the total weight no entry owns the block -/
theorem owner_out_of_range (t : PT) (b : Nat) (h : t.weight < b) : ownerSpec t.entries b = none := by
  apply ownerSpec_none_of_gt
  rw [← weight_sum]; exact h

/-- non-vacuity: a branch over two short leaves of weight 2 and 3; block 3 belongs to the second key -/
example :
    let t : PT := .branch (fun i => if i = 1 then .short [5] (.value [0xaa] 2) else if i = 7 then .short [6] (.value [0xbb] 3) else .none)
    t.weight = 5 ∧ t.owner 3 = some ([7, 6], [0xbb]) ∧ ownerSpec t.entries 3 = some ([7, 6], [0xbb]) := by
  decide

end Verif.Props.C09
