/-
C12 — a partial trie built from a path export evolves like the full trie.

Proved so far about the model of GetPath / Deserialize (Verif.Model.WmptProof), for every node and hash function:

  unvisited_branch_exported_by_current_hash
      a branch that is on no requested path is exported as ONE (hash, weight) reference carrying the hash `CalcHash`
      yields now — not the cached, possibly stale one (fix cfa4170)
  import_checks_root
      an accepted import has recomputed the hash of a branch / short root from its children's hashes and found it
      equal to the hash the export claims for the root

The main theorems of DESIGN.md §6 (export_import, covers_step) are not proved yet; they are checked by the
correspondence run and the Go oracle (see notes/C12.md).
-/
import Verif.Model.WmptProof
namespace Verif.Props.C12
open Verif.Wmpt

theorem unvisited_branch_exported_by_current_hash (H : Bytes → Bytes) (h : Bytes) (ch : Nib → WN) (w : Nat) (d : Bool) :
    (collectNodes H (.routing h ch w d false)).2 =
      [Cbor.encBase { hashNode := some ⟨(calcHash H (.routing h ch w d false)).2, w⟩ }] := by
  simp [collectNodes]

theorem import_checks_root (H : Bytes → Bytes) (ps : List PairD) (r : WN) (h : importPairs H ps = .ok (some r)) :
    ∃ root rest, deserializeTrie H (ps.length + 1) ps = .ok (root, rest) ∧ r.hashField H = root.hashField H := by
  unfold importPairs at h
  by_cases hp : ps = []
  · simp [hp] at h
  · simp only [hp, if_false] at h
    cases hd : deserializeTrie H (ps.length + 1) ps with
    | err e => simp [hd] at h
    | ok x =>
      obtain ⟨root, rest⟩ := x
      refine ⟨root, rest, rfl, ?_⟩
      simp only [hd] at h
      cases root <;> simp only at h <;>
        (split at h
         · cases h
         · rename_i hne
           simp only [Res.ok.injEq, Option.some.injEq] at h
           subst h
           exact (Decidable.not_not.mp hne).symm)

end Verif.Props.C12
