/-
C12 — a partial trie built from a path export evolves like the full trie.

Source trie: any `WT` over a storage whose root represents the spec tree `ts` (`RepS`: in-memory nodes, dirty or not, and
(hash, weight) references into storage — i.e. "in memory or collapsed to storage"), keys of 32 bytes. `getPath` = the
model of `GetPath` (root load, marking with resolve-on-demand, pre-order collection, CBOR envelope), `importTrie` = the
model of `Deserialize` on a storage-less trie (`New(nil, nil)`).

  export_import   for ANY set of requested keys (present or absent, any number): GetPath succeeds; Deserialize of its
                  output succeeds; the imported trie represents the same spec tree, so it has the source's root hash and
                  weight; no requested key's path meets a hash reference in it; the source trie is intact afterwards
  covers_step     one mirrored Update / Delete / Update-with-empty-value of a requested key on both tries: same result
                  (ok with the same removed weight, or not-found on both), the invariant is re-established
  C12             hence for every follow-up sequence of such operations, after EVERY prefix both tries have the same
                  root hash and weight — those of the spec tree of the prefix — and the calls returned the same results
  unvisited_branch_exported_by_current_hash, import_checks_root   two facts about the export format (fix cfa4170; the
                  importer recomputes and checks the root hash)

Hypotheses: hashes have 32 bytes; sizes/weights below 2^64 (`PTOK`) for every spec tree an operation is applied to; the
exported byte strings are shorter than 2^64 bytes (`hsz`; needed by the CBOR envelope round trip). No collision-freeness
hypothesis is needed for C12.

GetPath has two collection strategies: the keys one after the other from the root (`markAll`), or — for more than
`pathParallelThreshold` keys (a constant extracted from the Go source into Verif.Gen.Constants) on a branch root — one
walk per key started at the root's child, the root marked separately (`markParallel`; Go runs these walks in goroutines,
serialised per child by a mutex, in scheduler order; the model in list order). Both are modelled, `getPath` chooses like
the Go code, and

  parallel_order_irrelevant     on a branch root that represents a spec trie (the source tries of `export_import`) the walks
                  of the parallel strategy succeed in EVERY order and every order yields the same marked trie: whatever
                  serialisation the scheduler picks, the export is the one of the model's list order
                  (`parallel_order_irrelevant_general`: for any trie, provided each walk alone succeeds;
                  `parallel_order_needs_each`: success in one order alone does not suffice in the MODEL, whose walks run
                  on a fuel budget that a chain of references in an adversarial storage can exhaust in one order only)

  mark_parallel_eq_sequential   on a branch root the two strategies report the same error and, when marking succeeds, leave
                  the same marked trie — for NON-EMPTY keys (hypothesis `∀ k ∈ keys, k ≠ []`; the keys of GetPath are
                  32-byte keys, 64 nibbles): an empty key is marked at the branch root by the sequential walk, while the
                  per-branch loop, which takes `k[0]`, panics on it
  getPath_strategy_irrelevant   so, for non-empty keys, `getPath` returns what the purely sequential `getPathSeq` returns —
                  always the same result, and on success the same trie state — whatever the threshold is:
                  `export_import` and `C12` are statements about `getPath` itself and hold for every number of keys
-/
import Verif.Lemmas.WmptExport
import Verif.Lemmas.WmptMarkPerm
import Verif.Model.WmptHistory
import Verif.Model.WmptToy
namespace Verif.Props.C12
open Verif.Wmpt RepOps RepMore

theorem unvisited_branch_exported_by_current_hash (H : Bytes → Bytes) (h : Bytes) (ch : Nib → WN) (w : Nat) (d : Bool) :
    (collectNodes H (.routing h ch w d false)).2 =
      [Cbor.encBase { hashNode := some ⟨(calcHash H (.routing h ch w d false)).2, w⟩ }] := by
  simp [collectNodes]

theorem import_checks_root (H : Bytes → Bytes) (ps : List PairD) (r : WN) (h : importPairs H ps = .ok (some r)) :
    ∃ root rest, deserializeTrie H (ps.length + 1) ps = .ok (root, rest) ∧ r.hashField H = root.hashField H := by
  unfold importPairs at h
  by_cases hp : ps = []
  · simp [hp] at h
  · simp only [hp, if_false] at h
    cases hd : deserializeTrie H (ps.length + 1) ps with
    | err e => simp [hd] at h
    | ok x =>
      obtain ⟨root, rest⟩ := x
      refine ⟨root, rest, rfl, ?_⟩
      simp only [hd] at h
      cases root <;> simp only at h <;>
        (split at h
         · cases h
         · rename_i hne
           simp only [Res.ok.injEq, Option.some.injEq] at h
           subst h
           exact (Decidable.not_not.mp hne).symm)

/-- the two collection strategies of GetPath below a branch root, for non-empty keys: same error; on success (for at least
    one key — with no key the parallel strategy, which GetPath never takes then, would still set the root's mark) the same
    marked trie.  (An empty key is marked at the root by the sequential strategy; the parallel one panics on it.) -/
theorem mark_parallel_eq_sequential (hasDb : Bool) (s : Store) (h : Bytes) (ch : Nib → WN) (w : Nat) (d tc : Bool)
    (keys : List (List Nib)) (hne : ∀ k ∈ keys, k ≠ []) :
    (markParallel hasDb s (.routing h ch w d tc) keys).err = (markAll hasDb s (.routing h ch w d tc) keys).err ∧
    ((markAll hasDb s (.routing h ch w d tc) keys).err = none → keys ≠ [] →
      (markParallel hasDb s (.routing h ch w d tc) keys).node = (markAll hasDb s (.routing h ch w d tc) keys).node) :=
  Verif.Wmpt.mark_parallel_eq_sequential hasDb s h ch w d tc keys hne

/-- `getPath` (which picks the strategy by the extracted threshold) answers, for non-empty keys, like the purely sequential
    `getPathSeq`: the same result in every case; on success the same trie state; after a failure the two states differ at
    most in the export marks left in the root -/
theorem getPath_strategy_irrelevant (H : Bytes → Bytes) (t : WT) (keys : List (List Nib)) (hne : ∀ k ∈ keys, k ≠ []) :
    (getPath H t keys).2 = (getPathSeq H t keys).2 ∧
    (∀ data, (getPathSeq H t keys).2 = .ok data → getPath H t keys = getPathSeq H t keys) ∧
    (∀ n, { (getPath H t keys).1 with root := n } = { (getPathSeq H t keys).1 with root := n }) :=
  Verif.Wmpt.getPath_strategy_irrelevant H t keys hne

/-- the walks of the parallel strategy on different children of the root commute (the model runs them in list order, the
    Go code concurrently): swapping two adjacent successful walks with different first nibbles changes nothing -/
theorem parallel_walks_commute (hasDb : Bool) (s : Store) (ch : Nib → WN) (k1 k2 : Nib) (ks1 ks2 : List Nib)
    (rest : List (List Nib)) (hne : k1 ≠ k2)
    (h1 : (markToCollect hasDb s (fuelFor (k1 :: ks1) - 1) (ch k1) ks1).err = none)
    (h2 : (markToCollect hasDb s (fuelFor (k2 :: ks2) - 1) (ch k2) ks2).err = none) :
    markKids hasDb s ch ((k1 :: ks1) :: (k2 :: ks2) :: rest) = markKids hasDb s ch ((k2 :: ks2) :: (k1 :: ks1) :: rest) :=
  markKids_comm hasDb s ch k1 k2 ks1 ks2 rest hne h1 h2

/-- every order of the walks of the parallel strategy — every serialisation the goroutine scheduler can pick — succeeds
    and yields the same marked trie, below a branch root that represents a spec trie with keys of one length -/
theorem parallel_order_irrelevant (H : Bytes → Bytes) (hlen : ∀ x, (H x).length = 32) (s : Store) {h : Bytes}
    {ch : Nib → WN} {w : Nat} {d tc : Bool} {t : PT} {m : Nat}
    (hrep : RepS H s (.routing h ch w d tc) t) (hp : Proper (.routing h ch w d tc))
    (hne : NoEmp (.routing h ch w d tc)) (hu : Uniform m t) (hok : PTOK t)
    (keys1 keys2 : List (List Nib)) (hperm : keys1.Perm keys2) (hk : ∀ key ∈ keys1, key.length = m) :
    markParallel true s (.routing h ch w d tc) keys2 = markParallel true s (.routing h ch w d tc) keys1 ∧
      (markParallel true s (.routing h ch w d tc) keys1).err = none :=
  markParallel_perm_rep hlen hrep hp hne hu hok keys1 keys2 hperm hk

/-- …for any trie and storage, provided the walk of every key alone succeeds -/
theorem parallel_order_irrelevant_general (hasDb : Bool) (s : Store) (h : Bytes) (ch : Nib → WN) (w : Nat) (d tc : Bool)
    (keys1 keys2 : List (List Nib)) (hp : keys1.Perm keys2) (he : ∀ key ∈ keys1, KidOK hasDb s ch key) :
    markParallel hasDb s (.routing h ch w d tc) keys2 = markParallel hasDb s (.routing h ch w d tc) keys1 ∧
      (markParallel hasDb s (.routing h ch w d tc) keys1).err = none :=
  markParallel_perm hasDb s h ch w d tc keys1 keys2 hp he

/-- the sequential strategy is order-independent in the same sense, for every root -/
theorem sequential_order_irrelevant (hasDb : Bool) (s : Store) (n : WN) (keys1 keys2 : List (List Nib))
    (hp : keys1.Perm keys2) (he : ∀ key ∈ keys1, (markToCollect hasDb s (fuelFor key) n key).err = none) :
    markAll hasDb s n keys2 = markAll hasDb s n keys1 ∧ (markAll hasDb s n keys1).err = none :=
  markAll_perm hasDb s n keys1 keys2 hp he

/-- success of the walks in ONE order does not imply success in another order in the model (fuel; a storage holding a
    chain of twelve references) — hence the "each walk alone succeeds" hypothesis above -/
theorem parallel_order_needs_each :
    ¬ ∀ (hasDb : Bool) (s : Store) (ch : Nib → WN) (keys1 keys2 : List (List Nib)), keys1.Perm keys2 →
      (markKids hasDb s ch keys1).2 = none → markKids hasDb s ch keys2 = markKids hasDb s ch keys1 :=
  markKids_perm_needs_each

/-- export / import: same root hash and weight, requested paths free of references, source intact -/
theorem export_import (H : Bytes → Bytes) (hlen : ∀ x, (H x).length = 32) (t : WT) (ts : PT) (keys : List (List Nib))
    (hdb : t.hasDb = true) (hrep : RepS H t.store t.root ts) (hnil : t.root.isNil = false)
    (hp : Proper t.root) (hud : UpDirty t.root) (hu : Uniform 64 ts) (hok : PTOK ts)
    (hlk : ∀ k ∈ keys, k.length = 64)
    (hsz : ∀ n', Mark.markedRoot t keys = some n' →
      (∀ b ∈ (collectNodes H n').2, b.length < 2 ^ 64) ∧ (collectNodes H n').2.length < 2 ^ 64) :
    ∃ data r, (getPath H t keys).2 = .ok data ∧
      importTrie H { hasDb := false } data = ({ hasDb := false, root := r }, .ok ()) ∧
      RepP H r ts ∧ (∀ k ∈ keys, Clear r k) ∧
      (rootHash H { hasDb := false, root := r }).2 = (rootHash H (getPath H t keys).1).2 ∧
      WT.weight { hasDb := false, root := r } = (getPath H t keys).1.weight ∧
      (calcHash H r).2 = PT.hash H ts ∧ r.weight = ts.weight ∧
      RepS H t.store (getPath H t keys).1.root ts := by
  obtain ⟨data, r, g1, g2, g3, _, _, _, g7, g8, g9, _, _, g12, _, _, _, g16, g17⟩ :=
    getPath_import hlen t ts keys hdb hrep hnil hp hud hu hok hlk hsz
  exact ⟨data, r, g1, g2, g3, g9, g16, g17, g8, by rw [g7, hrep.weight], g12⟩

/-- one mirrored operation on a requested key -/
theorem covers_step (H : Bytes → Bytes) (hlen : ∀ x, (H x).length = 32) {R : List Nib → Prop} {tf tp : WT} {ts : PT}
    (inv : MInv H R tf tp ts) (hok : PTOK ts) (op : MOp) (hR : R op.key) (hk : op.key.length = 64)
    (hv : ∀ k v w, op = .upd k v w → v ≠ []) :
    MInv H R (mstep H tf op) (mstep H tp op) (sstep ts op) ∧ mout H tf op = mout H tp op ∧
      (rootHash H (mstep H tf op)).2 = (rootHash H (mstep H tp op)).2 ∧ (mstep H tf op).weight = (mstep H tp op).weight := by
  obtain ⟨h1, h2, _⟩ := mirror_step hlen inv hok op hR hk hv
  obtain ⟨a1, a2, _, _⟩ := h1.agree
  exact ⟨h1, h2, a1, a2⟩

/-- C12: export, import, then any sequence of mirrored updates / deletes of requested keys — after every prefix both
    tries have the same root hash and weight (those of the spec tree), and every call returned the same result -/
theorem C12 (H : Bytes → Bytes) (hlen : ∀ x, (H x).length = 32) (t : WT) (ts : PT) (keys : List (List Nib))
    (hdb : t.hasDb = true) (hrep : RepS H t.store t.root ts) (hnil : t.root.isNil = false)
    (hp : Proper t.root) (hud : UpDirty t.root) (hu : Uniform 64 ts) (hok : PTOK ts)
    (hlk : ∀ k ∈ keys, k.length = 64)
    (hsz : ∀ n', Mark.markedRoot t keys = some n' →
      (∀ b ∈ (collectNodes H n').2, b.length < 2 ^ 64) ∧ (collectNodes H n').2.length < 2 ^ 64)
    (ops : List MOp) (hrun : RunOK (fun k => k ∈ keys) ts ops) :
    ∃ data r, (getPath H t keys).2 = .ok data ∧
      importTrie H { hasDb := false } data = ({ hasDb := false, root := r }, .ok ()) ∧
      (∀ pre, pre <+: ops →
        (rootHash H (mrun H (getPath H t keys).1 pre)).2 = (rootHash H (mrun H { hasDb := false, root := r } pre)).2 ∧
        (mrun H (getPath H t keys).1 pre).weight = (mrun H { hasDb := false, root := r } pre).weight ∧
        (rootHash H (mrun H (getPath H t keys).1 pre)).2 = PT.hash H (srun ts pre) ∧
        (mrun H (getPath H t keys).1 pre).weight = (srun ts pre).weight) ∧
      mouts H (getPath H t keys).1 ops = mouts H { hasDb := false, root := r } ops := by
  obtain ⟨data, r, g1, g2, _, g4, g5⟩ := C12_main hlen t ts keys hdb hrep hnil hp hud hu hok hlk hsz ops hrun
  exact ⟨data, r, g1, g2, g4, g5⟩

/-- a concrete instance (toy hash): a committed, partly collapsed source trie of three keys; export of one present and
    one absent key; import; then an update of the present key, an insert of the absent key and a delete, mirrored on
    both tries: root hash and weight agree after every step -/
def demo : Bool :=
  let kA : List Nib := List.replicate 64 1
  let kD : List Nib := 2 :: List.replicate 63 4
  let kE : List Nib := 2 :: 5 :: List.replicate 62 4
  let kX : List Nib := 1 :: 7 :: List.replicate 62 3
  let src := (hrun toyH [.upd kA [1, 0xee] 2, .upd kD [2, 0xee] 3, .upd kE [3] 4, .commit 1, .upd kE [5] 2]).t
  let g := getPath toyH src [kA, kX]
  match g.2 with
  | .err _ => false
  | .ok data =>
    let imp := importTrie toyH { hasDb := false } data
    let agree := fun (a b : WT) => (rootHash toyH a).2 == (rootHash toyH b).2 && a.weight == b.weight
    let ops : List MOp := [.upd kA [9, 9] 1, .upd kX [4] 4, .del kA]
    Res.isOk imp.2 && agree g.1 imp.1 && imp.1.weight == 7 &&
      (List.range 4).all (fun n => agree (mrun toyH g.1 (ops.take n)) (mrun toyH imp.1 (ops.take n))) &&
      (mrun toyH imp.1 ops).weight == 9

set_option maxRecDepth 1000000 in
example : demo = true := by decide

end Verif.Props.C12
