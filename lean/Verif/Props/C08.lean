/-
C08 — Cache answers stay correct under concurrent readers and committers.

Model: `Verif.Model.StateCacheConc` — one shared `SC`, any number of reader threads (`StateCache.Get`) and committer
threads (`StateCache.commit`, serialised by `sc.lock`), interleaved by an arbitrary schedule at the granularity of one
shared-LRU access per step (the yield points of the `verif` hook; trusted: each golang-lru call is atomic).

Full statement `C08_full` (every completed lookup hit equals the tree's answer, for every schedule) is FALSE of the
code because of the capacity finding of C06 (`C08_full_false`, a one-thread schedule). Proved for all schedules under
`NoEviction`: `C08_hit_correct_partial`, `C08_schedule_independent`, `C08_visible_after_commit`, `commit_serial`.
Not modelled: data races below the granularity of one LRU call and Go memory-model effects (race-detector runs of suite
c08race are supporting evidence only).
-/
import Verif.Lemmas.StateCacheConc
import Verif.Lemmas.StateCacheWitness
import Verif.Model.StateCacheLocks
import Verif.Lemmas.StateCacheLayers
namespace Verif.Props.C08
open Verif.SC

variable {K B V : Type} [DecidableEq K] [DecidableEq B]

/-- The property at full strength: from any state reached by a sequential history, for any set of fresh lookups and
    commits and any schedule, a completed lookup that hits returns the ancestor-chain answer of the tree of the run. -/
def C08_full : Prop :=
  ∀ (capK maxDepth : Nat) (ops : List (Op Nat Nat Nat Nat)) (threads : List (Thread Nat Nat Nat)) (sched : List Nat),
    let s := ((Sys.new capK maxDepth : Sys Nat Nat Nat Nat).run ops).1
    let T := (Sys.new capK maxDepth : Sys Nat Nat Nat Nat).treeRun [] ops
    let c : Conc Nat Nat Nat := ⟨s.sc, none, threads⟩
    c.Initial →
    ∀ (tid : Nat) r v, (c.run sched).threads[tid]? = some (Thread.reader r) → r.pc = .done (some v) →
      Chain (Conc.treeRun T c sched) r.key r.blk (.val v)

/-- `C08_hit_correct_partial`: on a cache satisfying the invariant (e.g. after any sequential history without
    eviction, `Sys.run_inv`), for any set of fresh reader and committer threads and EVERY schedule in which no LRU evicts,
    every completed lookup that hits returns the ancestor-chain answer, for the key and block it was started with, in
    the tree of the blocks whose commit has begun. -/
theorem C08_hit_correct_partial {c : Conc K B V} {T : Tree K B V} (hI : Inv c.sc T none) (h0 : c.Initial)
    (sched : List Nat) (hev : (c.run sched).sc.evictions = c.sc.evictions)
    {tid : Nat} {k : K} {b : B} (hstart : c.threads[tid]? = some (Thread.reader (Reader.init k b))) :
    ∃ r, (c.run sched).threads[tid]? = some (Thread.reader r) ∧ r.key = k ∧ r.blk = b ∧
      ∀ v, r.pc = .done (some v) → Chain (Conc.treeRun T c sched) k b (.val v) := by
  obtain ⟨hC, _, _⟩ := Conc.run_inv sched (CInv.init hI h0) hev
  obtain ⟨th, hth, hs⟩ := Conc.run_same c sched tid _ hstart
  cases th with
  | committer m => simp [Thread.same] at hs
  | reader r =>
    simp only [Thread.same, Reader.init] at hs
    refine ⟨r, hth, hs.1, hs.2, fun v hv => ?_⟩
    have := hC.readers tid r hth
    unfold RInv at this; rw [hv] at this
    rw [hs.1, hs.2] at this
    exact this v rfl

/-- `C08_schedule_independent`: the answer does not depend on timing. Let `Tall` be any tree that extends the start tree
    and contains the block of every committer thread (e.g. the start tree followed by those blocks when their hashes are
    new and pairwise distinct). Whatever the schedule, every completed hit equals the ancestor-chain answer in `Tall`;
    only hit-or-miss may depend on the schedule. -/
theorem C08_schedule_independent {c : Conc K B V} {T Tall : Tree K B V} (hI : Inv c.sc T none) (h0 : c.Initial)
    (hle : T.le Tall)
    (hall : ∀ (tid : Nat) m, c.threads[tid]? = some (Thread.committer m) → Tall.find m.hash = some m.blk)
    (sched : List Nat) (hev : (c.run sched).sc.evictions = c.sc.evictions)
    {tid : Nat} {k : K} {b : B} (hstart : c.threads[tid]? = some (Thread.reader (Reader.init k b)))
    {r : Reader K B V} (hr : (c.run sched).threads[tid]? = some (Thread.reader r)) {v : V}
    (hv : r.pc = .done (some v)) : Chain Tall k b (.val v) := by
  obtain ⟨r', hr', _, _, hch⟩ := C08_hit_correct_partial hI h0 sched hev hstart
  rw [hr] at hr'; cases hr'
  exact Chain.mono (Conc.treeRun_le sched hle hall (CInv.init hI h0) hev) (hch v hv)

/-- `C08_visible_after_commit`: once a block's commit has returned (its link is published), a lookup at that block for a
    key the block wrote, started afterwards and run under any schedule together with any other threads (no eviction), can
    only complete with the block's own entry: a hit with the written value, or a miss if the block removed the key. -/
theorem C08_visible_after_commit {c : Conc K B V} {T : Tree K B V} (hI : Inv c.sc T none) (h0 : c.Initial)
    (sched : List Nat) (hev : (c.run sched).sc.evictions = c.sc.evictions)
    {b p : B} {x : Blk K B V} {k : K} {e : Entry V} {tid : Nat}
    (hlinked : linkAt c.sc b = some p) (hx : T.find b = some x) (hw : alookup x.writes k = some e)
    (hstart : c.threads[tid]? = some (Thread.reader (Reader.init k b))) :
    ∃ r, (c.run sched).threads[tid]? = some (Thread.reader r) ∧ ∀ res, r.pc = .done res → res = e.result := by
  obtain ⟨r, hr, _, _, hV⟩ := Conc.run_visible sched (CInv.init hI h0) hev hlinked hx hw hstart rfl rfl
    (by unfold VInv Reader.init; trivial)
  refine ⟨r, hr, fun res hres => ?_⟩
  unfold VInv at hV; rw [hres] at hV; exact hV

/-- `commit_serial`: commits are mutually exclusive — in every reachable configuration at most one committer thread is
    between its lock acquisition and its return, and it is the holder of `sc.lock`. -/
theorem commit_serial {c : Conc K B V} {T : Tree K B V} (hI : Inv c.sc T none) (h0 : c.Initial)
    (sched : List Nat) (hev : (c.run sched).sc.evictions = c.sc.evictions)
    {i j : Nat} {m m' : Committer K B V}
    (hi : (c.run sched).threads[i]? = some (Thread.committer m))
    (hj : (c.run sched).threads[j]? = some (Thread.committer m'))
    (hai : m.pc ≠ .start ∧ ∀ b, m.pc ≠ .done b) (haj : m'.pc ≠ .start ∧ ∀ b, m'.pc ≠ .done b) : i = j := by
  obtain ⟨hC, _, _⟩ := Conc.run_inv sched (CInv.init hI h0) hev
  have holder : ∀ (t : Nat) (mm : Committer K B V), (c.run sched).threads[t]? = some (Thread.committer mm) →
      (mm.pc ≠ .start ∧ ∀ b, mm.pc ≠ .done b) → (c.run sched).lock = some t := by
    intro t mm ht ha
    cases hl : (c.run sched).lock with
    | none =>
      rcases hC.idle t mm ht (by rw [hl]; intro hh; cases hh) with ⟨hs, _⟩ | ⟨b, hb⟩
      · exact absurd hs ha.1
      · exact absurd hb (ha.2 b)
    | some t' =>
      by_cases htt : t' = t
      · rw [htt]
      · rcases hC.idle t mm ht (by rw [hl]; intro hh; cases hh; exact htt rfl) with ⟨hs, _⟩ | ⟨b, hb⟩
        · exact absurd hs ha.1
        · exact absurd hb (ha.2 b)
  have h1 := holder i m hi hai
  have h2 := holder j m' hj haj
  rw [h1] at h2; cases h2; rfl

/-- `commit_lock_facts` (table regenerated from the Go source on every run, per ACCESS): every access `StateCache.commit`
    makes to the state cache's fields — the two LRUs, the counters; in its own body or in a helper it calls — happens with
    `StateCache`'s mutex held exclusively, in one critical section (the model's committer takes the lock at `start` and
    releases it at `done`; `commit_serial`), and inside a second lock that is not the state cache's own (the committing
    block's `mu`: a writer to the block cannot interleave with its commit). `StateCache.Get` never takes or waits for a
    mutex (the model's readers never block). Nothing is required of the statements that touch no shared field. -/
theorem commit_lock_facts :
    Verif.SCLocks.commitOK Verif.Gen.LockFacts.stateCache_commit = true ∧
    Verif.SCLocks.lockFree Verif.Gen.LockFacts.stateCache_Get = true ∧
    Verif.SCLocks.guardedOK Verif.Gen.LockFacts.stateCache [] = true := by
  decide

/-- `commit_published`: with ANY number of committer threads (serialised by `sc.lock`: a committer at `start` cannot step
    while another holds the lock) and any number of lookups, under every schedule without eviction: as soon as a commit has
    returned, its block is linked and every write the tree records for that hash is present in the cache — no write of a
    returned commit is lost, whatever other commits (of siblings writing the same fresh key, of the parent, of a duplicate
    of the same block) were interleaved. Together with `C08_visible_after_commit` a later lookup at the block finds them. -/
theorem commit_published {c : Conc K B V} {T : Tree K B V} (hI : Inv c.sc T none) (h0 : c.Initial)
    (sched : List Nat) (hev : (c.run sched).sc.evictions = c.sc.evictions)
    {tid : Nat} {m : Committer K B V} {b : Bool}
    (hm : (c.run sched).threads[tid]? = some (Thread.committer m)) (hdone : m.pc = .done b) :
    ∃ x, (Conc.treeRun T c sched).find m.hash = some x ∧ linkAt (c.run sched).sc m.hash = some x.prev ∧
      ∀ k e, alookup x.writes k = some e → entryAt (c.run sched).sc k m.hash = some e := by
  have hC0 := CInv.init hI h0
  have hD0 : DoneLinked c := by
    intro t m' b' hm' hd'
    rcases h0.2 t _ hm' with ⟨k, bb, he⟩ | ⟨m'', he, hs, _⟩
    · cases he
    · cases he; rw [hs] at hd'; cases hd'
  obtain ⟨hC, _, _⟩ := Conc.run_inv sched hC0 hev
  have hD := Conc.run_doneLinked sched hC0 hD0 hev
  cases hl : linkAt (c.run sched).sc m.hash with
  | none => exact absurd hl (hD tid m b hm hdone)
  | some p =>
    obtain ⟨x, hx, hp, hw⟩ := hC.inv.linked m.hash p hl
    exact ⟨x, hx, by rw [hp], hw⟩

/-- two committers, B1 and B2 (siblings, children of the committed block 10), both writing the fresh key 0, and a reader;
    one of the 2-committer schedules: B2 is scheduled first but B1 holds the lock, so B2's steps are no-ops until B1 has
    returned; afterwards both entries are present -/
def twoCommitters : Conc Nat Nat Nat :=
  let s := ((Sys.new 200 2000 : Sys Nat Nat Nat Nat).run [.blk 0 10 0, .bcommit 0]).1
  ⟨s.sc, none, [Thread.committer ⟨11, 10, [(0, .val 1)], .start⟩, Thread.committer ⟨12, 10, [(0, .val 2)], .start⟩,
                Thread.reader (Reader.init 0 12)]⟩

example : (entryAt (twoCommitters.run [0, 1, 1, 0, 0, 1, 0, 0, 0, 1, 1, 1, 1, 1, 1, 2, 2, 2]).sc 0 11,
           entryAt (twoCommitters.run [0, 1, 1, 0, 0, 1, 0, 0, 0, 1, 1, 1, 1, 1, 1, 2, 2, 2]).sc 0 12,
           (twoCommitters.run [0, 1, 1, 0, 0, 1, 0, 0, 0, 1, 1, 1, 1, 1, 1, 2, 2, 2]).results)
    = (some (.val 1), some (.val 2), [none, none, some (some 2)]) := by decide

/-- `layer_lock_facts` (table regenerated by go/extract from the tree under test on every run, per ACCESS): in the block
    and transaction caches every read and every write of guarded state — the fields some method writes (the pending maps,
    `blockHash`) and `committed`, which `commit` writes through its parameter — happens with the cache's own mutex held,
    exclusively for writes, at least shared for reads, on the calling goroutine (`guardedOK`); every method that touches
    guarded state of its own object does so in a single critical section of that object's mutex (`atomicOK`): it is
    atomic WITH RESPECT TO ITS OWN OBJECT. It is NOT one atomic step of the whole system when it calls into another
    object: those calls (`crossUnderLock`) are separate critical sections of the other object's mutex —
    `TransactionCache.Commit` keeps `tc.mu` (`publishOK`: taking the write set and applying it are one critical section
    of `tc.mu`, so the transaction's own `Get` never finds the write set empty and the block not yet updated) but enters
    the block cache's `mu` once per key (`setValue`), so `BlockCache.Get`, another transaction's `Get` or the block's
    `Commit` may run between two keys and see half a transaction; `BlockCache.Get` and `TransactionCache.Get` hold
    their mutex while the next layer's `Get` runs. The interleaving model `LConc` (`Verif/Model/StateCacheLayers.lean`)
    has exactly these steps; the sequential model `Sys` folds them, which is the same thing without concurrency.
    The operations the model has are in the table and do touch guarded state (`present`). Fields nobody writes after
    construction (`main`, `prevBlockHash`, `round`) and the atomic counters may be read anywhere; statements that touch no
    field of the receiver (a `Clone()` of the caller's argument before the lock, a copy made for the caller after it) are
    unconstrained. -/
theorem layer_lock_facts :
    Verif.SCLocks.guardedOK Verif.Gen.LockFacts.blockCache ["committed"] = true ∧
    Verif.SCLocks.atomicOK Verif.Gen.LockFacts.blockCache ["committed"] = true ∧
    (["Get", "Set", "setValue", "SetBlockHash"].all
      (Verif.SCLocks.present Verif.Gen.LockFacts.blockCache ["committed"])) = true ∧
    Verif.Gen.LockFacts.blockCacheInfo.fields.contains "committed" = true ∧
    Verif.SCLocks.guardedOK Verif.Gen.LockFacts.transactionCache [] = true ∧
    Verif.SCLocks.atomicOK Verif.Gen.LockFacts.transactionCache [] = true ∧
    (["Get", "Set", "Remove", "Commit"].all
      (Verif.SCLocks.present Verif.Gen.LockFacts.transactionCache [])) = true ∧
    Verif.SCLocks.publishOK Verif.Gen.LockFacts.transactionCache ["setValue", "remove"] = true ∧
    Verif.SCLocks.publishes Verif.Gen.LockFacts.transactionCache ["setValue", "remove"] "Commit" = true ∧
    (Verif.SCLocks.crossUnderLock Verif.Gen.LockFacts.transactionCache).all
      (fun c => ["setValue", "remove", "addStats", "Get", "Round"].contains c) = true ∧
    (Verif.SCLocks.crossUnderLock Verif.Gen.LockFacts.blockCache).all (fun c => ["Get"].contains c) = true := by
  decide

/-- `C08_visible_after_returned_commit`: stated from ANY configuration reached by a run, not from the initial one. After
    a run `pre` (any schedule) in which the commit of thread `tid` has returned, the block is in the tree with the writes
    the commit carried, and every lookup thread that has not started yet — for a key `k` the block wrote, at that block —
    completes, under every continuation `post` without eviction and whatever the other threads do meanwhile, with exactly
    the block's entry: a hit with the written value, or a miss if the block removed the key. -/
theorem C08_visible_after_returned_commit {c : Conc K B V} {T : Tree K B V} (hI : Inv c.sc T none) (h0 : c.Initial)
    (pre post : List Nat) (hev : ((c.run pre).run post).sc.evictions = c.sc.evictions)
    {tid : Nat} {m : Committer K B V} {b : Bool}
    (hm : (c.run pre).threads[tid]? = some (Thread.committer m)) (hdone : m.pc = .done b) :
    ∃ x, (Conc.treeRun T c pre).find m.hash = some x ∧
      ∀ (k : K) (e : Entry V), alookup x.writes k = some e →
      ∀ (j : Nat), (c.run pre).threads[j]? = some (Thread.reader (Reader.init k m.hash)) →
      ∃ r, ((c.run pre).run post).threads[j]? = some (Thread.reader r) ∧ ∀ res, r.pc = .done res → res = e.result := by
  have h1 : (c.run pre).sc.evictions = c.sc.evictions :=
    Nat.le_antisymm (by rw [← hev]; exact Conc.run_ev_le _ post) (Conc.run_ev_le c pre)
  have h2 : ((c.run pre).run post).sc.evictions = (c.run pre).sc.evictions := by rw [hev, h1]
  obtain ⟨hC, _, _⟩ := Conc.run_inv pre (CInv.init hI h0) h1
  obtain ⟨x, hx, hl, _⟩ := commit_published hI h0 pre h1 hm hdone
  refine ⟨x, hx, fun k e hw j hj => ?_⟩
  obtain ⟨r, hr, _, _, hV⟩ := Conc.run_visible post hC h2 hl hx hw hj rfl rfl (by unfold VInv Reader.init; trivial)
  refine ⟨r, hr, fun res hres => ?_⟩
  unfold VInv at hV; rw [hres] at hV; exact hV

/-- `C08_layers_hit_correct` — the per-key statement of C08 for ALL layers. `LConc` (`Verif/Model/StateCacheLayers.lean`)
    interleaves, at the granularity the lock facts justify, `BlockCache.Set / Get / Commit`, `TransactionCache.Set /
    Remove / Get` and `TransactionCache.Commit` — the latter ONE STEP PER KEY into the block cache — with the steps of the
    `StateCache.Get` / `StateCache.commit` threads they hand their work to. For every schedule of these steps without
    eviction, from any state whose state cache satisfies the invariant:
    * the state-cache invariant with the commit in flight as its only hole still holds (`CInv`), commits stay serialised;
    * every lookup that fell through to the state cache (`BlockCache.Get` / `TransactionCache.Get` at the block cache's
      `base`, a query transaction at its block) and completed with a hit returns the ancestor-chain value of ITS key at
      ITS block in the tree of the commits begun so far.
    A lookup answered from a pending map returns that map's entry for the key at the instant of its atomic read
    (`layer_direct_hit`). C08 is a PER-KEY property: a `BlockCache.Get` or another transaction's `Get` running between two
    `setValue` steps of a `TransactionCache.Commit` sees some keys of that transaction and not yet others; for each key
    the answer is the pending entry at that instant or the chain value at `base` — never a value of another key or block.
    The transaction's own `Get` is excluded while its `Commit` holds `tc.mu`. -/
theorem C08_layers_hit_correct {H : Type} [DecidableEq H] {l : LConc H K B V} {T : Tree K B V}
    (hI : Inv l.base.sc T none) (h0 : l.base.Initial) (hn : BcsNodup l)
    (sched : List (LStep H K B V)) (hev : (l.run sched).base.sc.evictions = l.base.sc.evictions) :
    CInv (l.run sched).base (LConc.treeRun T l sched) ∧
    ∀ (tid : Nat) (r : Reader K B V) (v : V), (l.run sched).base.threads[tid]? = some (Thread.reader r) →
      r.pc = .done (some v) → Chain (LConc.treeRun T l sched) r.key r.blk (.val v) := by
  have hL := LConc.run_inv sched ⟨CInv.init hI h0, hn⟩ hev
  refine ⟨hL.cinv, fun tid r v hr hv => ?_⟩
  have := hL.cinv.readers tid r hr
  unfold RInv at this; rw [hv] at this
  exact this v rfl

/-- `layer_direct_hit`: what the atomic read of `BlockCache.Get` does — a pending entry of the key is the answer (a
    removal misses) and the state cache is not consulted; without one the lookup continues as a `StateCache.Get` thread
    at the block cache's `base` (its own hash once its commit took effect, its parent before). -/
theorem layer_direct_hit {H : Type} [DecidableEq H] (l : LConc H K B V) (h : H) (k : K) (bc : BC K B V)
    (hb : alookup l.bcs h = some bc) (hfree : l.isBusy h = false) :
    (∀ e, alookup bc.cache k = some e →
      (l.step (.bget h k)).direct = (h, k, e.result) :: l.direct ∧ (l.step (.bget h k)).base = l.base) ∧
    (alookup bc.cache k = none →
      (l.step (.bget h k)).direct = l.direct ∧
      (l.step (.bget h k)).base = l.base.spawn (Thread.reader (Reader.init k bc.base))) := by
  constructor
  · intro e he
    simp only [LConc.step, LConc.lookupBlock, hb, hfree, he]
    exact ⟨rfl, rfl⟩
  · intro he
    simp only [LConc.step, LConc.lookupBlock, hb, hfree, he]
    exact ⟨rfl, rfl⟩

/-- `C08_layers_all_hits` — BOTH answer paths of the layered model in one statement. For every schedule of `LConc`
    (block caches, transaction caches, `TransactionCache.Commit` one step per key, `BlockCache.Get` keeping `bc.mu` until
    its state-cache lookup has returned — that is what the code does: `defer pcc.mu.Unlock()` — and the state cache's own
    threads) without eviction, from a state whose state cache satisfies the invariant:
    1. (fall-through) every lookup thread of the state cache that completed with a hit returns the ancestor-chain value of
       its key at its block in the tree of the commits begun so far;
    2. (pending maps) every answer in the log of direct answers was given by ONE step `a` of the schedule, a
       `BlockCache.Get` or `TransactionCache.Get` for that handle and key, and is the result of the entry that the pending
       map — of that block cache, resp. of that transaction or else of its block cache — held for THAT key in the
       configuration reached just before `a`, an instant inside the lookup (`(l.run pre)` with `sched = pre ++ a :: post`);
    3. (what a pending entry is) per key, a block cache's pending entry changes only by `BlockCache.Set` of that key on that
       block cache, by the `setValue` step of a transaction commit carrying that key into it, or is emptied when the block's
       own commit has returned. Hence the entry read in 2. is the latest write to that key in that block issued before the
       read — the block's pre-commit view for that key, old or new while a transaction commit is half applied, never another
       key's or another block's value.
    (The transaction's own map changes only by its `Set` / `Remove` and is cleared by the last step of its `Commit`; that
    is by construction of `LConc.step` and not restated as a lemma.) -/
theorem C08_layers_all_hits {H : Type} [DecidableEq H] {l : LConc H K B V} {T : Tree K B V}
    (hI : Inv l.base.sc T none) (h0 : l.base.Initial) (hn : BcsNodup l)
    (sched : List (LStep H K B V)) (hev : (l.run sched).base.sc.evictions = l.base.sc.evictions) :
    (∀ (tid : Nat) (r : Reader K B V) (v : V), (l.run sched).base.threads[tid]? = some (Thread.reader r) →
      r.pc = .done (some v) → Chain (LConc.treeRun T l sched) r.key r.blk (.val v)) ∧
    (∀ x ∈ (l.run sched).direct, x ∈ l.direct ∨
      ∃ pre a post, sched = pre ++ a :: post ∧
        ((∃ h k e, a = .bget h k ∧ (l.run pre).pendAt h k = some e ∧ x = (h, k, e.result)) ∨
         (∃ t k e, a = .tget t k ∧ x = (t, k, e.result) ∧
           ((l.run pre).tpendAt t k = some e ∨
            ((l.run pre).tpendAt t k = none ∧ ∃ tc h, alookup (l.run pre).tcs t = some tc ∧ tc.main = .block h ∧
              (l.run pre).pendAt h k = some e))))) ∧
    (∀ (l' : LConc H K B V) (a : LStep H K B V) (h : H) (k : K),
      (l'.step a).pendAt h k = l'.pendAt h k ∨
      (∃ v, a = .bset h k v ∧ (l'.step a).pendAt h k = some (.val v)) ∨
      (∃ t j e rest, a = .tcApply t ∧ l'.jobs.find? (fun j => j.t == t) = some j ∧ j.h = h ∧ j.rest = (k, e) :: rest ∧
        (l'.step a).pendAt h k = some e) ∨
      (∃ tid, a = .sc tid ∧ (l'.step a).pendAt h k = none)) := by
  refine ⟨(C08_layers_hit_correct hI h0 hn sched hev).2, fun x hx => ?_, LConc.step_pendAt⟩
  rcases LConc.run_direct_mem l sched x hx with h1 | ⟨pre, a, post, hs, hd⟩
  · exact .inl h1
  · refine .inr ⟨pre, a, post, hs, ?_⟩
    cases a with
    | bget h k =>
      obtain ⟨e, he, hxe⟩ := LConc.directAns_bget hd
      exact .inl ⟨h, k, e, rfl, he, hxe⟩
    | tget t k =>
      obtain ⟨e, hxe, he⟩ := LConc.directAns_tget hd
      exact .inr ⟨t, k, e, rfl, hxe, he⟩
    | sc tid => simp [LConc.directAns] at hd
    | bset h k v => simp [LConc.directAns] at hd
    | bcBegin h => simp [LConc.directAns] at hd
    | tset t k v => simp [LConc.directAns] at hd
    | trem t k => simp [LConc.directAns] at hd
    | tcBegin t => simp [LConc.directAns] at hd
    | tcApply t => simp [LConc.directAns] at hd

/-- non-vacuity of `C08_layers_all_hits`: block A (hash 10) is committed with keys 1 ↦ 3 and 2 ↦ 4; block cache 0 for its
    child B (hash 11) is empty; transaction 5 on it writes 1 ↦ 7 and 2 ↦ 8. Schedule: the transaction's commit begins and
    applies key 1; `BlockCache.Get` of key 1 answers 7 from the pending map; `BlockCache.Get` of key 2 finds nothing
    pending, locks the block cache and walks the state cache (thread 0) — while it runs, the second `setValue` of the
    transaction commit is BLOCKED on `bc.mu` (the step changes nothing); the walk returns A's value 4: the old value of
    key 2, the new value of key 1 — half a transaction, each key answered correctly; then the commit finishes and key 2
    answers 8. -/
example :
    let s0 := ((Sys.new 200 2000 : Sys Nat Nat Nat Nat).run [.blk 9 10 0, .bset 9 1 3, .bset 9 2 4, .bcommit 9]).1
    let l0 : LConc Nat Nat Nat Nat :=
      ⟨⟨s0.sc, none, []⟩, [(0, ⟨11, 10, [], false⟩)], [(5, ⟨.block 0, [(1, .val 7), (2, .val 8)]⟩)], [], [], []⟩
    let l := l0.run [.tcBegin 5, .tcApply 5, .bget 0 1, .bget 0 2, .tcApply 5, .sc 0, .sc 0, .sc 0, .sc 0, .sc 0, .sc 0,
                     .tcApply 5, .tcApply 5, .bget 0 2]
    l.direct = [(0, 2, some 8), (0, 1, some 7)] ∧ l.base.results = [some (some 4)] ∧ l.jobs.length = 0 := by
  decide

/-- half a transaction is observable, per key correctly: between two `setValue` steps of a `TransactionCache.Commit`
    writing keys 1 and 2 into block cache 0, `BlockCache.Get` answers key 1 from the pending map (new value 7) and hands
    key 2 to the state cache (a reader thread at the parent block is spawned) -/
example :
    let l0 : LConc Nat Nat Nat Nat :=
      ⟨⟨SC.new 200 2000, none, []⟩, [(0, ⟨11, 10, [], false⟩)], [(5, ⟨.block 0, [(1, .val 7), (2, .val 8)]⟩)], [], [], []⟩
    let l := l0.run [.tcBegin 5, .tcApply 5, .bget 0 1, .bget 0 2]
    l.direct = [(0, 1, some 7)] ∧ l.base.threads.length = 1 ∧ l.jobs.map (fun j => j.rest) = [[(2, .val 8)]] := by
  decide

/-- the premise `Inv c.sc T none` is what any sequential history without eviction establishes -/
theorem after_history {H : Type} [DecidableEq H] (capK maxDepth : Nat) (ops : List (Op H K B V))
    (hne : NoEviction (Sys.new capK maxDepth) ops) :
    Inv ((Sys.new capK maxDepth : Sys H K B V).run ops).1.sc ((Sys.new capK maxDepth : Sys H K B V).treeRun [] ops) none :=
  (Sys.run_inv _ ops (SysInv.init capK maxDepth) hne).inv

/-! ### the full statement is false (capacity finding, a schedule of a single thread) -/
theorem C08_full_false : ¬ C08_full := by
  intro h
  have := h 2 8 witnessCap [Thread.reader (Reader.init 0 12)] [0, 0, 0, 0, 0, 0, 0, 0]
    ⟨rfl, fun tid th hth => by
      match tid with
      | 0 => simp at hth; subst hth; exact .inl ⟨_, _, rfl⟩
      | n + 1 => simp at hth⟩ 0 ⟨0, 12, .done (some 1)⟩ 1 (by rfl) rfl
  have horacle : Chain ((Sys.new 2 8 : Sys Nat Nat Nat Nat).treeRun [] witnessCap) 0 12 (.val 2) :=
    witnessCap_oracle
  have htree : Conc.treeRun ((Sys.new 2 8 : Sys Nat Nat Nat Nat).treeRun [] witnessCap)
      (⟨((Sys.new 2 8 : Sys Nat Nat Nat Nat).run witnessCap).1.sc, none,
        [Thread.reader (Reader.init 0 12)]⟩ : Conc Nat Nat Nat) [0, 0, 0, 0, 0, 0, 0, 0]
      = (Sys.new 2 8 : Sys Nat Nat Nat Nat).treeRun [] witnessCap := by
    simp [Conc.treeRun, Conc.treeStep, Conc.step, Reader.step, setNth]
  simp only at this
  rw [htree] at this
  have : Entry.val (1 : Nat) = Entry.val 2 := Chain.det this horacle
  cases this

/-! ### the hypotheses are satisfiable: a commit of B racing with lookups at B and at its descendant D -/
def sampleConc : Conc Nat Nat Nat :=
  let s := ((Sys.new 200 2000 : Sys Nat Nat Nat Nat).run
    [.blk 0 10 0, .bset 0 0 1, .bcommit 0, .blk 2 12 11, .bcommit 2]).1   -- A writes k; D (child of B) committed first
  ⟨s.sc, none, [Thread.committer ⟨11, 10, [(0, .val 2)], .start⟩, Thread.reader (Reader.init 0 11),
                Thread.reader (Reader.init 0 12)]⟩

example : sampleConc.Initial := by
  refine ⟨rfl, fun tid th h => ?_⟩
  match tid with
  | 0 => simp [sampleConc] at h; subst h; exact .inr ⟨_, rfl, rfl, by decide⟩
  | 1 => simp [sampleConc] at h; subst h; exact .inl ⟨_, _, rfl⟩
  | 2 => simp [sampleConc] at h; subst h; exact .inl ⟨_, _, rfl⟩
  | n + 3 => simp [sampleConc] at h

/-- a schedule in which the reader at B looks before the commit adds B's entry (miss) and the reader at D walks through B
    after the entry is added but before the link is published (hit with B's value) — no eviction -/
example : (sampleConc.run [0, 1, 1, 1, 0, 0, 0, 2, 2, 2, 0, 2, 2, 0, 2, 2]).results
    = [none, some none, some (some 2)] := by decide

example : (sampleConc.run [0, 1, 1, 1, 0, 0, 0, 2, 2, 2, 0, 2, 2, 0, 2, 2]).sc.evictions = sampleConc.sc.evictions := by
  decide

end Verif.Props.C08
