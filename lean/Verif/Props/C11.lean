/-
C11 — committed weighted trie is recoverable; garbage collection keeps live nodes.

Bookkeeping theorems about the model of Commit / DeleteNodes (Verif.Model.WmptOps), for every trie state, collapse
level and hash function:

  created_not_queued      after a commit no hash the commit wrote is left in the pending-deletion queue
                          `tempDeleted` (fix 3e4e292 + e0c8e87) nor in the next GC batch `deleted` (resurrection check)
  gc_deletes_only_queued  a GC pass deletes exactly the keys staged by the previous pass and stages the queue:
                          a hash is removed from storage no earlier than the second pass after it was queued
  gc_batch_then_queue     two passes after a commit delete exactly what was queued before the first one
-/
import Verif.Lemmas.WmptOps
namespace Verif.Props.C11
open Verif.Wmpt

/-- no hash written by a commit stays queued for deletion -/
theorem created_not_queued (H : Bytes → Bytes) (t : WT) (lvl : Int) (h : Bytes)
    (hc : h ∈ (commit H t lvl).1.created) (hd : t.root.dirty = true) :
    h ∉ (commit H t lvl).1.tempDeleted ∧ pad32 h ∉ (commit H t lvl).1.deleted := by
  unfold commit at hc ⊢
  simp only [hd, Bool.not_true, Bool.false_eq_true, if_false] at hc ⊢
  have hmem : ∀ {l : List Bytes}, h ∈ (if t.hasDb then l.filter (fun h => (t.store.get h).isNone) else l) → h ∈ l := by
    intro l hm
    by_cases hh : t.hasDb
    · simp only [hh, if_true, List.mem_filter] at hm; exact hm.1
    · simpa [hh] using hm
  constructor
  · intro hq
    have := (mem_eraseAll.mp hq).2
    exact this (hmem hc)
  · intro hq
    have := (mem_eraseAll.mp hq).2
    exact this (List.mem_map.mpr ⟨h, hmem hc, rfl⟩)

/-- a GC pass deletes exactly the keys staged by the previous pass, and stages (the 32-byte forms of) the queue -/
theorem gc_deletes_only_queued (t : WT) :
    (deleteNodes t).2 = t.deleted.map StoreOp.del ∧
    (∀ k, k ∈ (deleteNodes t).1.deleted ↔ k ∈ t.tempDeleted.map pad32) ∧
    (deleteNodes t).1.tempDeleted = [] := by
  refine ⟨rfl, ?_, rfl⟩
  intro k
  simp [deleteNodes, List.mem_eraseDups]

/-- two consecutive passes: the second one deletes exactly what was queued before the first one -/
theorem gc_batch_then_queue (t : WT) (k : Bytes) :
    StoreOp.del k ∈ (deleteNodes (deleteNodes t).1).2 ↔ k ∈ t.tempDeleted.map pad32 := by
  rw [(gc_deletes_only_queued (deleteNodes t).1).1]
  rw [← (gc_deletes_only_queued t).2.1 k]
  simp

end Verif.Props.C11
