/-
C11 — committed weighted trie is recoverable; garbage collection keeps live nodes.

Bookkeeping theorems about the model of Commit / DeleteNodes (Verif.Model.WmptOps), for every trie state, collapse
level and hash function:

  created_not_queued      after a commit no hash the commit wrote is left in the pending-deletion queue
                          `tempDeleted` (fix 3e4e292 + e0c8e87) nor in the next GC batch `deleted` (resurrection check)
  gc_deletes_only_queued  a GC pass deletes exactly the keys staged by the previous pass and stages the queue:
                          a hash is removed from storage no earlier than the second pass after it was queued
  gc_batch_then_queue     two passes after a commit delete exactly what was queued before the first one
  root_read_is_harmless   Root() before Commit(lvl): same batch, same trie in memory, same created list (fix 8a63293)
  reopen_answers          if every node of the spec trie t is in storage under its hash with its honest serialization,
                          then a trie opened from just (hash t, weight t) produces for every block 1..weight the owner
                          key and exactly the honest proof of t, and that proof verifies to (hash t, owner's value)
  C11_recoverable (def) / C11_recoverable_false
                          the full statement is FALSE: equal content under two keys, delete one, commit, two GC passes
                          (open finding C11-F2); the same history with different values is recoverable (example)
  C11_recoverable_partial MAIN, WITH GC: for every history of Update / Delete / Root() / Commit(any level) / DeleteNodes — GC
                          passes in any position (also while changes are uncommitted) and any number — under
                          `NoSharedContent` (at no time of the history two live positions hold nodes with equal hash — a
                          SUFFICIENT condition, stronger than the complement of finding C11-F2: it also constrains
                          contents that are never committed): every node of the last committed trie stays
                          in storage (`C11_gc_safe`), so a history that ends committed is recoverable: the reopened trie
                          is observationally identical to the live one, with the spec's answers
                          (`C11_gc_answers_are_spec`); `C11_crash_gc`: after EVERY prefix of the history — i.e. at every
                          crash point between storage operations, GC batches included — the last committed root is fully
                          resolvable. Invariant `GInv` (Lemmas/WmptGcDefs.lean): nothing in `deleted ∪ tempDeleted` is a
                          node of the last committed trie; nothing in `pendingDeleted` or cached in a dirty node is a node
                          the live trie still holds clean; Commit's erase of re-created hashes restores it.
                          `opsF2_not_distinct`: the refuting history violates exactly this hypothesis.
  C11_recoverable_nogc    the GC-free variant needs no `NoSharedContent`, only relative collision-freeness: for EVERY history of Update / Delete / Root() /
                          Commit(any collapse level) — updates and deletes of keys whose subtrees were collapsed to
                          references are resolved on demand through storage — that ends committed, the trie reopened
                          from (root hash, weight) is observationally identical to the live one: same weight and, for
                          every block, the same owner and the same proof bytes; `C11_answers_are_spec`: these common
                          answers are the spec's (owner by cumulative weight in key order, honest proof, verifies to the
                          root). Hypotheses: no GC pass and no rollback in the history (`HOp.plain`), 32-byte keys and
                          non-empty values, sizes/weights below 2^64 (`PTOK`) and collision-freeness among the nodes of
                          each committed spec trie (`HashInj`, relative — not global — injectivity).
  C11_crash               crash clause for GC-free histories: storage only accumulates, so after EVERY later prefix of the
                          history (the storage states a crash can leave behind — commit batches are atomic) every
                          earlier committed root is still fully resolvable: a trie opened from its (hash, weight)
                          answers every block with the owner's key and the honest, verifying proof. Collision-freeness
                          relative to a subtree-closed set S containing the spec tries of all prefixes.
  C11_reload_*            histories that CONTINUE ON A RELOADED TRIE (Model/WmptReload.lean: `reload` forgets the in-memory trie,
                          its uncommitted changes and its deletion queues and opens New(NewHashNode(root, weight), storage)
                          from the root hash and weight recorded at the last Commit), reloads in any position and number,
                          mixed with Update / Delete / Root() / Commit / DeleteNodes: under `NoSharedContentR` (the same
                          hypothesis over such histories; plus: a committed trie of total weight 0 is the empty one —
                          the harness opens the empty trie for weight 0) the same four conclusions: `C11_reload_gc_safe`,
                          `C11_reload_recoverable`, `C11_reload_answers_are_spec` (also right after a reload:
                          `C11_reload_resumes`), `C11_reload_crash`.
  C11_split_*             Commit only RETURNS its batch, the caller writes it (Model/WmptSplit.lean: `commitB` / `writeB`). OPEN
                          FINDING C11-gc-between-commit-and-batch-write: `C11_split_two_gc_breaks` (decide) — two DeleteNodes
                          passes between a Commit and the write of its batch delete nodes of the root that is still the last
                          one in storage. Partial theorems under `splitOK` (between a Commit and its write only Root() reads
                          and AT MOST ONE pass): `C11_split_eq_fused` (the split history ends in exactly the state of the
                          fused one, so every theorem above applies), `C11_split_crash_safe` / `C11_split_crash_answers` (at
                          EVERY intermediate point, also between Commit and write, the last durably committed content is
                          stored and a trie reopened from its root answers every block).
  C11_gc_safe_any_value / C11_recoverable_any_value   `Update(key, empty value, w)` — the delete spelling of the API, excluded
                          by `HOp.wf` — is `Delete(key)` step by step (`hrun_normDel`): the GC theorems for histories whose
                          updates carry ANY value (`HOp.wf'`), against the spec of the normalised history.
Histories containing Rollback / RollbackTrie are treated in Props/C13.
-/
import Verif.Lemmas.WmptOps
import Verif.Lemmas.WmptCommit
import Verif.Lemmas.WmptReopen
import Verif.Lemmas.WmptSpec
import Verif.Lemmas.WmptHistoryInv
import Verif.Lemmas.WmptCrash
import Verif.Lemmas.WmptGcInv
import Verif.Lemmas.WmptReload
import Verif.Lemmas.WmptSplit
import Verif.Lemmas.WmptEmptyUpd
import Verif.Model.WmptToy
namespace Verif.Props.C11
open Verif.Wmpt

/-- no hash written by a commit stays queued for deletion -/
theorem created_not_queued (H : Bytes → Bytes) (t : WT) (lvl : Int) (h : Bytes)
    (hc : h ∈ (commit H t lvl).1.created) (hd : t.root.dirty = true) :
    h ∉ (commit H t lvl).1.tempDeleted ∧ pad32 h ∉ (commit H t lvl).1.deleted := by
  unfold commit at hc ⊢
  simp only [hd, Bool.not_true, Bool.false_eq_true, if_false] at hc ⊢
  have hmem : ∀ {l : List Bytes}, h ∈ (if t.hasDb then l.filter (fun h => (t.store.get h).isNone) else l) → h ∈ l := by
    intro l hm
    by_cases hh : t.hasDb
    · simp only [hh, if_true, List.mem_filter] at hm; exact hm.1
    · simpa [hh] using hm
  constructor
  · intro hq
    have := (mem_eraseAll.mp hq).2
    exact this (hmem hc)
  · intro hq
    have := (mem_eraseAll.mp hq).2
    exact this (List.mem_map.mpr ⟨h, hmem hc, rfl⟩)

/-- a GC pass deletes exactly the keys staged by the previous pass, and stages (the 32-byte forms of) the queue -/
theorem gc_deletes_only_queued (t : WT) :
    (deleteNodes t).2 = t.deleted.map StoreOp.del ∧
    (∀ k, k ∈ (deleteNodes t).1.deleted ↔ k ∈ t.tempDeleted.map pad32) ∧
    (deleteNodes t).1.tempDeleted = [] := by
  refine ⟨rfl, ?_, rfl⟩
  intro k
  simp [deleteNodes, List.mem_eraseDups]

/-- two consecutive passes: the second one deletes exactly what was queued before the first one -/
theorem gc_batch_then_queue (t : WT) (k : Bytes) :
    StoreOp.del k ∈ (deleteNodes (deleteNodes t).1).2 ↔ k ∈ t.tempDeleted.map pad32 := by
  rw [(gc_deletes_only_queued (deleteNodes t).1).1]
  rw [← (gc_deletes_only_queued t).2.1 k]
  simp

/-- reading the root hash of a modified trie before committing does not change what the commit writes -/
theorem root_read_is_harmless (H : Bytes → Bytes) (t : WT) (lvl : Int) :
    (commit H (rootHash H t).1 lvl).2 = (commit H t lvl).2 ∧
    (commit H (rootHash H t).1 lvl).1.root = (commit H t lvl).1.root ∧
    (commit H (rootHash H t).1 lvl).1.created = (commit H t lvl).1.created :=
  ⟨(commit_after_root H t lvl).1, (commit_after_root H t lvl).2.1, (commit_after_root H t lvl).2.2.1⟩

/-- a trie reopened from (root hash, weight) on a storage that holds every node answers like the spec trie:
    for every block the owner's key, the honest proof bytes, and the proof verifies -/
theorem reopen_answers (H : Bytes → Bytes) (hlen : ∀ x, (H x).length = 32) (s : Store) (t : PT) (b fuel : Nat)
    (hst : StoredAll H s t) (hw : t.weight < 2 ^ 64) (hsz : PTSize t) (hb1 : 1 ≤ b) (hb : b ≤ t.weight)
    (hf : 2 * t.depth ≤ fuel) :
    ∃ k v, ownerSpec t.entries b = some (k, v) ∧
      (getBlockProof H true s fuel (.hashRef (PT.hash H t) t.weight) b []).res =
        .ok (k, (t.proofPairs H b).map Cbor.encBase) ∧
      verifyPairs H ((t.proofPairs H b).map PairD.ok) b = .ok (t.hash H, v) := by
  obtain ⟨k, v, ho, hp, hv⟩ := reopen_verifies H hlen s t b fuel hst hw hsz hb1 hb hf
  rw [owner_eq_ownerSpec t b hb1 hb] at ho
  exact ⟨k, v, ho, hp, hv⟩

def keyA : List Nib := List.replicate 64 1
def keyD : List Nib := 2 :: List.replicate 63 4

/-- MAIN: histories of updates / deletes / hash reads / commits at any collapse level, ending committed, are recoverable:
    the reopened trie is observationally identical to the live one. -/
theorem C11_recoverable_nogc (H : Bytes → Bytes) (hlen : ∀ x, (H x).length = 32) (ops : List HOp)
    (hall : ∀ op ∈ ops, op.plain ∧ op.wf)
    (hok : ∀ p q, ops = p ++ q → RepOps.PTOK (specRun p))
    (hinj : ∀ p lvl q, ops = p ++ .commit lvl :: q → HashInj H (fun x => PT.Sub x (specRun p)))
    (hd : (hrun H ops).t.root.dirty = false) :
    sameAnswers H (reopen H (hrun H ops).t) (hrun H ops).t :=
  commit_recoverable hlen ops hall hok hinj hd (hok ops [] (by simp))

/-- …and the common answers are those of the spec trie of the history: total weight, root hash, and for every block
    the owner by cumulative weight in key order with the honest proof, which verifies to the root hash -/
theorem C11_answers_are_spec (H : Bytes → Bytes) (hlen : ∀ x, (H x).length = 32) (ops : List HOp)
    (hall : ∀ op ∈ ops, op.plain ∧ op.wf)
    (hok : ∀ p q, ops = p ++ q → RepOps.PTOK (specRun p))
    (hinj : ∀ p lvl q, ops = p ++ .commit lvl :: q → HashInj H (fun x => PT.Sub x (specRun p)))
    (hd : (hrun H ops).t.root.dirty = false) :
    (hrun H ops).t.weight = (specRun ops).weight ∧
    ((specRun ops).weight ≠ 0 → (rootHash H (hrun H ops).t).2 = PT.hash H (specRun ops)) ∧
    ∀ b, 1 ≤ b → b ≤ (specRun ops).weight →
      ∃ k v key, ownerSpec (specRun ops).entries b = some (k, v) ∧ RepMore.keybytesToHex key = k ∧ key.length = 32 ∧
        (blockProof H (reopen H (hrun H ops).t) b).2 = .ok (key, Cbor.encTrie (((specRun ops).proofPairs H b).map Cbor.encBase)) ∧
        (blockProof H (hrun H ops).t b).2 = .ok (key, Cbor.encTrie (((specRun ops).proofPairs H b).map Cbor.encBase)) ∧
        verifyPairs H (((specRun ops).proofPairs H b).map PairD.ok) b = .ok ((rootHash H (hrun H ops).t).2, v) := by
  obtain ⟨h1, _, h3, h4⟩ := commit_recoverable_spec hlen ops hall hok hinj hd (hok ops [] (by simp))
  exact ⟨h1, h3, h4⟩

/-- crash clause (GC-free histories): the root committed after the prefix `p` is fully resolvable in the storage state
    after every later prefix `p ++ q'` of the history -/
theorem C11_crash (H : Bytes → Bytes) (hlen : ∀ x, (H x).length = 32) (ops : List HOp)
    (hall : ∀ op ∈ ops, op.plain ∧ op.wf) (hok : ∀ p q, ops = p ++ q → RepOps.PTOK (specRun p))
    {S : PT → Prop} (hcl : SubClosed S) (hinj : HashInj H S) (hS : ∀ p q, ops = p ++ q → S (specRun p))
    (p q' r : List HOp) (hsplit : ops = p ++ q' ++ r) (hd : (hrun H p).t.root.dirty = false) :
    StoredAll H (hrun H (p ++ q')).t.store (specRun p) ∧
    ∀ b, 1 ≤ b → b ≤ (specRun p).weight →
      ∃ k v key, ownerSpec (specRun p).entries b = some (k, v) ∧ RepMore.keybytesToHex key = k ∧
        (blockProof H { root := .hashRef (PT.hash H (specRun p)) (specRun p).weight,
                        store := (hrun H (p ++ q')).t.store } b).2 =
          .ok (key, Cbor.encTrie (((specRun p).proofPairs H b).map Cbor.encBase)) ∧
        verifyPairs H (((specRun p).proofPairs H b).map PairD.ok) b = .ok (PT.hash H (specRun p), v) := by
  refine ⟨committed_prefix_stored hlen ops hall hok hcl hinj hS p q' r hsplit hd, ?_⟩
  intro b hb1 hb
  obtain ⟨k, v, key, h1, h2, _, _, h5, h6⟩ :=
    crash_prefix_recoverable hlen ops hall hok hcl hinj hS p q' r hsplit hd b hb1 hb
  exact ⟨k, v, key, h1, h2, h5, h6⟩

set_option maxRecDepth 1000000 in
/-- non-vacuity: a history with a commit, an update through the collapsed reference, a hash read and a second commit
    satisfies the structural hypotheses, ends committed and is recoverable (toy hash, `decide`) -/
example :
    let ops : List HOp := [.upd keyA [1, 0xee] 2, .upd keyD [2, 0xee] 3, .commit 1, .upd keyA [7] 4, .root, .commit 0]
    (∀ op ∈ ops, op.plain ∧ op.wf) ∧ (hrun toyH ops).t.root.dirty = false ∧
      sameAnswers toyH (reopen toyH (hrun toyH ops).t) (hrun toyH ops).t ∧ (hrun toyH ops).t.weight = 7 := by
  refine ⟨?_, ?_, ?_, ?_⟩
  · intro op hop
    simp only [List.mem_cons, List.not_mem_nil, or_false] at hop
    rcases hop with h | h | h | h | h | h <;> subst h <;> simp [HOp.plain, HOp.wf, keyA, keyD]
  · decide
  · decide
  · decide

/-! ### GC safety -/

/-- at no time of the history two live positions hold nodes with equal hash (nor does a node hash to 32 zero bytes or
    to the hash of the empty string): a sufficient condition for (stronger than) the complement of finding C11-F2, plus sizes below 2^64 -/
def NoSharedContent (H : Bytes → Bytes) (ops : List HOp) : Prop :=
  ∀ p q, ops = p ++ q → RepOps.PTOK (specRun p) ∧ Distinct H (specRun p)

/-- every node of the last committed trie stays in storage, whatever GC passes ran -/
theorem C11_gc_safe (H : Bytes → Bytes) (hlen : ∀ x, (H x).length = 32) (ops : List HOp)
    (hall : ∀ op ∈ ops, op.plainGC ∧ op.wf) (hns : NoSharedContent H ops) :
    StoredAll H (hrun H ops).t.store (committedRun ops) :=
  gc_stored hlen ops hall hns

/-- MAIN: the full statement under `NoSharedContent` -/
theorem C11_recoverable_partial (H : Bytes → Bytes) (hlen : ∀ x, (H x).length = 32) (ops : List HOp)
    (hall : ∀ op ∈ ops, op.plainGC ∧ op.wf) (hns : NoSharedContent H ops)
    (hd : (hrun H ops).t.root.dirty = false) :
    sameAnswers H (reopen H (hrun H ops).t) (hrun H ops).t :=
  gc_recoverable hlen ops hall hns hd

/-- …with the spec's answers -/
theorem C11_gc_answers_are_spec (H : Bytes → Bytes) (hlen : ∀ x, (H x).length = 32) (ops : List HOp)
    (hall : ∀ op ∈ ops, op.plainGC ∧ op.wf) (hns : NoSharedContent H ops)
    (hd : (hrun H ops).t.root.dirty = false) (b : Nat) (hb1 : 1 ≤ b) (hb : b ≤ (specRun ops).weight) :
    ∃ k v key, ownerSpec (specRun ops).entries b = some (k, v) ∧ RepMore.keybytesToHex key = k ∧ key.length = 32 ∧
      (blockProof H (reopen H (hrun H ops).t) b).2 = .ok (key, Cbor.encTrie (((specRun ops).proofPairs H b).map Cbor.encBase)) ∧
      (blockProof H (hrun H ops).t b).2 = .ok (key, Cbor.encTrie (((specRun ops).proofPairs H b).map Cbor.encBase)) ∧
      verifyPairs H (((specRun ops).proofPairs H b).map PairD.ok) b = .ok ((rootHash H (hrun H ops).t).2, v) :=
  gc_answers_are_spec hlen ops hall hns hd b hb1 hb

/-- crash clause with GC: after every prefix of the history the last committed root is fully resolvable -/
theorem C11_crash_gc (H : Bytes → Bytes) (hlen : ∀ x, (H x).length = 32) (ops : List HOp)
    (hall : ∀ op ∈ ops, op.plainGC ∧ op.wf) (hns : NoSharedContent H ops)
    (p q : List HOp) (hsplit : ops = p ++ q) :
    StoredAll H (hrun H p).t.store (committedRun p) ∧
    ∀ b, 1 ≤ b → b ≤ (committedRun p).weight →
      ∃ k v key, ownerSpec (committedRun p).entries b = some (k, v) ∧ RepMore.keybytesToHex key = k ∧
        (blockProof H { root := .hashRef (PT.hash H (committedRun p)) (committedRun p).weight,
                        store := (hrun H p).t.store } b).2 =
          .ok (key, Cbor.encTrie (((committedRun p).proofPairs H b).map Cbor.encBase)) ∧
        verifyPairs H (((committedRun p).proofPairs H b).map PairD.ok) b = .ok (PT.hash H (committedRun p), v) := by
  refine ⟨(ginv_prefix hlen ops hall hns p q hsplit).stored, ?_⟩
  intro b hb1 hb
  obtain ⟨k, v, key, h1, h2, _, _, h5, h6⟩ := gc_crash hlen ops hall hns p q hsplit b hb1 hb
  exact ⟨k, v, key, h1, h2, h5, h6⟩

/-! ### histories that continue on a reloaded trie -/

/-- `NoSharedContent` for histories with reloads; a committed trie of total weight 0 is the empty trie (weights of 0 are
    legal, and a trie reopened for weight 0 is the empty one) -/
def NoSharedContentR (H : Bytes → Bytes) (ops : List ROp) : Prop :=
  ∀ p q, ops = p ++ q → RepOps.PTOK (rspecRun p).1 ∧ Distinct H (rspecRun p).1 ∧
    ((rspecRun p).2.weight = 0 → (rspecRun p).2 = .none)

/-- every node of the last committed trie stays in storage, whatever GC passes and reloads happened -/
theorem C11_reload_gc_safe (H : Bytes → Bytes) (hlen : ∀ x, (H x).length = 32) (ops : List ROp)
    (hall : ∀ op ∈ ops, op.ok) (hns : NoSharedContentR H ops) :
    StoredAll H (rrun H ops).h.t.store (rspecRun ops).2 :=
  reload_stored hlen ops hall hns

/-- a history with reloads that ends with a clean root (after a Commit or a reload) is recoverable -/
theorem C11_reload_recoverable (H : Bytes → Bytes) (hlen : ∀ x, (H x).length = 32) (ops : List ROp)
    (hall : ∀ op ∈ ops, op.ok) (hns : NoSharedContentR H ops)
    (hd : (rrun H ops).h.t.root.dirty = false) :
    sameAnswers H (reopen H (rrun H ops).h.t) (rrun H ops).h.t :=
  reload_recoverable hlen ops hall hns hd

/-- …with the spec's answers (live content of the history: what was committed last plus nothing, since the root is clean) -/
theorem C11_reload_answers_are_spec (H : Bytes → Bytes) (hlen : ∀ x, (H x).length = 32) (ops : List ROp)
    (hall : ∀ op ∈ ops, op.ok) (hns : NoSharedContentR H ops)
    (hd : (rrun H ops).h.t.root.dirty = false) (b : Nat) (hb1 : 1 ≤ b) (hb : b ≤ (rspecRun ops).1.weight) :
    ∃ k v key, ownerSpec (rspecRun ops).1.entries b = some (k, v) ∧ RepMore.keybytesToHex key = k ∧ key.length = 32 ∧
      (blockProof H (reopen H (rrun H ops).h.t) b).2 =
        .ok (key, Cbor.encTrie (((rspecRun ops).1.proofPairs H b).map Cbor.encBase)) ∧
      (blockProof H (rrun H ops).h.t b).2 =
        .ok (key, Cbor.encTrie (((rspecRun ops).1.proofPairs H b).map Cbor.encBase)) ∧
      verifyPairs H (((rspecRun ops).1.proofPairs H b).map PairD.ok) b = .ok ((rootHash H (rrun H ops).h.t).2, v) :=
  reload_answers_are_spec hlen ops hall hns hd b hb1 hb

/-- the trie right after a reload answers every block like the content of the last commit: uncommitted changes are gone,
    committed ones are all there -/
theorem C11_reload_resumes (H : Bytes → Bytes) (hlen : ∀ x, (H x).length = 32) (p : List ROp)
    (hall : ∀ op ∈ p ++ [.reload], op.ok) (hns : NoSharedContentR H (p ++ [.reload]))
    (b : Nat) (hb1 : 1 ≤ b) (hb : b ≤ (rspecRun p).2.weight) :
    ∃ k v key, ownerSpec (rspecRun p).2.entries b = some (k, v) ∧ RepMore.keybytesToHex key = k ∧ key.length = 32 ∧
      (blockProof H (rrun H (p ++ [.reload])).h.t b).2 =
        .ok (key, Cbor.encTrie (((rspecRun p).2.proofPairs H b).map Cbor.encBase)) ∧
      verifyPairs H (((rspecRun p).2.proofPairs H b).map PairD.ok) b =
        .ok ((rootHash H (rrun H (p ++ [.reload])).h.t).2, v) := by
  obtain ⟨k, v, key, h1, h2, h3, _, h5, h6⟩ := reload_after_reload_answers hlen p hall hns b hb1 hb
  exact ⟨k, v, key, h1, h2, h3, h5, h6⟩

/-- crash clause: after every prefix of a history with GC passes and reloads the last committed root is fully resolvable -/
theorem C11_reload_crash (H : Bytes → Bytes) (hlen : ∀ x, (H x).length = 32) (ops : List ROp)
    (hall : ∀ op ∈ ops, op.ok) (hns : NoSharedContentR H ops)
    (p q : List ROp) (hsplit : ops = p ++ q) :
    StoredAll H (rrun H p).h.t.store (rspecRun p).2 ∧
    ∀ b, 1 ≤ b → b ≤ (rspecRun p).2.weight →
      ∃ k v key, ownerSpec (rspecRun p).2.entries b = some (k, v) ∧ RepMore.keybytesToHex key = k ∧
        (blockProof H { root := .hashRef (PT.hash H (rspecRun p).2) (rspecRun p).2.weight,
                        store := (rrun H p).h.t.store } b).2 =
          .ok (key, Cbor.encTrie (((rspecRun p).2.proofPairs H b).map Cbor.encBase)) ∧
        verifyPairs H (((rspecRun p).2.proofPairs H b).map PairD.ok) b = .ok (PT.hash H (rspecRun p).2, v) := by
  refine ⟨(rinv_prefix hlen ops hall hns p q hsplit).ginv.stored, ?_⟩
  intro b hb1 hb
  obtain ⟨k, v, key, h1, h2, _, _, h5, h6⟩ := reload_crash hlen ops hall hns p q hsplit b hb1 hb
  exact ⟨k, v, key, h1, h2, h5, h6⟩

set_option maxRecDepth 1000000 in
/-- a concrete history with GC passes in every position (toy hash, `decide`): delete + re-add of identical content, a GC
    pass while changes are uncommitted, hash reads, commits at different collapse levels, three passes at the end —
    ends committed, is recoverable, and its final content has no shared node -/
example :
    let ops : List HOp := [.upd keyA [1, 0xee] 2, .upd keyD [2, 0xee] 3, .commit 1, .gc, .del keyA, .gc, .upd keyA [1, 0xee] 2,
      .root, .commit 0, .gc, .upd keyD [5] 1, .gc, .commit (-1), .gc, .gc, .gc]
    (∀ op ∈ ops, op.plainGC ∧ op.wf) ∧ (hrun toyH ops).t.root.dirty = false ∧
      sameAnswers toyH (reopen toyH (hrun toyH ops).t) (hrun toyH ops).t ∧ (hrun toyH ops).t.weight = 3 ∧
      (zeros32 :: emptyHash toyH :: NL toyH (specRun ops)).Nodup := by
  refine ⟨?_, ?_, ?_, ?_, ?_⟩
  · intro op hop
    simp only [List.mem_cons, List.not_mem_nil, or_false] at hop
    rcases hop with h | h | h | h | h | h | h | h | h | h | h | h | h | h | h | h <;> subst h <;>
      simp [HOp.plainGC, HOp.wf, keyA, keyD]
  · decide
  · decide
  · decide
  · decide

/-! ### the full statement and its refutation (open finding C11-F2) -/

def HOp.keyOK : HOp → Prop
  | .upd key _ _ => key.length = 64
  | .del key => key.length = 64
  | _ => True

/-- Full statement: after any history that ends committed (whatever was updated, deleted, re-added, whatever hash reads
    and GC passes happened, at whatever collapse levels), a trie reopened from just (root hash, weight) on the same
    storage is observationally identical to the live one — unless two different stored nodes collide under H. -/
def C11_recoverable : Prop :=
  ∀ (H : Bytes → Bytes) (ops : List HOp), (∀ x, (H x).length = 32) → (∀ op ∈ ops, HOp.keyOK op) →
    (hrun H ops).t.root.dirty = false →
    ¬ CollisionIn H (putPreimages H (hrun H ops).puts) →
    sameAnswers H (reopen H (hrun H ops).t) (hrun H ops).t

set_option maxRecDepth 1000000 in
/-- a concrete history with reloads (toy hash, `decide`): commit, an uncommitted change and a GC pass, reload (the change
    is gone), delete + GC passes on the reloaded trie, commit, reload again, more passes — it ends with a clean root, is
    recoverable, holds exactly the committed content, and the weight-0 side condition holds where it reloads -/
example :
    let ops : List ROp := [.op (.upd keyA [1, 0xee] 2), .op (.upd keyD [2, 0xee] 3), .op (.commit 1), .op (.upd keyA [9] 5),
      .op .gc, .reload, .op .gc, .op (.del keyD), .op .gc, .op (.commit 0), .op .gc, .op (.upd keyD [4] 1), .reload,
      .op .gc, .op .gc]
    (rrun toyH ops).h.t.root.dirty = false ∧
      sameAnswers toyH (reopen toyH (rrun toyH ops).h.t) (rrun toyH ops).h.t ∧ (rrun toyH ops).h.t.weight = 2 ∧
      (rspecRun ops).1.entries = (rspecRun ops).2.entries ∧ (rspecRun ops).1.weight = 2 ∧
      (zeros32 :: emptyHash toyH :: NL toyH (rspecRun ops).1).Nodup := by
  refine ⟨?_, ?_, ?_, ?_, ?_, ?_⟩ <;> decide


/-- two keys with byte-equal (value, weight); delete one; commit; two GC passes -/
def opsF2 : List HOp :=
  [.upd keyA [1, 0xee] 2, .upd keyD [1, 0xee] 2, .commit (-1), .del keyA, .commit (-1), .gc, .gc]

set_option maxRecDepth 1000000 in
/-- the live trie still answers for its remaining key, the reopened one cannot: the shared value node is gone -/
theorem opsF2_breaks :
    (hrun toyH opsF2).t.root.dirty = false ∧
    ¬ CollisionIn toyH (putPreimages toyH (hrun toyH opsF2).puts) ∧
    ¬ sameAnswers toyH (reopen toyH (hrun toyH opsF2).t) (hrun toyH opsF2).t := by
  decide

set_option maxRecDepth 1000000 in
/-- the same history with two DIFFERENT values is recoverable: the failure above is due to the shared node only -/
example :
    let ops : List HOp := [.upd keyA [1, 0xee] 2, .upd keyD [2, 0xee] 3, .commit (-1), .del keyA, .commit (-1), .gc, .gc]
    sameAnswers toyH (reopen toyH (hrun toyH ops).t) (hrun toyH ops).t ∧ (hrun toyH ops).t.weight = 3 := by
  decide

set_option maxRecDepth 1000000 in
/-- the refuting history violates exactly the hypothesis of `C11_recoverable_partial`: after its second update two
    live positions hold the same value node; the variant with different values satisfies `Distinct` at that point -/
theorem opsF2_not_distinct :
    ¬ Distinct toyH (specRun (opsF2.take 2)) ∧
    Distinct toyH (specRun [.upd keyA [1, 0xee] 2, .upd keyD [2, 0xee] 3]) := by
  unfold Distinct
  decide

theorem C11_recoverable_false : ¬ C11_recoverable := by
  intro h
  have hk : ∀ op ∈ opsF2, HOp.keyOK op := by
    intro op hop
    simp only [opsF2, List.mem_cons, List.not_mem_nil, or_false] at hop
    rcases hop with h | h | h | h | h | h | h <;> subst h <;> simp [HOp.keyOK, keyA, keyD]
  exact opsF2_breaks.2.2 (h toyH opsF2 (fun x => by simp [toyH, be256]) hk opsF2_breaks.1 opsF2_breaks.2.1)

/-! ### Commit and the write of its batch as separate operations -/

/-- under `splitOK` (between a Commit and the write of its batch: only Root() reads and at most ONE DeleteNodes pass) a split
    history whose last batch is written ends in EXACTLY the state of the fused history — trie, storage and write log -/
theorem C11_split_eq_fused (H : Bytes → Bytes) (ops : List SOp) (hok : splitOK false 0 ops = true)
    (hw : (srun H ops).pend = none) : (srun H ops).h = hrun H (fuse ops) :=
  split_eq_fused ops hok hw

/-- crash clause for split histories (the `_partial` theorem of finding C11-gc-between-commit-and-batch-write): after EVERY
    prefix — also between a Commit and the write of its batch — every node of the last DURABLY committed content is in
    storage -/
theorem C11_split_crash_safe (H : Bytes → Bytes) (hlen : ∀ x, (H x).length = 32) (ops : List SOp)
    (hall : ∀ op ∈ fuse ops, op.plainGC ∧ op.wf) (hns : NoSharedContent H (fuse ops))
    (hsplit : splitOK false 0 ops = true) (p q : List SOp) (hpq : ops = p ++ q) :
    StoredAll H (srun H p).h.t.store (durableSpec p) :=
  split_crash_safe hlen ops hall hns hsplit p q hpq

/-- …and the trie reopened there from the durable (root hash, weight) answers every block with the owner's key and the
    honest, verifying proof -/
theorem C11_split_crash_answers (H : Bytes → Bytes) (hlen : ∀ x, (H x).length = 32) (ops : List SOp)
    (hall : ∀ op ∈ fuse ops, op.plainGC ∧ op.wf) (hns : NoSharedContent H (fuse ops))
    (hsplit : splitOK false 0 ops = true) (p q : List SOp) (hpq : ops = p ++ q)
    (b : Nat) (hb1 : 1 ≤ b) (hb : b ≤ (durableSpec p).weight) :
    ∃ k v key, ownerSpec (durableSpec p).entries b = some (k, v) ∧ RepMore.keybytesToHex key = k ∧ key.length = 32 ∧
      (blockProof H { root := .hashRef (PT.hash H (durableSpec p)) (durableSpec p).weight,
                      store := (srun H p).h.t.store } b).2 =
        .ok (key, Cbor.encTrie (((durableSpec p).proofPairs H b).map Cbor.encBase)) ∧
      verifyPairs H (((durableSpec p).proofPairs H b).map PairD.ok) b = .ok (PT.hash H (durableSpec p), v) :=
  split_crash_answers hlen ops hall hns hsplit p q hpq b hb1 hb

/-- the negation without the hypothesis (OPEN FINDING C11-gc-between-commit-and-batch-write; toy hash, `decide`): with TWO
    passes between the Commit and the write the protocol predicate fails and the previous durable root (weight 5) cannot
    answer block 1 any more; with ONE pass it answers every block -/
theorem C11_split_two_gc_breaks :
    splitOK false 0 (splitCommon ++ [.op .gc, .op .gc]) = false ∧
    splitOK false 0 (splitCommon ++ [.op .gc]) = true ∧
    (srun toyH (splitCommon.take 3)).h.t.weight = 5 ∧
    Res.isOk (blockProof toyH (durableReopen (splitCommon ++ [.op .gc, .op .gc])) 1).2 = false ∧
    Res.isOk (blockProof toyH (durableReopen (splitCommon ++ [.op .gc])) 1).2 = true ∧
    (List.range' 1 5).all (fun b => Res.isOk (blockProof toyH (durableReopen (splitCommon ++ [.op .gc])) b).2) = true :=
  split_two_gc_breaks

/-! ### updates with any value (an empty value is the delete spelling) -/

/-- step by step, `Update(key, empty, w)` is `Delete(key)`: the run of a history equals the run of its normalisation -/
theorem C11_empty_value_is_delete (H : Bytes → Bytes) (hlen : ∀ x, (H x).length = 32) (ops : List HOp)
    (hall : ∀ op ∈ ops, op.plainGC ∧ op.wf') (hns : NoSharedContent H (ops.map HOp.normDel)) :
    hrun H ops = hrun H (ops.map HOp.normDel) :=
  hrun_normDel hlen ops hall hns

theorem C11_gc_safe_any_value (H : Bytes → Bytes) (hlen : ∀ x, (H x).length = 32) (ops : List HOp)
    (hall : ∀ op ∈ ops, op.plainGC ∧ op.wf') (hns : NoSharedContent H (ops.map HOp.normDel)) :
    StoredAll H (hrun H ops).t.store (committedRun (ops.map HOp.normDel)) :=
  gc_stored_wf' hlen ops hall hns

theorem C11_recoverable_any_value (H : Bytes → Bytes) (hlen : ∀ x, (H x).length = 32) (ops : List HOp)
    (hall : ∀ op ∈ ops, op.plainGC ∧ op.wf') (hns : NoSharedContent H (ops.map HOp.normDel))
    (hd : (hrun H ops).t.root.dirty = false) :
    sameAnswers H (reopen H (hrun H ops).t) (hrun H ops).t :=
  gc_recoverable_wf' hlen ops hall hns hd

end Verif.Props.C11
