/-
C07 — Cache writes are private until commit and values are never shared.

Model: `Verif.Model.StateCache` (value semantics) and `Verif.Model.StateCacheHeap` (the same polymorphic cache core
holding *references* into one mutable heap shared with the client, with a copy made exactly where the Go code calls
`Clone()` at the client boundary). Facts about the Go source regenerated on every run: `Verif.Gen.StateCacheFacts`.

Proved: `privacy_txn`, `privacy_block` (simulations: a pending write is unobservable by every history that does not go
through the writing transaction / block cache), `publish` (after commit, lookups in descendant contexts HIT the committed
value — under no eviction and within maxHisDepth), `separation` (the reference implementation under arbitrary in-place
client mutations of values handed in or out is observationally equal to the value-semantics cache), `clone_facts`
(every store into / return out of a cache map in core/statecache is a Clone, a tombstone, a delegation or internal).
`node_clone_is_copy`, `separation_nodes`: for the real value types the clone is `CreateNode(Encode(n))`; on the codec
model (`Verif.Codec`, tied to the Go encoder/decoder by C14's correspondence) that round trip returns the node itself for
every node the decoder accepts and every well-formed node, so the reference implementation that really RUNS the clone
function at the boundary is observationally the value cache as well.
What remains Go-level and is NOT a Lean statement: that the object `CreateNode` builds shares no memory with the
original (the decoder allocates fresh byte slices / child arrays rather than aliasing its input buffer, and no `Clone`
method patches a field of the original into the copy, e.g. a FullNode's value object). The codec model has values, not
pointers, so it cannot express that. It is checked by correspondence only: suite c07 overwrites in place every value it
handed to a `Set` and every value a `Get` returned — LeafNode, FullNode with and without a value, ExtensionNode,
ValueNode — and compares all later lookups with the model.
-/
import Verif.Lemmas.StateCachePrivacy
import Verif.Lemmas.StateCachePublish
import Verif.Lemmas.StateCacheHeap
import Verif.Lemmas.StateCacheRecommit
import Verif.Lemmas.StateCacheClone
import Verif.Lemmas.StateCacheTxnPublish
import Verif.Gen.StateCacheFacts
namespace Verif.Props.C07
open Verif.SC

variable {H K B V C : Type} [DecidableEq H] [DecidableEq K] [DecidableEq B]

/-- `privacy_txn`: a `Set` or `Remove` in transaction cache `t` changes no output of any later history that does not
    address `t` — neither its block cache's lookups, nor other transactions', nor state / query lookups, nor anything a
    commit of another context publishes later. (Holds for every state `s`, reachable or not.) -/
theorem privacy_txn (s : Sys H K B V) (t : H) (w : Op H K B V)
    (hw : (∃ k v, w = .tset t k v) ∨ (∃ k, w = .trem t k))
    (ops : List (Op H K B V)) (hother : ∀ op ∈ ops, op.usesTxn t = false) :
    ((s.step w).1.run ops).2 = (s.run ops).2 :=
  Sys.run_txnEq (TxnEq.of_write t s w hw) ops hother

/-- `privacy_block`: a write into block cache `h` — `BlockCache.Set`, the commit of a transaction cache that sits on `h`,
    or a `Set`/`Remove` in such a transaction cache — changes no output of any later history that does not go through `h`
    (directly or through a transaction cache on it): every other block cache, every transaction on another block, every
    state / query lookup at any block, and every commit of another block see exactly what they would have seen. -/
theorem privacy_block (s : Sys H K B V) (h : H) (w : Op H K B V)
    (hw : (∃ k v, w = .bset h k v) ∨ (∃ t, w = .tcommit t ∧ ∃ tc, alookup s.tcs t = some tc ∧ tc.main = .block h)
        ∨ (∃ t k v, w = .tset t k v ∧ ∃ tc, alookup s.tcs t = some tc ∧ tc.main = .block h)
        ∨ (∃ t k, w = .trem t k ∧ ∃ tc, alookup s.tcs t = some tc ∧ tc.main = .block h))
    (ops : List (Op H K B V)) (hother : AvoidsBlk h s ops) :
    ((s.step w).1.run ops).2 = (s.run ops).2 :=
  Sys.run_blkEq (BlkEq.of_write h s w hw) ops hother

/-- `second_commit_is_noop`: a `Commit()` of a block whose link is present — a second `Commit()` through the same block
    cache after further `Set`s, or the commit of a second block cache with the same hash — is rejected: the operation
    returns normally, every block cache (including the committing one: its pending map and `committed` flag are kept) and
    every transaction cache is unchanged, no entry and no link of the state cache changes (only the recency of the block's
    link), and the specification tree stays the same (first commit wins). -/
theorem second_commit_is_noop (s : Sys H K B V) (T : Tree K B V) (h : H) (bc : BC K B V) (p : B)
    (hb : alookup s.bcs h = some bc) (hl : linkAt s.sc bc.hash = some p) (hT : T.find bc.hash ≠ none) :
    (s.step (.bcommit h)).2 = .ok ∧
    (∀ h', alookup (s.step (.bcommit h)).1.bcs h' = alookup s.bcs h') ∧
    (s.step (.bcommit h)).1.tcs = s.tcs ∧
    (∀ k b, entryAt (s.step (.bcommit h)).1.sc k b = entryAt s.sc k b) ∧
    (∀ b, linkAt (s.step (.bcommit h)).1.sc b = linkAt s.sc b) ∧
    s.treeStep T (.bcommit h) = T := by
  have hs : s.step (.bcommit h) = ({ s with sc := s.sc.touchLink bc.hash, bcs := aset s.bcs h bc }, .ok) := by
    simp only [Sys.step, hb, BC.commit_linked s.sc bc hl]
  rw [hs]
  refine ⟨rfl, fun h' => ?_, rfl, fun k b => rfl, fun b => SC.touchLink_linkAt _ _ _, ?_⟩
  · simp only; rw [alookup_aset]
    by_cases hh : h = h'
    · subst hh; simp [hb]
    · simp [hh]
  · simp only [Sys.treeStep, hb, Tree.commit]
    cases hf : T.find bc.hash with
    | none => exact absurd hf hT
    | some x => rfl

/-- after any history without eviction the premise of `second_commit_is_noop` holds for every block that is in the tree:
    its link is present -/
theorem committed_blocks_are_linked (capK maxDepth : Nat) (ops : List (Op H K B V))
    (hne : NoEviction (Sys.new capK maxDepth) ops) (b : B) (x : Blk K B V)
    (hx : ((Sys.new capK maxDepth : Sys H K B V).treeRun [] ops).find b = some x) :
    linkAt ((Sys.new capK maxDepth : Sys H K B V).run ops).1.sc b = some x.prev :=
  ((Sys.run_inv (Sys.new capK maxDepth : Sys H K B V) ops (SysInv.init capK maxDepth) hne).inv.link_of_find hx)

/-- `late_writes_stay_private`: writes made into a block cache `h` — also after its commit: `Set`, a transaction commit
    into it, writes into a transaction on it — change no output of any later history that goes through `h` only by
    `Commit()` calls the link check rejects (second commits of the already committed block): no other block cache, no
    transaction on another block, no state or query lookup at any block, no later commit ever sees them. -/
theorem late_writes_stay_private (s : Sys H K B V) (h : H) (w : Op H K B V)
    (hw : (∃ k v, w = .bset h k v) ∨ (∃ t, w = .tcommit t ∧ ∃ tc, alookup s.tcs t = some tc ∧ tc.main = .block h)
        ∨ (∃ t k v, w = .tset t k v ∧ ∃ tc, alookup s.tcs t = some tc ∧ tc.main = .block h)
        ∨ (∃ t k, w = .trem t k ∧ ∃ tc, alookup s.tcs t = some tc ∧ tc.main = .block h))
    (ops : List (Op H K B V)) (hother : AvoidsBlkButRecommit h s ops) :
    ((s.step w).1.run ops).2 = (s.run ops).2 :=
  Sys.run_blkEq2 (BlkEq2.of_write h s w hw) ops hother

/-- through the handle itself the late writes are visible — own writes first: a `Set` on a block cache (committed or
    not) is what its own `Get` and the `Get` of a transaction cache on it (without a pending entry of its own) return -/
theorem late_writes_visible_through_handle (s : Sys H K B V) (h : H) (bc : BC K B V) (k : K) (v : V)
    (hb : alookup s.bcs h = some bc) :
    ((s.step (.bset h k v)).1.step (.bget h k)).2 = .hit v ∧
    ∀ t tc, alookup s.tcs t = some tc → tc.main = .block h → alookup tc.cache k = none →
      ((s.step (.bset h k v)).1.step (.tget t k)).2 = .hit v := by
  have hs : (s.step (.bset h k v)).1 = { s with bcs := aset s.bcs h (bc.set k v) } := by simp only [Sys.step, hb]
  have hl : alookup (aset s.bcs h (bc.set k v)) h = some (bc.set k v) := by rw [alookup_aset]; simp
  have hc : alookup (bc.set k v).cache k = some (.val v) := by unfold BC.set; simp only; rw [alookup_aset]; simp
  rw [hs]
  constructor
  · simp only [Sys.step, hl, BC.get, hc]; rfl
  · intro t tc ht hm hn
    simp only [Sys.step, ht, hn, hm, hl, BC.get, hc]; rfl

/-- `tcommit_publishes_to_block`: `TransactionCache.Commit` on block cache `h` makes every pending entry of the
    transaction — value or removal — what the block cache answers (`bget`), what every OTHER transaction on that block
    without a pending entry of its own for the key answers, and what the committed transaction itself still answers
    (its own map is empty now, the block has the entry). Before the `tcommit` none of them can see it (`privacy_txn`:
    the transaction's pending writes change no output of a history that does not go through it), so the values become
    visible to the block exactly by `tcommit`. Holds in every state; the pending map has each key once
    (`Sys.run_tcsNodup`: true of every reachable state). -/
theorem tcommit_publishes_to_block (s : Sys H K B V) (t h : H) (tc : TC H K B V) (bc : BC K B V) (k : K) (e : Entry V)
    (ht : alookup s.tcs t = some tc) (hm : tc.main = .block h) (hb : alookup s.bcs h = some bc)
    (hnd : (tc.cache.map Prod.fst).Nodup) (he : alookup tc.cache k = some e) :
    (s.step (.tcommit t)).2 = .ok ∧
    ((s.step (.tcommit t)).1.step (.bget h k)).2 = Out.ofOption e.result ∧
    ((s.step (.tcommit t)).1.step (.tget t k)).2 = Out.ofOption e.result ∧
    ∀ t' tc', t' ≠ t → alookup s.tcs t' = some tc' → tc'.main = .block h → alookup tc'.cache k = none →
      ((s.step (.tcommit t)).1.step (.tget t' k)).2 = Out.ofOption e.result := by
  have hs : s.step (.tcommit t) = (⟨s.sc, aset s.bcs h (tc.cache.foldl (fun b p => b.setValue p.1 p.2) bc),
      aset s.tcs t { tc with cache := [] }⟩, .ok) := by
    simp only [Sys.step, ht, hm, hb]
  have hl : alookup (aset s.bcs h (tc.cache.foldl (fun b p => b.setValue p.1 p.2) bc)) h
      = some (tc.cache.foldl (fun b p => b.setValue p.1 p.2) bc) := by rw [alookup_aset]; simp
  have hc := foldl_setValue_hit tc.cache bc k e hnd he
  rw [hs]
  refine ⟨rfl, ?_, ?_, ?_⟩
  · simp only [Sys.step, hl, BC.get, hc]
  · have ht2 : alookup (aset s.tcs t (⟨.block h, []⟩ : TC H K B V)) t = some ⟨.block h, []⟩ := by
      rw [alookup_aset]; simp
    rw [hm]
    simp only [Sys.step, ht2, alookup, hl, BC.get, hc]
  · intro t' tc' hne ht' hm' hn'
    have ht2 : alookup (aset s.tcs t { tc with cache := [] }) t' = some tc' := by
      rw [alookup_aset]; simp [Ne.symm hne, ht']
    simp only [Sys.step, ht2, hn', hm', hl, BC.get, hc]

/-- the side condition of `tcommit_publishes_to_block` holds in every reachable state -/
theorem tcs_keys_once (capK maxDepth : Nat) (ops : List (Op H K B V)) (t : H) (tc : TC H K B V)
    (ht : alookup ((Sys.new capK maxDepth : Sys H K B V).run ops).1.tcs t = some tc) :
    (tc.cache.map Prod.fst).Nodup :=
  Sys.run_tcsNodup _ ops (fun _ _ h => by simp [Sys.new] at h) t tc ht

/-- `publish`: after any history without eviction, a lookup (at the transaction, block, query or state layer) whose
    context has no pending entry for the key and whose chain reaches, within `maxDepth` parent steps through committed
    blocks that did not write the key, a committed block that wrote value `v`, returns `hit v` — provided the lookup
    itself evicts nothing. In particular the writes of a committed block are what lookups in all its descendant contexts
    return. -/
theorem publish (capK maxDepth : Nat) (ops : List (Op H K B V)) (op : Op H K B V)
    (hne : NoEviction (Sys.new capK maxDepth) (ops ++ [op]))
    {pend : List (List (K × Entry V))} {b c : B} {k : K} {x : Blk K B V} {v : V} {n : Nat} :
    let s := ((Sys.new capK maxDepth : Sys H K B V).run ops).1
    let T := (Sys.new capK maxDepth : Sys H K B V).treeRun [] ops
    s.ctx op = some (pend, b, k) → pendLookup pend k = none →
    WalkN T k n b c → n ≤ s.sc.maxDepth → T.find c = some x → alookup x.writes k = some (.val v) →
    (s.step op).2 = .hit v := by
  intro s T hctx hp hwalk hn hx hw
  have hrun : ((Sys.new capK maxDepth : Sys H K B V).run (ops ++ [op])).1 = (s.step op).1 := by
    rw [Sys.run_append]; rfl
  unfold NoEviction at hne
  rw [hrun] at hne
  have h1 : s.sc.evictions = (Sys.new capK maxDepth : Sys H K B V).sc.evictions :=
    Nat.le_antisymm (by rw [← hne]; exact Sys.step_ev_le s op) (Sys.run_ev_le _ ops)
  have hS := Sys.run_inv (Sys.new capK maxDepth : Sys H K B V) ops (SysInv.init capK maxDepth) h1
  exact Sys.step_complete s op hS hctx hp hwalk hn hx hw (by rw [hne, h1])

/-- `separation`: run the cache with references into one mutable heap (`HSys`), let the client allocate values, pass
    them in, receive values, and overwrite IN PLACE any value it holds — before or after handing it in, after receiving
    it, at any time. The dereferenced outputs of all cache operations are exactly the outputs of the value-semantics cache
    run on the contents the arguments had at call time: no mutation of a value handed in or out ever changes what a
    later lookup returns. -/
theorem separation (capK maxDepth : Nat) (dflt : C) (ops : List (HOp H K B C)) :
    let hs : HSys H K B C := HSys.new capK maxDepth dflt
    (HSys.traces hs hs.abs ops).1 = (HSys.traces hs hs.abs ops).2 :=
  HSys.traces_eq _ (HWF.init capK maxDepth dflt) ops

/-- the invariant behind `separation`: in every reachable reference state no reference stored anywhere in the cache is
    held by the client (or unallocated), and client allocations and in-place mutations leave the abstraction unchanged -/
theorem separation_invariant (hs : HSys H K B C) (hw : HWF hs) (hop : HOp H K B C) :
    HWF (hs.step hop).1 ∧ ((∀ o, hop ≠ .op o) → (hs.step hop).1.abs = hs.abs) := by
  obtain ⟨h1, h2⟩ := HSys.step_refines hs hw hop
  refine ⟨h1, fun hno => ?_⟩
  cases hop with
  | op o => exact absurd rfl (hno o)
  | new c => exact h2
  | mutate r c => exact h2

/-- `node_clone_is_copy`: `Clone()` of a trie node (`CreateNode(Encode(n))`, `cloneR = decode ∘ encode` on the codec
    model) returns a node EQUAL to the original — type, version, origin, path / prefix, child keys, value bytes — whenever
    the original is something the decoder can produce (`decode bs = ok r`: every node read from a store or received from
    another `Clone`) or is well formed (`ReprWF`: hex-digit paths, 16 child slots of 32-byte keys, non-empty value,
    64-bit version / origin: every node the trie code builds); and the clone is again of that kind, so clones of clones
    are equal too. At the model level this is all "shares nothing observable" can mean: a `Repr` is a value, the clone is
    a second value with the same content, and overwriting one (`HOp.mutate`) does not touch the other. -/
theorem node_clone_is_copy (r : Verif.Codec.Repr) :
    ((∃ bs, Verif.Codec.decode bs = .ok r) → Verif.Cache.cloneR r = r) ∧
    (Verif.Codec.ReprWF r → Verif.Cache.cloneR r = r) ∧
    (Verif.Codec.ReprOK r → Verif.Cache.cloneR r = r ∧ Verif.Codec.ReprOK (Verif.Cache.cloneR r)) :=
  ⟨fun ⟨_, h⟩ => Verif.Cache.cloneR_decoded h,
   fun h => Verif.Cache.cloneR_ok (Verif.Codec.reprOK_of_wf r h),
   fun h => ⟨Verif.Cache.cloneR_ok h, by rw [Verif.Cache.cloneR_ok h]; exact h⟩⟩

/-- `separation_nodes`: `separation` for trie nodes with the clone function actually executed. The reference
    implementation `HSys.stepC cloneR` stores `cloneR (content of the argument)` on `Set` and hands out
    `cloneR (stored content)` on a hit. If every content the client ever writes — at allocation or by in-place mutation,
    before or after handing the reference in, after receiving it — is a node the decoder accepts or a well-formed node
    (`ReprOK`), the dereferenced outputs are exactly those of the value-semantics cache on the contents at call time. -/
theorem separation_nodes (capK maxDepth : Nat) (dflt : Verif.Codec.Repr) (hd : Verif.Codec.ReprOK dflt)
    (ops : List (HOp H K B Verif.Codec.Repr)) (hin : ∀ hop ∈ ops, hop.InP Verif.Codec.ReprOK) :
    let hs : HSys H K B Verif.Codec.Repr := HSys.new capK maxDepth dflt
    (HSys.tracesC Verif.Cache.cloneR hs hs.abs ops).1 = (HSys.tracesC Verif.Cache.cloneR hs hs.abs ops).2 := by
  intro hs
  rw [HSys.tracesC_eq Verif.Cache.cloneR Verif.Codec.ReprOK (fun c h => Verif.Cache.cloneR_ok h) hs (fun _ => hd) _ ops hin]
  exact HSys.traces_eq _ (HWF.init capK maxDepth dflt) ops

open Verif.Gen.StateCacheFacts in
/-- the store sites reachable from API entry point `r` (in its own body or in a package helper it calls) -/
def storesFrom (r : String) : List Verif.Gen.StateCacheFacts.Site :=
  sites.filter (fun s => s.kind == "store" && s.roots.contains r)

open Verif.Gen.StateCacheFacts in
def returnsFrom (r : String) : List Verif.Gen.StateCacheFacts.Site :=
  sites.filter (fun s => s.kind == "return" && s.roots.contains r)

/-- `clone_facts` (table regenerated by go/extract/scfacts from the tree under test on every run; the classes are computed
    by a def-use analysis of where the stored / returned value comes from, not from the shape of the statement):
    * every statement of core/statecache that stores into a map or an LRU stores a clone, a tombstone without client
      value, a value moved between cache-internal containers, or something that is no client value — never a caller's
      object and never the private copy another layer's `Get` made for the caller;
    * every `return` of a value by a cache accessor is a clone or a delegation to another layer's `Get` — never an
      object the cache keeps;
    * what `TransactionCache.Set` / `BlockCache.Set` store (the client boundary of `HSys`, inward) is a clone, and each
      of them does store one;
    * `TransactionCache.Get`, `BlockCache.Get`, `StateCache.Get` each have a hit path that returns a clone (the boundary
      outward), `QueryBlockCache.Get` returns, and the two `Commit`s move values on (so the table is not vacuous for any
      of the functions the model represents). Nothing is said about how many such statements there are or where in
      the function or in which helper they stand. -/
theorem clone_facts :
    (∀ s ∈ Verif.Gen.StateCacheFacts.sites, s.kind = "store" →
      (s.cls = "clone" ∨ s.cls = "tombstone" ∨ s.cls = "internal" ∨ s.cls = "nonvalue")) ∧
    (∀ s ∈ Verif.Gen.StateCacheFacts.sites, s.kind = "return" → (s.cls = "clone" ∨ s.cls = "delegate")) ∧
    (∀ r ∈ ["TransactionCache.Set", "BlockCache.Set"],
      (storesFrom r).all (fun s => s.cls == "clone" || s.cls == "nonvalue") = true ∧
      (storesFrom r).any (fun s => s.cls == "clone") = true) ∧
    (∀ r ∈ ["TransactionCache.Get", "BlockCache.Get", "StateCache.Get"],
      (returnsFrom r).any (fun s => s.cls == "clone") = true) ∧
    returnsFrom "QueryBlockCache.Get" ≠ [] ∧
    (∀ r ∈ ["TransactionCache.Commit", "BlockCache.Commit"],
      (storesFrom r).any (fun s => s.cls == "clone" || s.cls == "internal") = true) := by
  decide

end Verif.Props.C07
