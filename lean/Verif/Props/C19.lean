/-
C19 — Merkle tree paths prove exactly their own leaf.

Model: `Verif.Model.Merkle` — the flat array and the loops of `core/util/merkle_tree.go` (`computeSize`,
`ComputeTree`, `GetPathByIndex`, `GetLeafIndex`/`GetPath`, `VerifyMerklePath`, `SetTree`), for an arbitrary hash type
`α`, pair hash `H : α → α → α` (`MHash`) and zero value `z`.  Specification: `levels`.
All theorems hold for every number of leaves `n ≥ 1` and every index — no bound.
-/
import Verif.Lemmas.MerklePath
import Verif.Lemmas.MerkleSize
namespace Verif.Props.C19
open Verif.Merkle

variable {α : Type} [DecidableEq α] (H : α → α → α) (z : α)

omit [DecidableEq α] in
/-- The array built by the loops of `ComputeTree` is the concatenation of the levels: leaves first, each next level
the pairwise hashes (last node paired with itself on odd levels), root last; a single leaf gets the root
`H l l`. -/
theorem tree_is_levels (ls : List α) (hn : 1 ≤ ls.length) :
    (computeTree H z ls).tree.toList = (levels H ls).flatten :=
  computeTree_tree H z ls hn

/-- **Completeness by index**: for every number of leaves and every leaf position `i`, the path returned by
`GetPathByIndex(i)` verifies for the leaf's hash against `GetRoot()`. -/
theorem C19_verifies (ls : List α) (i : Nat) (hi : i < ls.length) :
    verify H ls[i] (pathByIndex z (computeTree H z ls) i) (getRoot z (computeTree H z ls)) = true := by
  have hn : 1 ≤ ls.length := by omega
  obtain ⟨hp, hidx⟩ := pathByIndex_computeTree H z ls i hi
  have hget : ls[i] = ls.getD i z := by simp [List.getD_eq_getElem?_getD, List.getElem?_eq_getElem hi]
  simp only [verify, decide_eq_true_eq, hp, hidx, getRoot_computeTree H z ls hn, hget]
  by_cases h1 : ls.length = 1
  · match ls, h1 with
    | [a], _ =>
      have : i = 0 := by simpa using hi
      subst this
      simp [levels, specPath, sibOf, verifyFold, specRoot]
  · rw [levels_of_ne_one H ls h1, verifyFold_specPath H z ls i hi]
    match ls, h1 with
    | [], _ => simp at hn
    | _ :: _ :: _, _ => simp [specRoot]

/-- **Completeness by lookup**: `GetPath(leaf)` is the path of the *first* position holding that hash, and it
verifies for the hash; a hash that is not a leaf gets the empty path `&MTPath{}`. -/
theorem C19_by_lookup (ls : List α) (h : α) :
    (h ∈ ls →
      getPath z (computeTree H z ls) h = pathByIndex z (computeTree H z ls) (ls.idxOf h) ∧
      verify H h (getPath z (computeTree H z ls) h) (getRoot z (computeTree H z ls)) = true) ∧
    (h ∉ ls → 1 ≤ ls.length → getPath z (computeTree H z ls) h = { nodes := [], leafIndex := 0 }) := by
  constructor
  · intro hm
    have hn : 1 ≤ ls.length := List.length_pos_of_mem hm
    have hli := getLeafIndex_computeTree H z ls hn h
    rw [if_pos hm] at hli
    have hp : getPath z (computeTree H z ls) h = pathByIndex z (computeTree H z ls) (ls.idxOf h) := by
      simp [getPath, hli]
    refine ⟨hp, ?_⟩
    rw [hp]
    have hlt : ls.idxOf h < ls.length := List.idxOf_lt_length_of_mem hm
    have := C19_verifies H z ls (ls.idxOf h) hlt
    rwa [List.getElem_idxOf hlt] at this
  · intro hm hn
    have hli := getLeafIndex_computeTree H z ls hn h
    rw [if_neg hm] at hli
    simp [getPath, hli]

/-- **Exclusivity**, for *any* path (any nodes, any claimed leaf index, honest or not) and any root: if hashing is
injective in each argument, at most one hash verifies.  The hypotheses are what SHA3 collision resistance gives
for `MHash(a,b) = Hash(a+b)`: `Hash` injective and `x ↦ x+s`, `x ↦ s+x` cancellative. -/
theorem C19_exclusive
    (hl : ∀ s a b, H a s = H b s → a = b) (hr : ∀ s a b, H s a = H s b → a = b)
    (p : Path α) (root h h' : α)
    (hv : verify H h p root = true) (hv' : verify H h' p root = true) : h = h' := by
  simp only [verify, decide_eq_true_eq] at hv hv'
  exact verifyFold_injective H hl hr p.nodes p.leafIndex h h' (hv.trans hv'.symm)

/-- Completeness and exclusivity together: the path of position `i` verifies for a hash iff it is leaf `i`'s. -/
theorem C19_only_own_leaf
    (hl : ∀ s a b, H a s = H b s → a = b) (hr : ∀ s a b, H s a = H s b → a = b)
    (ls : List α) (i : Nat) (hi : i < ls.length) (h' : α) :
    verify H h' (pathByIndex z (computeTree H z ls) i) (getRoot z (computeTree H z ls)) = true ↔ h' = ls[i] :=
  ⟨fun hv => C19_exclusive H hl hr _ _ _ _ hv (C19_verifies H z ls i hi), fun e => e ▸ C19_verifies H z ls i hi⟩

/-- **Export / load**: `SetTree(n, GetTree())` is accepted and yields the same tree — hence the same root and, for
every index, the same path. -/
theorem C19_export_load (ls : List α) (hn : 1 ≤ ls.length) :
    ∃ t', setTree ls.length (computeTree H z ls).tree = some t' ∧
      getRoot z t' = getRoot z (computeTree H z ls) ∧
      (∀ i, pathByIndex z t' i = pathByIndex z (computeTree H z ls) i) ∧
      (∀ h, getPath z t' h = getPath z (computeTree H z ls) h) := by
  have hsz : (computeSize ls.length).1 = (computeTree H z ls).tree.size := by
    rw [computeSize_spec H ls hn, ← Array.length_toList, tree_is_levels H z ls hn]
  have : setTree ls.length (computeTree H z ls).tree = some (computeTree H z ls) := by
    simp only [setTree, hsz, ne_eq, not_true_eq_false, if_false]
    rfl
  exact ⟨_, this, rfl, fun _ => rfl, fun _ => rfl⟩

omit [DecidableEq α] in
/-- … and `SetTree` rejects the exported array under any other leaf count (`computeSize` is strictly increasing). -/
theorem C19_load_wrong_size (ls : List α) (hn : 1 ≤ ls.length) (m : Nat) (hm : m ≠ ls.length) :
    setTree m (computeTree H z ls).tree = none := by
  have hsz : (computeSize ls.length).1 = (computeTree H z ls).tree.size := by
    rw [computeSize_spec H ls hn, ← Array.length_toList, tree_is_levels H z ls hn]
  have hne : (computeSize m).1 ≠ (computeTree H z ls).tree.size := by
    rw [← hsz]; exact fun e => hm (computeSize_injective _ _ e)
  simp [setTree, hne]

/-! ### The hypotheses of exclusivity are satisfiable -/

/-- a free pair hash: injective in both arguments at once -/
inductive T where
  | leaf (n : Nat)
  | node (a b : T)
deriving DecidableEq

example (ls : List T) (i : Nat) (hi : i < ls.length) (h' : T) :
    verify T.node h' (pathByIndex (T.leaf 0) (computeTree T.node (T.leaf 0) ls) i)
      (getRoot (T.leaf 0) (computeTree T.node (T.leaf 0) ls)) = true ↔ h' = ls[i] :=
  C19_only_own_leaf T.node (T.leaf 0)
    (fun _ _ _ e => by injection e) (fun _ _ _ e => by injection e) ls i hi h'

/-- the shape of the Go hash: an injective hash of the concatenation.  Concatenation is *not* injective on pairs
(`"a"+"bc" = "ab"+"c"`), but it is in each argument, which is all exclusivity needs. -/
example (hash : List Nat → List Nat) (hinj : ∀ a b, hash a = hash b → a = b) :
    let H := fun a b : List Nat => hash (a ++ b)
    (∀ s a b, H a s = H b s → a = b) ∧ (∀ s a b, H s a = H s b → a = b) :=
  ⟨fun _ _ _ e => List.append_cancel_right (hinj _ _ e), fun _ _ _ e => List.append_cancel_left (hinj _ _ e)⟩

end Verif.Props.C19
