/-
C13 — rolling back a weighted-trie commit restores the checkpoint exactly.

Theorems about the model of SaveRoot / Commit / Rollback / RollbackTrie (Verif.Model.WmptOps) at /repo HEAD, for
every trie state, collapse level and hash function:

  created_fresh            every hash a commit lists as created was absent from storage before the commit (fix b5c797f)
  rollback_keeps_old_keys  hence Rollback and RollbackTrie never remove a storage entry that existed before the
                           rolled-back commit: whatever the checkpoint could resolve it still can
  rollback_root            Rollback shows the saved (hash, weight) reference again (the empty trie for weight 0)
  C13_rollback             MAIN: checkpoint t0 stored and remembered by SaveRoot; any changes leading to a trie for t1;
                           Commit(any level) + batch; Rollback ⇒ the trie is the checkpoint reference again, every node
                           of t0 is still in storage, every key only the rolled-back commit created is gone, the
                           bookkeeping lists are empty (no GC pass between commit and rollback; collision-freeness
                           relative to a subtree-closed set S ∋ t0, t1)
  C13_rollbackTrie         the same for RollbackTrie with the checkpoint given as a (hash, weight) reference
  C13_rollback_after_gc / C13_rollbackTrie_after_gc   the same with ONE DeleteNodes pass between the commit and the
                           rollback (hypothesis: nothing already staged in `deleted` is a node of the checkpoint — what
                           the GC invariant of Props/C11 provides): the pass only moves the checkpoint nodes the commit
                           superseded from tempDeleted to deleted; Rollback / RollbackTrie clear both
  C13_rollbackTrie_copyRoot   checkpoint taken with CopyRoot(collapse level) on the committed (clean) trie: RollbackTrie
                           installs the copy, which still represents the checkpoint over the storage (every reference it
                           holds resolves), with and without the GC pass (`…_after_gc`)
  C13_checkpoint_answers   and the rolled-back trie then answers every block of the checkpoint: owner key, honest proof
                           bytes, proof verifies to (hash t0, owner's value)
  rollback_clears_queues   both entry points forget the rolled-back commit's created / pending-deletion lists
                           (fix 6d30809 for RollbackTrie), so later GC passes cannot delete checkpoint nodes on its behalf
  C13_protocol_*           WHOLE HISTORIES with any number of SaveRoot / Rollback cycles, mixed with Update / Delete / Root() /
                           Commit(any level) / DeleteNodes in any position, restricted only by the protocol under which
                           Rollback is meaningful (automaton `pctl`, Model/WmptProtocol.lean: SaveRoot on a clean root;
                           Rollback while the checkpoint is intact — no second Commit since SaveRoot, at most ONE
                           DeleteNodes pass after that commit, any number before it; Rollback of uncommitted changes is
                           allowed too). Under `ProtocolOK` (`NoSharedContent` of Props/C11 for the live contents + no
                           collision between the content being committed and the checkpoint + a checkpoint of weight 0 is
                           the empty trie): after EVERY accepted history the live trie represents the spec content
                           (`pspecRun`: a Rollback falls back to the checkpoint content), every node of the last commit is
                           in storage (`C13_protocol_stored`), while Rollback is allowed every node of the checkpoint is in
                           storage (`C13_protocol_checkpoint_stored`), a history that ends with a clean root is
                           recoverable with the spec's answers (`C13_protocol_recoverable`, `…_answers_are_spec`), and
                           right after any accepted Rollback the trie answers every block like the content at the last
                           SaveRoot (`C13_protocol_rollback_restores`). `second_gc_pass_breaks_rollback` (decide): the
                           protocol's "one pass" bound is sharp.
-/
import Verif.Lemmas.WmptOps
import Verif.Lemmas.WmptRollback
import Verif.Lemmas.WmptCopyRoot
import Verif.Lemmas.WmptProtocol
import Verif.Lemmas.WmptProtocolRemoval
import Verif.Lemmas.WmptSpec
import Verif.Model.WmptHistory
import Verif.Model.WmptToy
namespace Verif.Props.C13
open Verif.Wmpt

/-- a commit lists as created only hashes that storage did not hold before -/
theorem created_fresh (H : Bytes → Bytes) (t : WT) (lvl : Int) (h : Bytes) (hdb : t.hasDb = true)
    (hc : h ∈ (commit H t lvl).1.created) (hd : t.root.dirty = true) : t.store.get h = none := by
  unfold commit at hc
  simp only [hd, Bool.not_true, Bool.false_eq_true, if_false, hdb, if_true, List.mem_filter] at hc
  simpa using hc.2

/-- Rollback after a commit keeps every storage entry that existed before that commit
    (`s0` = storage before the commit, `s1` = storage after the commit's batch and any GC batch that deletes none of
    the old key `k`) -/
theorem rollback_keeps_old_keys (H : Bytes → Bytes) (t : WT) (lvl : Int) (hdb : t.hasDb = true) (hd : t.root.dirty = true)
    (k v : Bytes) (hold : t.store.get k = some v) (s1 : Store) (hs1 : s1.get k = some v) :
    ((rollback { (commit H t lvl).1 with store := s1 }).1.store).get k = some v := by
  have hk : k ∉ (commit H t lvl).1.created := by
    intro hm
    have := created_fresh H t lvl k hdb hm hd
    rw [this] at hold; cases hold
  simp only [rollback]
  rw [get_apply_dels _ _ _ hk]; exact hs1

/-- the same for RollbackTrie -/
theorem rollbackTrie_keeps_old_keys (H : Bytes → Bytes) (t : WT) (lvl : Int) (hdb : t.hasDb = true) (hd : t.root.dirty = true)
    (node : WN) (k v : Bytes) (hold : t.store.get k = some v) (s1 : Store) (hs1 : s1.get k = some v) :
    ((rollbackTrie H { (commit H t lvl).1 with store := s1 } node).1.store).get k = some v := by
  have hk : k ∉ (commit H t lvl).1.created := by
    intro hm
    have := created_fresh H t lvl k hdb hm hd
    rw [this] at hold; cases hold
  unfold rollbackTrie
  simp only
  split
  · exact hs1
  · simp only
    rw [get_apply_dels _ _ _ hk]; exact hs1

/-- Rollback shows the checkpoint reference again -/
theorem rollback_root (t : WT) :
    (rollback t).1.root = (if t.oldRoot.2 > 0 then WN.hashRef t.oldRoot.1 t.oldRoot.2 else WN.empty) := rfl

/-- after either rollback nothing of the rolled-back commit is left in the bookkeeping -/
theorem rollback_clears_queues (H : Bytes → Bytes) (t : WT) (node : WN)
    (hne : ¬ (!(node.isNil || node.weight = 0) && node.hashField H = t.root.hashField H) = true) :
    (rollback t).1.created = [] ∧ (rollback t).1.tempDeleted = [] ∧ (rollback t).1.deleted = [] ∧
    (rollbackTrie H t node).1.created = [] ∧ (rollbackTrie H t node).1.tempDeleted = [] ∧ (rollbackTrie H t node).1.deleted = [] := by
  refine ⟨rfl, rfl, rfl, ?_, ?_, ?_⟩ <;> (unfold rollbackTrie; simp only; split; (next h => exact absurd h hne); rfl)

/-- MAIN: rolling back a commit restores the checkpoint exactly (see the header for the reading of the hypotheses) -/
theorem C13_rollback (H : Bytes → Bytes) (hlen : ∀ x, (H x).length = 32) {S : PT → Prop} (hcl : SubClosed S)
    (hinj : HashInj H S) (lvl : Int) (t : WT) (t0 t1 : PT) (hdb : t.hasDb = true)
    (hcp : StoredAll H t.store t0) (hold : t.oldRoot = (PT.hash H t0, t0.weight)) (hw0 : 0 < t0.weight)
    (h1 : RepS H t.store t.root t1) (hp : Proper t.root) (hd : t.root.dirty = true) (hS0 : S t0) (hS1 : S t1) :
    let c := commit H t lvl
    let r := (rollback { c.1 with store := c.1.store.apply c.2 }).1
    r.root = .hashRef (PT.hash H t0) t0.weight ∧ StoredAll H r.store t0 ∧
      (∀ k ∈ c.1.created, r.store.get k = none) ∧ r.created = [] ∧ r.tempDeleted = [] ∧ r.pending = [] ∧ r.deleted = [] :=
  rollback_restores H hlen hcl hinj lvl t t0 t1 hdb hcp hold hw0 h1 hp hd hS0 hS1

/-- after the rollback every block of the checkpoint is answered from storage with the honest, verifying proof -/
theorem C13_checkpoint_answers (H : Bytes → Bytes) (hlen : ∀ x, (H x).length = 32) {S : PT → Prop} (hcl : SubClosed S)
    (hinj : HashInj H S) (lvl : Int) (t : WT) (t0 t1 : PT) (hdb : t.hasDb = true)
    (hcp : StoredAll H t.store t0) (hold : t.oldRoot = (PT.hash H t0, t0.weight))
    (h1 : RepS H t.store t.root t1) (hp : Proper t.root) (hd : t.root.dirty = true) (hS0 : S t0) (hS1 : S t1)
    (hw : t0.weight < 2 ^ 64) (hsz : PTSize t0) (b fuel : Nat) (hb1 : 1 ≤ b) (hb : b ≤ t0.weight) (hf : 2 * t0.depth ≤ fuel) :
    let c := commit H t lvl
    let r := (rollback { c.1 with store := c.1.store.apply c.2 }).1
    ∃ k v, ownerSpec t0.entries b = some (k, v) ∧
      (getBlockProof H true r.store fuel r.root b []).res = .ok (k, (t0.proofPairs H b).map Cbor.encBase) ∧
      verifyPairs H ((t0.proofPairs H b).map PairD.ok) b = .ok (t0.hash H, v) := by
  intro c r
  obtain ⟨hr, hst, _⟩ := rollback_restores H hlen hcl hinj lvl t t0 t1 hdb hcp hold (by omega) h1 hp hd hS0 hS1
  obtain ⟨k, v, ho, hp', hv⟩ := reopen_verifies H hlen r.store t0 b fuel hst hw hsz hb1 hb hf
  rw [owner_eq_ownerSpec t0 b hb1 hb] at ho
  refine ⟨k, v, ho, ?_, hv⟩
  rw [hr]; exact hp'

/-- the other entry point, `RollbackTrie(NewHashNode(hash t0, weight t0))`: every node of the checkpoint stays in
    storage; either the committed root already has the checkpoint's hash and nothing is touched (the early return of
    the Go code), or the checkpoint reference is installed, exactly the keys the commit created are gone and all
    bookkeeping lists — including the pending-deletion queue, fix 6d30809 — are empty -/
theorem C13_rollbackTrie (H : Bytes → Bytes) (hlen : ∀ x, (H x).length = 32) {S : PT → Prop} (hcl : SubClosed S)
    (hinj : HashInj H S) (lvl : Int) (t : WT) (t0 t1 : PT) (hdb : t.hasDb = true)
    (hcp : StoredAll H t.store t0) (hw0 : 0 < t0.weight)
    (h1 : RepS H t.store t.root t1) (hp : Proper t.root) (hd : t.root.dirty = true) (hS0 : S t0) (hS1 : S t1) :
    let c := commit H t lvl
    let c' : WT := { c.1 with store := c.1.store.apply c.2 }
    let r := (rollbackTrie H c' (.hashRef (PT.hash H t0) t0.weight)).1
    StoredAll H r.store t0 ∧
      ((c'.root.hashField H = PT.hash H t0 ∧ r = c') ∨
       (r.root = .hashRef (PT.hash H t0) t0.weight ∧ (∀ k ∈ c.1.created, r.store.get k = none) ∧
         r.created = [] ∧ r.tempDeleted = [] ∧ r.pending = [] ∧ r.deleted = [])) :=
  rollbackTrie_restores H hlen hcl hinj lvl t t0 t1 hdb hcp hw0 h1 hp hd hS0 hS1

/-- `C13_rollback` with one GC pass between commit and rollback -/
theorem C13_rollback_after_gc (H : Bytes → Bytes) (hlen : ∀ x, (H x).length = 32) {S : PT → Prop}
    (hcl : SubClosed S) (hinj : HashInj H S) (lvl : Int) (t : WT) (t0 t1 : PT) (hdb : t.hasDb = true)
    (hcp : StoredAll H t.store t0) (hold : t.oldRoot = (PT.hash H t0, t0.weight)) (hw0 : 0 < t0.weight)
    (h1 : RepS H t.store t.root t1) (hp : Proper t.root) (hd : t.root.dirty = true) (hS0 : S t0) (hS1 : S t1)
    (hq : ∀ k ∈ t.deleted, ∀ x, PT.Sub x t0 → x.isNone = false → k ≠ PT.hash H x) :
    let c := commit H t lvl
    let c' : WT := { c.1 with store := c.1.store.apply c.2 }
    let g := (deleteNodes c').1
    let r := (rollback g).1
    r.root = .hashRef (PT.hash H t0) t0.weight ∧ StoredAll H r.store t0 ∧
      (∀ k ∈ c.1.created, r.store.get k = none) ∧ r.created = [] ∧ r.tempDeleted = [] ∧ r.pending = [] ∧ r.deleted = [] :=
  rollback_after_gc_restores H hlen hcl hinj lvl t t0 t1 hdb hcp hold hw0 h1 hp hd hS0 hS1 hq

/-- `C13_rollbackTrie` with one GC pass between commit and rollback -/
theorem C13_rollbackTrie_after_gc (H : Bytes → Bytes) (hlen : ∀ x, (H x).length = 32) {S : PT → Prop}
    (hcl : SubClosed S) (hinj : HashInj H S) (lvl : Int) (t : WT) (t0 t1 : PT) (hdb : t.hasDb = true)
    (hcp : StoredAll H t.store t0) (hw0 : 0 < t0.weight)
    (h1 : RepS H t.store t.root t1) (hp : Proper t.root) (hd : t.root.dirty = true) (hS0 : S t0) (hS1 : S t1)
    (hq : ∀ k ∈ t.deleted, ∀ x, PT.Sub x t0 → x.isNone = false → k ≠ PT.hash H x) :
    let c := commit H t lvl
    let c' : WT := { c.1 with store := c.1.store.apply c.2 }
    let g := (deleteNodes c').1
    let r := (rollbackTrie H g (.hashRef (PT.hash H t0) t0.weight)).1
    StoredAll H r.store t0 ∧
      ((c'.root.hashField H = PT.hash H t0 ∧ r = g) ∨
       (r.root = .hashRef (PT.hash H t0) t0.weight ∧ (∀ k ∈ c.1.created, r.store.get k = none) ∧
         r.created = [] ∧ r.tempDeleted = [] ∧ r.pending = [] ∧ r.deleted = [])) :=
  rollbackTrie_after_gc_restores H hlen hcl hinj lvl t t0 t1 hdb hcp hw0 h1 hp hd hS0 hS1 hq

/-- checkpoint copy taken with `CopyRoot(collapse0)` on the committed (clean) trie `n0` representing `t0` -/
theorem C13_rollbackTrie_copyRoot (H : Bytes → Bytes) (hlen : ∀ x, (H x).length = 32) {S : PT → Prop}
    (hcl : SubClosed S) (hinj : HashInj H S) (lvl : Int) (t : WT) (t0 t1 : PT) {P : PT → Prop} (n0 : WN)
    (collapse0 : Int)
    (hdb : t.hasDb = true) (hcp : StoredAll H t.store t0) (hw0 : 0 < t0.weight) (hr0 : Rep H P n0 t0)
    (hac0 : AllClean n0) (hp0 : Proper n0)
    (h1 : RepS H t.store t.root t1) (hp : Proper t.root) (hd : t.root.dirty = true) (hS0 : S t0) (hS1 : S t1) :
    let cp := copyRoot H collapse0 0 n0
    let c := commit H t lvl
    let c' : WT := { c.1 with store := c.1.store.apply c.2 }
    let r := (rollbackTrie H c' cp).1
    StoredAll H r.store t0 ∧
      ((n0.hashField H = c'.root.hashField H ∧ r = c') ∨
       (r.root = cp ∧ RepS H r.store r.root t0 ∧ AllClean r.root ∧ Proper r.root ∧
         (∀ k ∈ c.1.created, r.store.get k = none) ∧
         r.created = [] ∧ r.tempDeleted = [] ∧ r.pending = [] ∧ r.deleted = [])) :=
  rollbackTrie_copyRoot_restores H hlen hcl hinj lvl t t0 t1 n0 collapse0 0 hdb hcp hw0 hr0 hac0 hp0 h1 hp hd hS0 hS1

/-- …and with one GC pass in between (any checkpoint copy `cp` that represents `t0`, in particular a `CopyRoot` copy,
    see `rep_copyRoot`) -/
theorem C13_rollbackTrie_copy_after_gc (H : Bytes → Bytes) (hlen : ∀ x, (H x).length = 32) {S : PT → Prop}
    (hcl : SubClosed S) (hinj : HashInj H S) (lvl : Int) (t : WT) (t0 t1 : PT) {P : PT → Prop} (cp : WN)
    (hdb : t.hasDb = true) (hcp : StoredAll H t.store t0) (hw0 : 0 < t0.weight) (hrcp : Rep H P cp t0)
    (h1 : RepS H t.store t.root t1) (hp : Proper t.root) (hd : t.root.dirty = true) (hS0 : S t0) (hS1 : S t1)
    (hq : ∀ k ∈ t.deleted, ∀ x, PT.Sub x t0 → x.isNone = false → k ≠ PT.hash H x) :
    let c := commit H t lvl
    let c' : WT := { c.1 with store := c.1.store.apply c.2 }
    let g := (deleteNodes c').1
    let r := (rollbackTrie H g cp).1
    StoredAll H r.store t0 ∧
      ((cp.hashField H = c'.root.hashField H ∧ r = g) ∨
       (r.root = cp ∧ RepS H r.store r.root t0 ∧ (∀ k ∈ c.1.created, r.store.get k = none) ∧
         r.created = [] ∧ r.tempDeleted = [] ∧ r.pending = [] ∧ r.deleted = [])) :=
  rollbackTrie_copy_after_gc_restores H hlen hcl hinj lvl t t0 t1 cp hdb hcp hw0 hrcp h1 hp hd hS0 hS1 hq

/-- a `CopyRoot` copy of a clean trie represents the same spec tree (so it qualifies as `cp` above) -/
theorem copyRoot_represents {H : Bytes → Bytes} {P : PT → Prop} {n : WN} {t : PT} (h : Rep H P n t) (hac : AllClean n)
    (hp : Proper n) (collapse : Int) :
    Rep H P (copyRoot H collapse 0 n) t ∧ (copyRoot H collapse 0 n).weight = n.weight ∧
      (copyRoot H collapse 0 n).hashField H = n.hashField H := by
  obtain ⟨a, _, _, d, e, _⟩ := rep_copyRoot h hac hp collapse 0
  exact ⟨a, d, e⟩

set_option maxRecDepth 100000 in
/-- the collision-freeness hypothesis is satisfiable (it is relative to the nodes of the tries involved): the toy hash
    on the nodes of a one-key trie -/
example : HashInj toyH (fun x => PT.Sub x (.short [1] (.value [0xaa] 2))) ∧
    SubClosed (fun x => PT.Sub x (.short [1] (.value [0xaa] 2))) := by
  refine ⟨?_, subClosed_sub _⟩
  intro x y hx hy he
  simp only [PT.Sub] at hx hy
  rcases hx with rfl | rfl <;> rcases hy with rfl | rfl
  · rfl
  · exact absurd he (by decide)
  · exact absurd he (by decide)
  · rfl

set_option maxRecDepth 1000000 in
/-- the scenario is realisable (toy hash, `decide`): checkpoint {A ↦ x, D ↦ y} committed; SaveRoot; a same-value re-write
    of A (the case that used to destroy the checkpoint), a new value for D, a new key; Commit 1; Rollback ⇒ the trie shows
    the checkpoint's weight, answers every block exactly like a trie reopened from the checkpoint, and its bookkeeping
    lists are empty -/
example :
    let kA : List Nib := List.replicate 64 1
    let kD : List Nib := 2 :: List.replicate 63 4
    let kE : List Nib := 2 :: 5 :: List.replicate 62 4
    let cp : List HOp := [.upd kA [1, 0xee] 2, .upd kD [2, 0xee] 3, .commit (-1)]
    let ops : List HOp := cp ++ [.saveRoot, .upd kA [1, 0xee] 2, .upd kD [9] 1, .upd kE [3] 4, .commit 1, .rollback]
    (hrun toyH ops).t.weight = 5 ∧
      sameAnswers toyH (hrun toyH ops).t (reopen toyH (hrun toyH cp).t) ∧
      (hrun toyH ops).t.created = [] ∧ (hrun toyH ops).t.tempDeleted = [] ∧ (hrun toyH ops).t.deleted = [] := by
  decide

set_option maxRecDepth 1000000 in
/-- realisable with a `CopyRoot(1)` checkpoint and ONE GC pass between commit and RollbackTrie (toy hash, `decide`) -/
example :
    let kA : List Nib := List.replicate 64 1
    let kD : List Nib := 2 :: List.replicate 63 4
    let kE : List Nib := 2 :: 5 :: List.replicate 62 4
    let cpSt := (hrun toyH [.upd kA [1, 0xee] 2, .upd kD [2, 0xee] 3, .upd kE [3] 1, .commit (-1), .gc])
    let cp := copyRoot toyH 1 0 cpSt.t.root
    let later := [HOp.upd kA [1, 0xee] 2, .upd kD [9] 1, .del kE, .commit 2, .gc].foldl (hstep toyH) cpSt
    let r := (rollbackTrie toyH later.t cp).1
    r.weight = 6 ∧ sameAnswers toyH r (reopen toyH cpSt.t) ∧ r.created = [] ∧ r.tempDeleted = [] ∧ r.deleted = [] := by
  decide

/-! ### whole histories under the checkpoint protocol -/

/-- the side conditions of the protocol theorems: the history is accepted by the protocol automaton; 32-byte keys and
    non-empty values; after every prefix the live content fits the encodings and has no two node occurrences with equal
    hash (`NoSharedContent` of Props/C11); at the first Commit after a SaveRoot no node of the content being committed
    collides with a different node of the checkpoint; where a Rollback happens, a checkpoint of total weight 0 is the
    empty trie (Rollback opens the empty trie for weight 0) -/
def ProtocolOK (H : Bytes → Bytes) (ops : List HOp) : Prop :=
  pctlRun ops ≠ none ∧ (∀ op ∈ ops, op.wf) ∧
  (∀ p q, ops = p ++ q → RepOps.PTOK (pspecRun p).1 ∧ Distinct H (pspecRun p).1) ∧
  (∀ p lvl q, ops = p ++ .commit lvl :: q → ∀ c, pctlRun p = some c → c.mode = .armed →
    ∀ x y, PT.Sub x (pspecRun p).1 → PT.Sub y (pspecRun p).2.2 →
      PT.hash H x = PT.hash H y → PT.persist H x = PT.persist H y) ∧
  (∀ p q, ops = p ++ .rollback :: q → (pspecRun p).2.2.weight = 0 → (pspecRun p).2.2 = .none)

/-- the collision clause of `ProtocolOK` follows from: no two different nodes of any two intermediate live contents have
    the same hash -/
theorem protocol_collision_clause (H : Bytes → Bytes) (ops : List HOp)
    (hinj : HashInj H (fun x => ∃ p q, ops = p ++ q ∧ PT.Sub x (pspecRun p).1)) :
    ∀ p lvl q, ops = p ++ .commit lvl :: q → ∀ c, pctlRun p = some c → c.mode = .armed →
      ∀ x y, PT.Sub x (pspecRun p).1 → PT.Sub y (pspecRun p).2.2 →
        PT.hash H x = PT.hash H y → PT.persist H x = PT.persist H y :=
  protocol_hcol_of_global ops hinj

/-- after any accepted history every node of the last committed trie (after a Rollback: of the checkpoint) is in storage -/
theorem C13_protocol_stored (H : Bytes → Bytes) (hlen : ∀ x, (H x).length = 32) (ops : List HOp)
    (h : ProtocolOK H ops) : StoredAll H (hrun H ops).t.store (pspecRun ops).2.1 :=
  protocol_stored hlen ops h.1 h.2.1 h.2.2.1 h.2.2.2.1 h.2.2.2.2

/-- while Rollback is allowed, every node of the checkpoint is in storage -/
theorem C13_protocol_checkpoint_stored (H : Bytes → Bytes) (hlen : ∀ x, (H x).length = 32) (ops : List HOp)
    (h : ProtocolOK H ops) (c : PCtl) (hc : pctlRun ops = some c) (hm : c.mode ≠ .idle) :
    StoredAll H (hrun H ops).t.store (pspecRun ops).2.2 :=
  protocol_checkpoint_stored hlen ops h.1 h.2.1 h.2.2.1 h.2.2.2.1 h.2.2.2.2 c hc hm

/-- an accepted history that ends with a clean root (after a Commit or a Rollback) is recoverable -/
theorem C13_protocol_recoverable (H : Bytes → Bytes) (hlen : ∀ x, (H x).length = 32) (ops : List HOp)
    (h : ProtocolOK H ops) (hd : (hrun H ops).t.root.dirty = false) :
    sameAnswers H (reopen H (hrun H ops).t) (hrun H ops).t :=
  protocol_recoverable hlen ops h.1 h.2.1 h.2.2.1 h.2.2.2.1 h.2.2.2.2 hd

/-- …with the spec's answers -/
theorem C13_protocol_answers_are_spec (H : Bytes → Bytes) (hlen : ∀ x, (H x).length = 32) (ops : List HOp)
    (h : ProtocolOK H ops) (hd : (hrun H ops).t.root.dirty = false) (b : Nat) (hb1 : 1 ≤ b)
    (hb : b ≤ (pspecRun ops).1.weight) :
    ∃ k v key, ownerSpec (pspecRun ops).1.entries b = some (k, v) ∧ RepMore.keybytesToHex key = k ∧ key.length = 32 ∧
      (blockProof H (reopen H (hrun H ops).t) b).2 =
        .ok (key, Cbor.encTrie (((pspecRun ops).1.proofPairs H b).map Cbor.encBase)) ∧
      (blockProof H (hrun H ops).t b).2 =
        .ok (key, Cbor.encTrie (((pspecRun ops).1.proofPairs H b).map Cbor.encBase)) ∧
      verifyPairs H (((pspecRun ops).1.proofPairs H b).map PairD.ok) b = .ok ((rootHash H (hrun H ops).t).2, v) :=
  protocol_answers_are_spec hlen ops h.1 h.2.1 h.2.2.1 h.2.2.2.1 h.2.2.2.2 hd b hb1 hb

/-- MAIN (protocol form of C13): right after ANY accepted Rollback — whatever cycles of SaveRoot / changes / Commit /
    GC / Rollback preceded it — the live content is the content at the last SaveRoot, the root is clean, and the trie
    answers every block like that content (owner key, honest proof bytes, proof verifies to the root) -/
theorem C13_protocol_rollback_restores (H : Bytes → Bytes) (hlen : ∀ x, (H x).length = 32) (p : List HOp)
    (h : ProtocolOK H (p ++ [.rollback])) :
    (pspecRun (p ++ [.rollback])).1 = (pspecRun p).2.2 ∧
    (hrun H (p ++ [.rollback])).t.root.dirty = false ∧
    ∀ b, 1 ≤ b → b ≤ (pspecRun p).2.2.weight →
      ∃ k v key, ownerSpec (pspecRun p).2.2.entries b = some (k, v) ∧ RepMore.keybytesToHex key = k ∧ key.length = 32 ∧
        (blockProof H (hrun H (p ++ [.rollback])).t b).2 =
          .ok (key, Cbor.encTrie (((pspecRun p).2.2.proofPairs H b).map Cbor.encBase)) ∧
        verifyPairs H (((pspecRun p).2.2.proofPairs H b).map PairD.ok) b =
          .ok ((rootHash H (hrun H (p ++ [.rollback])).t).2, v) := by
  obtain ⟨h1, h2, h3⟩ := protocol_rollback_restores hlen p h.1 h.2.1 h.2.2.1 h.2.2.2.1 h.2.2.2.2
  refine ⟨h1, h2, fun b hb1 hb => ?_⟩
  obtain ⟨k, v, key, a1, a2, a3, _, a5, a6⟩ := h3 b hb1 hb
  exact ⟨k, v, key, a1, a2, a3, a5, a6⟩


set_option maxRecDepth 1000000 in
/-- an accepted history with three checkpoint cycles (toy hash, `decide`): cycle 1 is rolled back after commit + one GC
    pass, cycle 2 is accepted (next SaveRoot) with GC passes around it, cycle 3 rolls back uncommitted changes. The
    protocol accepts it, and at the end the trie holds exactly the content of the last checkpoint and is recoverable -/
example :
    let kA : List Nib := List.replicate 64 1
    let kD : List Nib := 2 :: List.replicate 63 4
    let kE : List Nib := 2 :: 5 :: List.replicate 62 4
    let ops : List HOp := [.upd kA [1, 0xee] 2, .upd kD [2, 0xee] 3, .commit (-1),
      .saveRoot, .upd kA [1, 0xee] 2, .upd kD [9] 1, .upd kE [3] 4, .gc, .commit 1, .gc, .rollback,
      .gc, .saveRoot, .del kD, .upd kE [3] 4, .commit 0, .gc, .root, .gc,
      .saveRoot, .upd kA [7] 9, .gc, .rollback, .gc, .gc]
    (pctlRun ops).isSome = true ∧ (hrun toyH ops).t.root.dirty = false ∧ (hrun toyH ops).t.weight = 6 ∧
      (pspecRun ops).1.weight = 6 ∧ (pspecRun ops).1.entries = (pspecRun ops).2.2.entries ∧
      sameAnswers toyH (reopen toyH (hrun toyH ops).t) (hrun toyH ops).t := by
  refine ⟨?_, ?_, ?_, ?_, ?_, ?_⟩ <;> decide

set_option maxRecDepth 1000000 in
/-- the protocol's bound of ONE DeleteNodes pass between the commit and the Rollback is sharp: with a second pass the
    automaton rejects the history, and indeed the rolled-back trie can no longer answer for its checkpoint (the first
    pass staged the checkpoint nodes the commit superseded, the second deleted them) -/
theorem second_gc_pass_breaks_rollback :
    let kA : List Nib := List.replicate 64 1
    let kD : List Nib := 2 :: List.replicate 63 4
    let cp : List HOp := [.upd kA [1, 0xee] 2, .upd kD [2, 0xee] 3, .commit (-1)]
    let ops : List HOp := cp ++ [.saveRoot, .upd kD [9] 1, .commit (-1), .gc, .gc, .rollback]
    let ops1 : List HOp := cp ++ [.saveRoot, .upd kD [9] 1, .commit (-1), .gc, .rollback]
    pctlRun ops = none ∧ (pctlRun ops1).isSome = true ∧
      (hrun toyH ops).t.weight = 5 ∧ (hrun toyH ops1).t.weight = 5 ∧
      sameAnswers toyH (hrun toyH ops1).t (reopen toyH (hrun toyH cp).t) ∧
      Res.isOk (blockProof toyH (hrun toyH ops).t 5).2 = false := by
  refine ⟨?_, ?_, ?_, ?_, ?_, ?_⟩ <;> decide

/-! ### the removal clause in history form -/

/-- what `created` lists after a commit of a dirty root was absent from storage before it: "nodes that ONLY this commit put
    into storage" -/
theorem C13_created_is_fresh (H : Bytes → Bytes) (p : List HOp) (lvl : Int) (hd : (hrun H p).t.root.dirty = true) :
    ∀ k ∈ (hrun H (p ++ [.commit lvl])).t.created, (hrun H p).t.store.get k = none :=
  protocol_created_is_fresh p lvl hd

/-- a commit of a clean root: with pending changes (the commit that emptied the trie, fix 664e48a) the list is reset, without
    (a periodic flush) it is kept -/
theorem C13_created_after_clean_commit (H : Bytes → Bytes) (p : List HOp) (lvl : Int)
    (hd : (hrun H p).t.root.dirty = false) :
    ((hrun H p).t.pending ≠ [] → (hrun H (p ++ [.commit lvl])).t.created = []) ∧
    ((hrun H p).t.pending = [] → (hrun H (p ++ [.commit lvl])).t.created = (hrun H p).t.created) :=
  protocol_created_after_clean_commit p lvl hd

/-- MAIN (removal clause, history form): after ANY accepted Rollback every key the rolled-back commit created is gone from
    storage, the list is empty, none of the removed keys is a node of the checkpoint, the live content is the checkpoint
    content and every node of it is in storage -/
theorem C13_protocol_rollback_removal (H : Bytes → Bytes) (hlen : ∀ x, (H x).length = 32) (p : List HOp)
    (h : ProtocolOK H (p ++ [.rollback])) :
    (∀ k ∈ (hrun H p).t.created, (hrun H (p ++ [.rollback])).t.store.get k = none) ∧
    (hrun H (p ++ [.rollback])).t.created = [] ∧
    (∀ k ∈ (hrun H p).t.created, k ∉ NL H (pspecRun p).2.2) ∧
    (pspecRun (p ++ [.rollback])).1 = (pspecRun p).2.2 ∧
    StoredAll H (hrun H (p ++ [.rollback])).t.store (pspecRun p).2.2 := by
  obtain ⟨a, b, c, d⟩ := protocol_rollback_removal hlen p h.1 h.2.1 h.2.2.1 h.2.2.2.1 h.2.2.2.2
  exact ⟨a, b, protocol_rollback_created_disjoint hlen p h.1 h.2.1 h.2.2.1 h.2.2.2.1 h.2.2.2.2, c, d⟩

end Verif.Props.C13
