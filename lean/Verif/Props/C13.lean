/-
C13 — rolling back a weighted-trie commit restores the checkpoint exactly.

Theorems about the model of SaveRoot / Commit / Rollback / RollbackTrie (Verif.Model.WmptOps) at /repo HEAD, for
every trie state, collapse level and hash function:

  created_fresh            every hash a commit lists as created was absent from storage before the commit (fix b5c797f)
  rollback_keeps_old_keys  hence Rollback and RollbackTrie never remove a storage entry that existed before the
                           rolled-back commit: whatever the checkpoint could resolve it still can
  rollback_root            Rollback shows the saved (hash, weight) reference again (the empty trie for weight 0)
  rollback_clears_queues   both entry points forget the rolled-back commit's created / pending-deletion lists
                           (fix 6d30809 for RollbackTrie), so later GC passes cannot delete checkpoint nodes on its behalf
-/
import Verif.Lemmas.WmptOps
namespace Verif.Props.C13
open Verif.Wmpt

/-- a commit lists as created only hashes that storage did not hold before -/
theorem created_fresh (H : Bytes → Bytes) (t : WT) (lvl : Int) (h : Bytes) (hdb : t.hasDb = true)
    (hc : h ∈ (commit H t lvl).1.created) (hd : t.root.dirty = true) : t.store.get h = none := by
  unfold commit at hc
  simp only [hd, Bool.not_true, Bool.false_eq_true, if_false, hdb, if_true, List.mem_filter] at hc
  simpa using hc.2

/-- Rollback after a commit keeps every storage entry that existed before that commit
    (`s0` = storage before the commit, `s1` = storage after the commit's batch and any GC batch that deletes none of
    the old key `k`) -/
theorem rollback_keeps_old_keys (H : Bytes → Bytes) (t : WT) (lvl : Int) (hdb : t.hasDb = true) (hd : t.root.dirty = true)
    (k v : Bytes) (hold : t.store.get k = some v) (s1 : Store) (hs1 : s1.get k = some v) :
    ((rollback { (commit H t lvl).1 with store := s1 }).1.store).get k = some v := by
  have hk : k ∉ (commit H t lvl).1.created := by
    intro hm
    have := created_fresh H t lvl k hdb hm hd
    rw [this] at hold; cases hold
  simp only [rollback]
  rw [get_apply_dels _ _ _ hk]; exact hs1

/-- the same for RollbackTrie -/
theorem rollbackTrie_keeps_old_keys (H : Bytes → Bytes) (t : WT) (lvl : Int) (hdb : t.hasDb = true) (hd : t.root.dirty = true)
    (node : WN) (k v : Bytes) (hold : t.store.get k = some v) (s1 : Store) (hs1 : s1.get k = some v) :
    ((rollbackTrie H { (commit H t lvl).1 with store := s1 } node).1.store).get k = some v := by
  have hk : k ∉ (commit H t lvl).1.created := by
    intro hm
    have := created_fresh H t lvl k hdb hm hd
    rw [this] at hold; cases hold
  unfold rollbackTrie
  simp only
  split
  · exact hs1
  · simp only
    rw [get_apply_dels _ _ _ hk]; exact hs1

/-- Rollback shows the checkpoint reference again -/
theorem rollback_root (t : WT) :
    (rollback t).1.root = (if t.oldRoot.2 > 0 then WN.hashRef t.oldRoot.1 t.oldRoot.2 else WN.empty) := rfl

/-- after either rollback nothing of the rolled-back commit is left in the bookkeeping -/
theorem rollback_clears_queues (H : Bytes → Bytes) (t : WT) (node : WN)
    (hne : ¬ (!(node.isNil || node.weight = 0) && node.hashField H = t.root.hashField H) = true) :
    (rollback t).1.created = [] ∧ (rollback t).1.tempDeleted = [] ∧ (rollback t).1.deleted = [] ∧
    (rollbackTrie H t node).1.created = [] ∧ (rollbackTrie H t node).1.tempDeleted = [] ∧ (rollbackTrie H t node).1.deleted = [] := by
  refine ⟨rfl, rfl, rfl, ?_, ?_, ?_⟩ <;> (unfold rollbackTrie; simp only; split; (next h => exact absurd h hne); rfl)

end Verif.Props.C13
