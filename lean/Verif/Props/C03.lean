/-
C03 — Child tries are isolated transactions; merge publishes; discard leaves no trace.

Model: `Verif.Model.MptStore`.  A child is `Trie.open p.root p.tree p.version` (fresh level store and collector, the
parent's root and content); its operations are `Trie.insert` / `Trie.delete`; merging is `mergeMPTChangesOrd` (Go
replays the child's changes in map order: the order is a parameter); discarding is dropping the value.

FRAME (operations on a child change neither the parent nor a sibling; `PropagateDeletes = false`) holds by
construction in this value model: `Trie.insert H c p b` does not mention the parent.  What makes it a claim about the
code is the correspondence run, which after every child operation, merge and discard re-reads the parent's and every
other open trie's root, iteration, pending change/delete hash sets (recomputing the hash of every pending node) and
level-store key sets through fresh probe tries, and `Gen/AppendFacts` (no `append` onto a node's slice field).

Proved here: the tree a trie operation produces is the tree of the structural trie of C01/C02 (so a child's view is
the parent's content with the child's own operations applied); the merge guards (`merge_noop`, `merge_stale`: a stale
child is rejected whatever the replay order, the parent value is not touched; `merge_fresh`: an up-to-date child is
accepted and the parent takes over the child's root and content); a merge is a sequence of `insertNode`/`deleteNode`
events on the parent (`merge_is_events`), so the collector algebra and `C04_complete_partial` cover rounds with merges.

NOT proved: that after an accepted merge the parent's root resolves in the parent's layered store (`MergeResolves`).
Before fix 8b1f6ed it was false of the code for some replay orders (corpus/C03/fixed_merge_order.ops); `mergeChanges`
now replays the changes in the order computed by `orderChanges`, which the model contains literally.
-/
import Verif.Lemmas.MptStoreEvents
import Verif.Lemmas.MptStoreTrie
import Verif.Gen.AppendFacts
namespace Verif.Props.C03
open Verif.Mpt Verif.MptStore

/-- A trie's content after `Insert` is the structural trie's `insert` of its content (C01 applies to it). -/
theorem trie_insert_tree (H : Bytes → Bytes) (t : Trie) (p : List Nib) (b : Bytes) :
    (t.insert H p b).1.tree = Verif.Mpt.insert t.version b t.tree p ∧
    (t.insert H p b).1.root = root H (Verif.Mpt.insert t.version b t.tree p) := by
  simp [Verif.MptStore.Trie.insert, insertE_fst]

/-- A trie's content after `Delete` is the structural trie's `Trie.delete` of its content; a failed delete changes
    nothing at all (root, content, store, pending changes). -/
theorem trie_delete_tree (H : Bytes → Bytes) (t : Trie) (p : List Nib) :
    ((t.delete H p).1.tree, (t.delete H p).2.1) = Verif.Mpt.Trie.delete t.version t.tree p ∧
    ((t.delete H p).2.1 ≠ .ok → (t.delete H p).1 = t) := by
  have h := deleteE_fst t.version t.tree [] p
  simp only [Verif.MptStore.Trie.delete, Verif.Mpt.Trie.delete]
  cases hE : deleteE t.version t.tree [] p with
  | mk r es =>
    rw [hE] at h
    simp only at h
    rw [← h]
    cases r <;> simp

/-- **No append onto a node's slice**: in the regenerated table of every `append(` of merkle_patricia_trie.go and
    mpt_node.go (go/extract) no site grows a slice that is a field of a node or an alias of one, and every site is
    classified.  This is the syntactic side of FRAME: the defect fixed by 736e702 (`append(nodeImpl.Path, …)` writing
    into a buffer shared with a node pending in the parent's collector) makes this obligation fail. -/
theorem no_node_field_append : Verif.Gen.AppendFacts.noNodeFieldAppend = true := by decide

/-- the events a merge replays on the parent -/
def mergeEvents (changes : List (Change Ref)) (deletes : List Ref) : List Event :=
  changes.map (fun c => Event.put c.old c.new) ++ deletes.map Event.del

/-- Merging a child whose root equals the parent's is a no-op. -/
theorem merge_noop (H : Bytes → Bytes) (p c : Trie) (changes : List (Change Ref)) (h : p.root = c.root) :
    mergeMPTChangesOrd H p c changes = .ok p := by
  simp [mergeMPTChangesOrd, h]

/-- **A stale child is rejected**, whatever order its changes would be replayed in; the result carries no new parent
    state (the parent value is untouched). -/
theorem merge_stale (H : Bytes → Bytes) (p c : Trie) (changes : List (Change Ref))
    (hmoved : p.root ≠ c.cc.startRoot) (hne : p.root ≠ c.root) :
    mergeMPTChangesOrd H p c changes = .stale := by
  simp [mergeMPTChangesOrd, mergeChanges, hne, hmoved]

/-- **An up-to-date child is accepted**: the parent takes over the child's root and content, and its store and
    collector are the parent's after the events `mergeEvents (orderChanges changes) deletes` (the child's changes in
    the replay order chosen by `orderChanges`, then its deletes). -/
theorem merge_fresh (H : Bytes → Bytes) (p c : Trie) (changes : List (Change Ref))
    (hfresh : p.root = c.cc.startRoot) (hne : p.root ≠ c.root) :
    ∃ p', mergeMPTChangesOrd H p c changes = .ok p' ∧ p'.root = c.root ∧ p'.tree = c.tree ∧ p'.version = p.version ∧
      p'.cc = (p.applyEvents H (mergeEvents (orderChanges H changes) c.cc.getDeletes)).cc ∧
      p'.db = (p.applyEvents H (mergeEvents (orderChanges H changes) c.cc.getDeletes)).db := by
  have hfold : ∀ (cs : List (Change Ref)) (q : Trie),
      cs.foldl (fun t c => t.insertNode H c.old c.new) q = q.applyEvents H (cs.map (fun c => Event.put c.old c.new)) := by
    intro cs
    induction cs with
    | nil => intro q; rfl
    | cons c cs ih => intro q; simp [Trie.applyEvents, Trie.applyEvent] at ih ⊢; exact ih _
  have hfold2 : ∀ (ds : List Ref) (q : Trie),
      ds.foldl (Trie.deleteNode H) q = q.applyEvents H (ds.map Event.del) := by
    intro ds
    induction ds with
    | nil => intro q; rfl
    | cons d ds ih => intro q; simp [Trie.applyEvents, Trie.applyEvent] at ih ⊢; exact ih _
  have happ : ∀ (a b : List Event) (q : Trie), q.applyEvents H (a ++ b) = (q.applyEvents H a).applyEvents H b := by
    intro a b q; simp [Trie.applyEvents, List.foldl_append]
  have hver : ∀ (es : List Event) (q : Trie), (q.applyEvents H es).version = q.version := by
    intro es
    induction es with
    | nil => intro q; rfl
    | cons e es ih =>
      intro q
      have : q.applyEvents H (e :: es) = (q.applyEvent H e).applyEvents H es := rfl
      rw [this, ih]
      cases e with
      | del o => rfl
      | put o n =>
        cases o with
        | none => rfl
        | some o => simp only [Trie.applyEvent, Trie.insertNode]; split <;> rfl
  have hne2 : ¬ p.root = c.root := hne
  have hst : ¬ p.root ≠ c.cc.startRoot := by simp [hfresh]
  refine ⟨{ (c.cc.getDeletes.foldl (Trie.deleteNode H) ((orderChanges H changes).foldl (fun t c => t.insertNode H c.old c.new) p)) with
            root := c.root, tree := c.tree }, ?_, rfl, rfl, ?_, ?_, ?_⟩
  · simp only [mergeMPTChangesOrd, mergeChanges, if_neg hne2, if_neg hst]
  · simp only [hfold, hfold2, hver]
  · simp only [hfold, hfold2, mergeEvents, happ]
  · simp only [hfold, hfold2, mergeEvents, happ]

/-- non-vacuity of `merge_stale` / `merge_fresh`: a child that inserted a key, against a parent that stayed / moved -/
example :
    let p := Trie.open [] .empty 1
    let c := ((Trie.open p.root p.tree p.version).insert id [1, 2] [65]).1
    let p2 := (p.insert id [3, 4] [66]).1
    (∃ p', mergeMPTChangesOrd id p c c.cc.getChanges = .ok p' ∧ p'.root = c.root) ∧
    mergeMPTChangesOrd id p2 c c.cc.getChanges = .stale := by
  intro p c p2
  constructor
  · obtain ⟨p', h1, h2, _⟩ := merge_fresh id p c c.cc.getChanges (by simp [p, c, Trie.open, Verif.MptStore.Trie.insert, Trie.applyEvents, insertE, Trie.applyEvent, Trie.insertNode, Collector.addChange])
      (by simp [p, c, Trie.open, Verif.MptStore.Trie.insert, Verif.Mpt.root, key, insertE])
    exact ⟨p', h1, h2⟩
  · apply merge_stale
    · simp [p2, p, c, Trie.open, Verif.MptStore.Trie.insert, Trie.applyEvents, insertE, Trie.applyEvent, Trie.insertNode, Collector.addChange, Verif.Mpt.root, key]
    · simp [p2, p, c, Trie.open, Verif.MptStore.Trie.insert, Verif.Mpt.root, key, insertE, le64]

/-- The full publication statement: after an accepted merge of a child whose own view resolved, the parent's new root
    resolves in the parent's layered store (`get` = read-through of the parent's level and everything below it).
    NOT proved.  (Without `orderChanges` it is false: corpus/C03/fixed_merge_order.ops, the parent's store lost a live
    node when a re-creation was replayed before the replacement of the same key.) -/
def MergeResolves : Prop :=
  ∀ (H : Bytes → Bytes) (below : Bytes → Option Bytes) (p c p' : Trie) (changes : List (Change Ref)),
    changes.Perm c.cc.getChanges →
    Resolves H (fun k => (Map.get c.db.current k).orElse fun _ => (Map.get p.db.current k).orElse fun _ => below k) c.tree [] →
    mergeMPTChangesOrd H p c changes = .ok p' →
    Resolves H (fun k => (Map.get p'.db.current k).orElse fun _ => below k) p'.tree []

end Verif.Props.C03
