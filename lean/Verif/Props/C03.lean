/-
C03 — Child tries are isolated transactions; merge publishes; discard leaves no trace.

Model: `Verif.Model.MptStore`.  A child is `Trie.open p.root p.tree p.version` (fresh level store and collector, the
parent's root and content); its operations are `Trie.insert` / `Trie.delete`; merging is `mergeMPTChangesOrd` (Go
replays the child's changes in map order: the order is a parameter); discarding is dropping the value.

FRAME (operations on a child change neither the parent nor a sibling; `PropagateDeletes = false`) holds by
construction in this value model: `Trie.insert H c p b` does not mention the parent.  What makes it a claim about the
code is the correspondence run, which after every child operation, merge and discard re-reads the parent's and every
other open trie's root, iteration, pending change/delete hash sets (recomputing the hash of every pending node) and
level-store key sets through fresh probe tries, and `Gen/AppendFacts` (no `append` onto a node's slice field).

Proved here: the tree a trie operation produces is the tree of the structural trie of C01/C02 (so a child's view is
the parent's content with the child's own operations applied); the merge guards (`merge_noop`, `merge_stale`: a stale
child is rejected whatever the replay order, the parent value is not touched; `merge_fresh`: an up-to-date child is
accepted and the parent takes over the child's root and content); a merge is a sequence of `insertNode`/`deleteNode`
events on the parent (`merge_is_events`), so the collector algebra and `C04_complete_partial` cover rounds with merges.

Publication into the store: `view_resolves` (a trie's own view resolves in its layered store, closed form) and
`merge_resolves_partial` (after an accepted merge the parent's root resolves in the parent's layered store, under the
event discipline of the parent's event list); the unconditional statement is the `def MergeResolves`.
Before fix 8b1f6ed it was false of the code for some replay orders (corpus/C03/fixed_merge_order.ops); `mergeChanges`
now replays the changes in the order computed by `orderChanges`, which the model contains literally.
-/
import Verif.Lemmas.MptStoreEvents
import Verif.Lemmas.MptStoreTrie
import Verif.Gen.AppendFacts
import Verif.Lemmas.LevelStore
import Verif.Lemmas.MptRound
import Verif.Lemmas.MergeRound
import Verif.Lemmas.TrieRun
import Verif.Lemmas.NotStuck
import Verif.Lemmas.Interp
import Verif.Lemmas.OrderChanges
namespace Verif.Props.C03
open Verif.Mpt Verif.MptStore Verif.MptStore.Collector

/-- A trie's content after `Insert` is the structural trie's `insert` of its content (C01 applies to it). -/
theorem trie_insert_tree (H : Bytes → Bytes) (t : Trie) (p : List Nib) (b : Bytes) :
    (t.insert H p b).1.tree = Verif.Mpt.insert t.version b t.tree p ∧
    (t.insert H p b).1.root = root H (Verif.Mpt.insert t.version b t.tree p) := by
  simp [Verif.MptStore.Trie.insert, insertE_fst]

/-- A trie's content after `Delete` is the structural trie's `Trie.delete` of its content; a failed delete changes
    nothing at all (root, content, store, pending changes). -/
theorem trie_delete_tree (H : Bytes → Bytes) (t : Trie) (p : List Nib) :
    ((t.delete H p).1.tree, (t.delete H p).2.1) = Verif.Mpt.Trie.delete t.version t.tree p ∧
    ((t.delete H p).2.1 ≠ .ok → (t.delete H p).1 = t) := by
  have h := deleteE_fst t.version t.tree [] p
  simp only [Verif.MptStore.Trie.delete, Verif.Mpt.Trie.delete]
  cases hE : deleteE t.version t.tree [] p with
  | mk r es =>
    rw [hE] at h
    simp only at h
    rw [← h]
    cases r <;> simp

/-- **No append onto a node's slice**: in the regenerated table of every `append(` of merkle_patricia_trie.go and
    mpt_node.go (go/extract) no site grows a slice that is a field of a node or an alias of one, and every site is
    classified.  This is the syntactic side of FRAME: the defect fixed by 736e702 (`append(nodeImpl.Path, …)` writing
    into a buffer shared with a node pending in the parent's collector) makes this obligation fail. -/
theorem no_node_field_append : Verif.Gen.AppendFacts.noNodeFieldAppend = true := by decide

/-- Merging a child whose root equals the parent's is a no-op. -/
theorem merge_noop (H : Bytes → Bytes) (p c : Trie) (changes : List (Change Ref)) (h : p.root = c.root) :
    mergeMPTChangesOrd H p c changes = .ok p := by
  simp [mergeMPTChangesOrd, h]

/-- **A stale child is rejected**, whatever order its changes would be replayed in; the result carries no new parent
    state (the parent value is untouched). -/
theorem merge_stale (H : Bytes → Bytes) (p c : Trie) (changes : List (Change Ref))
    (hmoved : p.root ≠ c.cc.startRoot) (hne : p.root ≠ c.root) :
    mergeMPTChangesOrd H p c changes = .stale := by
  simp [mergeMPTChangesOrd, mergeChanges, hne, hmoved]

/-- **An up-to-date child is accepted**: the parent takes over the child's root and content, and its store and
    collector are the parent's after the events `mergeEvents (orderChanges changes) deletes` (the child's changes in
    the replay order chosen by `orderChanges`, then its deletes). -/
theorem merge_fresh (H : Bytes → Bytes) (p c : Trie) (changes : List (Change Ref))
    (hfresh : p.root = c.cc.startRoot) (hne : p.root ≠ c.root) :
    ∃ p', mergeMPTChangesOrd H p c changes = .ok p' ∧ p'.root = c.root ∧ p'.tree = c.tree ∧ p'.version = p.version ∧
      p'.cc = (p.applyEvents H (mergeEvents (orderChanges H changes) c.cc.getDeletes)).cc ∧
      p'.db = (p.applyEvents H (mergeEvents (orderChanges H changes) c.cc.getDeletes)).db := by
  have hfold : ∀ (cs : List (Change Ref)) (q : Trie),
      cs.foldl (fun t c => t.insertNode H c.old c.new) q = q.applyEvents H (cs.map (fun c => Event.put c.old c.new)) := by
    intro cs
    induction cs with
    | nil => intro q; rfl
    | cons c cs ih => intro q; simp [Trie.applyEvents, Trie.applyEvent] at ih ⊢; exact ih _
  have hfold2 : ∀ (ds : List Ref) (q : Trie),
      ds.foldl (Trie.deleteNode H) q = q.applyEvents H (ds.map Event.del) := by
    intro ds
    induction ds with
    | nil => intro q; rfl
    | cons d ds ih => intro q; simp [Trie.applyEvents, Trie.applyEvent] at ih ⊢; exact ih _
  have happ : ∀ (a b : List Event) (q : Trie), q.applyEvents H (a ++ b) = (q.applyEvents H a).applyEvents H b := by
    intro a b q; simp [Trie.applyEvents, List.foldl_append]
  have hver : ∀ (es : List Event) (q : Trie), (q.applyEvents H es).version = q.version := by
    intro es
    induction es with
    | nil => intro q; rfl
    | cons e es ih =>
      intro q
      have : q.applyEvents H (e :: es) = (q.applyEvent H e).applyEvents H es := rfl
      rw [this, ih]
      cases e with
      | del o => rfl
      | put o n =>
        cases o with
        | none => rfl
        | some o => simp only [Trie.applyEvent, Trie.insertNode]; split <;> rfl
  have hne2 : ¬ p.root = c.root := hne
  have hst : ¬ p.root ≠ c.cc.startRoot := by simp [hfresh]
  refine ⟨{ (c.cc.getDeletes.foldl (Trie.deleteNode H) ((orderChanges H changes).foldl (fun t c => t.insertNode H c.old c.new) p)) with
            root := c.root, tree := c.tree }, ?_, rfl, rfl, ?_, ?_, ?_⟩
  · simp only [mergeMPTChangesOrd, mergeChanges, if_neg hne2, if_neg hst]
  · simp only [hfold, hfold2, hver]
  · simp only [hfold, hfold2, mergeEvents, happ]
  · simp only [hfold, hfold2, mergeEvents, happ]

/-- non-vacuity of `merge_stale` / `merge_fresh`: a child that inserted a key, against a parent that stayed / moved -/
example :
    let p := Trie.open [] .empty 1
    let c := ((Trie.open p.root p.tree p.version).insert id [1, 2] [65]).1
    let p2 := (p.insert id [3, 4] [66]).1
    (∃ p', mergeMPTChangesOrd id p c c.cc.getChanges = .ok p' ∧ p'.root = c.root) ∧
    mergeMPTChangesOrd id p2 c c.cc.getChanges = .stale := by
  intro p c p2
  constructor
  · obtain ⟨p', h1, h2, _⟩ := merge_fresh id p c c.cc.getChanges (by simp [p, c, Trie.open, Verif.MptStore.Trie.insert, Trie.applyEvents, insertE, Trie.applyEvent, Trie.insertNode, Collector.addChange])
      (by simp [p, c, Trie.open, Verif.MptStore.Trie.insert, Verif.Mpt.root, key, insertE])
    exact ⟨p', h1, h2⟩
  · apply merge_stale
    · simp [p2, p, c, Trie.open, Verif.MptStore.Trie.insert, Trie.applyEvents, insertE, Trie.applyEvent, Trie.insertNode, Collector.addChange, Verif.Mpt.root, key]
    · simp [p2, p, c, Trie.open, Verif.MptStore.Trie.insert, Verif.Mpt.root, key, insertE, le64]

/-- **A trie's view resolves in its layered store** (closed form for a sequence of own inserts/deletes): a trie opened
    with an empty level over stores `below` in which its start tree resolves, after any round of its own operations,
    reads its current tree completely through (own level, then `below`).  The event discipline is proved
    (Lemmas/EventDisc, EventKeys); assumed: canonical start tree and key injectivity on the references involved. -/
theorem view_resolves (H : Bytes → Bytes) (below : Bytes → Option Bytes) (t0 t : Node) (b0 : Trie) (v : Nat) (es : List Event)
    (hfresh : b0.cc.changes = [] ∧ b0.cc.deletes = []) (hcur : b0.db.current = [])
    (h0 : Resolves H below t0 []) (hw : WF t0) (hr : RoundEvents v t0 es t)
    (hU : KeyInjOn H (fun r => r ∈ refs t0 [] ∨ r ∈ eventRefs es)) :
    Resolves H (levelGet (b0.applyEvents H es) below) t [] := by
  obtain ⟨hd, hc, _⟩ := round_discipline H hr hw hU
  obtain ⟨_, hcr, _⟩ := round_ok hr hw (fun r => r ∈ refs t0 []) (fun _ h => h)
  have hsub : ∀ r ∈ refs t [], r ∈ refs t0 [] ∨ r ∈ eventRefs es := fun r h => liveRunR_sub es _ r (hcr r h)
  apply level_resolves_partial H below t0 t b0 es hfresh hcur h0 hd hc
  intro a b ha hb hk
  have haU : a ∈ refs t0 [] ∨ a ∈ eventRefs es := by
    rcases ha with ha | ha | ha
    · exact Or.inl ha
    · exact hsub a ha
    · exact Or.inr ha
  have hbU : b ∈ refs t0 [] ∨ b ∈ eventRefs es := by
    rcases hb with hb | hb | hb
    · exact Or.inl hb
    · exact hsub b hb
    · exact Or.inr hb
  rw [hU a b haU hbU hk]

/-- **Merge publishes into the parent's store** (partial: under the event discipline for the parent's whole event
    list).  The parent `p0.applyEvents esP` (opened with an empty level over `below`, where its start tree `t0`
    resolves) accepts the up-to-date child `c`; if the parent's events so far followed by the merge's events
    `mergeEvents (orderChanges changes) deletes` obey the discipline w.r.t. `t0` and cover the child's tree, then the
    parent's new root resolves in the parent's layered store (own level, then `below`). -/
theorem merge_resolves_partial (H : Bytes → Bytes) (below : Bytes → Option Bytes) (t0 : Node) (p0 c : Trie)
    (esP : List Event) (changes : List (Change Ref))
    (hfresh : p0.cc.changes = [] ∧ p0.cc.deletes = []) (hcur : p0.db.current = [])
    (h0 : Resolves H below t0 [])
    (hup : (p0.applyEvents H esP).root = c.cc.startRoot) (hne : (p0.applyEvents H esP).root ≠ c.root)
    (hdisc : Disc (Ref.key H) (fun x => x ∈ (refs t0 []).map (Ref.key H))
      (callsOf H (esP ++ mergeEvents (orderChanges H changes) c.cc.getDeletes)))
    (hcov : ∀ r ∈ refs c.tree [], Collector.liveRun (Ref.key H) (fun x => x ∈ (refs t0 []).map (Ref.key H))
      (callsOf H (esP ++ mergeEvents (orderChanges H changes) c.cc.getDeletes)) (r.key H))
    (hf : Faithful H (fun r => r ∈ refs t0 [] ∨ r ∈ refs c.tree [] ∨
      r ∈ eventRefs (esP ++ mergeEvents (orderChanges H changes) c.cc.getDeletes))) :
    ∃ p', mergeMPTChangesOrd H (p0.applyEvents H esP) c changes = .ok p' ∧
      Resolves H (levelGet p' below) p'.tree [] := by
  obtain ⟨p', hm, _, htree, _, _, hdb⟩ := merge_fresh H (p0.applyEvents H esP) c changes hup hne
  refine ⟨p', hm, ?_⟩
  have happ : (p0.applyEvents H esP).applyEvents H (mergeEvents (orderChanges H changes) c.cc.getDeletes)
      = p0.applyEvents H (esP ++ mergeEvents (orderChanges H changes) c.cc.getDeletes) := by
    simp [Trie.applyEvents, List.foldl_append]
  have hlevel : levelGet p' below = levelGet (p0.applyEvents H (esP ++ mergeEvents (orderChanges H changes) c.cc.getDeletes)) below := by
    funext k
    simp only [levelGet, hdb, happ]
  rw [hlevel, htree]
  exact level_resolves_partial H below t0 c.tree p0 _ hfresh hcur h0 hdisc hcov hf

/-- **Merge publishes into the parent's store — one merged transaction** (closed form of `MergeResolves` for a parent
    that executed own operations `esP` and accepts a child that executed own operations `esC` on the parent's tree):
    the parent's new root resolves in the parent's layered store.  Proved discipline for own operations and for the
    replay, and that `orderChanges` is never stuck; assumed: canonical resolvable start tree, key injectivity. -/
theorem merge_resolves_one_child (H : Bytes → Bytes) (below : Bytes → Option Bytes) (t0 t1 t2 : Node) (p0 c0 : Trie)
    (v : Nat) (esP esC : List Event)
    (hfresh : p0.cc.changes = [] ∧ p0.cc.deletes = []) (hcur : p0.db.current = [])
    (hfreshC : c0.cc.changes = [] ∧ c0.cc.deletes = [])
    (h0 : Resolves H below t0 []) (hw : WF t0)
    (hP : RoundEvents v t0 esP t1) (hC : RoundEvents v t1 esC t2)
    (hctree : (c0.applyEvents H esC).tree = t2)
    (hup : (p0.applyEvents H esP).root = (c0.applyEvents H esC).cc.startRoot)
    (hne : (p0.applyEvents H esP).root ≠ (c0.applyEvents H esC).root)
    (hU : KeyInjOn H (fun r => r ∈ refs t0 [] ∨ r ∈ eventRefs esP ∨ r ∈ eventRefs esC)) :
    ∃ p', mergeMPTChanges H (p0.applyEvents H esP) (c0.applyEvents H esC) = .ok p' ∧
      Resolves H (levelGet p' below) p'.tree [] := by
  obtain ⟨_, hcrP0, hw10⟩ := round_ok hP hw (fun r => r ∈ refs t0 []) (fun _ h => h)
  have hstuck : orderStuck H (c0.applyEvents H esC).cc.getChanges = false := by
    have hrunC : TrieRun H (fun r => r ∈ refs t0 [] ∨ r ∈ eventRefs esP ∨ r ∈ eventRefs esC) (fun _ => True) t1 (esC ++ []) t2 :=
      TrieRun.own v t1 t2 t2 esC [] trivial hC (fun r hr => Or.inr (Or.inr hr)) (TrieRun.nil _)
    have hUt1 : ∀ r ∈ refs t1 [], r ∈ refs t0 [] ∨ r ∈ eventRefs esP ∨ r ∈ eventRefs esC := by
      intro r hr
      rcases liveRunR_sub esP _ r (hcrP0 r hr) with h | h
      · exact Or.inl h
      · exact Or.inr (Or.inl h)
    have := trieRun_not_stuck H _ hU hrunC hw10 hUt1 c0 hfreshC (c0.applyEvents H esC).cc.getChanges
      (by simp)
    exact this
  have hgood := orderChanges_good H _ hstuck
  obtain ⟨hd, hc, hsubE⟩ := one_merge_discipline H hP hC hw c0 hfreshC _ (orderChanges_perm H _) hgood hU
  obtain ⟨_, hcrP, hw1⟩ := round_ok hP hw (fun r => r ∈ refs t0 []) (fun _ h => h)
  obtain ⟨_, hcrC, _⟩ := round_ok hC hw1 (fun r => r ∈ refs t1 []) (fun _ h => h)
  -- `mergeChanges` orders the changes itself; ordering an ordered list again is what the model does
  have hin : ∀ r, (r ∈ refs t0 [] ∨ r ∈ refs t2 [] ∨ r ∈ eventRefs (esP ++ mergeEvents (orderChanges H
      (c0.applyEvents H esC).cc.getChanges) (c0.applyEvents H esC).cc.getDeletes)) →
      (r ∈ refs t0 [] ∨ r ∈ eventRefs esP ∨ r ∈ eventRefs esC) := by
    intro r hr
    rcases hr with hr | hr | hr
    · exact Or.inl hr
    · rcases liveRunR_sub esC _ r (hcrC r hr) with h | h
      · rcases liveRunR_sub esP _ r (hcrP r h) with h | h
        · exact Or.inl h
        · exact Or.inr (Or.inl h)
      · exact Or.inr (Or.inr h)
    · exact Or.inr (hsubE r hr)
  have := merge_resolves_partial H below t0 p0 (c0.applyEvents H esC) esP (c0.applyEvents H esC).cc.getChanges
    hfresh hcur h0 hup hne (by rw [hctree] at *; exact hd) (by rw [hctree]; exact hc)
    (by rw [hctree]; intro a b ha hb hk; rw [hU a b (hin a ha) (hin b hb) hk])
  simpa [mergeMPTChanges] using this

/-- **Publication into the layered store — any run of a trie** (own operations and merges of children in any number and
    order, children themselves with nested merged children: `TrieRun`): after the run the trie's tree resolves in its
    layered store (own level, then `below`).  Since an accepted merge leaves the parent with exactly the store and
    collector of `p.applyEvents (mergeEvents (orderChanges changes) deletes)` (`merge_fresh`), this is `MergeResolves` for
    every parent state reachable by such runs.  Discipline proved; assumed: canonical resolvable start tree, key
    injectivity on the run's references, `orderChanges` never stuck (part of `TrieRun`). -/
theorem run_resolves (H : Bytes → Bytes) (U : Ref → Prop) (Vok : Nat → Prop) (below : Bytes → Option Bytes) (t0 t : Node)
    (p0 : Trie) (es : List Event)
    (hfresh : p0.cc.changes = [] ∧ p0.cc.deletes = []) (hcur : p0.db.current = [])
    (h0 : Resolves H below t0 []) (hw : WF t0) (hUt : ∀ r ∈ refs t0 [], U r)
    (hrun : TrieRun H U Vok t0 es t) (hU : KeyInjOn H U) :
    Resolves H (levelGet (p0.applyEvents H es) below) t [] := by
  obtain ⟨hd, hc, _, hE, hUt'⟩ := trieRun_discipline H U hU hrun hw hUt (fun x => x ∈ (refs t0 []).map (Ref.key H))
    (fun r hr => List.mem_map.mpr ⟨r, hr, rfl⟩)
    (by intro x hx; obtain ⟨r, hr, hk⟩ := List.mem_map.mp hx; exact ⟨r, hUt r hr, hk⟩)
  apply level_resolves_partial H below t0 t p0 es hfresh hcur h0 hd hc
  intro a b ha hb hk
  have hin : ∀ r, (r ∈ refs t0 [] ∨ r ∈ refs t [] ∨ r ∈ eventRefs es) → U r := by
    intro r hr
    rcases hr with hr | hr | hr
    · exact hUt r hr
    · exact hUt' r hr
    · exact hE r hr
  rw [hU a b (hin a ha) (hin b hb) hk]

/-- **Publication into the layered store — every history of the interpreter** (`Forest.step`): after ANY op list from a
    freshly opened block trie (empty level over stores `below` where its start tree resolves) the block trie's tree —
    whatever merges, nested merges, discards and version changes happened — resolves in its layered store.  This is
    `MergeResolves` for every reachable parent state of the block trie.  Side conditions as in `C04_complete_interp`. -/
theorem resolves_interp (H : Bytes → Bytes) (ord : List (Change Ref) → List (Change Ref)) (hord : ∀ l, (ord l).Perm l)
    (U : Ref → Prop) (Vok : Nat → Prop) (hU : KeyInjOn H U) (hne : ∀ x, H x ≠ []) (below : Bytes → Option Bytes)
    (t0 : Node) (v : Nat) (hw : WF t0) (hu : ∀ r ∈ refs t0 [], U r) (h0 : Resolves H below t0 []) (ops : List TOp)
    (hin : RunIn H ord U Vok { tries := [(0, 0, Trie.open (root H t0) t0 v)] } ops) (pid : Nat) (b : Trie)
    (hb : (Forest.run H ord { tries := [(0, 0, Trie.open (root H t0) t0 v)] } ops).find 0 = some (pid, b)) :
    Resolves H (levelGet b below) b.tree [] := by
  obtain ⟨es, v0, _, h2, hrun, _⟩ := block_is_trieRun H ord hord U Vok hU hne t0 v hw hu ops hin pid b hb
  have := run_resolves H U Vok below t0 b.tree (Trie.open (root H t0) t0 v0) es ⟨rfl, rfl⟩ rfl h0 hw hu hrun hU
  have hl : levelGet b below = levelGet ((Trie.open (root H t0) t0 v0).applyEvents H es) below := by
    funext k; simp only [levelGet, h2]
  rw [hl]; exact this

/-- non-vacuity of `run_resolves`: a trie that merges one child which inserted a key reads the leaf from its own level -/
example : ∃ es, TrieRun id (fun r => r = ⟨[], .leaf 1 [3] [65]⟩) (fun v => v = 1) .empty es (.leaf 1 [3] [65]) ∧
    Resolves id (levelGet ((Trie.open [] .empty 1).applyEvents id es) (fun _ => none)) (.leaf 1 [3] [65]) [] := by
  have hC : RoundEvents 1 .empty ((insertE 1 [65] .empty [] [3]).2 ++ []) (.leaf 1 [3] [65]) := by
    apply RoundEvents.ins _ _ _ _ _ (by simp)
    have h1 : (insertE 1 [65] .empty [] [3]).1 = .leaf 1 [3] [65] := by simp [insertE]
    rw [h1]; exact RoundEvents.nil _
  have hchild : TrieRun id (fun r => r = ⟨[], .leaf 1 [3] [65]⟩) (fun v => v = 1) .empty
      (((insertE 1 [65] .empty [] [3]).2 ++ []) ++ []) (.leaf 1 [3] [65]) :=
    TrieRun.own 1 _ _ _ _ _ rfl hC (by intro r hr; simpa [insertE, eventRefs] using hr) (TrieRun.nil _)
  have hrun := TrieRun.merge (H := id) (U := fun r => r = ⟨[], .leaf 1 [3] [65]⟩) (Vok := fun v => v = 1) .empty (.leaf 1 [3] [65])
    (.leaf 1 [3] [65]) (Trie.open [] .empty 1) _ [] _ ⟨rfl, rfl⟩ hchild (List.Perm.refl _) (by decide) (TrieRun.nil _)
  refine ⟨_, hrun, ?_⟩
  apply run_resolves id _ _ (fun _ => none) .empty _ (Trie.open [] .empty 1) _ ⟨rfl, rfl⟩ rfl (by intro r h; simp [refs] at h)
    (Or.inl rfl) (by intro r h; simp [refs] at h) hrun
  intro a b ha hb _
  rw [ha, hb]

/-- non-vacuity of `merge_resolves_one_child` (and of `merge_resolves_partial`, `view_resolves` through it): the parent
    did nothing itself, one child inserted a key; after the merge the parent reads the leaf from its own level -/
example : ∃ p', mergeMPTChanges id ((Trie.open [] .empty 1).applyEvents id [])
      (({ root := root id (.leaf 1 [3] [65]), tree := .leaf 1 [3] [65], version := 1, cc := { startRoot := [] } } : Trie).applyEvents id
        ((insertE 1 [65] .empty [] [3]).2 ++ [])) = .ok p' ∧
    Resolves id (levelGet p' (fun _ => none)) p'.tree [] := by
  have hC : RoundEvents 1 .empty ((insertE 1 [65] .empty [] [3]).2 ++ []) (.leaf 1 [3] [65]) := by
    apply RoundEvents.ins _ _ _ _ _ (by simp)
    have h1 : (insertE 1 [65] .empty [] [3]).1 = .leaf 1 [3] [65] := by simp [insertE]
    rw [h1]; exact RoundEvents.nil _
  apply merge_resolves_one_child id (fun _ => none) .empty .empty (.leaf 1 [3] [65]) (Trie.open [] .empty 1) _ 1
    [] _ ⟨rfl, rfl⟩ rfl ⟨rfl, rfl⟩ (by intro r h; simp [refs] at h) (Or.inl rfl) (RoundEvents.nil _) hC
  · simp [Trie.applyEvents, insertE, Trie.applyEvent, Trie.insertNode]
  · simp [Trie.applyEvents, insertE, Trie.applyEvent, Trie.insertNode, Trie.open, Collector.addChange]
  · simp [Trie.applyEvents, insertE, Trie.applyEvent, Trie.insertNode, Trie.open, root, key]
  · intro a b ha hb _
    simp [refs, insertE, eventRefs] at ha hb
    rw [ha, hb]

/-- **The ordering of `mergeChanges` is never stuck**: on any permutation of the pending changes of a trie that ran a
    `TrieRun` (own rounds and merges of children, nested) from a canonical tree with a fresh collector, the Kahn passes
    of `orderChanges` always make progress — a pending change that records a predecessor is never blocked, because
    replacements happen in place, recorded predecessors are nodes of the start tree (pairwise different positions) and a
    predecessor never has the key of its own entry.  Hence `orderChanges` yields a `GoodOrder` (`orderChanges_good`). -/
theorem order_never_stuck (H : Bytes → Bytes) (U : Ref → Prop) (hU : KeyInjOn H U) (Vok : Nat → Prop) (t t' : Node)
    (es : List Event) (hrun : TrieRun H U Vok t es t') (hw : WF t) (hUt : ∀ r ∈ refs t [], U r)
    (c0 : Trie) (hfresh : c0.cc.changes = [] ∧ c0.cc.deletes = []) (cs : List (Change Ref))
    (hperm : cs.Perm (c0.applyEvents H es).cc.getChanges) :
    orderStuck H cs = false ∧ GoodOrder (Ref.key H) (orderChanges H cs) := by
  have h := trieRun_not_stuck H U hU hrun hw hUt c0 hfresh cs hperm
  exact ⟨h, orderChanges_good H cs h⟩

/-- The full publication statement: after an accepted merge of a child whose own view resolved, the parent's new root
    resolves in the parent's layered store (`get` = read-through of the parent's level and everything below it).
    Proved as `merge_resolves_partial` under the event discipline of the parent's whole event list (own operations and
    merge replays); the discipline itself is proved for a trie's own operations (`view_resolves`), not yet for the
    replay of a child's collector.  (Without `orderChanges` it is false: corpus/C03/fixed_merge_order.ops, the parent's
    store lost a live node when a re-creation was replayed before the replacement of the same key.) -/
def MergeResolves : Prop :=
  ∀ (H : Bytes → Bytes) (below : Bytes → Option Bytes) (p c p' : Trie) (changes : List (Change Ref)),
    changes.Perm c.cc.getChanges →
    Resolves H (fun k => (Map.get c.db.current k).orElse fun _ => (Map.get p.db.current k).orElse fun _ => below k) c.tree [] →
    mergeMPTChangesOrd H p c changes = .ok p' →
    Resolves H (fun k => (Map.get p'.db.current k).orElse fun _ => below k) p'.tree []

end Verif.Props.C03
