/-
C03 — Child tries are isolated transactions; merge publishes; discard leaves no trace.

Model: `Verif.Model.MptStore`.  A child is `Trie.open p.root p.tree p.version` (fresh level store and collector, the
parent's root and content); its operations are `Trie.insert` / `Trie.delete`; merging is `mergeMPTChangesOrd` (Go
replays the child's changes in map order: the order is a parameter); discarding is dropping the value.

FRAME (operations on a child change neither the parent nor a sibling; `PropagateDeletes = false`) holds by
construction in this value model: `Trie.insert H c p b` does not mention the parent.  What makes it a claim about the
code is the correspondence run, which after every child operation, merge and discard re-reads the parent's and every
other open trie's root, iteration, pending change/delete hash sets (recomputing the hash of every pending node) and
level-store key sets through fresh probe tries, and `Gen/AppendFacts` (no `append` onto a node's slice field).

Proved here: the tree a trie operation produces is the tree of the structural trie of C01/C02 (so a child's view is
the parent's content with the child's own operations applied); the merge guards (`merge_noop`, `merge_stale`: a stale
child is rejected whatever the replay order, the parent value is not touched; `merge_fresh`: an up-to-date child is
accepted and the parent takes over the child's root and content); a merge is a sequence of `insertNode`/`deleteNode`
events on the parent (`merge_is_events`), so the collector algebra and `C04_complete_partial` cover rounds with merges.

Publication into the store: `view_resolves` (a trie's own view resolves in its layered store, closed form) and
`merge_resolves_partial` / `merge_resolves_one_child` / `run_resolves` / `resolves_interp` (after accepted merges - any
number, nested - the parent's root resolves in the parent's layered store; the discipline is proved, `order_never_stuck`);
store-READING operations and their refinement to the value model (`storeOps_refine`, `child_ops_read_through`), and the
frame statements over the interpreter (`C03_isolation`, `C03_discard`, `C03_stale_rejected`, `C03_merge_publishes`).
`def MergeResolves` is the statement without the side conditions (`KeyInjOn`, canonical start tree), kept as a def.
Before fix 8b1f6ed it was false of the code for some replay orders (corpus/C03/fixed_merge_order.ops); `mergeChanges`
now replays the changes in the order computed by `orderChanges`, which the model contains literally.
-/
import Verif.Lemmas.MptStoreEvents
import Verif.Lemmas.MptStoreTrie
import Verif.Gen.AppendFacts
import Verif.Lemmas.LevelStore
import Verif.Lemmas.MptRound
import Verif.Lemmas.MergeRound
import Verif.Lemmas.TrieRun
import Verif.Lemmas.NotStuck
import Verif.Lemmas.Interp
import Verif.Lemmas.OrderChanges
import Verif.Lemmas.StoreRead
import Verif.Lemmas.Frame
namespace Verif.Props.C03
open Verif.Mpt Verif.MptStore Verif.MptStore.Collector

/-- A trie's content after `Insert` is the structural trie's `insert` of its content (C01 applies to it). -/
theorem trie_insert_tree (H : Bytes → Bytes) (t : Trie) (p : List Nib) (b : Bytes) :
    (t.insert H p b).1.tree = Verif.Mpt.insert t.version b t.tree p ∧
    (t.insert H p b).1.root = root H (Verif.Mpt.insert t.version b t.tree p) := by
  simp [Verif.MptStore.Trie.insert, insertE_fst]

/-- A trie's content after `Delete` is the structural trie's `Trie.delete` of its content; a failed delete changes
    nothing at all (root, content, store, pending changes). -/
theorem trie_delete_tree (H : Bytes → Bytes) (t : Trie) (p : List Nib) :
    ((t.delete H p).1.tree, (t.delete H p).2.1) = Verif.Mpt.Trie.delete t.version t.tree p ∧
    ((t.delete H p).2.1 ≠ .ok → (t.delete H p).1 = t) := by
  have h := deleteE_fst t.version t.tree [] p
  simp only [Verif.MptStore.Trie.delete, Verif.Mpt.Trie.delete]
  cases hE : deleteE t.version t.tree [] p with
  | mk r es =>
    rw [hE] at h
    simp only at h
    rw [← h]
    cases r <;> simp

/-- **No append onto a node's slice**: in the regenerated table of every `append(` of merkle_patricia_trie.go and
    mpt_node.go (go/extract) no site grows a slice that is a field of a node or an alias of one, and every site is
    classified.  This is the syntactic side of FRAME: the defect fixed by 736e702 (`append(nodeImpl.Path, …)` writing
    into a buffer shared with a node pending in the parent's collector) makes this obligation fail. -/
theorem no_node_field_append : Verif.Gen.AppendFacts.noNodeFieldAppend = true := by decide

/-- Merging a child whose root equals the parent's is a no-op. -/
theorem merge_noop (H : Bytes → Bytes) (p c : Trie) (changes : List (Change Ref)) (h : p.root = c.root) :
    mergeMPTChangesOrd H p c changes = .ok p := by
  simp [mergeMPTChangesOrd, h]

/-- **A stale child is rejected**, whatever order its changes would be replayed in; the result carries no new parent
    state (the parent value is untouched). -/
theorem merge_stale (H : Bytes → Bytes) (p c : Trie) (changes : List (Change Ref))
    (hmoved : p.root ≠ c.cc.startRoot) (hne : p.root ≠ c.root) :
    mergeMPTChangesOrd H p c changes = .stale := by
  simp [mergeMPTChangesOrd, mergeChanges, hne, hmoved]

/-- **An up-to-date child is accepted**: the parent takes over the child's root and content, and its store and
    collector are the parent's after the events `mergeEvents (orderChanges changes) deletes` (the child's changes in
    the replay order chosen by `orderChanges`, then its deletes). -/
theorem merge_fresh (H : Bytes → Bytes) (p c : Trie) (changes : List (Change Ref))
    (hfresh : p.root = c.cc.startRoot) (hne : p.root ≠ c.root) :
    ∃ p', mergeMPTChangesOrd H p c changes = .ok p' ∧ p'.root = c.root ∧ p'.tree = c.tree ∧ p'.version = p.version ∧
      p'.cc = (p.applyEvents H (mergeEvents (orderChanges H changes) c.cc.getDeletes)).cc ∧
      p'.db = (p.applyEvents H (mergeEvents (orderChanges H changes) c.cc.getDeletes)).db := by
  have hfold : ∀ (cs : List (Change Ref)) (q : Trie),
      cs.foldl (fun t c => t.insertNode H c.old c.new) q = q.applyEvents H (cs.map (fun c => Event.put c.old c.new)) := by
    intro cs
    induction cs with
    | nil => intro q; rfl
    | cons c cs ih => intro q; simp [Trie.applyEvents, Trie.applyEvent] at ih ⊢; exact ih _
  have hfold2 : ∀ (ds : List Ref) (q : Trie),
      ds.foldl (Trie.deleteNode H) q = q.applyEvents H (ds.map Event.del) := by
    intro ds
    induction ds with
    | nil => intro q; rfl
    | cons d ds ih => intro q; simp [Trie.applyEvents, Trie.applyEvent] at ih ⊢; exact ih _
  have happ : ∀ (a b : List Event) (q : Trie), q.applyEvents H (a ++ b) = (q.applyEvents H a).applyEvents H b := by
    intro a b q; simp [Trie.applyEvents, List.foldl_append]
  have hver : ∀ (es : List Event) (q : Trie), (q.applyEvents H es).version = q.version := by
    intro es
    induction es with
    | nil => intro q; rfl
    | cons e es ih =>
      intro q
      have : q.applyEvents H (e :: es) = (q.applyEvent H e).applyEvents H es := rfl
      rw [this, ih]
      cases e with
      | del o => rfl
      | put o n =>
        cases o with
        | none => rfl
        | some o => simp only [Trie.applyEvent, Trie.insertNode]; split <;> rfl
  have hne2 : ¬ p.root = c.root := hne
  have hst : ¬ p.root ≠ c.cc.startRoot := by simp [hfresh]
  refine ⟨{ (c.cc.getDeletes.foldl (Trie.deleteNode H) ((orderChanges H changes).foldl (fun t c => t.insertNode H c.old c.new) p)) with
            root := c.root, tree := c.tree }, ?_, rfl, rfl, ?_, ?_, ?_⟩
  · simp only [mergeMPTChangesOrd, mergeChanges, if_neg hne2, if_neg hst]
  · simp only [hfold, hfold2, hver]
  · simp only [hfold, hfold2, mergeEvents, happ]
  · simp only [hfold, hfold2, mergeEvents, happ]

/-- non-vacuity of `merge_stale` / `merge_fresh`: a child that inserted a key, against a parent that stayed / moved -/
example :
    let p := Trie.open [] .empty 1
    let c := ((Trie.open p.root p.tree p.version).insert id [1, 2] [65]).1
    let p2 := (p.insert id [3, 4] [66]).1
    (∃ p', mergeMPTChangesOrd id p c c.cc.getChanges = .ok p' ∧ p'.root = c.root) ∧
    mergeMPTChangesOrd id p2 c c.cc.getChanges = .stale := by
  intro p c p2
  constructor
  · obtain ⟨p', h1, h2, _⟩ := merge_fresh id p c c.cc.getChanges (by simp [p, c, Trie.open, Verif.MptStore.Trie.insert, Trie.applyEvents, insertE, Trie.applyEvent, Trie.insertNode, Collector.addChange])
      (by simp [p, c, Trie.open, Verif.MptStore.Trie.insert, Verif.Mpt.root, key, insertE])
    exact ⟨p', h1, h2⟩
  · apply merge_stale
    · simp [p2, p, c, Trie.open, Verif.MptStore.Trie.insert, Trie.applyEvents, insertE, Trie.applyEvent, Trie.insertNode, Collector.addChange, Verif.Mpt.root, key]
    · simp [p2, p, c, Trie.open, Verif.MptStore.Trie.insert, Verif.Mpt.root, key, insertE, le64]

/-- **A trie's view resolves in its layered store** (closed form for a sequence of own inserts/deletes): a trie opened
    with an empty level over stores `below` in which its start tree resolves, after any round of its own operations,
    reads its current tree completely through (own level, then `below`).  The event discipline is proved
    (Lemmas/EventDisc, EventKeys); assumed: canonical start tree and key injectivity on the references involved. -/
theorem view_resolves (H : Bytes → Bytes) (below : Bytes → Option Bytes) (t0 t : Node) (b0 : Trie) (v : Nat) (es : List Event)
    (hfresh : b0.cc.changes = [] ∧ b0.cc.deletes = []) (hcur : b0.db.current = [])
    (h0 : Resolves H below t0 []) (hw : WF t0) (hr : RoundEvents v t0 es t)
    (hU : KeyInjOn H (fun r => r ∈ refs t0 [] ∨ r ∈ eventRefs es)) :
    Resolves H (levelGet (b0.applyEvents H es) below) t [] := by
  obtain ⟨hd, hc, _⟩ := round_discipline H hr hw hU
  obtain ⟨_, hcr, _⟩ := round_ok hr hw (fun r => r ∈ refs t0 []) (fun _ h => h)
  have hsub : ∀ r ∈ refs t [], r ∈ refs t0 [] ∨ r ∈ eventRefs es := fun r h => liveRunR_sub es _ r (hcr r h)
  apply level_resolves_partial H below t0 t b0 es hfresh hcur h0 hd hc
  intro a b ha hb hk
  have haU : a ∈ refs t0 [] ∨ a ∈ eventRefs es := by
    rcases ha with ha | ha | ha
    · exact Or.inl ha
    · exact hsub a ha
    · exact Or.inr ha
  have hbU : b ∈ refs t0 [] ∨ b ∈ eventRefs es := by
    rcases hb with hb | hb | hb
    · exact Or.inl hb
    · exact hsub b hb
    · exact Or.inr hb
  rw [hU a b haU hbU hk]

/-- **Merge publishes into the parent's store** (partial: under the event discipline for the parent's whole event
    list).  The parent `p0.applyEvents esP` (opened with an empty level over `below`, where its start tree `t0`
    resolves) accepts the up-to-date child `c`; if the parent's events so far followed by the merge's events
    `mergeEvents (orderChanges changes) deletes` obey the discipline w.r.t. `t0` and cover the child's tree, then the
    parent's new root resolves in the parent's layered store (own level, then `below`). -/
theorem merge_resolves_partial (H : Bytes → Bytes) (below : Bytes → Option Bytes) (t0 : Node) (p0 c : Trie)
    (esP : List Event) (changes : List (Change Ref))
    (hfresh : p0.cc.changes = [] ∧ p0.cc.deletes = []) (hcur : p0.db.current = [])
    (h0 : Resolves H below t0 [])
    (hup : (p0.applyEvents H esP).root = c.cc.startRoot) (hne : (p0.applyEvents H esP).root ≠ c.root)
    (hdisc : Disc (Ref.key H) (fun x => x ∈ (refs t0 []).map (Ref.key H))
      (callsOf H (esP ++ mergeEvents (orderChanges H changes) c.cc.getDeletes)))
    (hcov : ∀ r ∈ refs c.tree [], Collector.liveRun (Ref.key H) (fun x => x ∈ (refs t0 []).map (Ref.key H))
      (callsOf H (esP ++ mergeEvents (orderChanges H changes) c.cc.getDeletes)) (r.key H))
    (hf : Faithful H (fun r => r ∈ refs t0 [] ∨ r ∈ refs c.tree [] ∨
      r ∈ eventRefs (esP ++ mergeEvents (orderChanges H changes) c.cc.getDeletes))) :
    ∃ p', mergeMPTChangesOrd H (p0.applyEvents H esP) c changes = .ok p' ∧
      Resolves H (levelGet p' below) p'.tree [] := by
  obtain ⟨p', hm, _, htree, _, _, hdb⟩ := merge_fresh H (p0.applyEvents H esP) c changes hup hne
  refine ⟨p', hm, ?_⟩
  have happ : (p0.applyEvents H esP).applyEvents H (mergeEvents (orderChanges H changes) c.cc.getDeletes)
      = p0.applyEvents H (esP ++ mergeEvents (orderChanges H changes) c.cc.getDeletes) := by
    simp [Trie.applyEvents, List.foldl_append]
  have hlevel : levelGet p' below = levelGet (p0.applyEvents H (esP ++ mergeEvents (orderChanges H changes) c.cc.getDeletes)) below := by
    funext k
    simp only [levelGet, hdb, happ]
  rw [hlevel, htree]
  exact level_resolves_partial H below t0 c.tree p0 _ hfresh hcur h0 hdisc hcov hf

/-- **Merge publishes into the parent's store — one merged transaction** (closed form of `MergeResolves` for a parent
    that executed own operations `esP` and accepts a child that executed own operations `esC` on the parent's tree):
    the parent's new root resolves in the parent's layered store.  Proved discipline for own operations and for the
    replay, and that `orderChanges` is never stuck; assumed: canonical resolvable start tree, key injectivity. -/
theorem merge_resolves_one_child (H : Bytes → Bytes) (below : Bytes → Option Bytes) (t0 t1 t2 : Node) (p0 c0 : Trie)
    (v : Nat) (esP esC : List Event)
    (hfresh : p0.cc.changes = [] ∧ p0.cc.deletes = []) (hcur : p0.db.current = [])
    (hfreshC : c0.cc.changes = [] ∧ c0.cc.deletes = [])
    (h0 : Resolves H below t0 []) (hw : WF t0)
    (hP : RoundEvents v t0 esP t1) (hC : RoundEvents v t1 esC t2)
    (hctree : (c0.applyEvents H esC).tree = t2)
    (hup : (p0.applyEvents H esP).root = (c0.applyEvents H esC).cc.startRoot)
    (hne : (p0.applyEvents H esP).root ≠ (c0.applyEvents H esC).root)
    (hU : KeyInjOn H (fun r => r ∈ refs t0 [] ∨ r ∈ eventRefs esP ∨ r ∈ eventRefs esC)) :
    ∃ p', mergeMPTChanges H (p0.applyEvents H esP) (c0.applyEvents H esC) = .ok p' ∧
      Resolves H (levelGet p' below) p'.tree [] := by
  obtain ⟨_, hcrP0, hw10⟩ := round_ok hP hw (fun r => r ∈ refs t0 []) (fun _ h => h)
  have hstuck : orderStuck H (c0.applyEvents H esC).cc.getChanges = false := by
    have hrunC : TrieRun H (fun r => r ∈ refs t0 [] ∨ r ∈ eventRefs esP ∨ r ∈ eventRefs esC) (fun _ => True) t1 (esC ++ []) t2 :=
      TrieRun.own v t1 t2 t2 esC [] trivial hC (fun r hr => Or.inr (Or.inr hr)) (TrieRun.nil _)
    have hUt1 : ∀ r ∈ refs t1 [], r ∈ refs t0 [] ∨ r ∈ eventRefs esP ∨ r ∈ eventRefs esC := by
      intro r hr
      rcases liveRunR_sub esP _ r (hcrP0 r hr) with h | h
      · exact Or.inl h
      · exact Or.inr (Or.inl h)
    have := trieRun_not_stuck H _ hU hrunC hw10 hUt1 c0 hfreshC (c0.applyEvents H esC).cc.getChanges
      (by simp)
    exact this
  have hgood := orderChanges_good H _ hstuck
  obtain ⟨hd, hc, hsubE⟩ := one_merge_discipline H hP hC hw c0 hfreshC _ (orderChanges_perm H _) hgood hU
  obtain ⟨_, hcrP, hw1⟩ := round_ok hP hw (fun r => r ∈ refs t0 []) (fun _ h => h)
  obtain ⟨_, hcrC, _⟩ := round_ok hC hw1 (fun r => r ∈ refs t1 []) (fun _ h => h)
  -- `mergeChanges` orders the changes itself; ordering an ordered list again is what the model does
  have hin : ∀ r, (r ∈ refs t0 [] ∨ r ∈ refs t2 [] ∨ r ∈ eventRefs (esP ++ mergeEvents (orderChanges H
      (c0.applyEvents H esC).cc.getChanges) (c0.applyEvents H esC).cc.getDeletes)) →
      (r ∈ refs t0 [] ∨ r ∈ eventRefs esP ∨ r ∈ eventRefs esC) := by
    intro r hr
    rcases hr with hr | hr | hr
    · exact Or.inl hr
    · rcases liveRunR_sub esC _ r (hcrC r hr) with h | h
      · rcases liveRunR_sub esP _ r (hcrP r h) with h | h
        · exact Or.inl h
        · exact Or.inr (Or.inl h)
      · exact Or.inr (Or.inr h)
    · exact Or.inr (hsubE r hr)
  have := merge_resolves_partial H below t0 p0 (c0.applyEvents H esC) esP (c0.applyEvents H esC).cc.getChanges
    hfresh hcur h0 hup hne (by rw [hctree] at *; exact hd) (by rw [hctree]; exact hc)
    (by rw [hctree]; intro a b ha hb hk; rw [hU a b (hin a ha) (hin b hb) hk])
  simpa [mergeMPTChanges] using this

/-- **Publication into the layered store — any run of a trie** (own operations and merges of children in any number and
    order, children themselves with nested merged children: `TrieRun`): after the run the trie's tree resolves in its
    layered store (own level, then `below`).  Since an accepted merge leaves the parent with exactly the store and
    collector of `p.applyEvents (mergeEvents (orderChanges changes) deletes)` (`merge_fresh`), this is `MergeResolves` for
    every parent state reachable by such runs.  Discipline proved; assumed: canonical resolvable start tree, key
    injectivity on the run's references, `orderChanges` never stuck (part of `TrieRun`). -/
theorem run_resolves (H : Bytes → Bytes) (U : Ref → Prop) (Vok : Nat → Prop) (below : Bytes → Option Bytes) (t0 t : Node)
    (p0 : Trie) (es : List Event)
    (hfresh : p0.cc.changes = [] ∧ p0.cc.deletes = []) (hcur : p0.db.current = [])
    (h0 : Resolves H below t0 []) (hw : WF t0) (hUt : ∀ r ∈ refs t0 [], U r)
    (hrun : TrieRun H U Vok t0 es t) (hU : KeyInjOn H U) :
    Resolves H (levelGet (p0.applyEvents H es) below) t [] := by
  obtain ⟨hd, hc, _, hE, hUt'⟩ := trieRun_discipline H U hU hrun hw hUt (fun x => x ∈ (refs t0 []).map (Ref.key H))
    (fun r hr => List.mem_map.mpr ⟨r, hr, rfl⟩)
    (by intro x hx; obtain ⟨r, hr, hk⟩ := List.mem_map.mp hx; exact ⟨r, hUt r hr, hk⟩)
  apply level_resolves_partial H below t0 t p0 es hfresh hcur h0 hd hc
  intro a b ha hb hk
  have hin : ∀ r, (r ∈ refs t0 [] ∨ r ∈ refs t [] ∨ r ∈ eventRefs es) → U r := by
    intro r hr
    rcases hr with hr | hr | hr
    · exact hUt r hr
    · exact hUt' r hr
    · exact hE r hr
  rw [hU a b (hin a ha) (hin b hb) hk]

/-- **Publication into the layered store — every history of the interpreter** (`Forest.step`): after ANY op list from a
    freshly opened block trie (empty level over stores `below` where its start tree resolves) the block trie's tree —
    whatever merges, nested merges, discards and version changes happened — resolves in its layered store.  This is
    `MergeResolves` for every reachable parent state of the block trie.  Side conditions as in `C04_complete_interp`. -/
theorem resolves_interp (H : Bytes → Bytes) (ord : List (Change Ref) → List (Change Ref)) (hord : ∀ l, (ord l).Perm l)
    (U : Ref → Prop) (Vok : Nat → Prop) (hU : KeyInjOn H U) (hne : ∀ x, H x ≠ []) (below : Bytes → Option Bytes)
    (t0 : Node) (v : Nat) (hw : WF t0) (hu : ∀ r ∈ refs t0 [], U r) (h0 : Resolves H below t0 []) (ops : List TOp)
    (hin : RunIn H ord U Vok { tries := [(0, 0, Trie.open (root H t0) t0 v)] } ops) (pid : Nat) (b : Trie)
    (hb : (Forest.run H ord { tries := [(0, 0, Trie.open (root H t0) t0 v)] } ops).find 0 = some (pid, b)) :
    Resolves H (levelGet b below) b.tree [] := by
  obtain ⟨es, v0, _, h2, hrun, _⟩ := block_is_trieRun H ord hord U Vok hU hne t0 v hw hu ops hin pid b hb
  have := run_resolves H U Vok below t0 b.tree (Trie.open (root H t0) t0 v0) es ⟨rfl, rfl⟩ rfl h0 hw hu hrun hU
  have hl : levelGet b below = levelGet ((Trie.open (root H t0) t0 v0).applyEvents H es) below := by
    funext k; simp only [levelGet, h2]
  rw [hl]; exact this

/-- non-vacuity of `run_resolves`: a trie that merges one child which inserted a key reads the leaf from its own level -/
example : ∃ es, TrieRun id (fun r => r = ⟨[], .leaf 1 [3] [65]⟩) (fun v => v = 1) .empty es (.leaf 1 [3] [65]) ∧
    Resolves id (levelGet ((Trie.open [] .empty 1).applyEvents id es) (fun _ => none)) (.leaf 1 [3] [65]) [] := by
  have hC : RoundEvents 1 .empty ((insertE 1 [65] .empty [] [3]).2 ++ []) (.leaf 1 [3] [65]) := by
    apply RoundEvents.ins _ _ _ _ _ (by simp)
    have h1 : (insertE 1 [65] .empty [] [3]).1 = .leaf 1 [3] [65] := by simp [insertE]
    rw [h1]; exact RoundEvents.nil _
  have hchild : TrieRun id (fun r => r = ⟨[], .leaf 1 [3] [65]⟩) (fun v => v = 1) .empty
      (((insertE 1 [65] .empty [] [3]).2 ++ []) ++ []) (.leaf 1 [3] [65]) :=
    TrieRun.own 1 _ _ _ _ _ rfl hC (by intro r hr; simpa [insertE, eventRefs] using hr) (TrieRun.nil _)
  have hrun := TrieRun.merge (H := id) (U := fun r => r = ⟨[], .leaf 1 [3] [65]⟩) (Vok := fun v => v = 1) .empty (.leaf 1 [3] [65])
    (.leaf 1 [3] [65]) (Trie.open [] .empty 1) _ [] _ ⟨rfl, rfl⟩ hchild (List.Perm.refl _) (by decide) (TrieRun.nil _)
  refine ⟨_, hrun, ?_⟩
  apply run_resolves id _ _ (fun _ => none) .empty _ (Trie.open [] .empty 1) _ ⟨rfl, rfl⟩ rfl (by intro r h; simp [refs] at h)
    (Or.inl rfl) (by intro r h; simp [refs] at h) hrun
  intro a b ha hb _
  rw [ha, hb]

/-- non-vacuity of `merge_resolves_one_child` (and of `merge_resolves_partial`, `view_resolves` through it): the parent
    did nothing itself, one child inserted a key; after the merge the parent reads the leaf from its own level -/
example : ∃ p', mergeMPTChanges id ((Trie.open [] .empty 1).applyEvents id [])
      (({ root := root id (.leaf 1 [3] [65]), tree := .leaf 1 [3] [65], version := 1, cc := { startRoot := [] } } : Trie).applyEvents id
        ((insertE 1 [65] .empty [] [3]).2 ++ [])) = .ok p' ∧
    Resolves id (levelGet p' (fun _ => none)) p'.tree [] := by
  have hC : RoundEvents 1 .empty ((insertE 1 [65] .empty [] [3]).2 ++ []) (.leaf 1 [3] [65]) := by
    apply RoundEvents.ins _ _ _ _ _ (by simp)
    have h1 : (insertE 1 [65] .empty [] [3]).1 = .leaf 1 [3] [65] := by simp [insertE]
    rw [h1]; exact RoundEvents.nil _
  apply merge_resolves_one_child id (fun _ => none) .empty .empty (.leaf 1 [3] [65]) (Trie.open [] .empty 1) _ 1
    [] _ ⟨rfl, rfl⟩ rfl ⟨rfl, rfl⟩ (by intro r h; simp [refs] at h) (Or.inl rfl) (RoundEvents.nil _) hC
  · simp [Trie.applyEvents, insertE, Trie.applyEvent, Trie.insertNode]
  · simp [Trie.applyEvents, insertE, Trie.applyEvent, Trie.insertNode, Trie.open, Collector.addChange]
  · simp [Trie.applyEvents, insertE, Trie.applyEvent, Trie.insertNode, Trie.open, root, key]
  · intro a b ha hb _
    simp [refs, insertE, eventRefs] at ha hb
    rw [ha, hb]

/-- **The ordering of `mergeChanges` is never stuck**: on any permutation of the pending changes of a trie that ran a
    `TrieRun` (own rounds and merges of children, nested) from a canonical tree with a fresh collector, the Kahn passes
    of `orderChanges` always make progress — a pending change that records a predecessor is never blocked, because
    replacements happen in place, recorded predecessors are nodes of the start tree (pairwise different positions) and a
    predecessor never has the key of its own entry.  Hence `orderChanges` yields a `GoodOrder` (`orderChanges_good`). -/
theorem order_never_stuck (H : Bytes → Bytes) (U : Ref → Prop) (hU : KeyInjOn H U) (Vok : Nat → Prop) (t t' : Node)
    (es : List Event) (hrun : TrieRun H U Vok t es t') (hw : WF t) (hUt : ∀ r ∈ refs t [], U r)
    (c0 : Trie) (hfresh : c0.cc.changes = [] ∧ c0.cc.deletes = []) (cs : List (Change Ref))
    (hperm : cs.Perm (c0.applyEvents H es).cc.getChanges) :
    orderStuck H cs = false ∧ GoodOrder (Ref.key H) (orderChanges H cs) := by
  have h := trieRun_not_stuck H U hU hrun hw hUt c0 hfresh cs hperm
  exact ⟨h, orderChanges_good H cs h⟩

/-- The publication statement WITHOUT side conditions: after an accepted merge of a child whose own view resolved, the
    parent's new root resolves in the parent's layered store.  It is proved with the side conditions "canonical start
    tree, key injectivity on the references of the run": `merge_resolves_one_child` (one child), `run_resolves` (any run
    with nested merges), `resolves_interp` (every history of the interpreter); the discipline of the replay of a child's
    collector is proved (`merge_calls_ok`, `trieRun_discipline`) and the replay order is never stuck (`order_never_stuck`).
    (Without `orderChanges` it is false: corpus/C03/fixed_merge_order.ops.)  Kept as a `def`: without `KeyInjOn` it is not
    provable (hash collisions). -/
def MergeResolves : Prop :=
  ∀ (H : Bytes → Bytes) (below : Bytes → Option Bytes) (p c p' : Trie) (changes : List (Change Ref)),
    changes.Perm c.cc.getChanges →
    Resolves H (fun k => (Map.get c.db.current k).orElse fun _ => (Map.get p.db.current k).orElse fun _ => below k) c.tree [] →
    mergeMPTChangesOrd H p c changes = .ok p' →
    Resolves H (fun k => (Map.get p'.db.current k).orElse fun _ => below k) p'.tree []

/-! ### store-READING operations (Model/MptStoreRead): the layered store is actually read

`insertS`/`deleteS`/`lookupS` take a store and a root KEY, resolve every node of the tree under that key through `get` and
then operate; `Resolves` - the conclusion of `view_resolves`, `merge_resolves_*`, `run_resolves`, `resolves_interp` - is the
premise under which they agree with the value-level operations.  `dec` reads a node's fields and child keys back from its
stored encoding (the codec of C14; assumed on the nodes of the tree).  The loader reads the whole tree (Go: the path only),
so `nodeNotFound` here over-approximates Go's: a node of the tree that `get` does not deliver always fails the operation. -/

/-- **Refinement.**  When the tree `t` resolves in the store read through `get`, the store-reading `Insert`, `Delete` and
    lookup on (store, root key of `t`) return exactly the value-level result, with the same events. -/
theorem storeOps_refine (H : Bytes → Bytes) (dec : Bytes → Option Shape) (get : Bytes → Option Bytes) (t : Node) (fuel : Nat)
    (hdec : ∀ r ∈ refs t [], dec (r.encode H) = shapeOf H r.t r.pos)
    (hres : Resolves H get t []) (hf : height t ≤ fuel) (v : Nat) (b : Bytes) (p : List Nib) :
    insertS (shapesOf dec get) fuel v b (okey H t []) p = .ok (insertE v b t [] p) ∧
    deleteS (shapesOf dec get) fuel v (okey H t []) p = .ok (deleteE v t [] p) ∧
    lookupS (shapesOf dec get) fuel (okey H t []) p = .ok (lookup t p) := by
  have hl := loadS_resolves H (shapesOf dec get) t [] fuel hf (resolvesS_of_resolves H dec get t [] hdec hres)
  simp [insertS, deleteS, lookupS, hl]

/-- **A node that the store does not deliver is an error.**  If every node of `t` is either stored correctly or absent and
    at least one is absent, all three operations return `nodeNotFound` (and hence no tree, no events). -/
theorem storeOps_nodeNotFound (H : Bytes → Bytes) (getS : Bytes → Option Shape) (t : Node) (fuel : Nat)
    (hall : ∀ r ∈ refs t [], getS (r.key H) = shapeOf H r.t r.pos ∨ getS (r.key H) = none)
    (hmiss : ∃ r ∈ refs t [], getS (r.key H) = none) (v : Nat) (b : Bytes) (p : List Nib) :
    insertS getS fuel v b (okey H t []) p = .nodeNotFound ∧
    deleteS getS fuel v (okey H t []) p = .nodeNotFound ∧
    lookupS getS fuel (okey H t []) p = .nodeNotFound := by
  have hl := loadS_missing H getS t [] fuel hall hmiss
  simp [insertS, deleteS, lookupS, hl]

/-- **A child reads through the levels.**  A trie opened with an empty level over stores `below` in which its start tree
    resolves, after any round of its own operations: its next operation, executed by READING its layered store (own
    level, then `below`) from its root key, is the value-level operation.  `view_resolves` is the premise that is used. -/
theorem child_ops_read_through (H : Bytes → Bytes) (dec : Bytes → Option Shape) (below : Bytes → Option Bytes)
    (t0 t : Node) (b0 : Trie) (v : Nat) (es : List Event)
    (hfresh : b0.cc.changes = [] ∧ b0.cc.deletes = []) (hcur : b0.db.current = [])
    (h0 : Resolves H below t0 []) (hw : WF t0) (hr : RoundEvents v t0 es t)
    (hU : KeyInjOn H (fun r => r ∈ refs t0 [] ∨ r ∈ eventRefs es))
    (hdec : ∀ r ∈ refs t [], dec (r.encode H) = shapeOf H r.t r.pos) (fuel : Nat) (hf : height t ≤ fuel)
    (b : Bytes) (p : List Nib) :
    insertS (shapesOf dec (levelGet (b0.applyEvents H es) below)) fuel v b (okey H t []) p = .ok (insertE v b t [] p) ∧
    deleteS (shapesOf dec (levelGet (b0.applyEvents H es) below)) fuel v (okey H t []) p = .ok (deleteE v t [] p) ∧
    lookupS (shapesOf dec (levelGet (b0.applyEvents H es) below)) fuel (okey H t []) p = .ok (lookup t p) :=
  storeOps_refine H dec _ t fuel hdec (view_resolves H below t0 t b0 v es hfresh hcur h0 hw hr hU) hf v b p

/-- non-vacuity of `storeOps_refine` / `storeOps_nodeNotFound`: the one-leaf tree in a store that holds it / is empty -/
example : lookupS (shapesOf (fun _ => some (.leaf 1 [3] [65])) (fun k => if k = Ref.key id ⟨[], .leaf 1 [3] [65]⟩ then some (Ref.encode id ⟨[], .leaf 1 [3] [65]⟩) else none))
      1 (okey id (.leaf 1 [3] [65]) []) [3] = .ok (some [65]) ∧
    lookupS (fun _ => none) 1 (okey id (.leaf 1 [3] [65]) []) [3] = .nodeNotFound := by
  constructor
  · have h := (storeOps_refine id (fun _ => some (.leaf 1 [3] [65]))
      (fun k => if k = Ref.key id ⟨[], .leaf 1 [3] [65]⟩ then some (Ref.encode id ⟨[], .leaf 1 [3] [65]⟩) else none)
      (.leaf 1 [3] [65]) 1 (by intro r hr; simp [refs] at hr; subst hr; rfl)
      (by intro r hr; simp [refs] at hr; subst hr; simp) (by simp [height]) 0 [] [3]).2.2
    rw [h]; simp [lookup, splitCommon]
  · exact (storeOps_nodeNotFound id (fun _ => none) (.leaf 1 [3] [65]) 1 (fun _ _ => Or.inr rfl)
      ⟨⟨[], .leaf 1 [3] [65]⟩, by simp [refs], rfl⟩ 0 [] [3]).2.2

/-! ### isolation, discard, stale, publication over the interpreter `Forest.step`

In the value model a trie carries its content, so these hold by the construction of `Forest.step`; they are stated because
they are what the harness's frame / discard / stale / merge oracles compare the Go code against (the model driver
executes `Forest.step`).  With the store-reading operations above the per-trie view is what `Resolves` makes readable. -/

/-- **Isolation (frame).**  An op changes at most its target trie (for a merge: the parent of the merged trie) and closes
    at most the merged / discarded trie with its descendants; every other trie of the forest - root, tree, version,
    level, collector - is exactly what it was. -/
theorem C03_isolation (H : Bytes → Bytes) (ord : List (Change Ref) → List (Change Ref)) (f : Forest) (op : TOp) (id' : Nat)
    (ht : Forest.target f op ≠ some id') (hc : Forest.closes f op id' = false) :
    (f.step H ord op).1.find id' = f.find id' := by
  cases op with
  | child id pid =>
    have hne : id' ≠ id := fun h => ht (by simp [Forest.target, h])
    simp only [Forest.step]
    split
    · split
      · rfl
      · exact Forest.find_append_ne f _ id' hne
    · rfl
  | ins id p b =>
    have hne : id' ≠ id := fun h => ht (by simp [Forest.target, h])
    simp only [Forest.step]
    split
    · split
      · split
        · exact Forest.find_set_ne f id id' _ hne
        · rfl
        · rfl
      · exact Forest.find_set_ne f id id' _ hne
    · rfl
  | del id p =>
    have hne : id' ≠ id := fun h => ht (by simp [Forest.target, h])
    simp only [Forest.step]
    split
    · split
      · exact Forest.find_set_ne f id id' _ hne
      · rfl
      · rfl
    · rfl
  | ver id v =>
    have hne : id' ≠ id := fun h => ht (by simp [Forest.target, h])
    simp only [Forest.step]
    split
    · exact Forest.find_set_ne f id id' _ hne
    · rfl
  | discard id =>
    simp only [Forest.closes] at hc
    simp only [Forest.step]
    split
    · split
      · rfl
      · rw [Forest.find_close, hc]; rfl
    · rfl
  | merge id keep =>
    simp only [Forest.closes] at hc
    simp only [Forest.step]
    split
    · rename_i pid c hfind
      have hne : id' ≠ pid := fun h => ht (by simp [Forest.target, hfind, h])
      split
      · rfl
      · split
        · split
          · rename_i p' _
            cases keep
            · simp only [Bool.false_eq_true, if_false]
              rw [Forest.find_close]
              by_cases hcc : Forest.closed (f.set pid p') id id' = true
              · -- closing is decided on the forest after the parent was set; the parent links are the same
                simp only [hcc, if_true]
                exact absurd hcc (by
                  have : Forest.closed (f.set pid p') id id' = Forest.closed f id id' := by
                    simp only [Forest.closed, Forest.set, List.length_map]
                    congr 1
                    exact Forest.isDesc_set f pid p' id _ id'
                  rw [this, hc]; simp)
              · simp only [hcc, Bool.false_eq_true, if_false]
                exact Forest.find_set_ne f pid id' _ hne
            · simp only [if_true]
              exact Forest.find_set_ne f pid id' _ hne
          · rfl
        · rfl
    · rfl
/-- **Discard leaves no trace.**  Dropping a trie removes it and its descendants; every other trie - in particular its
    parent, which is not below it - keeps its root, tree, version, level and collector. -/
theorem C03_discard (H : Bytes → Bytes) (ord : List (Change Ref) → List (Change Ref)) (f : Forest) (id id' : Nat)
    (hc : Forest.closed f id id' = false) :
    (f.step H ord (.discard id)).1.find id' = f.find id' :=
  C03_isolation H ord f (.discard id) id' (by simp [Forest.target]) (by simpa [Forest.closes] using hc)

/-- **A stale child is rejected and nothing changes**: when the parent's root is neither the root the child started from
    nor the child's root, the merge reports `stale` and the whole forest - parent, child, everything - is what it was,
    for every replay order `ord`. -/
theorem C03_stale_rejected (H : Bytes → Bytes) (ord : List (Change Ref) → List (Change Ref)) (f : Forest)
    (id pid ppid : Nat) (c p : Trie) (keep : Bool) (hid : id ≠ 0)
    (hc : f.find id = some (pid, c)) (hp : f.find pid = some (ppid, p))
    (hmoved : p.root ≠ c.cc.startRoot) (hne : p.root ≠ c.root) :
    ∃ r, f.step H ord (.merge id keep) = (f, r) ∧ (match r with | .stale => True | _ => False) := by
  refine ⟨.stale, ?_, trivial⟩
  simp only [Forest.step, hc, hp, hid, if_false, merge_stale H p c _ hmoved hne]

/-- **An accepted merge publishes the child's view**: when the parent is still at the root the child started from, the
    merge is accepted, the parent's root and content are the child's, and (with `keep`) the child is what it was. -/
theorem C03_merge_publishes (H : Bytes → Bytes) (ord : List (Change Ref) → List (Change Ref)) (f : Forest)
    (id pid ppid : Nat) (c p : Trie) (hid : id ≠ 0) (hpc : id ≠ pid)
    (hc : f.find id = some (pid, c)) (hp : f.find pid = some (ppid, p))
    (hfresh : p.root = c.cc.startRoot) (hne : p.root ≠ c.root) :
    ∃ p', (f.step H ord (.merge id true)).1.find pid = some (ppid, p') ∧ p'.root = c.root ∧ p'.tree = c.tree ∧
      (f.step H ord (.merge id true)).1.find id = some (pid, c) := by
  obtain ⟨p', hm, hr, ht, _⟩ := merge_fresh H p c (ord c.cc.getChanges) hfresh hne
  refine ⟨p', ?_, hr, ht, ?_⟩
  · simp only [Forest.step, hc, hp, hid, if_false, hm, if_true]
    exact Forest.find_set_eq f pid ppid p p' hp
  · simp only [Forest.step, hc, hp, hid, if_false, hm, if_true]
    rw [Forest.find_set_ne f pid id p' hpc]; exact hc

/-- non-vacuity of the four statements: block trie 0 with the child 1 that inserted a key -/
example :
    let f0 : Forest := { tries := [(0, 0, Trie.open [] .empty 1)] }
    let f1 := (f0.step id (fun l => l) (.child 1 0)).1
    let f2 := (f1.step id (fun l => l) (.ins 1 [3] [65])).1
    f2.find 0 = f0.find 0 ∧ (f2.step id (fun l => l) (.discard 1)).1.find 0 = f0.find 0 := by
  intro f0 f1 f2
  have h1 : f1.find 0 = f0.find 0 :=
    C03_isolation id (fun l => l) f0 (.child 1 0) 0 (by simp [Forest.target]) (by simp [Forest.closes])
  have h2 : f2.find 0 = f1.find 0 :=
    C03_isolation id (fun l => l) f1 (.ins 1 [3] [65]) 0 (by simp [Forest.target]) (by simp [Forest.closes])
  refine ⟨h2.trans h1, ?_⟩
  rw [C03_discard id (fun l => l) f2 1 0 (by decide)]
  exact h2.trans h1
/-! #### concrete instances of the frame statements -/

/-- the block trie over the one-leaf tree `[3] := 65` -/
def xP0 : Trie := Trie.open (root id (.leaf 1 [3] [65])) (.leaf 1 [3] [65]) 1
/-- the parent after it moved on: `[5] := 70` inserted -/
def xPmoved : Trie := (xP0.insert id [5] [70]).1
/-- a child opened on `xP0` that deleted `[3]` and inserted `[4] := 66` (two changes, one of them a delete) -/
def xChild : Trie := (((xP0.delete id [3]).1).insert id [4] [66]).1

/-- non-vacuity of `C03_stale_rejected`: the parent moved (inserted `[5]`) after the child was opened -/
example : ∃ r, (Forest.mk [(0, 0, xPmoved), (1, 0, xChild)]).step id (fun l => l) (.merge 1 false)
      = (Forest.mk [(0, 0, xPmoved), (1, 0, xChild)], r) ∧ (match r with | .stale => True | _ => False) := by
  apply C03_stale_rejected id (fun l => l) _ 1 0 0 xChild xPmoved false (by decide) rfl rfl
  · decide
  · decide

/-- non-vacuity of `C03_merge_publishes`: the child with a delete and an insert is merged into the parent it started from -/
example : ∃ p', ((Forest.mk [(0, 0, xP0), (1, 0, xChild)]).step id (fun l => l) (.merge 1 true)).1.find 0 = some (0, p') ∧
    p'.root = xChild.root ∧ p'.tree = xChild.tree ∧
    ((Forest.mk [(0, 0, xP0), (1, 0, xChild)]).step id (fun l => l) (.merge 1 true)).1.find 1 = some (0, xChild) := by
  apply C03_merge_publishes id (fun l => l) _ 1 0 0 xChild xP0 (by decide) (by decide) rfl rfl
  · decide
  · decide
/-- non-vacuity of `child_ops_read_through`: a child opened (empty level) over the parent's level, which alone holds the
    leaf `[3] := 65`; the child has written nothing, so its lookup of `[3]` reads that node through the level below -/
example :
    let below : Bytes → Option Bytes := fun k =>
      if k = Ref.key id ⟨[], .leaf 1 [3] [65]⟩ then some (Ref.encode id ⟨[], .leaf 1 [3] [65]⟩) else none
    lookupS (shapesOf (fun _ => some (.leaf 1 [3] [65])) (levelGet ((Trie.open [] (.leaf 1 [3] [65]) 1).applyEvents id []) below))
      1 (okey id (.leaf 1 [3] [65]) []) [3] = .ok (lookup (.leaf 1 [3] [65]) [3]) := by
  intro below
  exact (child_ops_read_through id (fun _ => some (.leaf 1 [3] [65])) below (.leaf 1 [3] [65]) (.leaf 1 [3] [65])
    (Trie.open [] (.leaf 1 [3] [65]) 1) 1 [] ⟨rfl, rfl⟩ rfl
    (by intro r hr; simp [refs] at hr; subst hr; simp [below])
    (Or.inr (by simp [WFn])) (RoundEvents.nil _)
    (by intro a c ha hc _
        simp [refs, eventRefs] at ha hc
        rw [ha, hc])
    (by intro r hr; simp [refs] at hr; subst hr; rfl) 1 (by simp [height]) [] [3]).2.2

/-- the table decoder of `xExt`: the stored bytes of its four nodes are pairwise different -/
def xDec (bs : Bytes) : Option Shape :=
  ((refs xExt []).find? (fun r => r.encode id == bs)).bind (fun r => shapeOf id r.t r.pos)

/-- non-vacuity of `storeOps_refine` on a store holding the four nodes of `xExt`: the lookup of `[1,3]` crosses the
    extension and the branch, every node read through `get` -/
example : lookupS (shapesOf xDec (fun k => ((refs xExt []).find? (fun r => r.key id == k)).map (fun r => r.encode id)))
      3 (okey id xExt []) [1, 3] = .ok (some [66]) := by
  have h := (storeOps_refine id xDec (fun k => ((refs xExt []).find? (fun r => r.key id == k)).map (fun r => r.encode id))
    xExt 3 ?_ ?_ (by decide) 0 [] [1, 3]).2.2
  · rw [h]; exact congrArg SRes.ok (by decide)
  · intro r hr
    rcases xExt_refs r hr with h | h | h | h <;> subst h <;> rfl
  · intro r hr
    rcases xExt_refs r hr with h | h | h | h <;> subst h <;> rfl

end Verif.Props.C03
