/-
C14 — Every stored trie node is addressed by its own hash and round-trips through encode / decode.

Model: `Verif.Model.MptCodec` (`encode` = Encode, `decode` = CreateNode + Decode methods, `hashBytes` = hash input),
tied to the structural trie model `Verif.Model.Mpt` / `MptEnc` by `reprOf` / `nodesOf` (the stored form of every node
of a trie).  `H` is the hash function (SHA3-256 in the implementation and in the model driver).
-/
import Verif.Lemmas.MptCodec
import Verif.Lemmas.MptPartial
import Verif.Lemmas.EventCodec
import Verif.Lemmas.MergeRound
import Verif.Lemmas.MptInsert
import Verif.Lemmas.DeadNodes
namespace Verif.Props.C14
open Verif.Codec
open Verif.Mpt (Bytes Nib Node key WFn nibChar lookup)
open Verif.Partial (Resolves Unfolds toP buildP depth lookupP ofOpt recomputeKey)

/-- Encoding a well-formed node and decoding it yields the same node.  `ReprWF`: paths are hex digits, branch child keys
    have 32 bytes, version and origin fit 64 bits.  The value of a leaf / branch and the child key of an extension are
    ARBITRARY bytes (`:` and `0x00` included): they are the last field of their encoding. -/
theorem C14_roundtrip (r : Repr) (h : ReprWF r) : decode (encode r) = .ok r := decode_encode r h

/-- non-vacuity: a leaf whose value consists of separators and NUL bytes, at a 63-bit origin -/
example : ReprWF ⟨7, 2 ^ 63 + 5, .leaf [97, 98] [48] (some [58, 0, 58, 58])⟩ := by
  refine ⟨by decide, by decide, ?_, ?_, ?_⟩ <;> simp [isHexDigit, optNonEmpty]

/-- non-vacuity: a branch with value and two children -/
example : ReprWF ⟨1, 1, .full ((some (List.replicate 32 7)) :: (List.replicate 14 none) ++ [some (List.replicate 32 9)])
    (some [58])⟩ := by
  refine ⟨by decide, by decide, by decide, ?_, by simp [optNonEmpty]⟩
  intro k hk
  simp at hk
  rcases hk with rfl | rfl <;> simp

/-- the stored form determines the node: two different well-formed nodes never share an encoding -/
theorem encode_injective (r₁ r₂ : Repr) (h₁ : ReprWF r₁) (h₂ : ReprWF r₂) (h : encode r₁ = encode r₂) : r₁ = r₂ := by
  have e₁ := decode_encode r₁ h₁
  have e₂ := decode_encode r₂ h₂
  rw [h, e₂] at e₁
  exact (DRes.ok.inj e₁).symm

/-- "a node with the same hash and the same encoding": whatever `decode (encode r)` returns re-encodes to the same
    bytes and has the same hash input (hence the same key under any hash function) -/
theorem hash_roundtrip (r r' : Repr) (h : ReprWF r) (hd : decode (encode r) = .ok r') :
    encode r' = encode r ∧ hashBytes r' = hashBytes r := by
  rw [decode_encode r h] at hd
  cases DRes.ok.inj hd
  exact ⟨rfl, rfl⟩

/-- the round trip also holds for whatever `decode` accepts from ARBITRARY bytes (not only for `ReprWF` nodes): a node
    read from a store re-encodes to bytes that decode to the same node — same encoding, same hash -/
theorem C14_reencode (bs : Bytes) (r : Repr) (h : decode bs = .ok r) :
    decode (encode r) = .ok r := decode_encode_of_decode bs r h

/-- tie to the structural model: the key of a (non-empty) subtree, as defined by the hash format `Verif.Mpt.key`, is the
    hash of `hashBytes` of the stored form of its root node -/
theorem key_eq_hash_repr (H : Bytes → Bytes) (t : Node) (pre : List Nib) (ht : t.isEmpty = false) :
    key H t pre = H (hashBytes (reprOf H t pre)) := key_eq_hash_reprOf H t pre ht

/-- every node that any operation history can produce is well-formed: the stored form of EVERY node of ANY structural
    trie (canonical or not, any origins, any values) satisfies `ReprWF`, for any hash function with 32-byte output.
    (Together with `C14_roundtrip`: every producible node round-trips.) -/
theorem producible_wf (H : Bytes → Bytes) (hH : ∀ b, (H b).length = 32) (t : Node) (pre : List Nib) :
    ∀ e ∈ nodesOf H t pre, ReprWF e.2 := fun e he => (nodesOf_spec H hH t pre e he).1

/-- non-vacuity of the hypothesis on `H` -/
example : ∃ H : Bytes → Bytes, ∀ b, (H b).length = 32 := ⟨fun _ => List.replicate 32 0, by simp⟩

/-- every node of a trie is stored under the hash of its own content, and what is stored under that key decodes back to
    the node: `nodesOf` lists (key, node) for every node of the trie `t`; the store holds `encode node` under `key`. -/
theorem C14_self_keyed (H : Bytes → Bytes) (hH : ∀ b, (H b).length = 32) (t : Node) (pre : List Nib) :
    ∀ e ∈ nodesOf H t pre, e.1 = H (hashBytes e.2) ∧ decode (encode e.2) = .ok e.2 := fun e he =>
  ⟨(nodesOf_spec H hH t pre e he).2, decode_encode e.2 (nodesOf_spec H hH t pre e he).1⟩

/-- reload: a store that holds every node of the canonical trie `t` under its key (`Resolves`; e.g. any memory, layered or
    persistent store after the history that built `t`) reads back, from the root key, as `t` itself: the unfolding of
    the store is the structural trie (no node missing), the model's `buildP` computes it, and every lookup over the
    decoded bytes answers what `t` holds -/
theorem C14_reload (H : Bytes → Bytes) (hH : ∀ b, (H b).length = 32) (get : Bytes → Option Bytes) (t : Node)
    (pre : List Nib) (hw : WFn t) (h : Resolves H get t pre) :
    Unfolds get (key H t pre) (toP t) ∧
    ∀ n, depth (toP t) < n → buildP get n (key H t pre) = toP t ∧
      ∀ p : List Nib, lookupP (buildP get n (key H t pre)) (p.map nibChar) = ofOpt (lookup t p) := by
  have hu := Verif.Partial.unfolds_of_resolves H hH get t pre hw h
  refine ⟨hu, fun n hn => ?_⟩
  have hb := Verif.Partial.buildP_complete get _ _ hu n hn
  exact ⟨hb, fun p => by rw [hb]; exact Verif.Partial.lookupP_toP t p⟩

/-- "any trie read back from the store re-computes to the root it was saved under": re-deriving every key bottom-up from
    the decoded bytes alone (`recomputeKey`: each child key replaced by the key recomputed for that child, then the node
    is hashed) over a store that holds every node of the canonical trie `t` yields exactly the saved root key -/
theorem C14_recompute_root (H : Bytes → Bytes) (hH : ∀ b, (H b).length = 32) (get : Bytes → Option Bytes) (t : Node)
    (pre : List Nib) (hw : WFn t) (h : Resolves H get t pre) (n : Nat) (hn : depth (toP t) < n) :
    recomputeKey H get n (key H t pre) = some (key H t pre) :=
  Verif.Partial.recomputeKey_of_resolves H hH get t pre hw h n hn

/-- non-vacuity: a canonical one-leaf trie and the store holding its node -/
example : ∃ (H : Bytes → Bytes) (get : Bytes → Option Bytes) (t : Node), (∀ b, (H b).length = 32) ∧ WFn t ∧
    Resolves H get t [] := by
  refine ⟨fun _ => List.replicate 32 0, fun _ => some (encode (reprOf (fun _ => List.replicate 32 0) (.leaf 1 [] [65]) [])),
    .leaf 1 [] [65], by simp, by simp [WFn], ?_⟩
  intro e he
  have : e.2 = reprOf (fun _ => List.replicate 32 0) (.leaf 1 [] [65]) [] := by
    simp only [nodesOf, List.mem_singleton] at he; rw [he]
  rw [this]

/-! ### Self-keyed over the event stream (store work package's model `Verif.Model.MptStore`)

`insertE` / `deleteE` list, in Go's call order, the `insertNode(old, new)` / `deleteNode(n)` calls of one Insert / Delete;
`mergeEvents` the calls a merge replays.  `Trie.insertNode` stores `new.encode H` under `new.key H`. -/

open Verif.MptStore in
/-- what is stored for a node reference is the codec's encoding of the node, under the hash of its own content, and
    decodes back to it -/
theorem ref_self_keyed (H : Bytes → Bytes) (hH : ∀ b, (H b).length = 32) (r : Ref) (ht : r.t.isEmpty = false) :
    r.key H = H (hashBytes (reprOf H r.t r.pos)) ∧ r.encode H = encode (reprOf H r.t r.pos) ∧
    decode (r.encode H) = .ok (reprOf H r.t r.pos) := by
  refine ⟨key_eq_hash_reprOf H r.t r.pos ht, ref_encode_eq H r ht, ?_⟩
  rw [ref_encode_eq H r ht]
  exact decode_encode _ (reprOf_wf H hH r.t r.pos)

open Verif.MptStore in
/-- **C14_self_keyed over events**: every `put` event emitted by an Insert (`insertE`) or a Delete (`deleteE`) at trie
    version `v` carries a real node; the store receives the codec encoding of that node under key = H(hashBytes(node)),
    the bytes decode back to the node, and the node's origin and version are `v` (64-bit) -/
theorem C14_self_keyed_events (H : Bytes → Bytes) (hH : ∀ b, (H b).length = 32) (v : Nat) (b : Bytes) (t : Node)
    (pre p : List Nib) (old : Option Ref) (new : Ref)
    (he : Event.put old new ∈ (insertE v b t pre p).2 ∨ Event.put old new ∈ (deleteE v t pre p).2) :
    new.key H = H (hashBytes (reprOf H new.t new.pos)) ∧ new.encode H = encode (reprOf H new.t new.pos) ∧
    decode (new.encode H) = .ok (reprOf H new.t new.pos) ∧
    (reprOf H new.t new.pos).origin = w64 v ∧ (reprOf H new.t new.pos).version = w64 v := by
  have hne : new.t.isEmpty = false := by
    rcases he with he | he
    · exact insertE_put_nonempty v b t pre p _ he
    · exact deleteE_put_nonempty v t pre p _ he
  have ho : origin new.t = v := by
    rcases he with he | he
    · exact insertE_new_origin v b t pre p _ he
    · exact deleteE_new_origin v t pre p _ he
  obtain ⟨h1, h2, h3⟩ := ref_self_keyed H hH new hne
  refine ⟨h1, h2, h3, ?_⟩
  cases hn : new.t with
  | empty => rw [hn] at hne; simp [Node.isEmpty] at hne
  | leaf o lp lv => rw [hn] at ho; simp [reprOf, origin] at ho ⊢; rw [ho]
  | full o ch val => rw [hn] at ho; simp [reprOf, origin] at ho ⊢; rw [ho]
  | ext o ep c => rw [hn] at ho; simp [reprOf, origin] at ho ⊢; rw [ho]

/-- non-vacuity: inserting into a one-leaf trie emits put events (a leaf split: two leaves and a branch) -/
example : (Verif.MptStore.insertE 3 [66] (.leaf 1 [1, 2] [65]) [] [1, 3]).2.length = 4 := by decide

open Verif.MptStore in
/-- the calls a merge replays on the parent (`mergeEvents`: the child's changes as `insertNode(old, new)`, its deletes as
    `deleteNode`): every replayed `put` of a real node is self-keyed in the same sense — nodes merged from a child keep
    their key, bytes and origin (real nodes: that the child's collector only holds nodes produced by put events, which
    are real by `C14_self_keyed_events`, is the hypothesis `hreal`) -/
theorem C14_self_keyed_merge (H : Bytes → Bytes) (hH : ∀ b, (H b).length = 32) (cs : List (Change Ref)) (ds : List Ref)
    (hreal : ∀ c ∈ cs, c.new.t.isEmpty = false) (old : Option Ref) (new : Ref)
    (he : Event.put old new ∈ mergeEvents cs ds) :
    new.key H = H (hashBytes (reprOf H new.t new.pos)) ∧ new.encode H = encode (reprOf H new.t new.pos) ∧
    decode (new.encode H) = .ok (reprOf H new.t new.pos) := by
  simp only [mergeEvents, List.mem_append, List.mem_map] at he
  rcases he with ⟨c, hc, hce⟩ | ⟨d, _, hde⟩
  · cases hce
    exact ref_self_keyed H hH c.new (hreal c hc)
  · cases hde

open Verif.MptStore in
/-- the hypothesis `hreal` of `C14_self_keyed_merge` holds for the changes of any child trie that was opened on a root
    (`Trie.open`: empty collector) and executed Inserts / Deletes: its collector only holds nodes of `put` events, which
    are real -/
theorem C14_child_changes_real (H : Bytes → Bytes) (root : Bytes) (tree : Node) (v : Nat) (es : List Event)
    (hes : ∀ e ∈ es, PutNonEmpty e) :
    ∀ c ∈ ((Trie.open root tree v).applyEvents H es).cc.getChanges, c.new.t.isEmpty = false :=
  getChanges_real _ (ccReal_applyEvents H es _ (by intro e he; simp [Trie.open] at he) hes)

open Verif.MptStore in
/-- … and the event streams of Insert / Delete satisfy `PutNonEmpty` -/
theorem C14_events_put_real (v : Nat) (b : Bytes) (t : Node) (pre p : List Nib) :
    (∀ e ∈ (insertE v b t pre p).2, PutNonEmpty e) ∧ (∀ e ∈ (deleteE v t pre p).2, PutNonEmpty e) :=
  ⟨insertE_put_nonempty v b t pre p, deleteE_put_nonempty v t pre p⟩

/-! ### Value nodes (type code 1) and typed reads -/

/-- a value node round-trips for ANY value bytes (empty included) and any 64-bit tracker; its type code is 1, its hash
    input is the value itself, and it has a hash iff the value is non-empty (`GetHashBytes` returns nil otherwise) -/
theorem C14_value_node (ver org : Nat) (hv : ver < 2 ^ 64) (ho : org < 2 ^ 64) (b : Bytes) :
    decode (encode ⟨ver, org, .value b⟩) = .ok ⟨ver, org, .value b⟩ ∧ typeByte (.value b) = 1 ∧
    hashBytes ⟨ver, org, .value b⟩ = b ∧ (hasHash ⟨ver, org, .value b⟩ = true ↔ b ≠ []) := by
  refine ⟨decode_encode _ ⟨hv, ho, trivial⟩, rfl, rfl, ?_⟩
  cases b <;> simp [hasHash]

/-- typed read after a typed insert: if the value type's UnmarshalMsg inverts its MarshalMsg (`hum`) and no value
    marshals to nothing (`hm`; such an Insert is a Delete), then `GetNodeValue` at the inserted path returns the inserted
    value and every other path reads as before -/
theorem C14_typed_read {α : Type} (m : α → Bytes) (um : Bytes → Option α) (hum : ∀ x, um (m x) = some x)
    (hm : ∀ x, m x ≠ []) (t : Node) (hwf : Verif.Mpt.WF t) (v : Nat) (p q : List Nib) (x : α) :
    getNodeValue um (Verif.Mpt.insert v (m x) t p) q = if q = p then .ok x else getNodeValue um t q := by
  unfold getNodeValue
  rw [Verif.Mpt.lookup_insert v (m x) (hm x) t p q hwf]
  by_cases h : q = p
  · simp [h, hum]
  · simp [h]

/-- instance: msgp strings (`MarshalMsg = AppendString`, `UnmarshalMsg = ReadStringBytes`), the typed value of suite
    c14's ops `insstr` / `val` -/
theorem C14_typed_read_string (t : Node) (hwf : Verif.Mpt.WF t) (v : Nat) (p q : List Nib) (x : { s : Bytes // s.length < 4294967296 }) :
    let m := fun (y : { s : Bytes // s.length < 4294967296 }) => Verif.DeadNodes.appendString y.1
    let um := fun b => match Verif.DeadNodes.readString b with
      | .ok (s, _) => if h : s.length < 4294967296 then some (⟨s, h⟩ : { s : Bytes // s.length < 4294967296 }) else none
      | _ => none
    getNodeValue um (Verif.Mpt.insert v (m x) t p) q = if q = p then .ok x else getNodeValue um t q := by
  intro m um
  apply C14_typed_read m um _ _ t hwf v p q x
  · intro y
    have := Verif.DeadNodes.readString_appendString y.1 [] y.2
    simp only [List.append_nil] at this
    simp only [um, m, this, y.2, dite_true]
  · intro y
    simp only [m, Verif.DeadNodes.appendString]
    split <;> (try split) <;> (try split) <;> simp

/-- the one-pass computation run by the model driver (`modeld codec`, ops `store` / `save` / `snap`) is the
    specification: root key by `Verif.Mpt.key`, stored nodes by `nodesOf` -/
theorem entries_eq (H : Bytes → Bytes) (t : Node) (pre : List Nib) :
    entries H t pre = (key H t pre, nodesOf H t pre) := entries_spec H t pre

end Verif.Props.C14
