/-
C14 — Every stored trie node is addressed by its own hash and round-trips. (Theorems are added as they are proved.)
-/
import Verif.Model.MptCodec
namespace Verif.Props.C14
open Verif.Codec

/-- the type byte written by `Encode` is one of the four node type codes -/
theorem typeByte_code (b : Body) : typeByte b = 1 ∨ typeByte b = 2 ∨ typeByte b = 4 ∨ typeByte b = 8 := by
  cases b <;> simp [typeByte]

end Verif.Props.C14
