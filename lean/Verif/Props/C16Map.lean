/-
C16, corollary for the trie (DESIGN.md §6 C16, "theorem C16"): `lin_of_table` instantiated with the C01 trie model
and combined with the C01 map refinement.

Instantiation: the trie state (everything reachable from the `root` field — its location `rootF` is resolved from the regenerated table by the field's declared type) is
one location holding the C01 model state; `Insert`/`Delete` are W-mode operations that read it, apply the C01
model step and write it back; `GetNodeValueRaw`/`Iterate`/`GetRoot`/`SaveChanges` are R-mode operations that read it
(`Verif.C16Map.opProg`; `GetRoot` returns C02's `root H` of the trie it reads, `SaveChanges` returns without changing it). These programs perform only accesses of the regenerated table `mptScope` in the lock mode the
table records for the real methods (checked below by `decide` over the table). `SetVersion` (`Op.ver`) is outside
the claimed scope. The location also holds the change collector (store agent's `Verif.MptStore.Collector`, fed with the
`insertNode`/`deleteNode` events of `insertE`/`deleteE`): `GetChanges`/`GetDeletes`/`GetChangeCount` are R-mode reads
returning its content, `MergeChanges` is a W-mode operation that replaces the tree by the child's and replays the
change set. `MergeDB` (store-level) and `MergeMPTChanges` (excluded) have no sequential specification here.
-/
import Verif.Props.C16
import Verif.Lemmas.C16Map

namespace Verif.Props.C16
open Verif.RW Verif.Mpt Verif.Gen.LockFacts Verif.LockTable Verif.C16Map
open Verif.Props.C01 (emptySpec)

/-- the three accesses the instantiated operations perform are accesses of the regenerated table, in the lock
mode recorded there: `root` written and read under the write lock (`Insert`/`Delete`), read under the read lock -/
theorem trie_accesses_in_table :
    ({ loc := rootF, write := false, sub := 0, held := some .W } : FAcc) ∈ footprint mptScope ∧
    ({ loc := rootF, write := true, sub := 0, held := some .W } : FAcc) ∈ footprint mptScope ∧
    ({ loc := rootF, write := false, sub := 0, held := some .R } : FAcc) ∈ footprint mptScope := by
  decide +kernel

/-- the lock modes of the model operations are the ones the table records for the real methods; `GetRoot` only
reads `root`, `SaveChanges` does not touch `root` at all (it reads the change collector) -/
theorem model_modes_match_table :
    mpt_Insert.lock = .write ∧ mpt_Delete.lock = .write ∧ mpt_GetNodeValueRaw.lock = .read ∧ mpt_Iterate.lock = .read ∧
    mpt_GetRoot.lock = .read ∧ mpt_SaveChanges.lock = .read ∧
    mpt_GetChanges.lock = .read ∧ mpt_GetDeletes.lock = .read ∧ mpt_GetChangeCount.lock = .read ∧
    mpt_MergeChanges.lock = .write ∧
    modeOfOp .changes = .R ∧ modeOfOp .deletes = .R ∧ modeOfOp .count = .R ∧
    (∀ ch ces sr, modeOfOp (.merge ch ces sr) = .W) ∧
    mpt_GetRoot.accesses.map (fun a => (a.fid, a.kind, a.mode)) = [(rootF, .read, .read)] ∧
    (mpt_SaveChanges.accesses.all fun a => a.fid != rootF && !plainWriteKind a.kind) = true ∧
    modeOfOp .root = .R ∧ modeOfOp .save = .R ∧ (∀ p b, modeOfOp (.base (.ins p b)) = .W) ∧
    (∀ p, modeOfOp (.base (.del p)) = .W) ∧ (∀ p, modeOfOp (.base (.get p)) = .R) ∧ modeOfOp (.base .iter) = .R := by
  refine ⟨by decide +kernel, by decide +kernel, by decide +kernel, by decide +kernel, by decide +kernel,
    by decide +kernel, by decide +kernel, by decide +kernel, by decide +kernel, by decide +kernel, rfl, rfl, rfl,
    fun _ _ _ => rfl, by decide +kernel, by decide +kernel, rfl, rfl, fun _ _ => rfl, fun _ => rfl, fun _ => rfl, rfl⟩

/-- **C16 for the trie model.** Any number of threads run arbitrary scripts of `ins` / `del` / `get` / `iter` /
`GetRoot` / `SaveChanges` / `GetChanges` / `GetDeletes` / `GetChangeCount` / `MergeChanges` operations on one shared
trie, started empty at version `v0`, under ANY schedule admitted by the RW lock. For every reachable configuration
there is a list `lops` of the operations that have acquired the lock so far — each taken from some thread's script,
in lock-acquisition order (`c.lin`), an operation entering it between its call and its return — such that
1. the results are those of the SEQUENTIAL model run of `lops` (`trun`), and every thread's returned results are its
   own entries of that list in order (the entry of an operation still running being the last);
2. hence they agree one by one with the specification run on `lops` (`TRel`/`ObsOk`): a C01 operation returns what
   the partial map returns; **`GetRoot` returns the canonical root of the map content at its linearization point** —
   the `root H` (C02) of every canonical trie that reads as that map; `SaveChanges` leaves map and collector as they
   are; **`GetChanges` / `GetDeletes` / `GetChangeCount` return the content of `collect (events of the linearized
   prefix)`** — the store agent's collector (`Verif.MptStore.Collector`, the object of `C04.collector_algebra`) run
   from the empty collector over the `insertNode`/`deleteNode` events (`insertE`/`deleteE`, and the replayed change
   sets of merges) of the operations linearized before it (nothing resets the collector: `SaveChanges` clones it);
   **`MergeChanges`**, unless stale or a no-op, makes the map the content of the child's tree;
3. whenever no writer is inside its critical section — in particular at the end — the shared trie reads as the map
   the specification ends with (final content = sequential execution of the completed updates),
   **its root is the root of every canonical trie of that map**, and its collector is `collect` of all events;
4. no configuration has a race.
Merged trees are assumed canonical and of the trie's version (`MergeWF`: child tries of the same block). -/
theorem C16_map (H : Bytes → Bytes) (maxSize v0 : Nat) (ops : Tid → List TOp)
    (hnv : ∀ t op, op ∈ ops t → NoVer op ∧ MergeWF v0 op)
    (c : Config XState TObs)
    (hr : Reachable (fun t => (ops t).map (opProg rootF H maxSize)) (fun _ => xinit v0) c) :
    ∃ lops : List TOp, (∀ op, op ∈ lops → ∃ t, op ∈ ops t) ∧
      c.lin.map (·.pred) = (trun H maxSize (xinit v0) lops).2 ∧
      (∀ t, (c.lin.filter (fun e => e.tid == t)).map (·.pred) = (c.thr t).done ++ (c.thr t).pred.toList) ∧
      TRel H v0 maxSize emptySpec (xinit v0) [] lops (c.lin.map (·.pred)) ∧
      ((∀ t, (c.thr t).main ≠ some .W) →
        (∀ q, lookup (c.mem rootF).ms.t q = tspec H maxSize emptySpec (xinit v0) lops q) ∧
        (∀ t', WF t' → AllOrigin v0 t' → (∀ q, lookup t' q = tspec H maxSize emptySpec (xinit v0) lops q) →
          root H (c.mem rootF).ms.t = root H t') ∧
        (c.mem rootF).cc = collect H (tevs H maxSize (xinit v0) lops)) ∧
      ¬ Race c := by
  obtain ⟨hRW, hWW, hRR⟩ := trie_accesses_in_table
  have hmem : ∀ t p, p ∈ (ops t).map (opProg rootF H maxSize) → ∃ op, op ∈ ops t ∧ p = opProg rootF H maxSize op := by
    intro t p hp
    simp only [List.mem_map] at hp
    obtain ⟨op, hop, rfl⟩ := hp
    exact ⟨op, hop, rfl⟩
  -- the instantiated programs satisfy the hypotheses of `lin_of_table`
  have hconf : ∀ t p, p ∈ (ops t).map (opProg rootF H maxSize) → Conf (footprint mptScope) none p := by
    intro t p hp
    obtain ⟨op, _, rfl⟩ := hmem t p hp
    rcases op with (_ | _ | _ | _ | _) | _ | _ | _ | _ | _ | _ <;> simp [opProg, modeOfOp, body, isUpdate, Conf, hRW, hWW, hRR]
  have hshape : ∀ t p, p ∈ (ops t).map (opProg rootF H maxSize) → ∃ m k, p = .acq m k ∧ BodyOK k := by
    intro t p hp
    obtain ⟨op, _, rfl⟩ := hmem t p hp
    exact ⟨_, _, rfl, bodyOK rootF H maxSize op⟩
  have hobl : ∀ t p, p ∈ (ops t).map (opProg rootF H maxSize) → Oblivious (bkOf (footprint mptScope)) p := by
    intro t p hp
    obtain ⟨op, _, rfl⟩ := hmem t p hp
    rcases op with (_ | _ | _ | _ | _) | _ | _ | _ | _ | _ | _ <;> simp [opProg, body, isUpdate, Oblivious] <;>
      exact fun hb => absurd hb root_not_bookkeeping
  obtain ⟨hres, hper, hfin, hrace⟩ := lin_of_table mptScope mpt_table_ok _ _ hconf hshape hobl c hr
  -- the log consists of bodies of operations of the scripts
  obtain ⟨s, ex⟩ := hr
  have oinv := (OpsInv.init (L := rootF) (H := H) (maxSize := maxSize)
    (P := fun op => (NoVer op ∧ MergeWF v0 op) ∧ ∃ t, op ∈ ops t) ops
    (fun _ => xinit v0) (fun t op hop => ⟨hnv t op hop, t, hop⟩)).exec ex
  obtain ⟨lops, hlops, hprogs⟩ := OpsInv.log_ops c.lin oinv.lin
  have hseq := seqRun_mrun rootF H maxSize c.lin lops (fun _ => xinit v0) hprogs (fun op hop => (hlops op hop).1.1)
  have hrel := trun_rel H maxSize v0 lops (es := []) (tinv_init v0) rfl (fun op hop => (hlops op hop).1)
  refine ⟨lops, fun op hop => (hlops op hop).2, ?_, hper, ?_, ?_, hrace⟩
  · rw [← hres, hseq.1]
  · rw [← hres, hseq.1]; exact hrel.1
  · intro hnw
    have hag := hfin hnw rootF root_not_bookkeeping
    have hst : c.mem rootF = (trun H maxSize (xinit v0) lops).1 := by rw [← hag, hseq.2]
    obtain ⟨hwf, hao, _, hl⟩ := hrel.2.1
    refine ⟨fun q => by rw [hst]; exact hl q, fun t' hw' ho' hl' => ?_, by rw [hst, hrel.2.2]; rfl⟩
    rw [hst]
    exact Verif.Props.C02.C02_root_of_content H v0 _ t' hwf hw' hao ho' (fun q => by rw [hl q, hl' q])

end Verif.Props.C16
