/-
C16, corollary for the trie (DESIGN.md §6 C16, "theorem C16"): `lin_of_table` instantiated with the C01 trie model
and combined with the C01 map refinement.

Instantiation: the trie state (everything reachable from the `root` field — its location `rootF` is resolved from the regenerated table by the field's declared type) is
one location holding the C01 model state; `Insert`/`Delete` are W-mode operations that read it, apply the C01
model step and write it back; `GetNodeValueRaw`/`Iterate` are R-mode operations that read it
(`Verif.C16Map.opProg`). These programs perform only accesses of the regenerated table `mptScope` in the lock mode the
table records for the real methods (checked below by `decide` over the table). `SetVersion` (`Op.ver`) is outside
the claimed scope.
-/
import Verif.Props.C16
import Verif.Lemmas.C16Map

namespace Verif.Props.C16
open Verif.RW Verif.Mpt Verif.Gen.LockFacts Verif.LockTable Verif.C16Map
open Verif.Props.C01 (Op MState Obs mrun srun emptySpec ObsListRel C01_refinement)

/-- the three accesses the instantiated operations perform are accesses of the regenerated table, in the lock
mode recorded there: `root` written and read under the write lock (`Insert`/`Delete`), read under the read lock -/
theorem trie_accesses_in_table :
    ({ loc := rootF, write := false, sub := 0, held := some .W } : FAcc) ∈ footprint mptScope ∧
    ({ loc := rootF, write := true, sub := 0, held := some .W } : FAcc) ∈ footprint mptScope ∧
    ({ loc := rootF, write := false, sub := 0, held := some .R } : FAcc) ∈ footprint mptScope := by
  decide +kernel

/-- **C16 for the trie model.** Any number of threads run arbitrary scripts of `ins` / `del` / `get` / `iter`
operations on one shared trie, started empty, under ANY schedule admitted by the RW lock. For every reachable
configuration there is a list `lops` of the operations that have acquired the lock so far — each taken from some
thread's script, in lock-acquisition order (`c.lin`), an operation entering it between its call and its return —
such that
1. the results are those of the SEQUENTIAL C01 model run of `lops`, and every thread's returned results are its own
   entries of that list in order (the entry of an operation still running being the last);
2. hence (C01 map refinement) the results agree one by one with the partial-map specification run on `lops`;
3. whenever no writer is inside its critical section — in particular at the end — the shared trie reads as the map
   the specification ends with (final content = sequential execution of the completed updates);
4. no configuration has a race. -/
theorem C16_map (maxSize v0 : Nat) (ops : Tid → List Op) (hnv : ∀ t op, op ∈ ops t → NoVer op)
    (c : Config MState Obs)
    (hr : Reachable (fun t => (ops t).map (opProg rootF maxSize)) (fun _ => Verif.Props.C01.init v0) c) :
    ∃ lops : List Op, (∀ op, op ∈ lops → ∃ t, op ∈ ops t) ∧
      c.lin.map (·.pred) = (mrun maxSize (Verif.Props.C01.init v0) lops).2 ∧
      (∀ t, (c.lin.filter (fun e => e.tid == t)).map (·.pred) = (c.thr t).done ++ (c.thr t).pred.toList) ∧
      ObsListRel (c.lin.map (·.pred)) (srun maxSize emptySpec lops).2 ∧
      ((∀ t, (c.thr t).main ≠ some .W) → ∀ q, lookup (c.mem rootF).t q = (srun maxSize emptySpec lops).1 q) ∧
      ¬ Race c := by
  obtain ⟨hRW, hWW, hRR⟩ := trie_accesses_in_table
  have hmem : ∀ t p, p ∈ (ops t).map (opProg rootF maxSize) → ∃ op, op ∈ ops t ∧ p = opProg rootF maxSize op := by
    intro t p hp
    simp only [List.mem_map] at hp
    obtain ⟨op, hop, rfl⟩ := hp
    exact ⟨op, hop, rfl⟩
  -- the instantiated programs satisfy the hypotheses of `lin_of_table`
  have hconf : ∀ t p, p ∈ (ops t).map (opProg rootF maxSize) → Conf (footprint mptScope) none p := by
    intro t p hp
    obtain ⟨op, _, rfl⟩ := hmem t p hp
    cases op <;> simp [opProg, modeOfOp, body, isUpdate, Conf, hRW, hWW, hRR]
  have hshape : ∀ t p, p ∈ (ops t).map (opProg rootF maxSize) → ∃ m k, p = .acq m k ∧ BodyOK k := by
    intro t p hp
    obtain ⟨op, _, rfl⟩ := hmem t p hp
    exact ⟨_, _, rfl, bodyOK rootF maxSize op⟩
  have hobl : ∀ t p, p ∈ (ops t).map (opProg rootF maxSize) → Oblivious (bkOf (footprint mptScope)) p := by
    intro t p hp
    obtain ⟨op, _, rfl⟩ := hmem t p hp
    cases op <;> simp [opProg, body, isUpdate, Oblivious] <;>
      exact fun hb => absurd hb root_not_bookkeeping
  obtain ⟨hres, hper, hfin, hrace⟩ := lin_of_table mptScope mpt_table_ok _ _ hconf hshape hobl c hr
  -- the log consists of bodies of operations of the scripts
  obtain ⟨s, ex⟩ := hr
  have oinv := (OpsInv.init (L := rootF) (maxSize := maxSize) (P := fun op => NoVer op ∧ ∃ t, op ∈ ops t) ops
    (fun _ => Verif.Props.C01.init v0) (fun t op hop => ⟨hnv t op hop, t, hop⟩)).exec ex
  obtain ⟨lops, hlops, hprogs⟩ := OpsInv.log_ops c.lin oinv.lin
  have hseq := seqRun_mrun rootF maxSize c.lin lops (fun _ => Verif.Props.C01.init v0) hprogs (fun op hop => (hlops op hop).1)
  have href := C01_refinement maxSize v0 lops
  refine ⟨lops, fun op hop => (hlops op hop).2, ?_, hper, ?_, ?_, hrace⟩
  · rw [← hres, hseq.1]
  · rw [← hres, hseq.1]; exact href.1
  · intro hnw q
    have hag := hfin hnw rootF root_not_bookkeeping
    rw [← hag, hseq.2]
    exact href.2 q

end Verif.Props.C16
