/-
C16 — Concurrent use of one state trie is linearizable and race-free.

What is proved here (all for the abstract RW-lock discipline model `Verif.Model.RWDiscipline`, for ALL schedules):

* `no_conflict`    a method table satisfying `TableOK` ⇒ no reachable configuration has two threads simultaneously
                   about to access the same location, one of them writing (the model-level "no data race");
* `lin_of_table`   … and every execution is equivalent to the sequential execution of the operations in
                   lock-acquisition order: same results, same main memory at every quiescent point, each operation
                   entered into that order between its call and its return (so the order respects real time);
* `mpt_table_ok`   the table REGENERATED from core/util/merkle_patricia_trie.go by go/extract satisfies `TableOK`
                   (for the operations the property names; the three exported methods that do not are pinned);
* `C16_full_holds`  the discipline also covers what callers do with returned change sets (no record pointer
                   escapes; false for the pre-4d3d8c8 `GetChanges`: `C16_full_old_false`);
* `mpt_methods_status` every exported method: inside the discipline or not, with the concrete conflicting pair for
                   those outside; `reachable_callees_locked`, `shared_store_no_conflict`: several tries over one store;
* `mptOld_not_ok`, `old_table_admits_race`   the table of the original code (commit 70d872e: `missingNodeKeys`
                   appended under the read lock only) does not, and its footprint admits a race in the model.

The tie to the Go code is the regenerated table (T2) plus the supporting race-detector / porcupine runs of the Go
suite `c16`. Not modelled: the Go memory model at instruction level. See notes/C16.md.
-/
import Verif.Lemmas.LockTable

namespace Verif.Props.C16
open Verif.RW Verif.Gen.LockFacts Verif.LockTable

/-! ## the discipline

`TableOK tbl` (defined in `Verif.Model.LockTable`, decidable) is the conjunction, over every method of the table, of
(0) `shapeOK`: lock shape recognised, lock never re-acquired while held, at most one critical section per call,
    every access classified;
(1) `wholeBody`: the method holds its lock for its whole body — whatever its own goroutine touches without the
    lock is a read of a field nobody writes, or an atomic access to a field accessed atomically only;
(2) `subProtected`: every location written while the lock is not held in W mode (in particular everything an
    R-mode method writes) is protected by its own sub-lock in all its writes and all its reads;
(3) `noEscape`: a goroutine spawned by the method, which may outlive the body, touches receiver state only by
    reading fields nobody writes. -/

/-! ## the two model theorems -/

variable {V ρ : Type}

/-- **No data race in the model.** If the method table satisfies `TableOK` and every operation of every thread
performs only accesses listed in the table, each in the listed lock context (`Conf`), then in every
configuration reachable under ANY schedule admitted by the RW lock no two threads are simultaneously about to
access the same location with at least one of them writing. -/
theorem no_conflict (tbl : List Method) (h : TableOK tbl)
    (scripts : Tid → List (Prog V ρ)) (mem0 : Loc → V)
    (hconf : ∀ t p, p ∈ scripts t → Conf (footprint tbl) none p) :
    ∀ c, Reachable scripts mem0 c → ¬ Race c := by
  rintro c ⟨s, ex⟩
  exact ((SafeInv.init hconf).exec ex).no_race (lockset_of_fpOK (fpOK_of_tableOK h))


/-- **Linearizability in the model.** Scripts of operations that conform to a `TableOK` table, each consisting
of one critical section (`acq m; body; rel; ret` — what `sections = 1` and "whole body" certify for the real
methods) and not letting their result depend on the bookkeeping locations. Then for every configuration `c`
reachable under ANY admitted schedule, with `c.lin` the operations in lock-acquisition order:

1. running the logged operations sequentially, in that order, from the initial memory yields exactly the results
   predicted at the acquisitions (`seqRun … = c.lin.map pred`);
2. every thread's returned results are the predicted results of its own log entries, in order, the entry of an
   operation still in progress being the last one: an operation enters the log after its call and before its
   return, so the log order respects real time (together with `Exec.lin_prefix`: the log only grows at its end);
3. whenever no writer is inside its critical section (in particular in every quiescent and every final
   configuration) the main memory equals the memory of the sequential run;
4. no configuration on the way has a race. -/
theorem lin_of_table (tbl : List Method) (h : TableOK tbl)
    (scripts : Tid → List (Prog V ρ)) (mem0 : Loc → V)
    (hconf : ∀ t p, p ∈ scripts t → Conf (footprint tbl) none p)
    (hshape : ∀ t p, p ∈ scripts t → ∃ m k, p = .acq m k ∧ BodyOK k)
    (hobl : ∀ t p, p ∈ scripts t → Oblivious (bkOf (footprint tbl)) p) :
    ∀ c, Reachable scripts mem0 c →
      (seqRun c.lin mem0).2 = c.lin.map (·.pred) ∧
      (∀ t, (c.lin.filter (fun e => e.tid == t)).map (·.pred) = (c.thr t).done ++ (c.thr t).pred.toList) ∧
      ((∀ t, (c.thr t).main ≠ some .W) → AgreeMain (bkOf (footprint tbl)) (seqRun c.lin mem0).1 c.mem) ∧
      ¬ Race c := by
  rintro c ⟨s, ex⟩
  have hop : ∀ t p, p ∈ scripts t → OpOK (bkOf (footprint tbl)) p := by
    intro t p hp
    obtain ⟨m, k, rfl, hb⟩ := hshape t p hp
    have hc := hconf t _ hp
    simp only [Conf] at hc
    have ho := hobl t _ hp
    simp only [Oblivious] at ho
    refine ⟨m, k, rfl, hb, ?_, ho⟩
    intro hm; subst hm
    exact writesOnly_of_conf k hc.2 hb
  have inv := (LinInv.init (mem0 := mem0) hop).exec ex
  exact ⟨inv.results, inv.perThread, fun hn => inv.futMem c.mem (.inr ⟨hn, rfl⟩),
    no_conflict tbl h scripts mem0 hconf c ⟨s, ex⟩⟩

/-- the log is append-only along every execution (real-time order, part 2 of `lin_of_table`) -/
theorem lin_append_only {c c' : Config V ρ} {s : List Tid} (ex : Exec c s c') : ∃ suf, c'.lin = c.lin ++ suf :=
  ex.lin_prefix

/-! ## the fields the statements below talk about, resolved from the regenerated struct description

by declared type (unexported fields may be renamed, fields may be reordered), exported fields by name -/
def rootF : Nat := fidByType mptInfo "Key"                    -- the root key
def dbF : Nat := fidByType mptInfo "NodeDB"                   -- the node store
def ccF : Nat := fidByName mptInfo "ChangeCollector"          -- the change collector (exported field)
def verF : Nat := fidByName mptInfo "Version"                 -- the version (exported field)
def missF : Nat := fidByType mptInfo "[]Key"                  -- the missing-node key list
def missMuF : Nat := fidByName mptInfo (mptInfo.mutexes.getD 1 "")  -- its own mutex: the trie's second mutex field

/-- the handles resolve to distinct declared fields -/
theorem field_handles_resolve :
    [rootF, dbF, ccF, verF, missF, missMuF].all (fun i => 0 < i && i ≤ mptInfo.fields.length) = true ∧
    [rootF, dbF, ccF, verF, missF, missMuF].eraseDups.length = 6 ∧ mptInfo.mutexes.length = 2 := by
  decide +kernel

/-! ## the obligation over the REGENERATED table -/

/-- exported methods of the trie that are NOT claimed: `SetVersion` stores `Version` atomically while every
other method reads it plainly (it must not run concurrently with anything — it is not among the operations the
property names); `IterateFrom` traverses without the lock; `MergeMPTChanges` enters three critical sections
(reads root and store, then locks) and writes a field of the store object without the store's lock. -/
def outOfScope : List String := ["IterateFrom", "MergeMPTChanges", "SetVersion"]  -- sorted, like the generated tables

/-- the claimed operations: every other exported method of `MerklePatriciaTrie` (with its callee closure) -/
def mptScope : List Method := mpt.filter (fun m => m.exported && !outOfScope.contains m.name)

/-- **The regenerated table of `MerklePatriciaTrie` satisfies the lock discipline.** Fails to build when, in the
Go source, an exported method stops holding `mutex` for its whole body, a field written under the read lock loses
its own mutex (the pre-fix `missingNodeKeys`), a goroutine touches mutable receiver state, or the extractor meets
something it cannot classify. -/
theorem mpt_table_ok : TableOK mptScope := by decide +kernel

-- printed by every build: empty when the obligation holds, otherwise what breaks it (for the replay message)
#eval offenders mptScope

/-- the operations the property names are in the claimed scope, and nothing new is silently left out:
the exported methods outside the scope are exactly the three documented ones -/
theorem mpt_scope_pinned :
    (mpt.filter (fun m => m.exported && outOfScope.contains m.name)).map (·.name) = outOfScope ∧
    ["Insert", "Delete", "GetNodeValueRaw", "GetNodeValue", "Iterate", "GetChanges", "GetChangeCount", "GetDeletes",
      "SaveChanges", "GetRoot", "GetMissingNodeKeys"].all (fun n => (mptScope.map (·.name)).contains n) = true := by
  decide +kernel

/-- each excluded method really breaks the discipline when added (so the exclusion is not a convenience) -/
theorem mpt_excluded_break :
    ¬ TableOK (mpt_SetVersion :: mptScope) ∧ ¬ TableOK (mpt_IterateFrom :: mptScope) ∧
    ¬ TableOK (mpt_MergeMPTChanges :: mptScope) := by decide +kernel

/-- pinned reading of the extractor output (DESIGN.md §3.2): `GetNodeValueRaw` holds the read lock to the end of
its body, `Insert`/`Delete` the write lock, `SaveChanges` spawns one goroutine that touches only `Version` -/
theorem mpt_pinned :
    mpt_GetNodeValueRaw.lock = .read ∧ mpt_GetNodeValueRaw.deferred = true ∧ mpt_GetNodeValueRaw.mutex = mptInfo.primary ∧
    mpt_Insert.lock = .write ∧ mpt_Delete.lock = .write ∧ mpt_Iterate.lock = .read ∧
    mpt_GetChanges.lock = .read ∧ mpt_GetChangeCount.lock = .read ∧ mpt_SaveChanges.lock = .read ∧
    mpt_SaveChanges.goroutines.map (·.fields) = [["Version"]] ∧
    (mpt_GetNodeValueRaw.accesses.filter (fun a => a.fid == missF)).all
      (fun a => a.subId != 0 && a.sub != mptInfo.primary && mptInfo.mutexes.contains a.sub) = true := by
  decide +kernel

/-- the objects reached through fields are internally synchronised: every exported method of the change
collector and of the two in-memory node stores holds that object's own lock for its whole body (this is what
sub-lock `2000+i` of `toFAcc` stands for); for the node cache, the methods the trie calls -/
theorem callee_tables_ok :
    TableOK (changeCollector.filter (·.exported)) ∧ TableOK (memoryNodeDB.filter (·.exported)) ∧
    TableOK (levelNodeDB.filter (·.exported)) ∧
    TableOK [transactionCache_Get, transactionCache_Set, transactionCache_Remove, transactionCache_AddHit, transactionCache_AddMiss] := by
  decide +kernel


/-- strip the sub-lock from an access (the pre-fix code had no `missingMutex`) -/
def unsub (a : Access) : Access := { a with sub := "", subId := 0 }

/-! ## every exported method of the trie: inside the discipline or not, and why

`tableOK (m :: mptScope)`: does the claimed scope together with `m` satisfy the discipline? (For a method already
in the scope this is `mpt_table_ok` again.) -/

theorem mpt_methods_status :
    (mpt.filter (·.exported)).map (fun m => (m.name, tableOK (m :: mptScope))) =
      [("Cache", true), ("Delete", true), ("GetAllMissingNodes", true), ("GetChangeCount", true), ("GetChanges", true),
       ("GetDeletes", true), ("GetMissingNodeKeys", true), ("GetNodeDB", true), ("GetNodeValue", true),
       ("GetNodeValueRaw", true), ("GetRoot", true), ("GetVersion", true), ("HasMissingNodes", true), ("Insert", true),
       ("Iterate", true), ("IterateFrom", false), ("MergeChanges", true), ("MergeDB", true), ("MergeMPTChanges", false),
       ("PrettyPrint", true), ("SaveChanges", true), ("SetNodeDB", true), ("SetVersion", false), ("Validate", true)] := by
  decide +kernel

/-- `SetVersion`: a concrete conflicting pair — its atomic store of `Version` (field 5, no lock) against the plain
read of `Version` that `Insert` performs (in `insertNode`) under the write lock: not protected against each other
(confirmed with the race detector: suite op `setver`) -/
theorem setVersion_conflict :
    ∃ a, a ∈ footprint [mpt_SetVersion] ∧ ∃ b, b ∈ footprint [mpt_Insert] ∧
      a.loc = b.loc ∧ a.write = true ∧ ¬ Protected a b :=
  ⟨⟨verF, true, 3000 + verF, none⟩, by decide +kernel, ⟨verF, false, 0, some .W⟩, by decide +kernel, rfl, rfl,
    by simp [Protected]⟩

/-- `IterateFrom`: no conflicting pair at field level — everything it touches without the lock is either a field
nobody writes or an internally synchronised object / the sub-locked missing-key list — but it takes the trie's lock
not at all (`sections = 0`): it walks the store while writers change it, so it is race-free but not atomic -/
theorem iterateFrom_status :
    mpt_IterateFrom.lock = .none ∧ mpt_IterateFrom.sections = 0 ∧
    mpt_IterateFrom.accesses.all (fun a => (toFAcc a).sub != 0 ||
      (!(toFAcc a).write && frozenL (footprint (mpt_IterateFrom :: mptScope)) (toFAcc a).loc)) = true ∧
    wholeBody (footprint (mpt_IterateFrom :: mptScope)) mpt_IterateFrom = false := by
  decide +kernel

/-- name of the trie's store field (resolved by type) -/
def dbFieldName : String := mptInfo.fields.getD (dbF - 1) ""

def plainWriteKind : AccKind → Bool
  | .assign | .append | .delete | .mapWrite | .innerWrite | .addrOf | .unknown => true
  | _ => false

/-- every write the method itself makes INTO the store object behind `db` (a field of that LevelNodeDB, e.g. its
`version`) is made holding the trie's write lock AND that store's own mutex -/
def storeInnerWritesLocked (m : Method) : Bool :=
  m.accesses.all (fun a => !(a.kind == .innerWrite && a.fid == dbF) ||
    (a.mode == .write && a.sub == dbFieldName ++ "." ++ levelNodeDBInfo.primary))

/-- ... and every write made by the store's OWN methods — the entry points of the LevelNodeDB table: exported methods
and unexported ones no LevelNodeDB method calls, such as a locking setter — happens with the store's mutex held
exclusively; the methods reached from `m` through the store field are rows of that table -/
def storeMethodsLocked (m : Method) : Bool :=
  (levelNodeDB.filter (fun x => x.exported || !levelNodeDB.any (fun y => y.calls.any (fun c => c.callee == x.name)))).all
    (fun x => x.lock != .unknown && x.accesses.all (fun a => !plainWriteKind a.kind || a.mode == .write)) &&
  (calledThroughT [m] mptInfo "NodeDB").all (fun n => levelNodeDB.any (fun x => x.name == n))

/-- `MergeMPTChanges`: three critical sections (it reads its own root and store, and the child's root, before it
takes the write lock: check-then-act, repeated under the lock by `mergeChanges`) — that is why it is outside the
discipline. Every write of a field of the LevelNodeDB behind `db` that it reaches (the store's `version`, since
0a1942f) happens with that store's mutex held exclusively — whether the write stands inline in `MergeMPTChanges` or in
a method of the store; `GetDBVersion` reads it under the store's read lock -/
theorem mergeMPTChanges_status :
    mpt_MergeMPTChanges.sections = 3 ∧
    storeInnerWritesLocked mpt_MergeMPTChanges = true ∧ storeMethodsLocked mpt_MergeMPTChanges = true ∧
    levelNodeDB_GetDBVersion.accesses.map (fun a => (a.kind, a.mode)) = [(.read, .read)] := by
  decide +kernel

/-- … so, in the LevelNodeDB's own lock space, a write of `version` with the store's mutex held in W mode and
`LevelNodeDB.GetDBVersion`'s read under the store's read lock exclude each other -/
theorem mergeMPTChanges_version_protected :
    Protected { loc := 6, write := true, sub := 0, held := some .W } { loc := 6, write := false, sub := 0, held := some .R } := by
  simp [Protected]

/-- `MergeMPTChanges` as the extractor read it before 0a1942f (hand-copied access: `db.version = newLNDB.version` under
the trie's write lock only, no lock of the store) -/
def oldMergeMPTChanges : Method :=
  { mpt_MergeMPTChanges with
      accesses := { field := dbFieldName, fid := dbF, kind := .innerWrite, mode := .write, sub := "", subId := 0,
                    callee := "version", via := "", goroutine := 0, line := 0 } ::
                  mpt_MergeMPTChanges.accesses.filter (fun a => a.kind != .innerWrite) }

/-- the old form is rejected -/
theorem mergeMPTChangesOld_status : storeInnerWritesLocked oldMergeMPTChanges = false := by
  decide +kernel

/-- the pre-fix conflicting pair: the write of `version` WITHOUT the store's mutex against `GetDBVersion`'s read
under the store's read lock (race detector: corpus/C16/fixed_mergempt_dbversion_race.ops, 20/20 before the fix) -/
theorem mergeMPTChangesOld_version_conflict :
    ¬ Protected { loc := 6, write := true, sub := 0, held := none } { loc := 6, write := false, sub := 0, held := some .R } := by
  simp [Protected]

/-! ## several tries over one store (parent / child tries share the parent's store)

Two DIFFERENT tries that share a node store run under two different trie locks, so what one trie does to the store
is, from the other trie's point of view, done with no trie lock at all. What protects the store then is only the
store's own lock. Two facts make this sound:

* `reachable_callees_locked`: every method a trie method invokes on its store, its change collector or its node
  cache — and every method the LevelNodeDB in turn invokes on the stores below it — is an exported method of a type
  whose regenerated table satisfies `TableOK` (own lock held for the whole body);
* `shared_store_lockset` / `shared_store_no_conflict`: the footprint of one trie TOGETHER with arbitrary store
  calls made by other tries (accesses to the store state under the store's internal lock, holding none of THIS
  trie's locks) still satisfies the lockset discipline, hence no race in any schedule. -/

theorem reachable_callees_locked :
    -- what the trie calls on its store exists, exported, in both in-memory store types (`RebaseCurrentDB` is called
    -- only after a type assertion to *LevelNodeDB) …
    allExportedIn memoryNodeDB (calledThroughT mptScope mptInfo "NodeDB" |>.filter (· != "RebaseCurrentDB")) = true ∧
    allExportedIn levelNodeDB (calledThroughT mptScope mptInfo "NodeDB") = true ∧
    -- … what a LevelNodeDB calls on the stores below it, too …
    allExportedIn memoryNodeDB (calledThroughT levelNodeDB levelNodeDBInfo "NodeDB") = true ∧
    allExportedIn levelNodeDB (calledThroughT levelNodeDB levelNodeDBInfo "NodeDB") = true ∧
    -- … and on the change collector and the node cache
    allExportedIn changeCollector (calledThroughT mptScope mptInfo "ChangeCollectorI") = true ∧
    allExportedIn transactionCache (calledThroughT mptScope mptInfo "*statecache.TransactionCache") = true ∧
    -- all exported methods of these types hold their own lock for their whole body
    TableOK (memoryNodeDB.filter (·.exported)) ∧ TableOK (levelNodeDB.filter (·.exported)) ∧
    TableOK (changeCollector.filter (·.exported)) ∧
    TableOK (transactionCache.filter (fun m => (calledThroughT mptScope mptInfo "*statecache.TransactionCache").contains m.name)) := by
  decide +kernel

/-- a store call made by ANOTHER trie that shares this trie's store: an access to the store state (location
`1000 + 3`) under the store's own lock (`2000 + 3`), holding none of this trie's locks -/
def otherTrieStoreCall : FAcc := { loc := 1000 + dbF, write := true, sub := 2000 + dbF, held := none }

theorem shared_store_lockset : LocksetOK (otherTrieStoreCall :: footprint mptScope) :=
  lockset_of_fpOK (fpOK_of_fpOKb (by decide +kernel))

/-- **No data race with several tries over one store**: threads running operations of this trie (conforming to the
regenerated table) together with threads that perform arbitrary store calls on behalf of other tries never reach a
race, under any schedule -/
theorem shared_store_no_conflict (scripts : Tid → List (Prog V ρ)) (mem0 : Loc → V)
    (hconf : ∀ t p, p ∈ scripts t → Conf (otherTrieStoreCall :: footprint mptScope) none p) :
    ∀ c, Reachable scripts mem0 c → ¬ Race c := by
  rintro c ⟨s, ex⟩
  exact ((SafeInv.init hconf).exec ex).no_race shared_store_lockset

/-- non-vacuity: a thread of this trie replacing the root under the write lock next to a thread that performs a
store call for another trie satisfies the hypothesis of `shared_store_no_conflict` -/
example : ∀ t p, p ∈ (fun (t : Tid) => match t with
      | 0 => [(.acq .W (.wr rootF 0 5 (.rel (.ret 0))) : Prog Nat Nat)]
      | 1 => [.wr (1000 + dbF) (2000 + dbF) 7 (.ret 0)]
      | _ => []) t → Conf (otherTrieStoreCall :: footprint mptScope) none p := by
  have hW : ({ loc := rootF, write := true, sub := 0, held := some .W } : FAcc) ∈ footprint mptScope := by decide +kernel
  intro t p hp
  match t, hp with
  | 0, hp => simp at hp; subst hp; simp [Conf, hW]
  | 1, hp => simp at hp; subst hp; simp [Conf, otherTrieStoreCall]
  | n + 2, hp => simp at hp


/-! ## the tables are not empty where the statements quantify over them

`reachable_callees_locked`, `storeMethodsLocked`, `shared_store_lockset` and the `.all` conjuncts of `mpt_pinned` range
over what the extractor recorded; an extractor that silently dropped a package, a file, the calls through the store
field or the accesses to the store state would make them hold vacuously. This pins the expected entry points
(exported interface methods, fields resolved by type) and accesses, so that such a table FAILS. -/
theorem tables_not_vacuous :
    -- the scope and the callee tables have their rows, every scope method touches something
    21 ≤ mptScope.length ∧ mptScope.all (fun m => !m.accesses.isEmpty) = true ∧
    8 ≤ (memoryNodeDB.filter (·.exported)).length ∧ 8 ≤ (levelNodeDB.filter (·.exported)).length ∧
    6 ≤ (changeCollector.filter (·.exported)).length ∧
    -- the trie calls its store, its collector and its node cache through the fields of those types
    ["GetNode", "PutNode", "DeleteNode"].all (fun n => (calledThroughT mptScope mptInfo "NodeDB").contains n) = true ∧
    ["AddChange", "DeleteChange", "GetChanges", "GetDeletes", "Clone"].all
      (fun n => (calledThroughT mptScope mptInfo "ChangeCollectorI").contains n) = true ∧
    ["Get", "Set", "Remove"].all (fun n => (calledThroughT mptScope mptInfo "*statecache.TransactionCache").contains n) = true ∧
    -- a LevelNodeDB calls the stores below it
    ["GetNode", "PutNode", "DeleteNode"].all (fun n => (calledThroughT levelNodeDB levelNodeDBInfo "NodeDB").contains n) = true ∧
    -- MergeMPTChanges reaches the store, and the store table has entry points that write under the store's lock
    ["PutNode", "DeleteNode"].all (fun n => (calledThroughT [mpt_MergeMPTChanges] mptInfo "NodeDB").contains n) = true ∧
    levelNodeDB.any (fun x => x.exported && x.accesses.any (fun a => plainWriteKind a.kind && a.mode == .write)) = true ∧
    -- the footprint contains the store state accessed under both lock modes, the collector state, the node cache state
    ({ loc := 1000 + dbF, write := true, sub := 2000 + dbF, held := some .W } : FAcc) ∈ footprint mptScope ∧
    ({ loc := 1000 + dbF, write := true, sub := 2000 + dbF, held := some .R } : FAcc) ∈ footprint mptScope ∧
    ({ loc := 1000 + ccF, write := true, sub := 2000 + ccF, held := some .W } : FAcc) ∈ footprint mptScope ∧
    ({ loc := rootF, write := true, sub := 0, held := some .W } : FAcc) ∈ footprint mptScope ∧
    -- `iterateFrom_status` and `no_record_escapes` are not about empty lists: IterateFrom has accesses, the collector
    -- has a container of record pointers (the only kind of field `elemEscapes` looks at)
    !mpt_IterateFrom.accesses.isEmpty = true ∧
    changeCollectorInfo.fieldTypes.any (fun t => t.startsWith "map[string]*") = true ∧
    -- the missing-key list is accessed (so the sub-lock conjunct of `mpt_pinned` is not about an empty list)
    !(mpt_GetNodeValueRaw.accesses.filter (fun a => a.fid == missF)).isEmpty = true ∧
    ({ loc := missF, write := true, sub := missMuF, held := some .R } : FAcc) ∈ footprint mptScope := by
  decide +kernel

/-! ## the original code (commit 70d872e) -/

/-- hand-copied from the table the extractor produces for commit 70d872e: `getNode` appended to `missingNodeKeys`
with no lock of its own, and the exported reader `GetNodeValueRaw` reached it holding only the READ lock (stated over the
exported method with its helpers inlined, so that it does not depend on helper names) -/
def oldGetNodeValueRaw : Method :=
  { mpt_GetNodeValueRaw with
      accesses := mpt_GetNodeValueRaw.accesses.map (fun a => if a.fid == missF then unsub a else a) }

def mptOld : List Method := [oldGetNodeValueRaw]

theorem mptOld_not_ok : ¬ TableOK mptOld := by decide +kernel

/-- with the old `GetNodeValueRaw` in place of the new one the claimed scope is not OK either -/
theorem mptOld_scope_not_ok :
    ¬ TableOK (mptScope.map (fun m => if m.name == "GetNodeValueRaw" then oldGetNodeValueRaw else m)) := by
  decide +kernel


/-- the old footprint admits a race IN THE MODEL: two readers (`GetNodeValueRaw` running into absent nodes),
both holding the read lock, both about to append to `missingNodeKeys` (location 6, no sub-lock) -/
def oldReader : Prog Nat Unit := .acq .R (.wr missF 0 1 (.rel (.ret ())))

def oldScripts : Tid → List (Prog Nat Unit)
  | 0 => [oldReader]
  | 1 => [oldReader]
  | _ => []

theorem old_table_admits_race :
    (∀ t p, p ∈ oldScripts t → Conf (footprint mptOld) none p) ∧
    ∃ c, Reachable oldScripts (fun _ => 0) c ∧ Race c := by
  constructor
  · intro t p hp
    have hp' : p = oldReader := by
      match t, hp with
      | 0, hp => simpa [oldScripts] using hp
      | 1, hp => simpa [oldScripts] using hp
      | n + 2, hp => simp [oldScripts] at hp
    subst hp'
    have hmem : ({ loc := missF, write := true, sub := 0, held := some .R } : FAcc) ∈ footprint mptOld := by decide +kernel
    simp [oldReader, Conf, hmem]
  · have adm0 : Admit (((init oldScripts (fun _ => 0)).set 0
        { (init oldScripts (fun _ => (0 : Nat))).thr 0 with todo := [], cur := some oldReader })) 0 .R := by
      intro u hu; simp [thr_set, hu, init]
    refine ⟨_, ⟨[0, 0, 1, 1],
      .cons (.call (p := oldReader) (rest := []) rfl rfl)
        (.cons (.acq (m := .R) (k := .wr missF 0 1 (.rel (.ret ()))) rfl rfl adm0)
          (.cons (.call (p := oldReader) (rest := []) rfl rfl)
            (.cons (.acq (m := .R) (k := .wr missF 0 1 (.rel (.ret ()))) rfl rfl ?adm1) .nil)))⟩, ?race⟩
    case adm1 =>
      intro u hu
      by_cases h0 : u = 0
      · subst h0; simp [thr_set]
      · simp [thr_set, hu, h0, init]
    case race =>
      exact ⟨0, 1, ⟨missF, true, 0, some .R⟩, ⟨missF, true, 0, some .R⟩, by decide,
        .inr ⟨1, .rel (.ret ()), rfl, rfl, rfl, rfl⟩, .inr ⟨1, .rel (.ret ()), rfl, rfl, rfl, rfl⟩, rfl, .inl rfl⟩


/-! ## what callers do with returned change sets (fixed defect 4d3d8c8, was finding C16-getchanges-escape)

Until commit 4d3d8c8 `ChangeCollector.GetChanges` returned the collector's own `*NodeChange` records, which
`AddChange` (called by every insert, under the trie's WRITE lock and the collector's own lock) updates in place: a
caller reading a returned record — holding neither lock — raced with a concurrent insert. The extractor records
such hand-outs syntactically (`Method.elemEscapes`: an element POINTER of a `map[..]*T` / `[]*T` field returned or
stored outside the receiver as it is), and `callerAccesses` turns each into the caller-side access of the model:
an unlocked read of the collector state (location `1000 + 4`).

The FULL statement — the lockset discipline covers the methods' own accesses AND what callers do with the
records they were handed — now holds for the regenerated table (`C16_full_holds`): `GetChanges` hands out copies,
no method of the collector or of the trie lets a record pointer escape. For the pre-fix `GetChanges` it is false
(`C16_full_old_false`).

What remains a hypothesis (not derivable from the table): the NODE objects the copied records and `GetDeletes`
refer to are shared, but no method writes a node after it has been handed to the collector / store (nodes are
immutable once published). The suite's `changesread` operation reads those nodes' hashes under the race detector. -/

/-- full statement: the lockset discipline holds for the methods' accesses together with the callers' reads of
every record a collector method hands out while it stays shared -/
def C16_full (collector : List Method) : Prop :=
  LocksetOK (callerAccesses ccF collector ++ footprint mptScope)

/-- no method of the collector or of the trie hands out a pointer to one of its own records -/
theorem no_record_escapes :
    (changeCollector ++ mpt).all (fun m => m.elemEscapes.isEmpty) = true := by decide +kernel

theorem C16_full_holds : C16_full changeCollector := by
  have h : callerAccesses ccF changeCollector = [] := by decide +kernel
  unfold C16_full
  rw [h]
  exact lockset_of_fpOK (fpOK_of_tableOK mpt_table_ok)

/-- `GetChanges` as the extractor reads it before 4d3d8c8 (hand-copied: `changes[idx] = v` for `v` ranging over
`cc.Changes`) -/
def oldGetChanges : Method := { changeCollector_GetChanges with elemEscapes := ["Changes"] }

theorem C16_full_old_false : ¬ C16_full [oldGetChanges] := by
  intro h
  have hcaller : callerAccesses ccF [oldGetChanges] = [{ loc := 1000 + ccF, write := false, sub := 0, held := none }] := by
    decide +kernel
  unfold C16_full at h
  rw [hcaller] at h
  have hmem : ({ loc := 1000 + ccF, write := true, sub := 2000 + ccF, held := some .W } : FAcc) ∈
      [({ loc := 1000 + ccF, write := false, sub := 0, held := none } : FAcc)] ++ footprint mptScope :=
    List.mem_append_right _ (by decide +kernel)
  have := h { loc := 1000 + ccF, write := false, sub := 0, held := none } (by simp) _ hmem rfl (.inr rfl)
  simp [Protected] at this

/-! ## non-vacuity: the hypotheses of `no_conflict` / `lin_of_table` are satisfiable over the regenerated table
by a non-trivial instance: a writer that replaces the root (location 2) under the write lock, and a reader that
reads the root under the read lock, records a missing key (location 6 under sub-lock 7 = `missingMutex`) and
returns what it read -/

def exScripts : Tid → List (Prog Nat Nat)
  | 0 => [ .acq .W (.wr rootF 0 5 (.rel (.ret 0))) ]
  | 1 => [ .acq .R (.rd rootF 0 (fun v => .wr missF missMuF v (.rel (.ret v)))) ]
  | _ => []

theorem root_not_bookkeeping : ¬ bkOf (footprint mptScope) rootF := by
  unfold bkOf
  decide +kernel

example :
    (∀ t p, p ∈ exScripts t → Conf (footprint mptScope) none p) ∧
    (∀ t p, p ∈ exScripts t → ∃ m k, p = .acq m k ∧ BodyOK k) ∧
    (∀ t p, p ∈ exScripts t → Oblivious (bkOf (footprint mptScope)) p) := by
  have hW : ({ loc := rootF, write := true, sub := 0, held := some .W } : FAcc) ∈ footprint mptScope := by decide +kernel
  have hR : ({ loc := rootF, write := false, sub := 0, held := some .R } : FAcc) ∈ footprint mptScope := by decide +kernel
  have hM : ({ loc := missF, write := true, sub := missMuF, held := some .R } : FAcc) ∈ footprint mptScope := by decide +kernel
  have cases3 : ∀ t p, p ∈ exScripts t →
      p = .acq .W (.wr rootF 0 5 (.rel (.ret 0))) ∨ p = .acq .R (.rd rootF 0 (fun v => .wr missF missMuF v (.rel (.ret v)))) := by
    intro t p hp
    match t, hp with
    | 0, hp => simp [exScripts] at hp; exact .inl hp
    | 1, hp => simp [exScripts] at hp; exact .inr hp
    | n + 2, hp => simp [exScripts] at hp
  refine ⟨?_, ?_, ?_⟩
  · intro t p hp
    rcases cases3 t p hp with rfl | rfl
    · simp [Conf, hW]
    · simp [Conf, hR, hM]
  · intro t p hp
    rcases cases3 t p hp with rfl | rfl
    · exact ⟨_, _, rfl, by simp [BodyOK]⟩
    · exact ⟨_, _, rfl, by simp [BodyOK]⟩
  · intro t p hp
    rcases cases3 t p hp with rfl | rfl
    · simp [Oblivious]
    · simp [Oblivious]
      exact fun hb => absurd hb root_not_bookkeeping

end Verif.Props.C16
