/-
C16 — Concurrent use of one state trie is linearizable and race-free.

What is proved here (all for the abstract RW-lock discipline model `Verif.Model.RWDiscipline`, for ALL schedules):

* `no_conflict`    a method table satisfying `TableOK` ⇒ no reachable configuration has two threads simultaneously
                   about to access the same location, one of them writing (the model-level "no data race");
* `lin_of_table`   … and every execution is equivalent to the sequential execution of the operations in
                   lock-acquisition order: same results, same main memory at every quiescent point, each operation
                   entered into that order between its call and its return (so the order respects real time);
* `mpt_table_ok`   the table REGENERATED from core/util/merkle_patricia_trie.go by go/extract satisfies `TableOK`
                   (for the operations the property names; the three exported methods that do not are pinned);
* `mptOld_not_ok`, `old_table_admits_race`   the table of the original code (commit 70d872e: `missingNodeKeys`
                   appended under the read lock only) does not, and its footprint admits a race in the model.

The tie to the Go code is the regenerated table (T2) plus the supporting race-detector / porcupine runs of the Go
suite `c16`. Not modelled: the Go memory model at instruction level. See notes/C16.md.
-/
import Verif.Gen.LockFacts
import Verif.Lemmas.RWDiscipline

namespace Verif.Props.C16
open Verif.RW Verif.Gen.LockFacts

/-! ## from the generated table to the model's footprint -/

def modeOf : LockMode → Option Mode
  | .read => some .R
  | .write => some .W
  | _ => none

def isWriteKind : AccKind → Bool
  | .read | .atomicLoad => false
  | _ => true

def isAtomicKind : AccKind → Bool
  | .atomicLoad | .atomicStore => true
  | _ => false

/-- Locations: field `i` of the receiver is location `i`; the state of the object behind field `i` (reached by a
method call through the field) is location `1000+i`, guarded by that object's own internal lock, sub-lock
`2000+i` (the objects are the node store, the change collector and the node cache, whose own tables are checked
below); an atomic access to field `i` is an access under the pseudo sub-lock `3000+i`. -/
def toFAcc (a : Access) : FAcc :=
  match a.kind with
  | .call => { loc := 1000 + a.fid, write := true, sub := 2000 + a.fid, held := modeOf a.mode }
  | .innerWrite => { loc := 1000 + a.fid, write := true, sub := a.subId, held := modeOf a.mode }
  | .atomicLoad => { loc := a.fid, write := false, sub := 3000 + a.fid, held := modeOf a.mode }
  | .atomicStore => { loc := a.fid, write := true, sub := 3000 + a.fid, held := modeOf a.mode }
  | k => { loc := a.fid, write := isWriteKind k, sub := a.subId, held := modeOf a.mode }

def footprint (tbl : List Method) : List FAcc := tbl.flatMap (fun m => m.accesses.map toFAcc)

/-- no access of the table writes location `l` -/
def frozenL (fp : List FAcc) (l : Nat) : Bool := fp.all (fun x => x.loc != l || !x.write)

/-- every access of the table to location `l` is under sub-lock `s` -/
def sameSub (fp : List FAcc) (l s : Nat) : Bool := fp.all (fun x => x.loc != l || x.sub == s)

def locked (a : Access) : Bool := a.mode == .read || a.mode == .write

/-- (0) the extractor recognised the method: lock shape known, the lock is not re-acquired while held, one call
enters at most one critical section, every access classified -/
def shapeOK (m : Method) : Bool :=
  (m.lock == .read || m.lock == .write || m.lock == .none) && !m.reentrant && m.sections ≤ 1 &&
  m.accesses.all (fun a => a.kind != .unknown && a.fid != 0)

/-- (1) the method holds its lock for its whole body: whatever its own goroutine touches without the lock is a
read of a field nobody writes, or an atomic access to a field that is accessed atomically only -/
def wholeBody (fp : List FAcc) (m : Method) : Bool :=
  m.accesses.all (fun a => a.goroutine != 0 || locked a ||
    (!(toFAcc a).write && frozenL fp (toFAcc a).loc) ||
    (isAtomicKind a.kind && (toFAcc a).sub != 0 && sameSub fp (toFAcc a).loc (toFAcc a).sub))

/-- (2) every location written while the lock is not held in W mode is protected by its own sub-lock, in all
its writes and all its reads -/
def subProtected (fp : List FAcc) (m : Method) : Bool :=
  m.accesses.all (fun a => !(toFAcc a).write || a.mode == .write ||
    ((toFAcc a).sub != 0 && sameSub fp (toFAcc a).loc (toFAcc a).sub))

/-- (3) a goroutine spawned by the method may outlive the body (and the lock): it touches receiver state only
by reading fields nobody writes -/
def noEscape (fp : List FAcc) (m : Method) : Bool :=
  m.accesses.all (fun a => a.goroutine == 0 || (!(toFAcc a).write && frozenL fp (toFAcc a).loc))

def tableOK (tbl : List Method) : Bool :=
  tbl.all (fun m => shapeOK m && wholeBody (footprint tbl) m && subProtected (footprint tbl) m && noEscape (footprint tbl) m)

/-- the lock discipline of a method table -/
def TableOK (tbl : List Method) : Prop := tableOK tbl = true

instance (tbl : List Method) : Decidable (TableOK tbl) := inferInstanceAs (Decidable (tableOK tbl = true))

/-! ## TableOK ⇒ lockset discipline of the footprint -/

theorem toFAcc_held (a : Access) : (toFAcc a).held = modeOf a.mode := by
  unfold toFAcc; cases a.kind <;> rfl

theorem frozenL_spec {fp : List FAcc} {l : Nat} (h : frozenL fp l = true) : ∀ x, x ∈ fp → x.loc = l → x.write = false := by
  intro x hx hl
  have := (List.all_eq_true.1 h) x hx
  simp [hl] at this; exact this

theorem sameSub_spec {fp : List FAcc} {l s : Nat} (h : sameSub fp l s = true) : ∀ x, x ∈ fp → x.loc = l → x.sub = s := by
  intro x hx hl
  have := (List.all_eq_true.1 h) x hx
  simp [hl] at this; exact this

theorem mem_footprint {tbl : List Method} {f : FAcc} (h : f ∈ footprint tbl) :
    ∃ m, m ∈ tbl ∧ ∃ a, a ∈ m.accesses ∧ toFAcc a = f := by
  simp only [footprint, List.mem_flatMap, List.mem_map] at h
  exact h

/-- the two facts about a footprint that the lockset discipline needs -/
structure FpOK (fp : List FAcc) : Prop where
  unlocked : ∀ a, a ∈ fp → a.held = none →
    (a.write = false ∧ ∀ x, x ∈ fp → x.loc = a.loc → x.write = false) ∨ (a.sub ≠ 0 ∧ ∀ x, x ∈ fp → x.loc = a.loc → x.sub = a.sub)
  subProt : ∀ a, a ∈ fp → a.write = true → a.held ≠ some .W → a.sub ≠ 0 ∧ ∀ x, x ∈ fp → x.loc = a.loc → x.sub = a.sub

theorem fpOK_of_tableOK {tbl : List Method} (h : TableOK tbl) : FpOK (footprint tbl) := by
  have hall := List.all_eq_true.1 h
  constructor
  · intro f hf hheld
    obtain ⟨m, hm, a, ha, rfl⟩ := mem_footprint hf
    have hmOK := hall m hm
    simp only [Bool.and_eq_true] at hmOK
    obtain ⟨⟨⟨_, hwb⟩, hsp⟩, hne⟩ := hmOK
    have hnl : locked a = false := by
      rw [toFAcc_held] at hheld
      unfold locked
      cases hmode : a.mode <;> simp_all [modeOf]
    by_cases hg : a.goroutine = 0
    · have := (List.all_eq_true.1 hwb) a ha
      simp only [hnl, hg, Bool.or_eq_true, Bool.and_eq_true, bne_iff_ne, ne_eq, not_true_eq_false,
        Bool.false_eq_true, false_or, Bool.not_eq_true'] at this
      rcases this with ⟨h1, h2⟩ | ⟨⟨_, h1⟩, h2⟩
      · exact .inl ⟨h1, frozenL_spec h2⟩
      · exact .inr ⟨h1, sameSub_spec h2⟩
    · have := (List.all_eq_true.1 hne) a ha
      simp only [Bool.or_eq_true, beq_iff_eq, hg, false_or, Bool.and_eq_true, Bool.not_eq_true'] at this
      exact .inl ⟨this.1, frozenL_spec this.2⟩
  · intro f hf hw hnW
    obtain ⟨m, hm, a, ha, rfl⟩ := mem_footprint hf
    have hmOK := hall m hm
    simp only [Bool.and_eq_true] at hmOK
    obtain ⟨⟨⟨_, _⟩, hsp⟩, _⟩ := hmOK
    have hmw : (a.mode == LockMode.write) = false := by
      rw [toFAcc_held] at hnW
      cases hmode : a.mode <;> simp_all [modeOf]
    have := (List.all_eq_true.1 hsp) a ha
    simp only [hw, hmw, Bool.not_true, Bool.false_or, Bool.and_eq_true, bne_iff_ne, ne_eq] at this
    exact ⟨this.1, sameSub_spec this.2⟩

theorem lockset_of_fpOK {fp : List FAcc} (h : FpOK fp) : LocksetOK fp := by
  intro a ha b hb hloc hw
  -- it suffices to treat "a writes"; the other case is symmetric
  have key : ∀ a b : FAcc, a ∈ fp → b ∈ fp → a.loc = b.loc → a.write = true → Protected a b := by
    intro a b ha hb hloc hwa
    by_cases haW : a.held = some .W
    · by_cases hbn : b.held = none
      · rcases h.unlocked b hb hbn with ⟨_, hfz⟩ | ⟨hs, hss⟩
        · have := hfz a ha hloc; rw [hwa] at this; cases this
        · exact .inr (.inr ⟨by rw [hss a ha hloc]; exact hs, hss a ha hloc⟩)
      · exact .inl ⟨haW, hbn⟩
    · obtain ⟨hs, hss⟩ := h.subProt a ha hwa haW
      exact .inr (.inr ⟨hs, (hss b hb hloc.symm).symm⟩)
  rcases hw with hwa | hwb
  · exact key a b ha hb hloc hwa
  · rcases key b a hb ha hloc.symm hwb with h1 | h1 | ⟨h1, h2⟩
    · exact .inr (.inl h1)
    · exact .inl h1
    · exact .inr (.inr ⟨by rw [← h2]; exact h1, h2.symm⟩)

/-! ## the two model theorems -/

variable {V ρ : Type}

/-- **No data race in the model.** If the method table satisfies `TableOK` and every operation of every thread
performs only accesses listed in the table, each in the listed lock context (`Conf`), then in every
configuration reachable under ANY schedule admitted by the RW lock no two threads are simultaneously about to
access the same location with at least one of them writing. -/
theorem no_conflict (tbl : List Method) (h : TableOK tbl)
    (scripts : Tid → List (Prog V ρ)) (mem0 : Loc → V)
    (hconf : ∀ t p, p ∈ scripts t → Conf (footprint tbl) none p) :
    ∀ c, Reachable scripts mem0 c → ¬ Race c := by
  rintro c ⟨s, ex⟩
  exact ((SafeInv.init hconf).exec ex).no_race (lockset_of_fpOK (fpOK_of_tableOK h))

/-- bookkeeping locations of a footprint: those written while the main lock is not held in W mode (for the trie:
the missing-node key list and the internally locked node cache / store / collector objects) -/
def bkOf (fp : List FAcc) : Loc → Prop := fun l => ∃ a, a ∈ fp ∧ a.loc = l ∧ a.write = true ∧ a.held ≠ some .W

theorem writesOnly_of_conf {fp : List FAcc} (k : Prog V ρ) : Conf fp (some .R) k → BodyOK k → WritesOnly (bkOf fp) k := by
  induction k with
  | ret r => intro _ hb; simp only [BodyOK] at hb
  | rd l s k ih => intro hc hb; simp only [Conf] at hc; simp only [BodyOK] at hb; simp only [WritesOnly]; exact fun v => ih v (hc.2 v) (hb v)
  | wr l s v k ih =>
    intro hc hb; simp only [Conf] at hc; simp only [BodyOK] at hb; simp only [WritesOnly]
    exact ⟨⟨_, hc.1, rfl, rfl, by simp⟩, ih hc.2 hb⟩
  | acq m k ih => intro _ hb; simp only [BodyOK] at hb
  | rel k ih =>
    intro _ hb; simp only [BodyOK] at hb
    obtain ⟨r, rfl⟩ := hb
    simp only [WritesOnly]

/-- **Linearizability in the model.** Scripts of operations that conform to a `TableOK` table, each consisting
of one critical section (`acq m; body; rel; ret` — what `sections = 1` and "whole body" certify for the real
methods) and not letting their result depend on the bookkeeping locations. Then for every configuration `c`
reachable under ANY admitted schedule, with `c.lin` the operations in lock-acquisition order:

1. running the logged operations sequentially, in that order, from the initial memory yields exactly the results
   predicted at the acquisitions (`seqRun … = c.lin.map pred`);
2. every thread's returned results are the predicted results of its own log entries, in order, the entry of an
   operation still in progress being the last one: an operation enters the log after its call and before its
   return, so the log order respects real time (together with `Exec.lin_prefix`: the log only grows at its end);
3. whenever no writer is inside its critical section (in particular in every quiescent and every final
   configuration) the main memory equals the memory of the sequential run;
4. no configuration on the way has a race. -/
theorem lin_of_table (tbl : List Method) (h : TableOK tbl)
    (scripts : Tid → List (Prog V ρ)) (mem0 : Loc → V)
    (hconf : ∀ t p, p ∈ scripts t → Conf (footprint tbl) none p)
    (hshape : ∀ t p, p ∈ scripts t → ∃ m k, p = .acq m k ∧ BodyOK k)
    (hobl : ∀ t p, p ∈ scripts t → Oblivious (bkOf (footprint tbl)) p) :
    ∀ c, Reachable scripts mem0 c →
      (seqRun c.lin mem0).2 = c.lin.map (·.pred) ∧
      (∀ t, (c.lin.filter (fun e => e.tid == t)).map (·.pred) = (c.thr t).done ++ (c.thr t).pred.toList) ∧
      ((∀ t, (c.thr t).main ≠ some .W) → AgreeMain (bkOf (footprint tbl)) (seqRun c.lin mem0).1 c.mem) ∧
      ¬ Race c := by
  rintro c ⟨s, ex⟩
  have hop : ∀ t p, p ∈ scripts t → OpOK (bkOf (footprint tbl)) p := by
    intro t p hp
    obtain ⟨m, k, rfl, hb⟩ := hshape t p hp
    have hc := hconf t _ hp
    simp only [Conf] at hc
    have ho := hobl t _ hp
    simp only [Oblivious] at ho
    refine ⟨m, k, rfl, hb, ?_, ho⟩
    intro hm; subst hm
    exact writesOnly_of_conf k hc.2 hb
  have inv := (LinInv.init (mem0 := mem0) hop).exec ex
  exact ⟨inv.results, inv.perThread, fun hn => inv.futMem c.mem (.inr ⟨hn, rfl⟩),
    no_conflict tbl h scripts mem0 hconf c ⟨s, ex⟩⟩

/-- the log is append-only along every execution (real-time order, part 2 of `lin_of_table`) -/
theorem lin_append_only {c c' : Config V ρ} {s : List Tid} (ex : Exec c s c') : ∃ suf, c'.lin = c.lin ++ suf :=
  ex.lin_prefix

/-! ## the obligation over the REGENERATED table -/

/-- exported methods of the trie that are NOT claimed: `SetVersion` stores `Version` atomically while every
other method reads it plainly (it must not run concurrently with anything — it is not among the operations the
property names); `IterateFrom` traverses without the lock; `MergeMPTChanges` enters three critical sections
(reads root and store, then locks) and writes a field of the store object without the store's lock. -/
def outOfScope : List String := ["SetVersion", "IterateFrom", "MergeMPTChanges"]

/-- the claimed operations: every other exported method of `MerklePatriciaTrie` (with its callee closure) -/
def mptScope : List Method := mpt.filter (fun m => m.exported && !outOfScope.contains m.name)

/-- **The regenerated table of `MerklePatriciaTrie` satisfies the lock discipline.** Fails to build when, in the
Go source, an exported method stops holding `mutex` for its whole body, a field written under the read lock loses
its own mutex (the pre-fix `missingNodeKeys`), a goroutine touches mutable receiver state, or the extractor meets
something it cannot classify. -/
theorem mpt_table_ok : TableOK mptScope := by decide +kernel

/-- the operations the property names are in the claimed scope, and nothing new is silently left out:
the exported methods outside the scope are exactly the three documented ones -/
theorem mpt_scope_pinned :
    (mpt.filter (fun m => m.exported && outOfScope.contains m.name)).map (·.name) = outOfScope ∧
    ["Insert", "Delete", "GetNodeValueRaw", "GetNodeValue", "Iterate", "GetChanges", "GetChangeCount", "GetDeletes",
      "SaveChanges", "GetRoot", "GetMissingNodeKeys"].all (fun n => (mptScope.map (·.name)).contains n) = true := by
  decide +kernel

/-- each excluded method really breaks the discipline when added (so the exclusion is not a convenience) -/
theorem mpt_excluded_break :
    ¬ TableOK (mpt_SetVersion :: mptScope) ∧ ¬ TableOK (mpt_IterateFrom :: mptScope) ∧
    ¬ TableOK (mpt_MergeMPTChanges :: mptScope) := by decide +kernel

/-- pinned reading of the extractor output (DESIGN.md §3.2): `GetNodeValueRaw` holds the read lock to the end of
its body, `Insert`/`Delete` the write lock, `SaveChanges` spawns one goroutine that touches only `Version` -/
theorem mpt_pinned :
    mpt_GetNodeValueRaw.lock = .read ∧ mpt_GetNodeValueRaw.deferred = true ∧ mpt_GetNodeValueRaw.mutex = "mutex" ∧
    mpt_Insert.lock = .write ∧ mpt_Delete.lock = .write ∧ mpt_Iterate.lock = .read ∧
    mpt_GetChanges.lock = .read ∧ mpt_GetChangeCount.lock = .read ∧ mpt_SaveChanges.lock = .read ∧
    mpt_SaveChanges.goroutines.map (·.fields) = [["Version"]] ∧
    (mpt_GetNodeValueRaw.accesses.filter (fun a => a.field == "missingNodeKeys")).all (fun a => a.sub == "missingMutex") = true := by
  decide +kernel

/-- the objects reached through fields are internally synchronised: every exported method of the change
collector and of the two in-memory node stores holds that object's own lock for its whole body (this is what
sub-lock `2000+i` of `toFAcc` stands for); for the node cache, the methods the trie calls -/
theorem callee_tables_ok :
    TableOK (changeCollector.filter (·.exported)) ∧ TableOK (memoryNodeDB.filter (·.exported)) ∧
    TableOK (levelNodeDB.filter (·.exported)) ∧
    TableOK [transactionCache_Get, transactionCache_Set, transactionCache_Remove, transactionCache_AddHit, transactionCache_AddMiss] := by
  decide +kernel

/-! ## the original code (commit 70d872e) -/

/-- strip the sub-lock from an access (the pre-fix code had no `missingMutex`) -/
def unsub (a : Access) : Access := { a with sub := "", subId := 0 }

/-- hand-copied from the table the extractor produces for commit 70d872e: `addMissingNodeKeys` appended to
`missingNodeKeys` with no lock of its own ... -/
def oldAddMissingNodeKeys : Method :=
  { mpt_addMissingNodeKeys with
      lock := .none, mutex := "", regionStmts := 0,
      accesses := [
        { field := "missingNodeKeys", fid := 6, kind := .append, mode := .none, sub := "", subId := 0, callee := "", via := "", goroutine := 0, line := 79 },
        { field := "missingNodeKeys", fid := 6, kind := .read, mode := .none, sub := "", subId := 0, callee := "", via := "", goroutine := 0, line := 79 } ] }

/-- ... and the exported reader `GetNodeValueRaw` reached it through `getNode` holding only the READ lock -/
def oldGetNodeValueRaw : Method :=
  { mpt_GetNodeValueRaw with
      accesses := mpt_GetNodeValueRaw.accesses.map (fun a => if a.fid == 6 then unsub a else a) }

def mptOld : List Method := [oldAddMissingNodeKeys, oldGetNodeValueRaw]

theorem mptOld_not_ok : ¬ TableOK mptOld := by decide +kernel

/-- with the old `GetNodeValueRaw` in place of the new one the claimed scope is not OK either -/
theorem mptOld_scope_not_ok :
    ¬ TableOK (mptScope.map (fun m => if m.name == "GetNodeValueRaw" then oldGetNodeValueRaw else m)) := by
  decide +kernel


/-- the old footprint admits a race IN THE MODEL: two readers (`GetNodeValueRaw` running into absent nodes),
both holding the read lock, both about to append to `missingNodeKeys` (location 6, no sub-lock) -/
def oldReader : Prog Nat Unit := .acq .R (.wr 6 0 1 (.rel (.ret ())))

def oldScripts : Tid → List (Prog Nat Unit)
  | 0 => [oldReader]
  | 1 => [oldReader]
  | _ => []

theorem old_table_admits_race :
    (∀ t p, p ∈ oldScripts t → Conf (footprint mptOld) none p) ∧
    ∃ c, Reachable oldScripts (fun _ => 0) c ∧ Race c := by
  constructor
  · intro t p hp
    have hp' : p = oldReader := by
      match t, hp with
      | 0, hp => simpa [oldScripts] using hp
      | 1, hp => simpa [oldScripts] using hp
      | n + 2, hp => simp [oldScripts] at hp
    subst hp'
    have hmem : ({ loc := 6, write := true, sub := 0, held := some .R } : FAcc) ∈ footprint mptOld := by decide +kernel
    simp [oldReader, Conf, hmem]
  · have adm0 : Admit (((init oldScripts (fun _ => 0)).set 0
        { (init oldScripts (fun _ => (0 : Nat))).thr 0 with todo := [], cur := some oldReader })) 0 .R := by
      intro u hu; simp [thr_set, hu, init]
    refine ⟨_, ⟨[0, 0, 1, 1],
      .cons (.call (p := oldReader) (rest := []) rfl rfl)
        (.cons (.acq (m := .R) (k := .wr 6 0 1 (.rel (.ret ()))) rfl rfl adm0)
          (.cons (.call (p := oldReader) (rest := []) rfl rfl)
            (.cons (.acq (m := .R) (k := .wr 6 0 1 (.rel (.ret ()))) rfl rfl ?adm1) .nil)))⟩, ?race⟩
    case adm1 =>
      intro u hu
      by_cases h0 : u = 0
      · subst h0; simp [thr_set]
      · simp [thr_set, hu, h0, init]
    case race =>
      exact ⟨0, 1, ⟨6, true, 0, some .R⟩, ⟨6, true, 0, some .R⟩, by decide,
        .inr ⟨1, .rel (.ret ()), rfl, rfl, rfl, rfl⟩, .inr ⟨1, .rel (.ret ()), rfl, rfl, rfl, rfl⟩, rfl, .inl rfl⟩

/-! ## non-vacuity: the hypotheses of `no_conflict` / `lin_of_table` are satisfiable over the regenerated table
by a non-trivial instance: a writer that replaces the root (location 2) under the write lock, and a reader that
reads the root under the read lock, records a missing key (location 6 under sub-lock 7 = `missingMutex`) and
returns what it read -/

def exScripts : Tid → List (Prog Nat Nat)
  | 0 => [ .acq .W (.wr 2 0 5 (.rel (.ret 0))) ]
  | 1 => [ .acq .R (.rd 2 0 (fun v => .wr 6 7 v (.rel (.ret v)))) ]
  | _ => []

theorem root_not_bookkeeping : ¬ bkOf (footprint mptScope) 2 := by
  unfold bkOf
  decide +kernel

example :
    (∀ t p, p ∈ exScripts t → Conf (footprint mptScope) none p) ∧
    (∀ t p, p ∈ exScripts t → ∃ m k, p = .acq m k ∧ BodyOK k) ∧
    (∀ t p, p ∈ exScripts t → Oblivious (bkOf (footprint mptScope)) p) := by
  have hW : ({ loc := 2, write := true, sub := 0, held := some .W } : FAcc) ∈ footprint mptScope := by decide +kernel
  have hR : ({ loc := 2, write := false, sub := 0, held := some .R } : FAcc) ∈ footprint mptScope := by decide +kernel
  have hM : ({ loc := 6, write := true, sub := 7, held := some .R } : FAcc) ∈ footprint mptScope := by decide +kernel
  have cases3 : ∀ t p, p ∈ exScripts t →
      p = .acq .W (.wr 2 0 5 (.rel (.ret 0))) ∨ p = .acq .R (.rd 2 0 (fun v => .wr 6 7 v (.rel (.ret v)))) := by
    intro t p hp
    match t, hp with
    | 0, hp => simp [exScripts] at hp; exact .inl hp
    | 1, hp => simp [exScripts] at hp; exact .inr hp
    | n + 2, hp => simp [exScripts] at hp
  refine ⟨?_, ?_, ?_⟩
  · intro t p hp
    rcases cases3 t p hp with rfl | rfl
    · simp [Conf, hW]
    · simp [Conf, hR, hM]
  · intro t p hp
    rcases cases3 t p hp with rfl | rfl
    · exact ⟨_, _, rfl, by simp [BodyOK]⟩
    · exact ⟨_, _, rfl, by simp [BodyOK]⟩
  · intro t p hp
    rcases cases3 t p hp with rfl | rfl
    · simp [Oblivious]
    · simp [Oblivious]
      exact fun hb => absurd hb root_not_bookkeeping

end Verif.Props.C16
