/-
C10 — block proofs verify for the honest trie and cannot be forged.

`PT.proofPairs H t b` is the honest proof (the persisted nodes on the weight-ordered descent for block b),
`verifyPairs H pairs b` the model of `VerifyBlockProof` after the CBOR layer.

Soundness is stated as a reduction to collision finding over an EXPLICIT finite list of hashed inputs
(`t.pathInputs H b ++ verifyInputs H ps b`: what the honest trie hashes on the path of b, and what the verifier
recomputes), so that no unsatisfiable "H is injective" hypothesis is needed:

  C10_complete     every honest proof verifies to (hash of the trie, value of the block's owner) — all tries, all blocks
  C10_complete_model   the same on the implementation-shaped model, bytes included: GetBlockProof on a trie in any state
                   (dirty, clean, collapsed to references) + VerifyBlockProof of the returned bytes
  C10_sound        (def) accepted proof for the trusted root ⇒ it returns the true owner's value, or a collision is
                   exhibited among the listed inputs
  C10_sound_partial  soundness under `Faithful` (node kinds and claimed child weights on the path are the true ones —
                   a sufficient condition that rules out both findings — much stronger than their complement); `honest_is_faithful`: the hypothesis is satisfiable
  C10_sound_false_weights / C10_sound_false_kind
                   the full statement is FALSE: two concrete forged proofs (toy hash, no collision among the inputs)
                   — the open findings C10-forged-child-weights and C10-node-kind-confusion
-/
import Verif.Lemmas.WmptSound
import Verif.Lemmas.WmptSpec
import Verif.Lemmas.WmptProofBytes
namespace Verif.Props.C10
open Verif.Wmpt

/-- Completeness: for every trie (any shape, any size), every hash function with 32-byte outputs and every block
    number 1..total weight, the honest proof verifies; verification yields the hash of the trie and the value of the
    entry whose cumulative-weight interval contains the block. -/
theorem C10_complete (H : Bytes → Bytes) (hlen : ∀ x, (H x).length = 32) (t : PT) (b : Nat)
    (hb1 : 1 ≤ b) (hb : b ≤ t.weight) (hw : t.weight < 2 ^ 64) (hkn : KeysNib t) :
    ∃ k v, ownerSpec t.entries b = some (k, v) ∧
      verifyPairs H ((t.proofPairs H b).map PairD.ok) b = .ok (t.hash H, v) := by
  obtain ⟨n, k, v, ho, hv, _, hh, _⟩ := verify_honest H hlen t b [] hb1 hb hw hkn
  rw [owner_eq_ownerSpec t b hb1 hb] at ho
  refine ⟨k, v, ho, ?_⟩
  simp only [List.append_nil] at hv
  have hne : (t.proofPairs H b).map PairD.ok ≠ [] := by
    intro he
    rw [he] at hv
    simp [verifyProof] at hv
  simp [verifyPairs, hne, hv, hh]

/-- Completeness on the implementation-shaped model, bytes included: for a trie in ANY state (in-memory nodes, dirty or
    clean, references into storage; `RepS`/`Proper`/`UpDirty` are the invariants every operation maintains) representing
    the spec tree `ts` with 32-byte keys, `GetBlockProof(b)` returns the owner's key and proof bytes, and
    `VerifyBlockProof(b, proof)` on those bytes yields (hash ts, owner's value). `hsz`: the CBOR envelope's size limits. -/
theorem C10_complete_model (H : Bytes → Bytes) (hlen : ∀ x, (H x).length = 32) (t : WT) (ts : PT) (b : Nat)
    (hdb : t.hasDb = true) (hrep : RepS H t.store t.root ts) (hp : Proper t.root) (hud : RepMore.UpDirty t.root)
    (hu : Uniform 64 ts) (hok : RepOps.PTOK ts) (hb1 : 1 ≤ b) (hb : b ≤ ts.weight)
    (hsz : ∀ p ∈ ts.proofPairs H b, (Cbor.encBase p).length < 2 ^ 64) (hcnt : (ts.proofPairs H b).length < 2 ^ 64) :
    ∃ key proof v, (blockProof H t b).2 = .ok (key, proof) ∧
      ownerSpec ts.entries b = some (RepMore.keybytesToHex key, v) ∧
      verifyBlockProof H proof b = .ok (ts.hash H, v) := by
  obtain ⟨k, v, key, ho, _, hk, _, hbp⟩ := blockProof_rep' hlen t ts 64 b hdb hrep hp hud hu (by decide) (by decide) hok hb1 hb
  obtain ⟨k', v', ho', hv'⟩ := C10_complete H hlen ts b hb1 hb hok.1 hok.2.keysNib
  rw [owner_eq_ownerSpec ts b hb1 hb] at ho
  rw [ho] at ho'
  simp only [Option.some.injEq, Prod.mk.injEq] at ho'
  obtain ⟨e1, e2⟩ := ho'
  subst e1; subst e2
  refine ⟨key, _, v, hbp, by rw [hk]; exact ho, ?_⟩
  rw [verifyBlockProof_encoded H hlen ts b hok hsz hcnt]
  exact hv'

/-- non-vacuity of `C10_complete`: the two-key trie `wt` below, toy hash, block 3 -/
example : ∃ k v, ownerSpec (PT.branch (fun i =>
      if i = 1 then PT.short [1] (.value [0xaa] 2) else if i = 2 then .short [1] (.value [0xbb] 2) else .none)).entries 3 = some (k, v) ∧ v = [0xbb] :=
  ⟨[2, 1], [0xbb], by decide, rfl⟩

/-- full soundness statement -/
def C10_sound : Prop :=
  ∀ (H : Bytes → Bytes) (t : PT) (ps : List PairD) (b : Nat) (v : Bytes),
    (∀ x, (H x).length = 32) → 1 ≤ b →
    verifyPairs H ps b = .ok (t.hash H, v) →
      (∃ k, ownerSpec t.entries b = some (k, v)) ∨ CollisionIn H (t.pathInputs H b ++ verifyInputs H ps b)

/-- Soundness under a hypothesis that excludes the two open findings (sufficient, not their exact complement): if the proof's nodes on the path have
    the kinds of the trie's nodes and claim the true child weights (`Faithful`), then an accepted proof for the trusted
    root returns the value of the block's true owner — or two different inputs among the explicitly listed ones (what
    the trie hashes on the owner path, what the verifier re-hashes) have the same hash. -/
theorem C10_sound_partial (H : Bytes → Bytes) (hlen : ∀ x, (H x).length = 32) (t : PT) (ps : List PairD) (b : Nat) (v : Bytes)
    (hb1 : 1 ≤ b) (hw : t.weight < 2 ^ 64) (hf : Faithful t ps b)
    (hv : verifyPairs H ps b = .ok (t.hash H, v)) :
    (∃ k, ownerSpec t.entries b = some (k, v)) ∨ CollisionIn H (t.pathInputs H b ++ verifyInputs H ps b) := by
  unfold verifyPairs at hv
  by_cases hne : ps = []
  · simp [hne] at hv
  · simp only [hne, if_false] at hv
    cases hr : verifyProof H ps b with
    | err e => simp [hr] at hv
    | ok r =>
      obtain ⟨n, v', rest⟩ := r
      simp only [hr, Res.ok.injEq, Prod.mk.injEq] at hv
      obtain ⟨hh, hv'⟩ := hv
      subst hv'
      rcases sound_core H hlen t ps b n v' rest hb1 hw hf hr hh with ⟨⟨k, ho⟩, hle⟩ | hc
      · left
        rw [owner_eq_ownerSpec t b hb1 hle] at ho
        exact ⟨k, ho⟩
      · right; exact hc

/-- the hypothesis of `C10_sound_partial` is satisfiable: every honest proof is faithful -/
theorem honest_is_faithful (H : Bytes → Bytes) (hlen : ∀ x, (H x).length = 32) (t : PT) (b : Nat)
    (hb1 : 1 ≤ b) (hb : b ≤ t.weight) (hw : t.weight < 2 ^ 64) (hkn : KeysNib t) :
    Faithful t ((t.proofPairs H b).map PairD.ok) b := by
  have := faithful_honest H hlen t b [] hb1 hb hw hkn
  simpa using this

/-- two keys (nibbles [1,1] and [2,1]) of weight 2 each -/
def wt : PT := .branch (fun i =>
  if i = 1 then .short [1] (.value [0xaa] 2) else if i = 2 then .short [1] (.value [0xbb] 2) else .none)

/-- rewrite the claimed child weights of the root pair from (2,2) to (1,3): the sum, which is all the hash binds, stays 4 -/
def reweigh (p : PBase) : PBase :=
  match p.branch with
  | some b => { p with branch := some { b with children := b.children.mapIdx (fun i c =>
      if i = 1 then c.take 32 ++ be64 1 ++ c.drop 40 else if i = 2 then c.take 32 ++ be64 3 ++ c.drop 40 else c) } }
  | none => p

/-- the honest proof of block 3 (second key) with the root pair re-weighted -/
def forgedWeights : List PairD :=
  match wt.proofPairs toyH 3 with
  | root :: rest => (PairD.ok (reweigh root)) :: rest.map PairD.ok
  | [] => []

theorem toyH_length (x : Bytes) : (toyH x).length = 32 := by simp [toyH, be256]

set_option maxRecDepth 100000 in
/-- the forged proof verifies for block 2 against the real root and returns the SECOND key's value, although block 2
    belongs to the first key, and no two of the hashed inputs collide -/
theorem forgedWeights_accepted :
    verifyPairs toyH forgedWeights 2 = .ok (wt.hash toyH, [0xbb]) ∧
    ownerSpec wt.entries 2 = some ([1, 1], [0xaa]) ∧
    ¬ CollisionIn toyH (wt.pathInputs toyH 2 ++ verifyInputs toyH forgedWeights 2) := by
  decide

theorem C10_sound_false_weights : ¬ C10_sound := by
  intro h
  have := h toyH wt forgedWeights 2 [0xbb] toyH_length (by decide) forgedWeights_accepted.1
  rcases this with ⟨k, hk⟩ | hc
  · rw [forgedWeights_accepted.2.1] at hk; cases hk
  · exact forgedWeights_accepted.2.2 hc

/-- the root pair replaced by a VALUE node whose value is the concatenation of the 16 child hashes and whose weight
    is the branch weight: same hash pre-image, so the same hash -/
def forgedKind : List PairD :=
  match (wt.persist toyH).branch with
  | some b => [PairD.ok { value := some ⟨allNib.flatMap (fun i => (b.children.getD i.val []).take 32 ++
        (if (b.children.getD i.val []).length < 40 then emptyHash toyH else [])), b.hash, 4⟩ }]
  | none => []

/-- the value the verifier returns for the forged proof: the 16 child hashes of the root -/
def forgedKindValue : Bytes :=
  match verifyPairs toyH forgedKind 1 with
  | .ok (_, v) => v
  | .err _ => []

set_option maxRecDepth 100000 in
theorem forgedKind_accepted :
    verifyPairs toyH forgedKind 1 = .ok (wt.hash toyH, forgedKindValue) ∧ forgedKindValue.length = 512 ∧
    ownerSpec wt.entries 1 = some ([1, 1], [0xaa]) ∧
    ¬ CollisionIn toyH (wt.pathInputs toyH 1 ++ verifyInputs toyH forgedKind 1) := by
  decide

theorem C10_sound_false_kind : ¬ C10_sound := by
  intro h
  have := h toyH wt forgedKind 1 forgedKindValue toyH_length (by decide) forgedKind_accepted.1
  rcases this with ⟨k, hk⟩ | hc
  · rw [forgedKind_accepted.2.2.1] at hk
    have : forgedKindValue = [0xaa] := by injection hk with hk; injection hk with _ hk; exact hk.symm
    have hl := forgedKind_accepted.2.1
    rw [this] at hl; cases hl
  · exact forgedKind_accepted.2.2.2 hc

end Verif.Props.C10
