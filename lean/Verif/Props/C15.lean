/-
C15 (state-trie half) — Decoders reject malformed bytes without crashing.

`decode` (Verif.Model.MptCodec) mirrors `CreateNode` and `LeafNode/FullNode/ExtensionNode.Decode` slice expression by
slice expression; every Go slice expression / indexed write is a bounds-checked primitive that yields `.panic` where
Go would panic.  The theorems are for ALL byte strings.  Termination: every model function is structurally recursive
(accepted by Lean's termination checker), the loop of `FullNode.Decode` runs exactly 16 times.
-/
import Verif.Lemmas.MptCodec
namespace Verif.Props.C15
open Verif.Codec
open Verif.Mpt (Bytes sep)

/-- `CreateNode` never panics, whatever the input -/
theorem createNode_total : ∀ bs : Bytes, decode bs ≠ .panic := decode_no_panic

/-- anything `CreateNode` accepts re-encodes without panicking (`encodeChecked` indexes the 16 child slots with the
    bounds checks of Go), and the result is the plain `encode` -/
theorem reencode_total (bs : Bytes) (r : Repr) (h : decode bs = .ok r) : encodeChecked r = .ok (encode r) :=
  reencode_ok bs r h

/-- … and decoding that re-encoding yields the same node again (so the same bytes and the same hash), for ALL inputs:
    re-encoding is a normal form (type byte masked, short child keys zero-padded to 32 bytes, upper-case hex lowered) -/
theorem reencode_idempotent (bs : Bytes) (r : Repr) (h : decode bs = .ok r) : decode (encode r) = .ok r :=
  decode_encode_of_decode bs r h

/-- non-vacuity: an input that is accepted and is NOT in normal form (type byte with high bits, 2-character child) -/
example : ∃ bs r, decode bs = .ok r ∧ encode r ≠ bs :=
  ⟨0x84 :: (List.replicate 16 0 ++ [65, 98, sep] ++ List.replicate 15 sep),
    ⟨0, 0, .full (some (0xab :: List.replicate 31 0) :: List.replicate 15 none) none⟩, by decide, by decide⟩

/-- the hex decoding of a child field never writes past the 32-byte key buffer once the field length is checked
    (fix 6f6ba66): for any field of at most 65 characters -/
theorem child_field_no_overrun (field : Bytes) (h : field.length / 2 ≤ 32) : hexDecodeInto 32 field 0 [] ≠ .panic :=
  hexDecodeInto_no_panic 32 field 0 [] (by omega)

example : ∃ field : Bytes, field.length / 2 ≤ 32 ∧ field.length = 65 := ⟨List.replicate 65 97, by decide, by decide⟩

/-- … and without the check it does: 66 hex digits overrun the buffer (the defect fixed by 6f6ba66) -/
theorem child_field_overrun_witness : hexDecodeInto 32 (List.replicate 66 97) 0 [] = .panic := by decide

/-- the leaf decoder before c43a135 panics on a body with a single separator (slice index −1) -/
theorem decodeLeafOld_panics : decodeLeafOld [97, sep] = .panic := by decide

/-- the fixed decoder returns an error on the same input -/
theorem decodeLeaf_fixed_witness : decodeLeaf [97, sep] = .err := by decide

end Verif.Props.C15
