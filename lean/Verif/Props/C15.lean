/-
C15 (state-trie half) — Decoders reject malformed bytes without crashing.

`decode` (Verif.Model.MptCodec) mirrors `CreateNode` and `LeafNode/FullNode/ExtensionNode.Decode` slice expression by
slice expression; every Go slice expression / indexed write is a bounds-checked primitive that yields `.panic` where
Go would panic.  The theorems are for ALL byte strings.  Termination: every model function is structurally recursive
(accepted by Lean's termination checker), the loop of `FullNode.Decode` runs exactly 16 times.
-/
import Verif.Lemmas.MptCodec
import Verif.Lemmas.DeadNodes
namespace Verif.Props.C15
open Verif.Codec
open Verif.Mpt (Bytes sep)

/-- `CreateNode` never panics, whatever the input -/
theorem createNode_total : ∀ bs : Bytes, decode bs ≠ .panic := decode_no_panic

/-- anything `CreateNode` accepts re-encodes without panicking (`encodeChecked` indexes the 16 child slots with the
    bounds checks of Go), and the result is the plain `encode` -/
theorem reencode_total (bs : Bytes) (r : Repr) (h : decode bs = .ok r) : encodeChecked r = .ok (encode r) :=
  reencode_ok bs r h

/-- … and decoding that re-encoding yields the same node again (so the same bytes and the same hash), for ALL inputs:
    re-encoding is a normal form (type byte masked, short child keys zero-padded to 32 bytes, upper-case hex lowered) -/
theorem reencode_idempotent (bs : Bytes) (r : Repr) (h : decode bs = .ok r) : decode (encode r) = .ok r :=
  decode_encode_of_decode bs r h

/-- non-vacuity: an input that is accepted and is NOT in normal form (type byte with high bits, 2-character child) -/
example : ∃ bs r, decode bs = .ok r ∧ encode r ≠ bs :=
  ⟨0x84 :: (List.replicate 16 0 ++ [65, 98, sep] ++ List.replicate 15 sep),
    ⟨0, 0, .full (some (0xab :: List.replicate 31 0) :: List.replicate 15 none) none⟩, by decide, by decide⟩

/-- the hex decoding of a child field never writes past the 32-byte key buffer once the field length is checked
    (fix 6f6ba66): for any field of at most 65 characters -/
theorem child_field_no_overrun (field : Bytes) (h : field.length / 2 ≤ 32) : hexDecodeInto 32 field 0 [] ≠ .panic :=
  hexDecodeInto_no_panic 32 field 0 [] (by omega)

example : ∃ field : Bytes, field.length / 2 ≤ 32 ∧ field.length = 65 := ⟨List.replicate 65 97, by decide, by decide⟩

/-- … and without the check it does: 66 hex digits overrun the buffer (the defect fixed by 6f6ba66) -/
theorem child_field_overrun_witness : hexDecodeInto 32 (List.replicate 66 97) 0 [] = .panic := by decide

/-- the leaf decoder before c43a135 panics on a body with a single separator (slice index −1) -/
theorem decodeLeafOld_panics : decodeLeafOld [97, sep] = .panic := by decide

/-- the fixed decoder returns an error on the same input -/
theorem decodeLeaf_fixed_witness : decodeLeaf [97, sep] = .err := by decide

/-! ### Dead-node records (`deadNodes.UnmarshalMsg` / `MarshalMsg` over the msgp primitives, `Verif.Model.DeadNodes`) -/

/-- the record decoder never panics, and every `make(map, hint)` it performs — also on inputs it goes on to reject —
    has a hint bounded by the length of the record (fix 9b8de94), for ALL byte strings -/
theorem deadNodes_decode_total (bs : Bytes) :
    (Verif.DeadNodes.decode bs).2 ≠ .panic ∧ ∀ h ∈ (Verif.DeadNodes.decode bs).1, h ≤ bs.length :=
  ⟨(Verif.DeadNodes.good_decodeWith true bs).2.ne_panic, fun h hh => (Verif.DeadNodes.good_decodeWith true bs).1 h hh rfl⟩

/-- the decoder before 9b8de94 does not panic either … -/
theorem deadNodesOld_no_panic (bs : Bytes) : (Verif.DeadNodes.decodeOld bs).2 ≠ .panic :=
  (Verif.DeadNodes.good_decodeWith false bs).2.ne_panic

/-- … but allocates for whatever count the record announces: 2^32−1 entries on a 12-byte input, which the fixed
    decoder rejects without allocating -/
theorem deadNodesOld_alloc_witness :
    (Verif.DeadNodes.decodeOld [0x81, 0xa5, 78, 111, 100, 101, 115, 0xdf, 0xff, 0xff, 0xff, 0xff]).1 = [4294967295] ∧
    Verif.DeadNodes.decode [0x81, 0xa5, 78, 111, 100, 101, 115, 0xdf, 0xff, 0xff, 0xff, 0xff] = ([], .err) := by
  decide

/-- MarshalMsg then UnmarshalMsg returns the map (given as its sorted entry list; any keys, any boolean values), with one
    allocation sized by the number of entries -/
theorem deadNodes_roundtrip (m : List (Bytes × Bool)) (hn : m.length < 4294967296)
    (hk : ∀ e ∈ m, e.1.length < 4294967296) :
    Verif.DeadNodes.decode (Verif.DeadNodes.encode m) = ([m.length], .ok { nodes := some m, allocs := [m.length] }) :=
  Verif.DeadNodes.decode_encode m hn hk

/-- non-vacuity: 20 entries (map16 header) with a 64-character key (str8) and an empty key (fixstr) -/
example : ∃ m : List (Bytes × Bool), m.length = 20 ∧ (∀ e ∈ m, e.1.length < 4294967296) ∧
    (List.replicate 64 97, true) ∈ m ∧ ([], false) ∈ m :=
  ⟨([], false) :: List.replicate 19 (List.replicate 64 97, true), by simp, by intro e he; simp at he; rcases he with rfl | ⟨_, rfl⟩ <;> simp,
    by simp, by simp⟩

/-- a record written by RecordDeadNodes for the node keys `ks` (hex strings, all `true`) is accepted by the prune with
    exactly these keys: nothing it names survives, nothing else is touched -/
theorem deadNodes_prune_roundtrip (ks : List Bytes) (hn : ks.length < 4294967296)
    (hk : ∀ k ∈ ks, 2 * k.length < 4294967296) :
    Verif.DeadNodes.pruneKeys (Verif.DeadNodes.encode (ks.map fun k => (Verif.Mpt.hexBytes k, true))) = some ks := by
  unfold Verif.DeadNodes.pruneKeys
  rw [Verif.DeadNodes.decode_encode _ (by simpa using hn) (by
    intro e he
    obtain ⟨k, hk', rfl⟩ := List.mem_map.mp he
    simp only [hexBytes_length]
    exact hk k hk')]
  simp only [Option.getD_some]
  exact Verif.DeadNodes.mapM_unhex_hex ks

end Verif.Props.C15
