import Verif.Model.MptCodec
import Verif.Model.MptPartial
namespace Verif.Props.C15
open Verif.Codec
theorem placeholder_typeByte (b : Body) : typeByte b ≠ 0 := by cases b <;> simp [typeByte]
end Verif.Props.C15
