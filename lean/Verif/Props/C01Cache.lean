/-
C01 (node cache) — the trie's node cache is transparent.

Model: `Verif.Model.MptCache` (getNode = cache first, else store and cache the node; the cache is a
`statecache.TransactionCache` holding encode/decode clones; insertNode / deleteNode update it) over the byte-level
store and partial tree of `Verif.Model.MptPartial`.  `unionGet c get` is the store extended by the cache's entries
(the cache taking precedence).

  * every entry-wise invariant that stored nodes satisfy (`CacheSound`: key = hash of the content, well-formed node)
    is preserved by reads and by the updates of insertNode / deleteNode; clones are identities on such nodes;
  * lookups, iteration and HasMissingNodes through a trie with cache `c` answer exactly what the partial-tree
    traversals answer on `store ∪ cache`, and they leave that union (as decoded content) unchanged;
  * a cache that holds only nodes the store holds is invisible; in general a warm cache can only replace a
    `nodeNotFound` answer (by the answer of any complete store the cache and the store are excerpts of) — this is how
    a warm cache MASKS nodes the store has lost (witness at the end) and what "queried through a fresh trie" in C17
    means.
-/
import Verif.Lemmas.MptCache
namespace Verif.Props.C01Cache
open Verif.Mpt (Bytes Nib)
open Verif.Codec Verif.Partial Verif.Cache

/-! ### the invariant -/

/-- every cached node sits under the hash of its own content and is well-formed -/
def CacheSound (H : Bytes → Bytes) (c : Cache) : Prop := Cache.All (fun k r => k = H (hashBytes r) ∧ ReprWF r) c

/-- the same for the store: every decodable entry is a well-formed node under its own hash (a healthy
    content-addressed store, e.g. what `C14_self_keyed` shows for the nodes of a trie) -/
def StoreSound (H : Bytes → Bytes) (get : Bytes → Option Bytes) : Prop :=
  StoreAll (fun k r => k = H (hashBytes r) ∧ ReprWF r) get

theorem cacheSound_ok {H : Bytes → Bytes} {c : Cache} (h : CacheSound H c) : CacheOK c :=
  ⟨fun k r hm => reprOK_of_wf r (h.1 k r hm).2, fun k r hm => reprOK_of_wf r (h.2 k r hm).2⟩

/-- `Clone()` (encode, then CreateNode) returns the node itself for every well-formed node … -/
theorem clone_wf (r : Repr) (h : ReprWF r) : cloneR r = r := cloneR_ok (reprOK_of_wf r h)

/-- … and for every node that was decoded from stored bytes: the panic branch of `Clone` is unreachable -/
theorem clone_decoded (bs : Bytes) (r : Repr) (h : decode bs = .ok r) : cloneR r = r := cloneR_decoded h

theorem cacheSound_empty (H : Bytes → Bytes) : CacheSound H Cache.empty :=
  ⟨fun _ _ h => by simp [Cache.empty] at h, fun _ _ h => by simp [Cache.empty] at h⟩

/-- what a sound cache hands out is sound -/
theorem cacheSound_get {H : Bytes → Bytes} {c : Cache} (h : CacheSound H c) {k : Bytes} {r : Repr}
    (hg : c.get k = some r) : k = H (hashBytes r) ∧ ReprWF r :=
  Cache.All.get h (cacheSound_ok h) hg

/-- `getNode` keeps the cache sound (over a sound store) -/
theorem getNodeC_sound {H : Bytes → Bytes} {c : Cache} {get : Bytes → Option Bytes} (hs : StoreSound H get)
    (h : CacheSound H c) (k : Bytes) : CacheSound H (getNodeC c get k).1 :=
  (getNodeC_spec c get k).2.2 _ hs h

/-- over ANY store `getNode` keeps the weaker invariant the transparency theorems need (cached nodes survive a
    clone unchanged): decoded nodes always re-encode to themselves -/
theorem getNodeC_cacheOK {c : Cache} (get : Bytes → Option Bytes) (h : CacheOK c) (k : Bytes) :
    CacheOK (getNodeC c get k).1 := getNodeC_ok h get k

/-- the cache update of `insertNode(old, new)` keeps the cache sound: the new node is well-formed (every producible
    node is: `C14.producible_wf`) and `newK` is `GetHashBytes` of it -/
theorem insertNode_sound {H : Bytes → Bytes} {c : Cache} (h : CacheSound H c) (newR : Repr) (hw : ReprWF newR)
    (oldK : Option Bytes) : CacheSound H (cacheInsertNode c (H (hashBytes newR)) newR oldK) :=
  cacheInsertNode_all h (by rw [clone_wf newR hw]; exact ⟨rfl, hw⟩) oldK

/-- the cache update of `deleteNode` keeps the cache sound -/
theorem deleteNode_sound {H : Bytes → Bytes} {c : Cache} (h : CacheSound H c) (k : Bytes) :
    CacheSound H (cacheDeleteNode c k) := cacheDeleteNode_all h k

/-- after `insertNode` the new node is read from the cache; after `deleteNode` (and for the replaced node of
    `insertNode`) the key is no longer answered by the cache, whatever `main` holds -/
theorem insertNode_get {c : Cache} (newK : Bytes) (newR : Repr) (hw : ReprWF newR) (oldK : Option Bytes) :
    (cacheInsertNode c newK newR oldK).get newK = some newR := by
  unfold cacheInsertNode
  have e : (c.set newK newR).get newK = some newR := by
    rw [Cache.get_set]; simp [clone_wf newR hw]
  cases oldK with
  | none => exact e
  | some ok =>
    simp only
    split
    · exact e
    · rename_i hne
      rw [Cache.get_remove]; simp [hne, e]

theorem insertNode_get_old {c : Cache} (newK : Bytes) (newR : Repr) (ok : Bytes) (hne : ok ≠ newK) :
    (cacheInsertNode c newK newR (some ok)).get ok = none := by
  simp [cacheInsertNode, hne, Cache.get_remove]

theorem deleteNode_get {c : Cache} (k : Bytes) : (cacheDeleteNode c k).get k = none := by
  simp [cacheDeleteNode, Cache.get_remove]

/-! ### transparency: a trie with cache `c` over `get` behaves as a cache-less trie over `unionGet c get` -/

theorem buildP_union {c : Cache} (hok : CacheOK c) (get : Bytes → Option Bytes) (fuel : Nat) (k : Bytes) :
    buildP (unionGet c get) fuel k = buildV (viewOf c get) fuel k := by
  rw [buildP_eq_buildV, nodeOf_unionGet hok]

/-- what the operations below guarantee about the cache they leave behind: it is again clone-stable, the decoded
    content of `store ∪ cache` is exactly what it was (so every later read sees the same trie), and soundness is kept
    over a sound store -/
def CacheAfter (c c' : Cache) (get : Bytes → Option Bytes) : Prop :=
  CacheOK c' ∧ nodeOf (unionGet c' get) = nodeOf (unionGet c get) ∧
    ∀ H, StoreSound H get → CacheSound H c → CacheSound H c'

theorem cacheAfter_of {c c' : Cache} {get : Bytes → Option Bytes} (hok : CacheOK c)
    (hv : viewOf c' get = viewOf c get)
    (hall : ∀ P : Bytes → Repr → Prop, StoreAll P get → Cache.All P c → Cache.All P c') : CacheAfter c c' get := by
  have hok' : CacheOK c' := hall _ (storeAll_ok get) hok
  exact ⟨hok', by rw [nodeOf_unionGet hok', nodeOf_unionGet hok, hv], fun H hs h => hall _ hs h⟩

/-- **GetNodeValueRaw through a cache** returns what the partial-tree lookup returns on `store ∪ cache` (for any
    fuel beyond the path length) -/
theorem C01Cache_lookup {c : Cache} (hok : CacheOK c) (get : Bytes → Option Bytes) (root p : Bytes) (fuel : Nat)
    (hf : p.length < fuel) :
    (lookupC c get root p).2 = lookupP (buildRoot (unionGet c get) fuel root) p ∧
      CacheAfter c (lookupC c get root p).1 get := by
  unfold lookupC buildRoot
  by_cases hr : root = []
  · simp only [hr, if_true]
    exact ⟨by simp [lookupP], cacheAfter_of hok rfl (fun _ _ h => h)⟩
  · simp only [hr, if_false]
    obtain ⟨h1, h2, h3⟩ := lookupKey_spec get (viewOf c get) (p.length + 1) c root p rfl
    refine ⟨?_, cacheAfter_of hok h2 h3⟩
    rw [h1, buildP_union hok]
    exact lookupP_fuel _ _ _ _ _ (by omega) hf

/-- **Iterate through a cache**: error and visited values are those of the partial tree of `store ∪ cache` -/
theorem C01Cache_iter {c : Cache} (hok : CacheOK c) (get : Bytes → Option Bytes) (m : IterErr) (fuel : Nat)
    (root : Bytes) :
    (iterC m fuel c get root).2.1 = iterErr m (buildRoot (unionGet c get) fuel root) ∧
    (iterC m fuel c get root).2.2 = valuesP (buildRoot (unionGet c get) fuel root) [] ∧
      CacheAfter c (iterC m fuel c get root).1 get := by
  unfold iterC buildRoot
  by_cases hr : root = []
  · simp only [hr, if_true]
    exact ⟨by simp [iterErr], by simp [valuesP], cacheAfter_of hok rfl (fun _ _ h => h)⟩
  · simp only [hr, if_false]
    obtain ⟨h1, h2, h3, h4⟩ := iterKey_spec get (viewOf c get) m fuel c root [] rfl
    rw [buildP_union hok]
    exact ⟨h1, h2, cacheAfter_of hok h3 h4⟩

/-- **HasMissingNodes through a cache** is `hasMissing` of the partial tree of `store ∪ cache` -/
theorem C01Cache_hasMissing {c : Cache} (hok : CacheOK c) (get : Bytes → Option Bytes) (fuel : Nat) (root : Bytes) :
    (hasMissingC fuel c get root).2 = hasMissing (buildRoot (unionGet c get) fuel root) ∧
      CacheAfter c (hasMissingC fuel c get root).1 get := by
  obtain ⟨h1, _, h3⟩ := C01Cache_iter hok get .missingNodes fuel root
  unfold hasMissingC hasMissing
  exact ⟨by simp only [h1], h3⟩

/-! ### (a) a cache that holds only what the store holds is invisible -/

/-- every node the cache answers is the node the store holds under that key -/
def CacheSub (c : Cache) (get : Bytes → Option Bytes) : Prop := ∀ k r, c.get k = some r → nodeOf get k = some r

/-- in particular a cache whose entries are in the store with the same bytes -/
theorem cacheSub_of_bytes {c : Cache} (hok : CacheOK c) {get : Bytes → Option Bytes}
    (h : ∀ k r, c.get k = some r → get k = some (encode r)) : CacheSub c get := by
  intro k r hg
  have : ReprOK r := Cache.All.get hok hok hg
  simp [nodeOf, h k r hg, decode_encode_ok r this]

theorem cacheSub_empty (get : Bytes → Option Bytes) : CacheSub Cache.empty get := by
  intro k r h; simp [Cache.empty, Cache.get] at h

theorem viewOf_sub {c : Cache} {get : Bytes → Option Bytes} (h : CacheSub c get) : viewOf c get = nodeOf get := by
  funext k
  unfold viewOf
  cases hc : c.get k with
  | none => rfl
  | some r => exact (h k r hc).symm

theorem cacheSub_of_view {c : Cache} {get : Bytes → Option Bytes} (h : viewOf c get = nodeOf get) : CacheSub c get := by
  intro k r hc
  have := congrFun h k
  simpa [viewOf, hc] using this.symm

/-- with such a cache every lookup answers what a cache-less trie over the store answers, and the cache stays a sub-cache
    of the store (reads only add nodes read from the store) -/
theorem cache_invisible {c : Cache} (hok : CacheOK c) {get : Bytes → Option Bytes} (hsub : CacheSub c get)
    (root p : Bytes) (fuel : Nat) (hf : p.length < fuel) :
    (lookupC c get root p).2 = lookupP (buildRoot get fuel root) p ∧ CacheSub (lookupC c get root p).1 get ∧
      CacheOK (lookupC c get root p).1 := by
  unfold lookupC buildRoot
  by_cases hr : root = []
  · simp only [hr, if_true]
    exact ⟨by simp [lookupP], hsub, hok⟩
  · simp only [hr, if_false]
    obtain ⟨h1, h2, h3⟩ := lookupKey_spec get (viewOf c get) (p.length + 1) c root p rfl
    refine ⟨?_, cacheSub_of_view (by rw [h2, viewOf_sub hsub]), h3 _ (storeAll_ok get) hok⟩
    rw [h1, viewOf_sub hsub, buildP_eq_buildV]
    exact lookupP_fuel _ _ _ _ _ (by omega) hf

/-- the same for HasMissingNodes and iteration -/
theorem cache_invisible_iter {c : Cache} (hok : CacheOK c) {get : Bytes → Option Bytes} (hsub : CacheSub c get)
    (m : IterErr) (fuel : Nat) (root : Bytes) :
    (iterC m fuel c get root).2.1 = iterErr m (buildRoot get fuel root) ∧
    (iterC m fuel c get root).2.2 = valuesP (buildRoot get fuel root) [] ∧
    (hasMissingC fuel c get root).2 = hasMissing (buildRoot get fuel root) ∧
    CacheSub (iterC m fuel c get root).1 get := by
  have hb : ∀ k, buildP (unionGet c get) fuel k = buildP get fuel k := by
    intro k; rw [buildP_union hok, viewOf_sub hsub, buildP_eq_buildV]
  have hroot : buildRoot (unionGet c get) fuel root = buildRoot get fuel root := by
    unfold buildRoot; split
    · rfl
    · exact hb root
  obtain ⟨h1, h2, h3⟩ := C01Cache_iter hok get m fuel root
  obtain ⟨h4, _⟩ := C01Cache_hasMissing hok get fuel root
  refine ⟨by rw [h1, hroot], by rw [h2, hroot], by rw [h4, hroot], ?_⟩
  apply cacheSub_of_view
  have := h3.2.1
  rw [nodeOf_unionGet h3.1, nodeOf_unionGet hok] at this
  rw [this, viewOf_sub hsub]

/-! ### (b) in general a warm cache can only replace `nodeNotFound` answers -/

/-- the cache does not contradict the store: a key both answer, they answer with the same node (keys are content
    hashes; e.g. both are excerpts of one complete store) -/
def Consistent (c : Cache) (get : Bytes → Option Bytes) : Prop :=
  ∀ k r r', c.get k = some r → nodeOf get k = some r' → r = r'

theorem agrees_store_view {c : Cache} {get : Bytes → Option Bytes} (h : Consistent c get) :
    Agrees (nodeOf get) (viewOf c get) := by
  intro k r hr
  unfold viewOf
  cases hc : c.get k with
  | none => exact hr
  | some r0 => rw [h k r0 r hc hr]

/-- e.g. store and cache are both excerpts of one complete store -/
theorem consistent_of_excerpts {c : Cache} {get full : Bytes → Option Bytes}
    (hstore : Agrees (nodeOf get) (nodeOf full)) (hcache : ∀ k r, c.get k = some r → nodeOf full k = some r) :
    Consistent c get := by
  intro k r r' h1 h2
  have a := hcache k r h1
  have b := hstore k r' h2
  rw [a] at b
  exact Option.some.inj b

/-- whatever a cache-less trie over the store answers other than `nodeNotFound` — a value or `notPresent` — the trie
    with the warm cache answers too: the cache never changes a value, never turns a value into `notPresent` or back;
    it can only make a `nodeNotFound` disappear -/
theorem cache_only_hides_absence {c : Cache} (hok : CacheOK c) {get : Bytes → Option Bytes} (hc : Consistent c get)
    (root p : Bytes) (fuel : Nat) (hf : p.length < fuel)
    (h : lookupP (buildRoot get fuel root) p ≠ .nodeNotFound) :
    (lookupC c get root p).2 = lookupP (buildRoot get fuel root) p := by
  rw [(C01Cache_lookup hok get root p fuel hf).1]
  unfold buildRoot at h ⊢
  by_cases hr : root = []
  · simp [hr]
  · simp only [hr, if_false] at h ⊢
    rw [buildP_union hok]
    rw [buildP_eq_buildV] at h ⊢
    rcases lookupP_mono (agrees_store_view hc) fuel root p with h' | h'
    · exact (h h').elim
    · exact h'.symm

/-- and what it puts in place of a `nodeNotFound` is right: if store and cache are both excerpts of a complete store
    `full` (every node either of them holds, `full` holds under the same key), every answer of the warm trie is
    `nodeNotFound` or the answer of a trie over `full` — never a wrong value, never a wrong `notPresent` -/
theorem cache_never_wrong {c : Cache} (hok : CacheOK c) {get full : Bytes → Option Bytes}
    (hstore : Agrees (nodeOf get) (nodeOf full)) (hcache : ∀ k r, c.get k = some r → nodeOf full k = some r)
    (root p : Bytes) (fuel : Nat) (hf : p.length < fuel) :
    (lookupC c get root p).2 = .nodeNotFound ∨
      (lookupC c get root p).2 = lookupP (buildRoot full fuel root) p := by
  rw [(C01Cache_lookup hok get root p fuel hf).1]
  unfold buildRoot
  by_cases hr : root = []
  · right; simp [hr]
  · simp only [hr, if_false]
    rw [buildP_union hok, buildP_eq_buildV]
    apply lookupP_mono
    intro k r hv
    unfold viewOf at hv
    cases hg : c.get k with
    | none => rw [hg] at hv; exact hstore k r hv
    | some r0 =>
      rw [hg] at hv
      have e : r0 = r := by simpa using hv
      exact hcache k r (e ▸ hg)

/-! ### (c) missing-node detection through a trie is exact relative to `store ∪ cache` -/

theorem unionGet_none {c : Cache} {get : Bytes → Option Bytes} {k : Bytes} :
    unionGet c get k = none ↔ c.get k = none ∧ get k = none := by
  unfold unionGet
  cases c.get k <;> simp

theorem unionGet_empty (get : Bytes → Option Bytes) : unionGet Cache.empty get = get := by
  funext k; simp [unionGet, Cache.empty, Cache.get]

/-- HasMissingNodes through a trie with cache `c` answers true iff some key is absent from BOTH the cache and the store
    and reachable from the root through nodes that are cached or stored.  `pt` is the unfolding of `store ∪ cache`
    (`Unfolds`, as in C17) and `fuel` exceeds its depth. -/
theorem hasMissingC_exact {c : Cache} (hok : CacheOK c) (get : Bytes → Option Bytes) (root : Bytes) (hr : root ≠ [])
    (pt : PTree) (hu : Unfolds (unionGet c get) root pt) (fuel : Nat) (hf : depth pt < fuel) :
    (hasMissingC fuel c get root).2 = true ↔
      ∃ k, c.get k = none ∧ get k = none ∧ Reach (unionGet c get) root k := by
  rw [(C01Cache_hasMissing hok get fuel root).1]
  unfold buildRoot
  simp only [hr, if_false]
  rw [buildP_complete _ root pt hu fuel hf]
  have := iterErr_ne_none_iff .missingNodes (by decide) pt
  simp only [hasMissing, bne_iff_ne]
  rw [this]
  constructor
  · rintro ⟨k, hk⟩
    obtain ⟨h1, h2⟩ := (occurs_of_unfolds _ root pt hu k).mp hk
    exact ⟨k, (unionGet_none.mp h1).1, (unionGet_none.mp h1).2, h2⟩
  · rintro ⟨k, h1, h2, h3⟩
    exact ⟨k, (occurs_of_unfolds _ root pt hu k).mpr ⟨unionGet_none.mpr ⟨h1, h2⟩, h3⟩⟩

/-- a FRESH trie (empty cache) sees the store itself: this is the situation of C17 -/
theorem fresh_trie_sees_store (get : Bytes → Option Bytes) (root p : Bytes) (fuel : Nat) (hf : p.length < fuel) :
    (lookupC Cache.empty get root p).2 = lookupP (buildRoot get fuel root) p ∧
    (hasMissingC fuel Cache.empty get root).2 = hasMissing (buildRoot get fuel root) := by
  have h1 := (C01Cache_lookup cacheOK_empty get root p fuel hf).1
  have h2 := (C01Cache_hasMissing cacheOK_empty get fuel root).1
  rw [unionGet_empty] at h1 h2
  exact ⟨h1, h2⟩

/-! ### masking: a warm cache hides a node the store has lost -/

namespace Witness

/-- root: extension "a" → child key `[2]`; child: leaf (prefix "a", path "b", value `[7]`) -/
def rootR : Repr := ⟨1, 1, .ext [97] [2]⟩
def leafR : Repr := ⟨1, 1, .leaf [97] [98] (some [7])⟩

def fullStore : Bytes → Option Bytes := fun k =>
  if k = [1] then some (encode rootR) else if k = [2] then some (encode leafR) else none

/-- the store after losing the leaf -/
def damaged : Bytes → Option Bytes := fun k => if k = [1] then some (encode rootR) else none

/-- the cache of a trie that has read path "ab" while the store was complete -/
def warm : Cache := (lookupC Cache.empty fullStore [1] [97, 98]).1

/-- the warm trie still answers the value, a fresh trie over the same damaged store reports the node missing -/
theorem masking_lookup :
    (lookupC warm damaged [1] [97, 98]).2 = .ok [7] ∧
    (lookupC Cache.empty damaged [1] [97, 98]).2 = .nodeNotFound ∧
    lookupP (buildRoot damaged 3 [1]) [97, 98] = .nodeNotFound := by decide

/-- and HasMissingNodes through the warm trie says "complete" while the store lacks a live node -/
theorem masking_hasMissing :
    (hasMissingC 3 warm damaged [1]).2 = false ∧ (hasMissingC 3 Cache.empty damaged [1]).2 = true ∧
    hasMissing (buildRoot damaged 3 [1]) = true := by decide

/-- the warm cache holds exactly the two nodes it has read, and it is an excerpt of the complete store -/
theorem warm_keys : warm.liveKeys = [[2], [1]] ∧ warm.get [2] = some leafR ∧ fullStore [2] = some (encode leafR) := by
  decide

/-- non-vacuity of the hypotheses used above, on the masking instance: the warm cache is clone-stable, cache and
    damaged store are excerpts of the complete store (hence consistent), and `store ∪ cache` unfolds to the complete
    trie although the store alone does not -/
theorem warm_ok : CacheOK warm := (C01Cache_lookup cacheOK_empty fullStore [1] [97, 98] 3 (by decide)).2.1

theorem warm_excerpt : ∀ k r, warm.get k = some r → nodeOf fullStore k = some r :=
  (cache_invisible cacheOK_empty (cacheSub_empty fullStore) [1] [97, 98] 3 (by decide)).2.1

theorem damaged_excerpt : Agrees (nodeOf damaged) (nodeOf fullStore) := by
  intro k r h
  by_cases hk : k = [1]
  · subst hk; exact h
  · simp [nodeOf, damaged, hk] at h

example : Consistent warm damaged := consistent_of_excerpts damaged_excerpt warm_excerpt

example : Unfolds (unionGet warm damaged) [1] (.ext [97] (.leaf [98] (some [7]))) :=
  .ext [1] (encode rootR) 1 1 [97] [2] _ (by decide) (by decide)
    (.leaf [2] (encode leafR) 1 1 [97] [98] (some [7]) (by decide) (by decide))

/-- a sound one-node store and cache (`H` constant: any function with the node under its own hash will do) -/
example : ∃ (H : Bytes → Bytes) (get : Bytes → Option Bytes) (c : Cache),
    StoreSound H get ∧ CacheSound H c ∧ c.get (H []) = some leafR := by
  have hwf : ReprWF leafR := ⟨by decide, by decide, by simp [leafR, BodyWF, isHexDigit, optNonEmpty]⟩
  have hcl : cloneR leafR = leafR := clone_wf leafR hwf
  refine ⟨fun _ => [9], fun k => if k = [9] then some (encode leafR) else none, Cache.empty.set [9] leafR, ?_, ?_, by decide⟩
  · intro k bs r hg hd
    by_cases hk : k = [9]
    · simp only [hk, if_true, Option.some.injEq] at hg
      subst hg
      rw [decode_encode leafR hwf] at hd
      cases hd
      exact ⟨hk, hwf⟩
    · simp [hk] at hg
  · have h0 : CacheSound (fun _ => [9]) Cache.empty := cacheSound_empty _
    unfold CacheSound at h0 ⊢
    exact h0.set (by rw [hcl]; exact ⟨rfl, hwf⟩)

end Witness

end Verif.Props.C01Cache
