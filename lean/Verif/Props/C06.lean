/-
C06 — State cache never returns a wrong value for a block.

Model: `Verif.Model.StateCache` (LRU-exact `StateCache.Get` / `commit`, block / transaction / query caches, as the code
is at /repo HEAD, including the `committed` flag of a block cache); specification: `Verif.Model.StateCacheSpec`
(committed block tree, ancestor-chain answer `Chain`, demanded answer of a context `Answer`, per-history predicates
`AllOK`, `NoEviction`).

Full statement `C06_full`: in every history every lookup hit at every layer carries exactly the demanded value and a
removed key misses. It is FALSE of the code (open finding C06-capacity-eviction, concrete witness below and a replay on
the implementation in corpus/C06/): `C06_full_false_capacity`.
Proved: `C06_partial` (= the full statement under `NoEviction`), `C06_static` (static operation counts instead),
`memo_sound` (the invariant), `fork_independent`, `commit_elsewhere`.
-/
import Verif.Lemmas.StateCacheWitness
import Verif.Lemmas.StateCacheBound
import Verif.Lemmas.StateCacheDrop
import Verif.Lemmas.StateCacheDistinct
import Verif.Lemmas.StateCacheLink
import Verif.Lemmas.StateCachePublish
import Verif.Lemmas.StateCacheRecommit
import Verif.Lemmas.StateCacheCombined
namespace Verif.Props.C06
open Verif.SC

variable {H K B V : Type} [DecidableEq H] [DecidableEq K] [DecidableEq B]

/-- The property at full strength: for every capacity, every history from the empty cache is `AllOK`. -/
def C06_full : Prop :=
  ∀ (capK maxDepth : Nat) (ops : List (Op Nat Nat Nat Nat)), AllOK (Sys.new capK maxDepth) [] ops

/-- `memo_sound` (the invariant): after any history without eviction, every entry present in any version map — a
    block's own write or a memoised ancestor value — is the ancestor-chain answer of the committed tree for that key
    and block, and every committed block is linked to its parent with all its writes present. -/
theorem memo_sound (capK maxDepth : Nat) (ops : List (Op H K B V))
    (hne : NoEviction (Sys.new capK maxDepth) ops) :
    let s := ((Sys.new capK maxDepth : Sys H K B V).run ops).1
    let T := (Sys.new capK maxDepth : Sys H K B V).treeRun [] ops
    (∀ k b e, entryAt s.sc k b = some e → Chain T k b e) ∧
    (∀ b x, T.find b = some x → linkAt s.sc b = some x.prev ∧
        ∀ k e, alookup x.writes k = some e → entryAt s.sc k b = some e) := by
  intro s T
  have hS := Sys.run_inv (Sys.new capK maxDepth : Sys H K B V) ops (SysInv.init capK maxDepth) hne
  refine ⟨hS.inv.sound, fun b x hx => ?_⟩
  rcases hS.inv.committed b x hx with h | h
  · cases hl : linkAt s.sc b with
    | none => exact absurd hl h
    | some p =>
      obtain ⟨y, hy, hp, hw⟩ := hS.inv.linked b p hl
      have hxy : y = x := by
        have : T.find b = some y := hy
        rw [hx] at this; cases this; rfl
      subst hxy
      exact ⟨by rw [hp], hw⟩
  · cases h

/-- `memo_stable`: an entry of the state cache — a block's own write or a memoised answer — never changes and never
    disappears while no LRU evicts: if after a history `pre` the cache holds `e` for `(k, b)`, then after any continuation
    `post` it still holds exactly `e`, and `e` is still the chain answer of the (grown) tree. A memoised positive answer can
    never become wrong later, because the entries of committed blocks never change. -/
theorem memo_stable (capK maxDepth : Nat) (pre post : List (Op H K B V))
    (hne : NoEviction (Sys.new capK maxDepth) (pre ++ post)) (k : K) (b : B) (e : Entry V)
    (he : entryAt ((Sys.new capK maxDepth : Sys H K B V).run pre).1.sc k b = some e) :
    entryAt ((Sys.new capK maxDepth : Sys H K B V).run (pre ++ post)).1.sc k b = some e ∧
    Chain ((Sys.new capK maxDepth : Sys H K B V).treeRun [] (pre ++ post)) k b e := by
  have hev : ((Sys.new capK maxDepth : Sys H K B V).run (pre ++ post)).1.sc.evictions
      = (Sys.new capK maxDepth : Sys H K B V).sc.evictions := hne
  rw [Sys.run_append] at hev
  have h1 : ((Sys.new capK maxDepth : Sys H K B V).run pre).1.sc.evictions = (Sys.new capK maxDepth : Sys H K B V).sc.evictions :=
    Nat.le_antisymm (by rw [← hev]; exact Sys.run_ev_le _ _) (Sys.run_ev_le _ _)
  have hS1 := Sys.run_inv (Sys.new capK maxDepth : Sys H K B V) pre (SysInv.init capK maxDepth) h1
  have hne2 : NoEviction ((Sys.new capK maxDepth : Sys H K B V).run pre).1 post := by unfold NoEviction; rw [hev, h1]
  have hS2 := Sys.run_inv _ post hS1 hne2
  have hkeep := Sys.run_keep _ post hS1 hne2 k b (by rw [he]; simp)
  have hc1 : Chain ((Sys.new capK maxDepth : Sys H K B V).treeRun [] pre) k b e := hS1.inv.sound k b e he
  have hc2 : Chain ((Sys.new capK maxDepth : Sys H K B V).treeRun [] (pre ++ post)) k b e := by
    rw [Sys.treeRun_append]; exact Chain.mono (Sys.treeRun_le _ _ post) hc1
  refine ⟨?_, hc2⟩
  rw [Sys.run_append]
  cases h2 : entryAt (((Sys.new capK maxDepth : Sys H K B V).run pre).1.run post).1.sc k b with
  | none => exact absurd h2 hkeep
  | some e' =>
    have hc3 := hS2.inv.sound k b e' h2
    rw [← Sys.treeRun_append] at hc3
    rw [Chain.det hc3 hc2]

/-- `C06_partial`: without eviction, every hit at every layer (transaction, block, query, state) equals the value most
    recently written on the context's chain — own pending writes first, then the chain of the block the context sits on
    (for a block cache: its parent while the block is being built, the block itself once it is committed) — and a
    removed key misses. The hypothesis excludes exactly the open capacity finding. -/
theorem C06_partial (capK maxDepth : Nat) (ops : List (Op H K B V))
    (hne : NoEviction (Sys.new capK maxDepth) ops) : AllOK (Sys.new capK maxDepth) [] ops :=
  Sys.run_ok _ ops (SysInv.init capK maxDepth) hne

/-- `noEviction_of_counts`: a static sufficient condition for `NoEviction`, checkable by inspecting the history: for
    every key, the number of lookups of that key plus the number of block commits is at most the per-key capacity
    (each can add at most one item to the key's version map), and the number of block commits is at most the capacity
    of the link cache. (Coarser than the harness's matcher, which counts distinct blocks, but sound.) -/
theorem noEviction_of_counts (capK maxDepth : Nat) (ops : List (Op H K B V))
    (hK : ∀ k, (ops.filter (fun o => o.touches k)).length ≤ capK)
    (hC : (ops.filter (fun o => o.isCommit)).length ≤ maxDepth)
    (hR : ∀ op ∈ ops, op.isRemove = false) :
    NoEviction (Sys.new capK maxDepth) ops :=
  Sys.run_noEviction capK maxDepth ops _ (fun _ => 0) 0 (Len.init capK maxDepth)
    (fun k => by simpa using hK k) (by simpa using hC) hR

/-- `noEviction_of_distinct`: the tight static condition — exactly the negation of the harness's matcher for the open
    finding. `Sys.cands s k ops` lists, along the history, the blocks that can receive an entry in the version map of
    `k` (the block a state-level lookup of `k` is issued at; the hash of a committed block cache that writes `k`),
    `Sys.commitCands` the committed hashes. If for every key those blocks are among at most `capK` DISTINCT ones (a list
    `LK k` of length ≤ capK contains them all), the committed hashes among at most `maxDepth`, and no `Remove` occurs,
    no LRU ever evicts. -/
theorem noEviction_of_distinct (capK maxDepth : Nat) (ops : List (Op H K B V)) (LK : K → List B) (LC : List B)
    (hLK : ∀ k, (LK k).length ≤ capK) (hLC : LC.length ≤ maxDepth)
    (hk : ∀ k b, b ∈ (Sys.new capK maxDepth : Sys H K B V).cands k ops → b ∈ LK k)
    (hc : ∀ b ∈ (Sys.new capK maxDepth : Sys H K B V).commitCands ops, b ∈ LC)
    (hR : ∀ op ∈ ops, op.isRemove = false) :
    NoEviction (Sys.new capK maxDepth) ops :=
  Sys.run_noEviction_distinct ⟨hLK, hLC⟩ ops _ (Dist.init capK maxDepth LK LC) hk hc hR

/-- `C06_distinct`: the full statement under the negation of the open finding's matcher: at most `capK` distinct candidate
    blocks per key, at most `maxDepth` distinct committed blocks, no `Remove`. -/
theorem C06_distinct (capK maxDepth : Nat) (ops : List (Op H K B V)) (LK : K → List B) (LC : List B)
    (hLK : ∀ k, (LK k).length ≤ capK) (hLC : LC.length ≤ maxDepth)
    (hk : ∀ k b, b ∈ (Sys.new capK maxDepth : Sys H K B V).cands k ops → b ∈ LK k)
    (hc : ∀ b ∈ (Sys.new capK maxDepth : Sys H K B V).commitCands ops, b ∈ LC)
    (hR : ∀ op ∈ ops, op.isRemove = false) : AllOK (Sys.new capK maxDepth) [] ops :=
  C06_partial capK maxDepth ops (noEviction_of_distinct capK maxDepth ops LK LC hLK hLC hk hc hR)

/-- `C06_static`: the full statement for every history that stays within the static counts — no run-time hypothesis. -/
theorem C06_static (capK maxDepth : Nat) (ops : List (Op H K B V))
    (hK : ∀ k, (ops.filter (fun o => o.touches k)).length ≤ capK)
    (hC : (ops.filter (fun o => o.isCommit)).length ≤ maxDepth)
    (hR : ∀ op ∈ ops, op.isRemove = false) : AllOK (Sys.new capK maxDepth) [] ops :=
  C06_partial capK maxDepth ops (noEviction_of_counts capK maxDepth ops hK hC hR)

/-! ### dropping a whole version map: `StateCache.Remove(key)` and evictions from the outer key LRU

`Op.srem k` drops the version map of `k` at an arbitrary point of a history; this is `StateCache.Remove` and
over-approximates every eviction policy of the outer key cache (capacity `Verif.Gen.StateCacheFacts.capKeys` = 102 400
in the code). The statement "no LRU evicts, Removes anywhere ⇒ every lookup correct" is FALSE when a child block is
committed before its parent (`remove_unsafe_out_of_order`) and TRUE when blocks are committed in ancestor order
(`remove_safe_in_order`): a dropped map only turns hits into misses. -/

/-- full statement for histories with `Remove`: no LRU `Add` evicts (the counter moves only at Removes) ⇒ all lookups ok -/
def C06_remove_full : Prop :=
  ∀ (capK maxDepth : Nat) (ops : List (Op Nat Nat Nat Nat)),
    NoLRUEviction (Sys.new capK maxDepth) ops → AllOK (Sys.new capK maxDepth) [] ops

/-- `remove_safe_in_order`: with `Remove(key)` (or an outer-cache eviction of a key's whole map) at arbitrary points,
    if no LRU `Add` evicts and no block is committed after one of its descendants (every tree along the run is in
    ancestor order), every hit at every layer still carries exactly the demanded value and a removed key misses. -/
theorem remove_safe_in_order (capK maxDepth : Nat) (ops : List (Op H K B V))
    (hne : NoLRUEviction (Sys.new capK maxDepth) ops)
    (hio : InOrderRun (Sys.new capK maxDepth) [] ops) : AllOK (Sys.new capK maxDepth) [] ops :=
  Sys.run_ok_drops _ [] (fun _ => 0) ops (SysInv.init capK maxDepth) (fun _ => Nat.le_refl _) hne hio

/-- non-vacuity of `remove_safe_in_order`: A writes k, B child of A writes k, `Remove(k)`, C child of B (no write), lookups
    at C and B miss (the map is gone), D child of C writes k and re-creates the map, lookups at D hit, at C still miss -/
def removeHistory : List (Op Nat Nat Nat Nat) :=
  [.blk 0 10 0, .bset 0 0 1, .bcommit 0, .blk 1 11 10, .bset 1 0 2, .bcommit 1, .sget 0 11, .srem 0,
   .blk 2 12 11, .bcommit 2, .sget 0 12, .sget 0 11, .blk 3 13 12, .bset 3 0 4, .bcommit 3, .sget 0 13, .sget 0 12]

example : NoLRUEviction (Sys.new 200 2000 : Sys Nat Nat Nat Nat) removeHistory := by
  simp only [removeHistory, NoLRUEviction, Op.isRemove]; decide

example : ((Sys.new 200 2000 : Sys Nat Nat Nat Nat).run removeHistory).2 =
    [.ok, .ok, .ok, .ok, .ok, .ok, .hit 2, .ok, .ok, .ok, .miss, .miss, .ok, .ok, .ok, .hit 4, .miss] := by decide

/-- Q = block 11 (child of 10) writes k := 2 and is committed FIRST; `Remove(k)`; then its parent P = block 10 writes
    k := 1 and is committed; the lookup at Q finds no entry for Q (dropped), follows Q's link to P and returns P's value -/
def witnessRemove : List (Op Nat Nat Nat Nat) :=
  [.blk 1 11 10, .bset 1 0 2, .bcommit 1, .srem 0, .blk 0 10 0, .bset 0 0 1, .bcommit 0]

theorem remove_unsafe_out_of_order : ¬ C06_remove_full := by
  intro h
  have hall := h 200 2000 (witnessRemove ++ [.sget 0 11]) (by
    simp only [witnessRemove, List.cons_append, List.nil_append, NoLRUEviction, Op.isRemove]
    decide)
  have hop := AllOK.nth witnessRemove (.sget 0 11) [] hall
  have hhit : ((((Sys.new 200 2000 : Sys Nat Nat Nat Nat).run witnessRemove).1).step (.sget 0 11)).2 = .hit 1 := by decide
  have hans := (hop [] 11 0 rfl).1 1 hhit
  have horacle : Chain ((Sys.new 200 2000 : Sys Nat Nat Nat Nat).treeRun [] witnessRemove) 0 11 (.val 2) :=
    oracleN_sound (n := 2) (by decide)
  have : Entry.val (1 : Nat) = Entry.val 2 := Chain.det hans horacle
  cases this

/-! ### evictions from the link cache (`hashCache`, capacity maxHisDepth = 2000) -/

/-- `link_eviction_safe`: the link cache may evict at will (any capacity, any number of commits): as long as no per-key
    version map evicts (`entryEv` unchanged), no `Remove` occurs and no block is committed a second time after its link
    was lost, every hit at every layer carries exactly the demanded value and a removed key misses. A lost link makes
    walks stop at a gap — it only turns hits into misses. -/
theorem link_eviction_safe (capK maxDepth : Nat) (ops : List (Op H K B V))
    (hne : ((Sys.new capK maxDepth : Sys H K B V).run ops).1.sc.entryEv = 0)
    (hR : ∀ op ∈ ops, op.isRemove = false)
    (hrc : NoRecommit (Sys.new capK maxDepth) [] ops) : AllOK (Sys.new capK maxDepth) [] ops :=
  Sys.run_ok_links _ ops (SysInv0.init capK maxDepth) hne hR hrc

/-- non-vacuity: link capacity 2, a chain A ← B ← C ← D with A writing the key; the third and fourth commits evict the
    links of A and B. The lookup at D walks D, C and stops at the gap (B's link is gone): a miss where an unbounded link
    cache would hit — never a wrong hit; A itself still answers. The LRU did evict (`evictions` = 2) while no version map
    did (`entryEv` = 0). -/
def linkHistory : List (Op Nat Nat Nat Nat) :=
  [.blk 0 10 0, .bset 0 0 1, .bcommit 0, .blk 1 11 10, .bcommit 1, .blk 2 12 11, .bcommit 2,
   .blk 3 13 12, .bcommit 3, .sget 0 13, .sget 0 12, .sget 0 10]

example : ((Sys.new 200 2 : Sys Nat Nat Nat Nat).run linkHistory).2 =
    [.ok, .ok, .ok, .ok, .ok, .ok, .ok, .ok, .ok, .miss, .miss, .hit 1] := by decide

example : ((Sys.new 200 2 : Sys Nat Nat Nat Nat).run linkHistory).1.sc.entryEv = 0 ∧
    0 < ((Sys.new 200 2 : Sys Nat Nat Nat Nat).run linkHistory).1.sc.evictions ∧
    NoRecommit (Sys.new 200 2 : Sys Nat Nat Nat Nat) [] linkHistory := by
  refine ⟨by decide, by decide, by decide⟩

/-! ### key-map drops AND link evictions in one history -/

/-- `drops_and_link_evictions_safe`: `Remove`s (outer-LRU evictions of whole version maps) at arbitrary points and a link
    cache that evicts at will, together: if no per-key version map evicts, blocks are committed in ancestor order and no
    block is committed again after its link was lost, every lookup is still correct. The last condition is necessary
    (`recommit_after_remove_unsafe`). -/
theorem drops_and_link_evictions_safe (capK maxDepth : Nat) (ops : List (Op H K B V))
    (hne : ((Sys.new capK maxDepth : Sys H K B V).run ops).1.sc.entryEv = 0)
    (hio : InOrderRun (Sys.new capK maxDepth) [] ops)
    (hrc : NoRecommit (Sys.new capK maxDepth) [] ops) : AllOK (Sys.new capK maxDepth) [] ops :=
  Sys.run_ok_drops_links _ [] (fun _ => 0) ops (SysInv0.init capK maxDepth) (fun _ => Nat.le_refl _) hne hio hrc

/-- non-vacuity of `drops_and_link_evictions_safe`: link capacity 2; A ← B ← C ← D committed in ancestor order, A and B
    write key 0, C writes key 1; `Remove(0)` after B's commit; the commits of C and D evict the links of A and B. All three
    side conditions hold, the link cache DID evict, a `Remove` IS in the run, and the lookups answer: key 0 at B misses
    (map dropped — a miss, never a wrong hit), key 1 at D hits C's value through the surviving links. -/
def dropLinkHistory : List (Op Nat Nat Nat Nat) :=
  [.blk 0 10 0, .bset 0 0 1, .bcommit 0, .blk 1 11 10, .bset 1 0 2, .bcommit 1, .srem 0,
   .blk 2 12 11, .bset 2 1 5, .bcommit 2, .blk 3 13 12, .bcommit 3, .sget 0 11, .sget 1 13, .sget 0 13]

example : ((Sys.new 200 2 : Sys Nat Nat Nat Nat).run dropLinkHistory).1.sc.entryEv = 0 ∧
    0 < ((Sys.new 200 2 : Sys Nat Nat Nat Nat).run dropLinkHistory).1.sc.evictions ∧
    (dropLinkHistory.any (fun op => op.isRemove)) = true ∧
    InOrderRun (Sys.new 200 2 : Sys Nat Nat Nat Nat) [] dropLinkHistory ∧
    NoRecommit (Sys.new 200 2 : Sys Nat Nat Nat Nat) [] dropLinkHistory ∧
    ((Sys.new 200 2 : Sys Nat Nat Nat Nat).run dropLinkHistory).2.drop 12 = [.miss, .hit 5, .miss] := by
  refine ⟨by decide, by decide, by decide, InOrderRun.of_b (by decide), by decide, by decide⟩

example : AllOK (Sys.new 200 2 : Sys Nat Nat Nat Nat) [] dropLinkHistory :=
  drops_and_link_evictions_safe 200 2 dropLinkHistory (by decide) (InOrderRun.of_b (by decide)) (by decide)

/-- the same statement without `NoRecommit` -/
def C06_combined_full : Prop :=
  ∀ (capK maxDepth : Nat) (ops : List (Op Nat Nat Nat Nat)),
    ((Sys.new capK maxDepth : Sys Nat Nat Nat Nat).run ops).1.sc.entryEv = 0 →
    InOrderRun (Sys.new capK maxDepth) [] ops → AllOK (Sys.new capK maxDepth) [] ops

/-- link capacity 3. Q = 10 writes key 0 := 1; S = 11 (child of Q) writes key 0 := 2 and key 1; X = 12 (child of S) writes
    key 2; an unrelated block F = 13 pushes Q's link out; `Remove(0)`; lookups of keys 1 and 2 at S and X refresh their
    links; a second block cache for Q with the same content is committed — its link is gone, so the commit takes effect
    and re-creates Q's entry for key 0; the lookup of key 0 at X passes S (entry dropped, link present) and returns Q's
    value 1 instead of S's value 2. All commits are in ancestor order and no version map evicts. -/
def witnessRecommit : List (Op Nat Nat Nat Nat) :=
  [.blk 0 10 0, .bset 0 0 1, .bcommit 0,
   .blk 1 11 10, .bset 1 0 2, .bset 1 1 5, .bcommit 1,
   .blk 2 12 11, .bset 2 2 6, .bcommit 2,
   .blk 3 13 0, .bcommit 3,
   .srem 0, .sget 1 11, .sget 2 12,
   .blk 5 10 0, .bset 5 0 1, .bcommit 5]

theorem recommit_after_remove_unsafe : ¬ C06_combined_full := by
  intro h
  have hall := h 200 3 (witnessRecommit ++ [.sget 0 12]) (by decide) (InOrderRun.of_b (by decide))
  have hop := AllOK.nth witnessRecommit (.sget 0 12) [] hall
  have hhit : ((((Sys.new 200 3 : Sys Nat Nat Nat Nat).run witnessRecommit).1).step (.sget 0 12)).2 = .hit 1 := by decide
  have hans := (hop [] 12 0 rfl).1 1 hhit
  have horacle : Chain ((Sys.new 200 3 : Sys Nat Nat Nat Nat).treeRun [] witnessRecommit) 0 12 (.val 2) :=
    oracleN_sound (n := 3) (by decide)
  have : Entry.val (1 : Nat) = Entry.val 2 := Chain.det hans horacle
  cases this

/-! ### the maxHisDepth boundary -/

/-- `found_at_max_depth`: on a cache satisfying the invariant (what `memo_sound` establishes after any history without
    eviction), a value written exactly `maxDepth` parent steps up the chain — the largest depth the walk visits — is
    found, as is any value nearer (`n ≤ maxDepth`), provided the lookup itself evicts nothing. -/
theorem found_at_max_depth {T : Tree K B V} (sc : SC K B V) (hI : Inv sc T none) {k : K} {d b : B} {x : Blk K B V} {v : V}
    {n : Nat} (hwalk : WalkN T k n d b) (hn : n ≤ sc.maxDepth) (hx : T.find b = some x)
    (hw : alookup x.writes k = some (.val v)) (hev : (sc.get k d).1.evictions = sc.evictions) :
    (sc.get k d).2 = some v :=
  SC.get_complete sc hI hwalk hn hx hw hev

/-- `miss_beyond_max_depth`: if the first `maxDepth + 1` blocks of `d`'s chain (depths 0 … maxDepth) are committed and the
    cache holds no entry of `k` at any of them, the lookup misses — a value `maxDepth + 1` or more steps up is never
    reached, and nothing else is returned in its place. -/
theorem miss_beyond_max_depth {T : Tree K B V} (sc : SC K B V) (hI : Inv sc T none) {k : K} {d : B}
    (hne : NoEntryN sc T k (sc.maxDepth + 1) d) (hev : (sc.get k d).1.evictions = sc.evictions) :
    (sc.get k d).2 = none :=
  SC.get_cutoff sc hI hne hev

/-- the boundary on a concrete chain with maxDepth = 3 (and a large link capacity is not available separately: the link
    cache has the same capacity, so the chain is kept at 4 links by a lookup-free history): r writes k; c1 ← c2 ← c3 ← c4.
    At c3 the value is 3 steps up: hit. At c4 it is 4 steps up: miss. A self-parent block s exercises the cut-off proper:
    its chain never ends, the walk stops after maxDepth + 1 visits. -/
example : ((Sys.new 200 3 : Sys Nat Nat Nat Nat).run
    [.blk 0 10 0, .bset 0 0 7, .bcommit 0, .blk 1 11 10, .bcommit 1, .blk 2 12 11, .bcommit 2, .blk 3 13 12, .bcommit 3,
     .sget 0 13, .blk 9 99 99, .bcommit 9, .sget 0 99]).2
    = [.ok, .ok, .ok, .ok, .ok, .ok, .ok, .ok, .ok, .hit 7, .ok, .ok, .miss] := by decide

/-- `fork_independent`: the answer for `(k, b)` only reads the blocks on `b`'s own ancestor chain — two trees that agree
    on those blocks give the same answer. -/
theorem fork_independent {T T' : Tree K B V} {k : K} {b : B} {e : Entry V}
    (hagree : ∀ c, Anc T b c → T'.find c = T.find c) : Chain T k b e ↔ Chain T' k b e := by
  have fwd : ∀ {T T' : Tree K B V} {b : B}, (∀ c, Anc T b c → T'.find c = T.find c) → Chain T k b e → Chain T' k b e := by
    intro T T' b hag h
    induction h with
    | here hf hw => exact .here (by rw [hag _ (.refl _)]; exact hf) hw
    | up hf hw _ ih =>
      exact .up (by rw [hag _ (.refl _)]; exact hf) hw (ih (fun c hc => hag c (.step hf hc)))
  have anc : ∀ c, Anc T' b c → Anc T b c := by
    intro c hc
    induction hc with
    | refl b => exact .refl b
    | step hf _ ih =>
      have hf' := hf
      rw [hagree _ (.refl _)] at hf'
      exact .step hf' (ih (fun c hc => hagree c (.step hf' hc)))
  exact ⟨fwd hagree, fwd (fun c hc => (hagree c (anc c hc)).symm)⟩

/-- corollary: committing a block that is not on `b`'s chain (a sibling fork, a descendant, an unrelated block) does
    not change the answer at `b`. -/
theorem commit_elsewhere {T : Tree K B V} (x : Blk K B V) {k : K} {b : B} {e : Entry V}
    (hoff : ¬ Anc (T.commit x) b x.hash) : Chain (T.commit x) k b e ↔ Chain T k b e := by
  apply fork_independent
  intro c hc
  unfold Tree.commit at *
  cases hx : T.find x.hash with
  | some y => rfl
  | none =>
    rw [hx] at hc hoff
    rw [Tree.find_append_of_none T x c hx] at *
    by_cases hxc : x.hash = c
    · subst hxc; exact absurd hc hoff
    · simp [hxc]

/-! ### the full statement is false: capacity witness (finding C06-capacity-eviction) -/

theorem C06_full_false_capacity : ¬ C06_full := by
  intro h
  have hall := h 2 8 (witnessCap ++ [.sget 0 12])
  have hop := AllOK.nth witnessCap (.sget 0 12) [] hall
  have hans := (hop [] 12 0 rfl).1 1 witnessCap_hit
  have : Entry.val (1 : Nat) = Entry.val 2 := Chain.det hans witnessCap_oracle
  cases this

/-! ### the hypotheses of `C06_partial` are satisfiable by a non-trivial history -/

/-- A writes k, B child of A, C child of B writes k (through a transaction), sibling fork F of B removes k; lookups at
    B, C, F and through the layers, including through C's block and transaction caches after C's commit; no eviction -/
def sampleHistory : List (Op Nat Nat Nat Nat) :=
  [.blk 0 10 0, .bset 0 0 1, .bcommit 0,
   .blk 1 11 10, .bcommit 1,
   .blk 2 12 11, .txn 20 2, .tset 20 0 2, .tget 20 0, .bget 2 0, .tcommit 20, .bget 2 0, .bcommit 2,
   .blk 3 13 11, .txn 21 3, .trem 21 0, .tcommit 21, .bget 3 0, .bcommit 3,
   .sget 0 11, .sget 0 12, .qget 13 0, .sget 0 12, .bget 2 0, .tget 20 0, .bget 3 0]

example : NoEviction (Sys.new 200 2000 : Sys Nat Nat Nat Nat) sampleHistory := by
  unfold NoEviction; decide

/-- the distinct-blocks condition holds for `sampleHistory` with a per-key capacity of only 4 (blocks 10..13) although it
    has 4 commits and 11 lookups of the key — the operation-count condition of `noEviction_of_counts` would need 15 -/
example : ∀ b, b ∈ (Sys.new 4 4 : Sys Nat Nat Nat Nat).cands 0 sampleHistory → b ∈ [10, 11, 12, 13] := by
  decide

example : ((Sys.new 200 2000 : Sys Nat Nat Nat Nat).run sampleHistory).2 =
    [.ok, .ok, .ok, .ok, .ok, .ok, .ok, .ok, .hit 2, .hit 1, .ok, .hit 2, .ok,
     .ok, .ok, .ok, .ok, .miss, .ok, .hit 1, .hit 2, .miss, .hit 2, .hit 2, .hit 2, .miss] := by
  decide

end Verif.Props.C06
