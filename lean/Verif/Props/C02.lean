/-
C02 — State root is a canonical, format-stable commitment to content. (Theorems are added as they are proved.)
-/
import Verif.Model.MptEnc
import Verif.Lemmas.MptWF
namespace Verif.Props.C02
open Verif.Mpt

/-- the root is a function of the tree: equal trees have equal roots (used with canonical-form uniqueness) -/
theorem root_congr (H : Bytes → Bytes) (t₁ t₂ : Node) (h : t₁ = t₂) : root H t₁ = root H t₂ := by rw [h]

end Verif.Props.C02
