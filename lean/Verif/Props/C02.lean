/-
C02 — State root is a canonical, format-stable commitment to content.

"At a fixed trie version, the root hash depends only on the set of path/value pairs currently stored, never on the
order of operations or on values stored and later removed.  Two tries with different content have different roots."

Proved here (model `Verif.Model.Mpt` / `Verif.Model.MptEnc`):
  * `C02_canonical_unique`     canonical tries (`WF`) with one origin and equal content are equal trees;
  * `C02_root_of_content`      … hence have equal roots, for every hash function `H`;
  * `C02_allOrigin_insert/_delete`  operations at version `v` only create nodes of origin `v`;
  * `C02_run_repr`, `C02_history_independent`, `C02_root_history_independent`
                               two operation sequences (exported `Insert`/`Delete`, one version) with the same
                               abstract content produce the same tree and the same root
                               (relative to `MapLaws`, the map-refinement facts of C01);
  * `C02_canon_builder`, `C02_root_canon_builder` (+ `C02_canonOf_spec`, `_content_only`, `C02_contentList_spec`)
                               second sentence: the trie of any history IS `canonOf v (contentList ops)`, the canonical
                               trie built independently (not through `insert`) from the finite content;
  * `C02_injective` (def)      "different content ⇒ different root" for an injective hash — FALSE:
    `C02_injective_false`      leaf ↔ extension type confusion (witness with `H = id`),
    `C02_collision_any_hash`   leaf ↔ branch type confusion, a root collision for EVERY hash function,
    `C02_not_injective`;
  * `C02_injective_partial`, `_lookup`, `_fixed_length`
                               equal roots ⇒ equal tries for canonical, single-origin, type-unambiguous (`Unamb`)
                               tries when the hash has no collision among their node hash inputs.
-/
import Verif.Model.MptEnc
import Verif.Lemmas.MptWF
import Verif.Lemmas.MptCanon
import Verif.Lemmas.MptCanonDec
import Verif.Lemmas.MptHistory
import Verif.Lemmas.MptEncInj
import Verif.Lemmas.MptEncWitness
import Verif.Lemmas.MptCanonExamples
import Verif.Lemmas.MptCanonOf
import Verif.Props.C01
namespace Verif.Props.C02
open Verif.Mpt

/-! ### A. uniqueness of the canonical form -/

/-- Two canonical tries whose nodes were all written at version `v` and which store the same path/value pairs are
    the same tree. -/
theorem C02_canonical_unique (v : Nat) (t₁ t₂ : Node) (hw₁ : WF t₁) (hw₂ : WF t₂)
    (ho₁ : AllOrigin v t₁) (ho₂ : AllOrigin v t₂) (h : ∀ q, lookup t₁ q = lookup t₂ q) : t₁ = t₂ :=
  canon_unique_wf v t₁ t₂ hw₁ hw₂ ho₁ ho₂ h

/-- … and therefore have the same root key, whatever the hash function. -/
theorem C02_root_of_content (H : Bytes → Bytes) (v : Nat) (t₁ t₂ : Node) (hw₁ : WF t₁) (hw₂ : WF t₂)
    (ho₁ : AllOrigin v t₁) (ho₂ : AllOrigin v t₂) (h : ∀ q, lookup t₁ q = lookup t₂ q) :
    root H t₁ = root H t₂ := by
  rw [C02_canonical_unique v t₁ t₂ hw₁ hw₂ ho₁ ho₂ h]

/-- non-vacuity (`exA₁`, `exA₂` in `Verif.Lemmas.MptCanonExamples`: the same two entries inserted in both orders; the
    two trees differ as terms, their children functions being built in different orders) -/
example : WF exA₁ ∧ WF exA₂ ∧ AllOrigin 7 exA₁ ∧ AllOrigin 7 exA₂ ∧ lookup exA₁ [0, 1] = some [1] ∧
    ∀ q, lookup exA₁ q = lookup exA₂ q :=
  ⟨exA_wf.1, exA_wf.2.1, exA_wf.2.2.1, exA_wf.2.2.2, by decide, exA_lookup⟩

/-! ### B. origins -/

theorem C02_allOrigin_insert (v : Nat) (b : Bytes) (t : Node) (p : List Nib) (h : AllOrigin v t) :
    AllOrigin v (insert v b t p) :=
  allOrigin_insert v b t p h

theorem C02_allOrigin_delete (v : Nat) (t : Node) (p : List Nib) (t' : Node) (h : AllOrigin v t)
    (hd : delete v t p = .node t') : AllOrigin v t' :=
  allOrigin_delete v t p t' h hd

example : AllOrigin 7 exA₁ ∧ delete 7 exA₁ [0, 1] = .node (.leaf 7 [0, 2] [2]) := ⟨by decide, rfl⟩

/-! ### C. history independence -/

/-! `MapLaws` (the C01 map-refinement facts as one named hypothesis), `Op`, `run`, `content` are defined in
    `Verif.Lemmas.MptHistory`. -/

/-- the trie produced by a sequence of operations is canonical, single-origin, and represents `content ops` -/
theorem C02_run_repr (L : MapLaws) (maxSize v : Nat) (ops : List Op) :
    WF (run maxSize v ops) ∧ AllOrigin v (run maxSize v ops) ∧
      ∀ q, lookup (run maxSize v ops) q = content maxSize ops q :=
  repr_runFrom L maxSize v ops .empty (fun _ => none) ⟨Or.inl rfl, by simp [AllOrigin], fun q => by simp⟩

/-- **History independence.** At one trie version, two sequences of `Insert`/`Delete` calls that leave the same set of
    path/value pairs produce the same tree — whatever the order of the calls and whatever was stored and removed in
    between. -/
theorem C02_history_independent (L : MapLaws) (maxSize v : Nat) (ops₁ ops₂ : List Op)
    (h : content maxSize ops₁ = content maxSize ops₂) : run maxSize v ops₁ = run maxSize v ops₂ := by
  obtain ⟨hw₁, ho₁, hm₁⟩ := C02_run_repr L maxSize v ops₁
  obtain ⟨hw₂, ho₂, hm₂⟩ := C02_run_repr L maxSize v ops₂
  exact C02_canonical_unique v _ _ hw₁ hw₂ ho₁ ho₂ (fun q => by rw [hm₁, hm₂, h])

/-- … and therefore the same root hash, for every hash function `H`. -/
theorem C02_root_history_independent (L : MapLaws) (H : Bytes → Bytes) (maxSize v : Nat) (ops₁ ops₂ : List Op)
    (h : content maxSize ops₁ = content maxSize ops₂) :
    root H (run maxSize v ops₁) = root H (run maxSize v ops₂) := by
  rw [C02_history_independent L maxSize v ops₁ ops₂ h]

/-- non-vacuity of the content hypothesis: different orders, and an entry stored and removed again -/
def exOps₁ : List Op := [.ins [0, 1] [1], .ins [0, 2] [2], .ins [3] [9], .del [3]]
def exOps₂ : List Op := [.ins [0, 2] [2], .ins [3] [], .ins [0, 1] [1]]

example : content 100 exOps₁ = content 100 exOps₂ ∧ content 100 exOps₁ [0, 1] = some [1] ∧
    run 100 7 exOps₁ = exA₁ ∧ run 100 7 exOps₂ = exA₂ := by
  refine ⟨?_, by decide, rfl, rfl⟩
  funext q
  simp only [content, contentFrom, exOps₁, exOps₂, List.foldl, stepMap]
  by_cases h1 : q = [0, 1] <;> by_cases h2 : q = [0, 2] <;> by_cases h3 : q = [3] <;> simp_all

/-! ### D. "Two tries with different content have different roots" — false as stated; a partial form -/

/-- the full claim: for a collision-free (injective) hash, equal roots imply equal content -/
def C02_injective : Prop :=
  ∀ H : Bytes → Bytes, Function.Injective H → ∀ (v : Nat) (t₁ t₂ : Node), WF t₁ → WF t₂ → AllOrigin v t₁ →
    AllOrigin v t₂ → root H t₁ = root H t₂ → ∀ q, lookup t₁ q = lookup t₂ q

/-- **Known finding (type confusion, leaf ↔ extension).**  The hash input has no node-type tag: an extension at
    position `P` with path `P` whose child key starts with `:` encodes like a leaf at `P` with empty path.  Witness:
    `H = id`, origin 58 (`xExt`, `xLeaf` in `Verif.Lemmas.MptEncWitness`). -/
theorem C02_injective_false :
    ∃ H : Bytes → Bytes, Function.Injective H ∧ ∃ (v : Nat) (t₁ t₂ : Node), WF t₁ ∧ WF t₂ ∧ AllOrigin v t₁ ∧
      AllOrigin v t₂ ∧ (∃ q, lookup t₁ q ≠ lookup t₂ q) ∧ root H t₁ = root H t₂ :=
  ⟨id, fun _ _ h => h, 58, xExt, xLeaf, by decide, by decide, by decide, by decide, ⟨[1], xLookup⟩, xRoot⟩

/-- **Known finding (type confusion, leaf ↔ branch), for every hash function.**  A root leaf whose path is the hex
    form of a node key and whose value is `hex(key₂) ++ 14 × ':'` has the same hash input as the root branch with
    children 1 and 2 — no property of `H` is needed, so this is a collision for SHA3 as well. -/
theorem C02_collision_any_hash (H : Bytes → Bytes) (v : Nat) :
    ∃ t₁ t₂ : Node, WF t₁ ∧ WF t₂ ∧ AllOrigin v t₁ ∧ AllOrigin v t₂ ∧ (∃ q, lookup t₁ q ≠ lookup t₂ q) ∧
      root H t₁ = root H t₂ :=
  ⟨cLeaf H v, cFull v, (cWF H v).1, (cWF H v).2, (cOrigin H v).1, (cOrigin H v).2, ⟨[1], cLookup H v⟩, cRoot H v⟩

/-- the full claim fails -/
theorem C02_not_injective : ¬ C02_injective := by
  intro h
  obtain ⟨t₁, t₂, hw₁, hw₂, ho₁, ho₂, ⟨q, hq⟩, hr⟩ := C02_collision_any_hash id 0
  exact hq (h id (fun _ _ e => e) 0 t₁ t₂ hw₁ hw₂ ho₁ ho₂ hr q)

/-- **Partial form.**  If the hash has no collision among the node hash inputs of the two tries (`CollisionFree`,
    implied by injectivity), never returns the nil key, and both tries are *type-unambiguous* (`Unamb`, see
    `Verif.Lemmas.MptEncInj`), then equal roots imply equal tries.  `Unamb H t []` excludes exactly:
    * leaf ↔ branch: a leaf located at `[]` or at a position spelling a hash whose value has ≥ 14 bytes `:`;
    * extension ↔ leaf: an extension whose path equals its own position and whose child key is hex digits then `:`;
    * extension ↔ branch: an extension whose path spells a hash and whose child key is hex digits then `:`. -/
theorem C02_injective_partial (H : Bytes → Bytes) (hne : ∀ x, H x ≠ []) (v : Nat) (t₁ t₂ : Node)
    (hcf : CollisionFree H t₁ t₂ []) (hw₁ : WF t₁) (hw₂ : WF t₂) (ho₁ : AllOrigin v t₁) (ho₂ : AllOrigin v t₂)
    (hu₁ : Unamb H t₁ []) (hu₂ : Unamb H t₂ []) (h : root H t₁ = root H t₂) : t₁ = t₂ :=
  key_inj H hne v t₁ t₂ [] hw₁ hw₂ ho₁ ho₂ hu₁ hu₂ hcf h

/-- the partial form in the shape of `C02_injective` (injective hash, equal content) -/
theorem C02_injective_partial_lookup (H : Bytes → Bytes) (hinj : Function.Injective H) (hne : ∀ x, H x ≠ [])
    (v : Nat) (t₁ t₂ : Node) (hw₁ : WF t₁) (hw₂ : WF t₂) (ho₁ : AllOrigin v t₁) (ho₂ : AllOrigin v t₂)
    (hu₁ : Unamb H t₁ []) (hu₂ : Unamb H t₂ []) (h : root H t₁ = root H t₂) : ∀ q, lookup t₁ q = lookup t₂ q := by
  rw [C02_injective_partial H hne v t₁ t₂ (collisionFree_of_injective hinj _ _ _) hw₁ hw₂ ho₁ ho₂ hu₁ hu₂ h]
  intro q; rfl

/-- for a hash with `n`-byte output the length-based condition `UnambLen n` suffices (n = 32 for SHA3-256;
    collision freedom is then the hypothesis `CollisionFree`, which — unlike injectivity — a compressing hash can
    satisfy) -/
theorem C02_injective_partial_fixed_length (H : Bytes → Bytes) (n : Nat) (hn : 0 < n) (hlen : ∀ x, (H x).length = n)
    (v : Nat) (t₁ t₂ : Node) (hcf : CollisionFree H t₁ t₂ []) (hw₁ : WF t₁) (hw₂ : WF t₂) (ho₁ : AllOrigin v t₁)
    (ho₂ : AllOrigin v t₂) (hu₁ : UnambLen n H t₁ []) (hu₂ : UnambLen n H t₂ []) (h : root H t₁ = root H t₂) :
    t₁ = t₂ :=
  C02_injective_partial H (fun x hx => by have := hlen x; rw [hx] at this; simp at this; omega) v t₁ t₂ hcf hw₁ hw₂
    ho₁ ho₂ (unamb_of_unambLen hlen _ _ hu₁) (unamb_of_unambLen hlen _ _ hu₂) h

/-- non-vacuity of `C02_injective_partial` / `_lookup`: an injective hash that never returns the nil key, two canonical
    type-unambiguous tries (built in different orders) with equal roots -/
example : Function.Injective exH ∧ (∀ x, exH x ≠ []) ∧ CollisionFree exH exA₁ exA₂ [] ∧ WF exA₁ ∧ WF exA₂ ∧
    AllOrigin 7 exA₁ ∧ AllOrigin 7 exA₂ ∧ Unamb exH exA₁ [] ∧ Unamb exH exA₂ [] ∧ root exH exA₁ = root exH exA₂ :=
  ⟨exH_inj, fun _ h => (by cases h), collisionFree_of_injective exH_inj _ _ _, exA_wf.1, exA_wf.2.1, exA_wf.2.2.1,
    exA_wf.2.2.2, exA_unamb.1, exA_unamb.2,
    C02_root_of_content exH 7 _ _ exA_wf.1 exA_wf.2.1 exA_wf.2.2.1 exA_wf.2.2.2 exA_lookup⟩

/-- non-vacuity of `C02_injective_partial_fixed_length`: its hypotheses are compatible with a compressing hash -/
example : (0 < 4) ∧ (∀ x, (exH4 x).length = 4) ∧ CollisionFree exH4 (.leaf 7 [1, 2] [5]) (.leaf 7 [1, 2] [5]) [] ∧
    WF (.leaf 7 [1, 2] [5]) ∧ AllOrigin 7 (.leaf 7 [1, 2] [5]) ∧ UnambLen 4 exH4 (.leaf 7 [1, 2] [5]) [] :=
  ⟨by decide, exH4_spec.1, exH4_spec.2.1, by decide, by decide, exH4_spec.2.2⟩

/-- the witnesses of the two findings violate `Unamb` (so the side condition is not satisfied by accident):
    the root leaf of `cLeaf` sits at position `[]` and its value has 14 separators -/
example (H : Bytes → Bytes) (v : Nat) : ¬ Unamb H (cLeaf H v) [] := by
  intro h
  have := h (Or.inl rfl)
  simp [List.count_append] at this
  omega


/-! ### Closing the interface: the map laws are the C01 theorems -/

/-- `MapLaws` holds of the model: every field is a theorem of `Verif.Props.C01`. -/
theorem mapLaws : MapLaws where
  lookup_insert := fun _ _ _ _ _ hwf hb => Verif.Props.C01.lookup_insert hwf hb
  wf_insert := fun _ _ _ _ hwf hb => Verif.Props.C01.wf_insert hwf hb
  lookup_delete_node := fun _ _ _ _ hwf hd => Verif.Props.C01.lookup_delete_node hwf hd
  lookup_delete_removed := fun _ _ _ hwf hd => Verif.Props.C01.lookup_delete_removed hwf hd
  wf_delete := fun _ _ _ _ hwf hd => Verif.Props.C01.wf_delete hwf hd
  delete_notPresent_iff := fun _ _ _ hwf => Verif.Props.C01.delete_notPresent_iff hwf
  delete_no_panic := fun _ _ _ hwf => Verif.Props.C01.delete_no_panic hwf

/-- **C02, first sentence, unconditionally**: at a fixed trie version `v`, two histories of inserts, overwrites,
    deletes (incl. delete-then-reinsert, interior-path values, rejected and failing operations) that end in the same
    content produce the same trie, hence the same root for every hash function. -/
theorem C02_history_independent_closed (maxSize v : Nat) (ops₁ ops₂ : List Op)
    (h : content maxSize ops₁ = content maxSize ops₂) : run maxSize v ops₁ = run maxSize v ops₂ :=
  C02_history_independent mapLaws maxSize v ops₁ ops₂ h

theorem C02_root_history_independent_closed (H : Bytes → Bytes) (maxSize v : Nat) (ops₁ ops₂ : List Op)
    (h : content maxSize ops₁ = content maxSize ops₂) :
    root H (run maxSize v ops₁) = root H (run maxSize v ops₂) :=
  C02_root_history_independent mapLaws H maxSize v ops₁ ops₂ h

/-- the trie reached by any history is the canonical one for its content: it is `WF`, all origins are `v`, and it
    looks up exactly the abstract content -/
theorem C02_run_repr_closed (maxSize v : Nat) (ops : List Op) :
    WF (run maxSize v ops) ∧ AllOrigin v (run maxSize v ops) ∧
      ∀ q, lookup (run maxSize v ops) q = content maxSize ops q :=
  C02_run_repr mapLaws maxSize v ops

/-! ### E. The root equals an independent recomputation from the content

`canonOf v l` (`Verif.Lemmas.MptCanonOf`) builds the canonical trie directly from a finite content `l` (association
list, distinct paths, non-empty values) — one entry → leaf with the remaining path; all paths share the first nibble →
that nibble joins the common prefix; otherwise a branch (value = the entry with empty remaining path, child `i` = the
tails of the paths starting with `i`) under an extension carrying the common prefix.  It is not defined through
`insert`/`delete`.  `contentList ops` is the finite content of a history (`alookup (contentList ops) = content ops`). -/

/-- the independent builder is correct: canonical, single-origin, and it stores exactly the content -/
theorem C02_canonOf_spec (v : Nat) (l : List Entry) (hg : Good l) :
    WF (canonOf v l) ∧ AllOrigin v (canonOf v l) ∧ ∀ q, lookup (canonOf v l) q = alookup l q :=
  canonOf_spec v hg

/-- the builder depends on the content only (not on the order of the list) -/
theorem C02_canonOf_content_only (v : Nat) (l₁ l₂ : List Entry) (hg₁ : Good l₁) (hg₂ : Good l₂)
    (h : ∀ q, alookup l₁ q = alookup l₂ q) : canonOf v l₁ = canonOf v l₂ :=
  eq_canonOf hg₂ (canonOf_spec v hg₁).1 (canonOf_spec v hg₁).2.1 (fun q => by rw [(canonOf_spec v hg₁).2.2, h])

/-- the finite content of a history is a well-formed content list that represents the abstract content -/
theorem C02_contentList_spec (maxSize : Nat) (ops : List Op) :
    Good (contentList maxSize ops) ∧ ∀ q, alookup (contentList maxSize ops) q = content maxSize ops q :=
  contentList_spec maxSize ops

/-- **C02, second sentence**: the trie reached by ANY history at version `v` is the independently built canonical trie
    of its content … -/
theorem C02_canon_builder (maxSize v : Nat) (ops : List Op) :
    run maxSize v ops = canonOf v (contentList maxSize ops) := by
  obtain ⟨hw, ho, hm⟩ := C02_run_repr_closed maxSize v ops
  obtain ⟨hg, hc⟩ := contentList_spec maxSize ops
  exact eq_canonOf hg hw ho (fun q => by rw [hm, hc])

/-- … hence the root equals the root recomputed from the content, for every hash function. -/
theorem C02_root_canon_builder (H : Bytes → Bytes) (maxSize v : Nat) (ops : List Op) :
    root H (run maxSize v ops) = root H (canonOf v (contentList maxSize ops)) := by
  rw [C02_canon_builder]

/-- non-vacuity: four keys sharing prefixes, one of them (`[1,2]`) a prefix of two others, plus an overwrite, a
    delete and a rejected insert in the history; the builder's result is the expected extension/branch/leaf tree -/
def exOps₃ : List Op :=
  [.ins [1, 2, 3] [7], .ins [5] [9], .ins [1, 2] [8], .ins [1, 2, 3] [6], .ins [1, 2, 4, 0] [5], .del [5],
   .ins [1, 7] [4], .ins [2] []]

example : contentList 100 exOps₃ = [([1, 7], [4]), ([1, 2, 4, 0], [5]), ([1, 2, 3], [6]), ([1, 2], [8])] := by decide

example : Good (contentList 100 exOps₃) := (C02_contentList_spec 100 exOps₃).1

example : lookup (canonOf 7 (contentList 100 exOps₃)) [1, 2] = some [8] ∧
    lookup (canonOf 7 (contentList 100 exOps₃)) [1, 2, 4, 0] = some [5] ∧
    lookup (canonOf 7 (contentList 100 exOps₃)) [5] = none := by decide

example : ∃ ch₁ ch₂, canonOf 7 (contentList 100 exOps₃) = .ext 7 [1] (.full 7 ch₁ none) ∧
    ch₁ 7 = .leaf 7 [] [4] ∧ ch₁ 2 = .full 7 ch₂ (some [8]) ∧ ch₂ 3 = .leaf 7 [] [6] ∧ ch₂ 4 = .leaf 7 [0] [5] ∧
    ch₁ 0 = .empty :=
  ⟨_, _, rfl, rfl, rfl, rfl, rfl, rfl⟩

end Verif.Props.C02
