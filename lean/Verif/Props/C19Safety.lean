/-
C19 — index safety of the Merkle tree.  `Verif.Model.MerkleChecked` runs the code of `merkle_tree.go` with every index
expression checked (`.panic` where the Go run time panics).  Inside the property's quantifier — a non-empty leaf
list, every leaf position — nothing panics and the results are those of the total model the C19 theorems are about;
outside it, the theorems below say which calls do panic.
-/
import Verif.Lemmas.MerkleChecked
namespace Verif.Props.C19
open Verif.Merkle

variable {α : Type} [DecidableEq α] (H : α → α → α) (z : α)

omit [DecidableEq α] in
/-- `ComputeTree` of a non-empty list never indexes out of range, and builds the tree of the total model. -/
theorem computeTree_no_panic (ls : List α) (hn : 1 ≤ ls.length) :
    computeTreeC H z ls = .ok (computeTree H z ls) :=
  computeTreeC_eq H z ls hn

omit [DecidableEq α] in
/-- `GetRoot` of a computed tree never panics. -/
theorem getRoot_no_panic (ls : List α) (hn : 1 ≤ ls.length) :
    getRootC (computeTree H z ls) = .ok (getRoot z (computeTree H z ls)) :=
  getRootC_eq z _ (size_computeTree_pos H z ls hn)

omit [DecidableEq α] in
/-- `GetPathByIndex(idx)` never panics for every number of leaves `n ≥ 1` and every `0 ≤ idx < n`. -/
theorem pathByIndex_no_panic (ls : List α) (i : Nat) (hi : i < ls.length) :
    pathByIndexC z (computeTree H z ls) (i : Int) = .ok (pathByIndex z (computeTree H z ls) i) :=
  pathByIndexC_eq H z ls i hi

/-- `GetPath(hash)` never panics on a computed tree, for a member and for a non-member. -/
theorem getPath_no_panic (ls : List α) (hn : 1 ≤ ls.length) (h : α) :
    getPathC z (computeTree H z ls) h = .ok (getPath z (computeTree H z ls) h) :=
  getPathC_eq H z ls hn h

/-- `VerifyMerklePath` never panics for a non-nil path: any nodes, any claimed leaf index (negative, huge), any hash
and root. -/
theorem verify_no_panic (h : α) (p : Path α) (root : α) :
    verifyC H h (some p) root = .ok (verify H h p root) :=
  verifyC_eq H h p root

/-- `mt.VerifyPath` on a computed tree never panics for a non-nil path. -/
theorem verifyPath_no_panic (ls : List α) (hn : 1 ≤ ls.length) (h : α) (p : Path α) :
    verifyPathC H (computeTree H z ls) h (some p) = .ok (verify H h p (getRoot z (computeTree H z ls))) := by
  simp only [verifyPathC, getRoot_no_panic H z ls hn, verifyC_eq]

/-! ### What does panic (outside the property's quantifier) -/

omit [DecidableEq α] in
/-- `GetPathByIndex` panics for every negative index, on any tree; for every index greater than the array length on
any tree whose leaf count does not exceed its array (computed or loaded); for every index on the tree of the empty
list and on the zero value `&MerkleTree{}`.  (Between `n` and the array length it may return a meaningless path
instead — see the witnesses in notes/C19.md.) -/
theorem pathByIndex_panics :
    (∀ (t : Tree α) (idx : Int), idx < 0 → pathByIndexC z t idx = .panic) ∧
    (∀ (t : Tree α) (idx : Int), t.leavesCount ≤ t.tree.size → (t.tree.size : Int) < idx →
      pathByIndexC z t idx = .panic) ∧
    (∀ idx : Int, ∀ t, computeTreeC H z [] = .ok t → pathByIndexC z t idx = .panic) ∧
    (∀ idx : Int, pathByIndexC z (zeroTree : Tree α) idx = .panic) := by
  refine ⟨pathByIndexC_neg z, fun t idx h1 h2 => pathByIndexC_beyond z t h1 idx h2, ?_, pathByIndexC_zero z⟩
  intro idx t ht
  rw [computeTreeC_nil] at ht
  cases ht
  exact pathByIndexC_empty z idx

omit [DecidableEq α] in
/-- `ComputeTree(nil)` itself does not panic (one empty slot, no leaves, `GetRoot() = ""`); `GetRoot` panics exactly on
a tree with an empty array — the zero value; `SetTree` never yields one. -/
theorem empty_and_zero :
    computeTreeC H z [] = .ok { tree := #[z], leavesCount := 0, levels := 1 } ∧
    getRootC ({ tree := #[z], leavesCount := 0, levels := 1 } : Tree α) = .ok z ∧
    getRootC (zeroTree : Tree α) = .panic ∧
    (∀ (m : Int) (arr : Array α) (t : Tree α), setTreeC m arr = some t → getRootC t = .ok (getRoot z t)) := by
  refine ⟨computeTreeC_nil H z, by simp [getRootC, rdI, rd], getRootC_zero, ?_⟩
  intro m arr t ht
  apply getRootC_eq
  simp only [setTreeC, setTree] at ht
  split at ht
  · cases ht
  · cases ht
    rename_i hsz
    have : 1 ≤ (computeSize m.toNat).1 := by
      rw [computeSize_fst]; split
      · omega
      · exact sz_pos _
    simp only [ne_eq, Decidable.not_not] at hsz
    show 0 < arr.size
    omega

/-- a nil `*MTPath` panics -/
theorem verify_nil_panics (h root : α) : verifyC H h none root = .panic := rfl

end Verif.Props.C19
