import Verif.Gen.Currency
import Verif.Lemmas.F64
/-! # C18 — why the four `fix:` commits were needed

Hand-written mirrors of the functions as they were in commit 70d872e (before da02b92, a84c1c7, 3c691f2, f451b72), in
the same style as the generated code, with closed-term witnesses that the C18 specification is FALSE of them. (Running
the translator on 70d872e produces exactly these bodies; `bin/check` with `VERIF_REPO=<70d872e>` then fails to build
`Props/C18`.) Only error values that already existed in 70d872e are mentioned, so this file builds on either tree. -/
namespace Verif.Props.C18Witness
open Verif.GoSem Verif.F64 Verif.Dec Verif.Gen.Currency

/-- 70d872e: `if a != 0 && a/c != b` -/
def MultCoinOld (c : Coin) (b : Coin) : Res ErrKind Coin :=
  let a := (c * b)
  if a ≠ 0#64 then
    if c = 0#64 then .panic else
    if (a / c) ≠ b then
      .err ErrKind.ErrUint64MultOverflow
    else
      .ok a
  else
    .ok a

/-- `2^32 · 2^32 = 2^64` wraps to 0 and is returned as a valid amount -/
theorem multCoinOld_wraps_to_zero : MultCoinOld 4294967296#64 4294967296#64 = .ok 0#64 := by decide

/-- so the specification (`multCoin_spec`) is false of the old code -/
theorem multCoinOld_violates_spec :
    ¬ ∀ c b : Coin, MultCoinOld c b = if c.toNat * b.toNat < 2 ^ 64 then .ok (BitVec.ofNat 64 (c.toNat * b.toNat))
      else .err .ErrUint64MultOverflow := by
  intro h
  have := h 4294967296#64 4294967296#64
  revert this
  decide

/-- 70d872e: no zero-divisor guard -/
def DistributeCoinOld (c : Coin) (a : I64) : Res ErrKind (Coin × Coin) :=
  (match Int64ToCoin a with
  | .panic => .panic
  | .err e_1 =>
    .err e_1
  | .ok d =>
    if d = 0#64 then .panic else
    let oCur := (c / d)
    if d = 0#64 then .panic else
    let bal := (c % d)
    .ok (oCur, bal))

/-- distributing among zero parts panics (integer divide by zero), for every amount -/
theorem distributeCoinOld_panics (c : Coin) : DistributeCoinOld c 0#64 = .panic := by
  unfold DistributeCoinOld
  have : Int64ToCoin 0#64 = .ok 0#64 := by decide
  rw [this]
  simp

/-- 70d872e: only the `a < 0` guard -/
def Float64ToCoinOld (a : F64) : Res ErrKind Coin :=
  if F64.lt a (F64.mk 0x0000000000000000#64) = true then
    .err ErrKind.ErrFloat64UnderflowsUint64
  else
    .ok (F64.toUInt64 a)

/-- NaN, +∞, 2^64 and 1e30 are all "converted" to the amount 2^63 (the amd64 out-of-range result) -/
theorem float64ToCoinOld_saturates :
    Float64ToCoinOld (F64.mk 0x7ff8000000000001#64) = .ok 9223372036854775808#64 ∧
    Float64ToCoinOld (F64.mk 0x7ff0000000000000#64) = .ok 9223372036854775808#64 ∧
    Float64ToCoinOld (F64.mk 0x43f0000000000000#64) = .ok 9223372036854775808#64 ∧
    Float64ToCoinOld (F64.mk 0x46293e5939a08cea#64) = .ok 9223372036854775808#64 := by decide +kernel

/-- 70d872e: `decimal.NewFromFloat(c)` first — it panics on NaN and ±∞ -/
def ParseZCNOld (c : F64) (nff1 : Dec) : Res ErrKind Coin :=
  if F64.isNaN c = true ∨ F64.isInf c (0 : Int) = true then .panic else
  let d := nff1
  if (Dec.sign d) = (-1 : Int) then
    .err ErrKind.ErrNegativeValue
  else
    if (Dec.exponent d) < (-10 : Int) then
      .err ErrKind.ErrTooManyDecimals
    else
      let e := (Dec.shift d (10 : Int))
      if (Dec.exponent e) < (0 : Int) then
        .err ErrKind.ErrTooManyDecimals
      else
        if Dec.greaterThan e maxDecimal = true then
          .err ErrKind.ErrTooLarge
        else
          .ok (Dec.intPart e)

theorem parseZCNOld_panics (d : Dec) :
    ParseZCNOld (F64.mk 0x7ff8000000000001#64) d = .panic ∧
    ParseZCNOld (F64.mk 0x7ff0000000000000#64) d = .panic ∧
    ParseZCNOld (F64.mk 0xfff0000000000000#64) d = .panic := by
  refine ⟨?_, ?_, ?_⟩ <;> (unfold ParseZCNOld; rw [if_pos (by decide)])

end Verif.Props.C18Witness
