/-
C01 — State trie behaves as a map from paths to values.  (Theorems are added as they are proved; see DESIGN.md §6.)
-/
import Verif.Model.Mpt
namespace Verif.Props.C01
open Verif.Mpt

/-- `upd` reads back what was put -/
theorem upd_same (ch : Nib → Node) (i : Nib) (t : Node) : upd ch i t i = t := by simp [upd]

theorem upd_other (ch : Nib → Node) (i j : Nib) (t : Node) (h : j ≠ i) : upd ch i t j = ch j := by simp [upd, h]

end Verif.Props.C01
