/-
C01 — The state trie behaves as a map from paths to values.

All statements are about the executable model `Verif.Model.Mpt` (tied to the Go code by the differential
harness).  `WF t` is the canonical form of `Verif.Lemmas.MptWF`; `<` on paths is core's lexicographic order on
`List (Fin 16)` (a proper prefix is smaller).  Helper lemmas live in `Verif/Lemmas/Mpt*.lean`.
-/
import Verif.Lemmas.MptInsert
import Verif.Lemmas.MptDelete
import Verif.Lemmas.MptIterate
namespace Verif.Props.C01
open Verif.Mpt

/-! ### 1. `splitCommon` (Go `matchingPrefix`) -/

/-- `splitCommon` returns a common prefix and the two remainders, and the remainders differ at their heads
    (so the common prefix is the longest one) -/
theorem splitCommon_char {p q c p' q' : List Nib} (h : splitCommon p q = (c, p', q')) :
    p = c ++ p' ∧ q = c ++ q' ∧ (∀ x y pr qr, p' = x :: pr → q' = y :: qr → x ≠ y) :=
  splitCommon_eq h

/-! ### 2./3. `insert` -/

theorem lookup_insert {t : Node} {b : Bytes} {v : Nat} {p q : List Nib} (hwf : WF t) (hb : b ≠ []) :
    lookup (insert v b t p) q = if q = p then some b else lookup t q :=
  Verif.Mpt.lookup_insert v b hb t p q hwf

theorem wf_insert {t : Node} {b : Bytes} {v : Nat} {p : List Nib} (hwf : WF t) (hb : b ≠ []) :
    WFn (insert v b t p) :=
  Verif.Mpt.wf_insert v b hb t p hwf

/-! ### 4. `delete` -/

theorem delete_notPresent_iff {t : Node} {v : Nat} {p : List Nib} (hwf : WF t) :
    delete v t p = .notPresent ↔ lookup t p = none := by
  have h := delete_spec v t p hwf
  constructor
  · intro e; rw [e] at h; exact h
  · intro e
    cases hd : delete v t p with
    | notPresent => rfl
    | panic => rw [hd] at h; exact h.elim
    | removed => rw [hd] at h; exact (h.1 e).elim
    | node n => rw [hd] at h; exact (h.1 e).elim

theorem delete_no_panic {t : Node} {v : Nat} {p : List Nib} (hwf : WF t) : delete v t p ≠ .panic := by
  intro e
  have h := delete_spec v t p hwf
  rw [e] at h
  exact h

theorem lookup_delete_node {t t' : Node} {v : Nat} {p : List Nib} (hwf : WF t) (hd : delete v t p = .node t') :
    ∀ q, lookup t' q = if q = p then none else lookup t q := by
  have h := delete_spec v t p hwf
  rw [hd] at h
  exact h.2.2.2

theorem lookup_delete_removed {t : Node} {v : Nat} {p : List Nib} (hwf : WF t) (hd : delete v t p = .removed) :
    ∀ q, q ≠ p → lookup t q = none := by
  have h := delete_spec v t p hwf
  rw [hd] at h
  exact h.2.2

theorem wf_delete {t t' : Node} {v : Nat} {p : List Nib} (hwf : WF t) (hd : delete v t p = .node t') : WFn t' := by
  have h := delete_spec v t p hwf
  rw [hd] at h
  exact h.2.1

/-! ### 5. `iterate` -/

theorem iterate_mem_pre {t : Node} {pre q : List Nib} {b : Bytes} (hwf : WF t) :
    (q, b) ∈ iterate t pre ↔ ∃ r, q = pre ++ r ∧ lookup t r = some b :=
  Verif.Mpt.iterate_mem_pre t pre q b hwf

theorem iterate_mem {t : Node} {q : List Nib} {b : Bytes} (hwf : WF t) :
    (q, b) ∈ iterate t [] ↔ lookup t q = some b := by
  rw [Verif.Mpt.iterate_mem_pre t [] q b hwf]
  constructor
  · rintro ⟨r, rfl, h⟩; simpa using h
  · intro h; exact ⟨q, by simp, h⟩

theorem iterate_sorted_pre {t : Node} {pre : List Nib} (hwf : WF t) :
    (iterate t pre).Pairwise (fun a c => a.1 < c.1) :=
  Verif.Mpt.iterate_sorted_pre t pre hwf

theorem iterate_sorted {t : Node} (hwf : WF t) : (iterate t []).Pairwise (fun a c => a.1 < c.1) :=
  Verif.Mpt.iterate_sorted_pre t [] hwf

/-! ### 6. Whole histories: the model refines a partial map -/

inductive Op where
  | ins (p : List Nib) (b : Bytes)
  | del (p : List Nib)
  | get (p : List Nib)
  | iter
  | ver (v : Nat)

/-- model state: the trie and the trie version at which the next operation runs -/
structure MState where
  t : Node
  v : Nat

/-- what one step of the model shows to the caller -/
inductive Obs where
  | out (o : Outcome)
  | val (r : Option Bytes)
  | items (l : List (List Nib × Bytes))
  deriving DecidableEq

/-- one step of the model (`maxSize` is the value-size limit of `Insert`) -/
def mstep (maxSize : Nat) (s : MState) : Op → MState × Obs
  | .ins p b => let r := Trie.insert maxSize s.v s.t p b; (⟨r.1, s.v⟩, .out r.2)
  | .del p => let r := Trie.delete s.v s.t p; (⟨r.1, s.v⟩, .out r.2)
  | .get p => (s, .val (lookup s.t p))
  | .iter => (s, .items (iterate s.t []))
  | .ver v => (⟨s.t, v⟩, .out .ok)

/-- run a history on the model: final state and the observations in order -/
def mrun (maxSize : Nat) (s : MState) : List Op → MState × List Obs
  | [] => (s, [])
  | op :: ops =>
    let r := mstep maxSize s op
    let r' := mrun maxSize r.1 ops
    (r'.1, r.2 :: r'.2)

/-- the specification state: a partial map from paths to non-empty values (the version is not part of it) -/
abbrev Spec := List Nib → Option Bytes

/-- what one step of the specification shows: outcome, looked-up value, or (for `iter`) the map whose live pairs
    have to be listed in path order -/
inductive SObs where
  | out (o : Outcome)
  | val (r : Option Bytes)
  | items (m : Spec)

def Spec.remove (m : Spec) (p : List Nib) : Spec := fun q => if q = p then none else m q

def Spec.set (m : Spec) (p : List Nib) (b : Bytes) : Spec := fun q => if q = p then some b else m q

def sdel (m : Spec) (p : List Nib) : Spec × SObs :=
  if m p = none then (m, .out .notPresent) else (m.remove p, .out .ok)

/-- one step of the specification -/
def sstep (maxSize : Nat) (m : Spec) : Op → Spec × SObs
  | .ins p b =>
    if b = [] then sdel m p
    else if b.length > maxSize then (m, .out .tooLarge)
    else (m.set p b, .out .ok)
  | .del p => sdel m p
  | .get p => (m, .val (m p))
  | .iter => (m, .items m)
  | .ver _ => (m, .out .ok)

def srun (maxSize : Nat) (m : Spec) : List Op → Spec × List SObs
  | [] => (m, [])
  | op :: ops =>
    let r := sstep maxSize m op
    let r' := srun maxSize r.1 ops
    (r'.1, r.2 :: r'.2)

/-- a model observation agrees with a specification observation: outcomes and looked-up values are equal; an
    iteration result is strictly sorted by path and contains exactly the pairs of the map -/
def ObsRel : Obs → SObs → Prop
  | .out o, .out o' => o = o'
  | .val r, .val r' => r = r'
  | .items l, .items m => l.Pairwise (fun a c => a.1 < c.1) ∧ ∀ q b, (q, b) ∈ l ↔ m q = some b
  | _, _ => False

/-- element-wise agreement of two observation lists (same length) -/
def ObsListRel : List Obs → List SObs → Prop
  | [], [] => True
  | o :: os, s :: ss => ObsRel o s ∧ ObsListRel os ss
  | _, _ => False

/-- the refinement invariant: the trie is canonical and reads as the map -/
def Inv (s : MState) (m : Spec) : Prop := WF s.t ∧ ∀ q, lookup s.t q = m q

theorem Trie.delete_step {t : Node} {m : Spec} (v : Nat) (p : List Nib) (hwf : WF t) (hm : ∀ q, lookup t q = m q) :
    WF (Trie.delete v t p).1 ∧ (∀ q, lookup (Trie.delete v t p).1 q = (sdel m p).1 q) ∧
      ObsRel (.out (Trie.delete v t p).2) (sdel m p).2 ∧ (Trie.delete v t p).2 ≠ .panic := by
  have h := delete_spec v t p hwf
  unfold Trie.delete sdel
  cases hd : delete v t p with
  | notPresent =>
    rw [hd] at h
    have : m p = none := by rw [← hm]; exact h
    simp only [this, if_true]
    exact ⟨hwf, hm, rfl, by simp⟩
  | panic => rw [hd] at h; exact h.elim
  | removed =>
    rw [hd] at h
    have : m p ≠ none := by rw [← hm]; exact h.1
    simp only [this, if_false]
    refine ⟨Or.inl rfl, ?_, rfl, by simp⟩
    intro q
    by_cases hq : q = p
    · simp [Spec.remove, hq]
    · simp [Spec.remove, hq, ← hm, h.2.2 q hq]
  | node n =>
    rw [hd] at h
    have : m p ≠ none := by rw [← hm]; exact h.1
    simp only [this, if_false]
    refine ⟨Or.inr h.2.1, ?_, rfl, by simp⟩
    intro q
    rw [h.2.2.2 q]
    by_cases hq : q = p <;> simp [Spec.remove, hq, hm]

/-- one step preserves the invariant, produces agreeing observations, and does not panic -/
theorem step_refines (maxSize : Nat) {s : MState} {m : Spec} (hinv : Inv s m) (op : Op) :
    Inv (mstep maxSize s op).1 (sstep maxSize m op).1 ∧ ObsRel (mstep maxSize s op).2 (sstep maxSize m op).2 ∧
      (mstep maxSize s op).2 ≠ .out .panic := by
  obtain ⟨hwf, hm⟩ := hinv
  cases op with
  | ins p b =>
    simp only [mstep, sstep, Trie.insert]
    by_cases hb : b = []
    · simp only [hb, if_true]
      obtain ⟨h1, h2, h3, h4⟩ := Trie.delete_step s.v p hwf hm
      exact ⟨⟨h1, h2⟩, h3, by simpa using h4⟩
    · simp only [hb, if_false]
      by_cases hl : b.length > maxSize
      · simp only [hl, if_true]
        exact ⟨⟨hwf, hm⟩, rfl, by simp⟩
      · simp only [hl, if_false]
        refine ⟨⟨Or.inr (wf_insert hwf hb), ?_⟩, rfl, by simp⟩
        intro q
        simp only [lookup_insert hwf hb, Spec.set, hm]
  | del p =>
    simp only [mstep, sstep]
    obtain ⟨h1, h2, h3, h4⟩ := Trie.delete_step s.v p hwf hm
    exact ⟨⟨h1, h2⟩, h3, by simpa using h4⟩
  | get p => exact ⟨⟨hwf, hm⟩, hm p, by simp [mstep]⟩
  | iter =>
    refine ⟨⟨hwf, hm⟩, ⟨iterate_sorted hwf, ?_⟩, by simp [mstep]⟩
    intro q b
    rw [iterate_mem hwf, hm]
  | ver v => exact ⟨⟨hwf, hm⟩, rfl, by simp [mstep]⟩

/-- refinement from any pair of related states (the induction behind the three history theorems) -/
theorem run_refines (maxSize : Nat) (ops : List Op) : ∀ {s : MState} {m : Spec}, Inv s m →
    Inv (mrun maxSize s ops).1 (srun maxSize m ops).1 ∧ ObsListRel (mrun maxSize s ops).2 (srun maxSize m ops).2 ∧
      ∀ o ∈ (mrun maxSize s ops).2, o ≠ .out .panic := by
  induction ops with
  | nil => intro s m h; exact ⟨h, trivial, fun o ho => by cases ho⟩
  | cons op ops ih =>
    intro s m h
    obtain ⟨h1, h2, h3⟩ := step_refines maxSize h op
    obtain ⟨h4, h5, h6⟩ := ih h1
    refine ⟨h4, ⟨h2, h5⟩, ?_⟩
    intro o ho
    rcases List.mem_cons.mp ho with rfl | hmem
    · exact h3
    · exact h6 o hmem

/-- the empty trie at any version, and the empty map -/
def init (v0 : Nat) : MState := ⟨.empty, v0⟩
def emptySpec : Spec := fun _ => none

theorem inv_init (v0 : Nat) : Inv (init v0) emptySpec := ⟨Or.inl rfl, fun q => by simp [init, emptySpec]⟩

/-- **Refinement**: for every history (inserts, deletes, reads, iterations, version changes in any order) started
    on the empty trie, the observations of the model agree one by one with those of the partial-map
    specification, and the final trie reads as the final map. -/
theorem C01_refinement (maxSize v0 : Nat) (ops : List Op) :
    ObsListRel (mrun maxSize (init v0) ops).2 (srun maxSize emptySpec ops).2 ∧
      ∀ q, lookup (mrun maxSize (init v0) ops).1.t q = (srun maxSize emptySpec ops).1 q := by
  obtain ⟨h1, h2, _⟩ := run_refines maxSize ops (inv_init v0)
  exact ⟨h2, h1.2⟩

/-- the trie is canonical after every history -/
theorem C01_wf_invariant (maxSize v0 : Nat) (ops : List Op) : WF (mrun maxSize (init v0) ops).1.t :=
  (run_refines maxSize ops (inv_init v0)).1.1

/-- no step of any history panics -/
theorem C01_no_panic (maxSize v0 : Nat) (ops : List Op) :
    ∀ o ∈ (mrun maxSize (init v0) ops).2, o ≠ .out .panic :=
  (run_refines maxSize ops (inv_init v0)).2.2

/-- the specification determines the model's observation: two model observations that agree with the same
    specification observation are equal (in particular the `iter` clause — strictly sorted, same members as the
    map — pins down the iteration result) -/
theorem obsRel_unique {o o' : Obs} {s : SObs} (h : ObsRel o s) (h' : ObsRel o' s) : o = o' := by
  cases s with
  | out x => cases o <;> cases o' <;> simp_all [ObsRel]
  | val x => cases o <;> cases o' <;> simp_all [ObsRel]
  | items m =>
    cases o <;> cases o' <;> simp only [ObsRel] at h h' <;> try contradiction
    rename_i l l'
    obtain ⟨hs, hm⟩ := h
    obtain ⟨hs', hm'⟩ := h'
    have hne : ∀ {l : List (List Nib × Bytes)}, l.Pairwise (fun a c => a.1 < c.1) → l.Nodup := by
      intro l hl
      refine List.Pairwise.imp ?_ hl
      intro a c hac e
      subst e
      exact List.lt_irrefl _ hac
    have hperm : l.Perm l' := by
      rw [List.perm_ext_iff_of_nodup (hne hs) (hne hs')]
      intro ⟨q, b⟩
      rw [hm, hm']
    congr 1
    refine List.Perm.eq_of_pairwise ?_ hs hs' hperm
    intro a c _ _ hac hca
    exact (List.lt_irrefl _ (List.lt_trans hac hca)).elim

/-! ### non-vacuity: a concrete history -/

/-- empty path, a prefix pair (`[1,2]` and `[1,2,3]`), a version change, a delete of the root value that leaves
    the root branch with a single child (so the child is lifted), an iteration, and a failing delete -/
def demoOps : List Op :=
  [.ins [] [1], .ins [1, 2] [2], .ver 2, .ins [1, 2, 3] [3], .del [], .iter, .del [5]]

example : (mrun 10 (init 7) demoOps).2 =
    [.out .ok, .out .ok, .out .ok, .out .ok, .out .ok,
      .items [([1, 2], [2]), ([1, 2, 3], [3])], .out .notPresent] := by decide

/-- root of a trie, as far as it can be printed -/
def rootShape : Node → String × List Nib
  | .empty => ("empty", [])
  | .leaf _ p _ => ("leaf", p)
  | .full .. => ("full", [])
  | .ext _ p _ => ("ext", p)

/-- before the delete the root is a branch; the delete lifts its only child: the root becomes the extension
    `[1,2]` (child `1` was the extension `[2]`) -/
example : rootShape (mrun 10 (init 7) (demoOps.take 4)).1.t = ("full", []) := by decide
example : rootShape (mrun 10 (init 7) demoOps).1.t = ("ext", [1, 2]) := by decide

/-- a canonical, non-trivial trie for the hypotheses `WF t` above: branch with own value, below it an extension
    and a second branch -/
def demoTrie : Node := (mrun 10 (init 7) (demoOps.take 4)).1.t

example : WF demoTrie := C01_wf_invariant 10 7 (demoOps.take 4)
example : lookup (insert 3 [9] demoTrie [1]) [1, 2] = some [2] := by
  have h : WF demoTrie := C01_wf_invariant 10 7 (demoOps.take 4)
  rw [lookup_insert h (by decide)]; decide
example : ∃ t', delete 3 demoTrie [] = .node t' ∧ rootShape t' = ("ext", [1, 2]) := ⟨_, rfl, by decide⟩
example : delete 3 demoTrie [1] = .notPresent ∧ lookup demoTrie [1] = none := ⟨rfl, by decide⟩
example : delete 3 (.leaf 0 [4] [1]) [4] = .removed ∧ WF (.leaf 0 [4] [1]) := ⟨rfl, Or.inr (by simp [WFn])⟩
example : iterate demoTrie [] = [([], [1]), ([1, 2], [2]), ([1, 2, 3], [3])] := by decide
/-- the over-size and empty-value forms of `ins` -/
example : (mrun 2 (init 0) [.ins [1] [1, 2, 3], .ins [1] [7], .ins [1] [], .ins [1] [], .get [1]]).2 =
    [.out .tooLarge, .out .ok, .out .ok, .out .notPresent, .val none] := by decide

/-! ### failing operations leave the trie unchanged -/

/-- whatever the trie, an operation that does not report `ok` returns the trie it was given -/
theorem Trie.delete_fail_unchanged (v : Nat) (t : Node) (p : List Nib) (h : (Trie.delete v t p).2 ≠ .ok) :
    (Trie.delete v t p).1 = t := by
  unfold Trie.delete at h ⊢
  cases hd : delete v t p <;> simp [hd] at h ⊢

theorem Trie.insert_fail_unchanged (maxSize v : Nat) (t : Node) (p : List Nib) (b : Bytes)
    (h : (Trie.insert maxSize v t p b).2 ≠ .ok) : (Trie.insert maxSize v t p b).1 = t := by
  unfold Trie.insert at h ⊢
  by_cases hb : b = []
  · simp only [hb, if_true] at h ⊢
    exact Trie.delete_fail_unchanged v t p h
  · by_cases hl : b.length > maxSize
    · simp [hb, hl]
    · simp [hb, hl] at h

/-- deleting an absent path: `notPresent`, same trie -/
theorem Trie.delete_absent {t : Node} (v : Nat) {p : List Nib} (hwf : WF t) (h : lookup t p = none) :
    Trie.delete v t p = (t, .notPresent) := by
  unfold Trie.delete
  rw [(delete_notPresent_iff hwf).mpr h]

/-- inserting an over-size value: `tooLarge`, same trie -/
theorem Trie.insert_tooLarge (maxSize v : Nat) (t : Node) (p : List Nib) {b : Bytes} (h : b.length > maxSize) :
    Trie.insert maxSize v t p b = (t, .tooLarge) := by
  unfold Trie.insert
  have hb : b ≠ [] := by intro e; subst e; simp at h
  simp [hb, h]

end Verif.Props.C01
